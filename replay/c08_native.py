"""C08 — native facts: the REAL functions of the working tree evaluated over the spaces that are finite by construction.

`facts(mut)` is executed in a forked child (so tensorflow is never imported into the parent before the stand-in pool, and canaries can
re-execute mutated module texts into the real modules without touching the parent).  Everything returned is plain data.

  recipes[rid]      loading the shipped recipe unchanged through Quantizer.load_quantization_recipe / RecipeManager (E1)
  resolution[rid]   RecipeManager.get_quantization_configs(op_key, scope) for every op key (E2) -> algorithm + config id
  dispatch[rid]     algorithm_manager.get_quantization_func / get_init_qsv_func for every resolved (algorithm, op key) (G3)
  transformations   get_tensor_transformations over every resolved config x is_inbounding x is_constant (G4)
  mini              the materialize function selected by the real registry, run on a real one-operator graph (contracts/c04_minigraph)
                    for every (recipe, registered op key, operand-pattern variant), statistics produced by the real init / calibrate functions
                    of the same recipe; executed guard lines are recorded (sys.settrace)
  pair_lemma        _compatible_tensor_params on every pair of consumer entries (opaque parameter tokens)
  vertical          _apply_vertical_optimization on abstract rule lists without repeated consumer ids
"""
import os, sys, json, itertools, importlib, traceback, multiprocessing as mp
from vlib import core
from replay import c08_models as M

def _rel(fn):
    fn = os.path.abspath(fn); root = os.path.abspath(core.PKG) + os.sep
    return os.path.relpath(fn, core.PKG) if fn.startswith(root) else None

class Tracer:
    """records executed (relpath, line) of the package under test"""
    def __init__(self): self.lines = set()
    def __call__(self, frame, event, arg):
        r = _rel(frame.f_code.co_filename)
        if r is None: return None
        def local(frame, event, arg, r=r):
            if event == 'line': self.lines.add((r, frame.f_lineno))
            return local
        if event == 'call': self.lines.add((r, frame.f_lineno))
        return local
    def run(self, f):
        old = sys.gettrace(); sys.settrace(self)
        try: return f()
        finally: sys.settrace(old)

class Token:
    """opaque parameter object: supports only == / != (equality classes)"""
    __slots__ = ('cls',)
    def __init__(s, cls): s.cls = cls
    def __eq__(s, o): return isinstance(o, Token) and o.cls == s.cls
    def __ne__(s, o): return not s.__eq__(o)
    __hash__ = None
    def __deepcopy__(s, memo): return s
    def __repr__(s): return f'P{s.cls}'

def cfg_id(c): return json.dumps(c.to_dict(), sort_keys=True, default=str)
def exc_info(e):
    return dict(exc=type(e).__name__, msg=str(e)[:200], site=M.site_of(e.__traceback__))

def _facts(mut=None, sample=True, want_lines=True, guards=()):
    import numpy as np
    import absl.logging; absl.logging.set_verbosity('error')
    if mut: importlib.import_module('ai_edge_quantizer.quantizer'); M.apply_mutants(mut)
    from ai_edge_quantizer import quantizer, recipe_manager, algorithm_manager, qtyping, params_generator, transformation_instruction_generator as tig
    from ai_edge_quantizer.utils import tfl_flatbuffer_utils as tfu
    from ai_edge_quantizer.algorithms.utils import min_max_quantize_utils as mmu
    from contracts import c04_minigraph as MG
    N = qtyping.TFLOperationName; T = qtyping.QuantTransformation
    out = dict(recipes={}, resolution={}, dispatch={}, transformations={}, configs={}, mini=[], errors=[])
    possible_keys = sorted({str(v.value) for v in tfu.TFL_OP_CODE_TO_NAME.values()} | {'INPUT', 'OUTPUT'})
    out['possible_op_keys'] = possible_keys; out['all_op_keys'] = [m.value for m in N if m != N.ALL_SUPPORTED]
    out['weight_qdim_keys'] = sorted(str(k.value) for k in tfu.TFL_OP_TO_WEIGHT_QUANTIZED_DIM)
    rids = M.recipe_ids(sample)
    managers = {}
    # ---- E1: loading
    for rid in rids:
        rec = dict(ok=False)
        try:
            r = M.load_recipe(rid)
            qt = quantizer.Quantizer(bytearray(b'\0'), r)                 # Quantizer.__init__ -> load_quantization_recipe (reads the file itself)
            rm = qt._recipe_manager; managers[rid] = rm
            got = qt.get_quantization_recipe()
            rec.update(ok=True, n_rules=len(got), nonempty=bool(got), need_calibration=bool(qt.need_calibration),
                       rules=[dict(regex=x['regex'], operation=str(getattr(x['operation'], 'value', x['operation'])), algorithm_key=str(getattr(x['algorithm_key'], 'value', x['algorithm_key']))) for x in got])
            if rid.startswith('file:'):
                with open(r) as f: raw = json.load(f)
                rm2 = recipe_manager.RecipeManager(); rm2.load_quantization_recipe(raw)
                rec['same_as_direct_load'] = (rm2.get_quantization_recipe() == got)
        except Exception as e: rec.update(exc_info(e))
        out['recipes'][rid] = rec
    # default config object constructed at resolution time
    try: qtyping.OpQuantizationConfig(); out['default_config_ok'] = True
    except Exception as e: out['default_config_ok'] = False; out['errors'].append(('default config', exc_info(e)))
    # ---- E2: resolution table
    cfgs = {}
    for rid, rm in managers.items():
        tab = {}
        for k in out['all_op_keys']:
            row = {}
            for scope in ('', 't0;', 'a/b/c;d;'):
                try:
                    alg, cfg = rm.get_quantization_configs(N(k), scope)
                    cid = cfg_id(cfg); cfgs[cid] = cfg
                    row[scope] = dict(alg=str(getattr(alg, 'value', alg)), cfg=cid)
                except Exception as e: row[scope] = dict(error=exc_info(e))
            tab[k] = row
        out['resolution'][rid] = tab
    out['configs'] = {cid: c.to_dict() for cid, c in cfgs.items()}
    # ---- G3: dispatch
    QM = qtyping.QuantizeMode
    def fname(f):
        f = getattr(f, 'func', f)
        return f'{f.__module__.replace("ai_edge_quantizer.", "")}:{f.__qualname__}'
    for rid in managers:
        d = {}
        for k, row in out['resolution'][rid].items():
            r0 = row['']
            if 'error' in r0 or r0['alg'] == 'no_quantize': continue
            e = {}
            for name, call in (('materialize', lambda: algorithm_manager.get_quantization_func(r0['alg'], N(k), QM.MATERIALIZE)),
                               ('calibrate', lambda: algorithm_manager.get_quantization_func(r0['alg'], N(k), QM.CALIBRATE)),
                               ('init_qsv', lambda: algorithm_manager.get_init_qsv_func(r0['alg'], N(k)))):
                try: e[name] = fname(call())
                except Exception as ex: e[name] = dict(error=exc_info(ex))
            d[k] = e
        out['dispatch'][rid] = d
    # ---- G4: transformations over every resolved config
    for cid, c in cfgs.items():
        row = {}
        for inb in (True, False):
            for const in (True, False):
                try: row[f'{int(inb)}{int(const)}'] = [t.name for t in mmu.get_tensor_transformations(c, inb, const)]
                except Exception as e: row[f'{int(inb)}{int(const)}'] = dict(error=exc_info(e))
        out['transformations'][cid] = row
    # ---- guard expressions of the real source evaluated over every resolved (recipe, op key, config)
    ge = {}
    for gid, rel, expr in guards:
        vals = set(); errs = []
        try:
            mod = importlib.import_module('ai_edge_quantizer.' + rel[:-3].replace('/', '.')); code = compile(expr, f'<guard {gid}>', 'eval')
        except Exception as e:
            ge[gid] = dict(values=[], errors=[f'{type(e).__name__}: {e}'], n=0); continue
        n_ = 0
        for rid in managers:
            for k, row in out['resolution'][rid].items():
                r0 = row['']
                if 'error' in r0 or r0['alg'] == 'no_quantize': continue
                c = cfgs[r0['cfg']]
                for tq in [t for t in (c.activation_tensor_config, c.weight_tensor_config) if t is not None] or [None]:
                    env = dict(op_info=qtyping.OpInfo(op=None, op_name=N(k), subgraph_op_index=0, op_quant_config=c), op_quant_config=c, op_name=N(k), tensor_quant_config=tq)
                    n_ += 1
                    try: vals.add(bool(eval(code, dict(mod.__dict__), env)))
                    except Exception as e: errs.append(f'{rid} {k}: {type(e).__name__}: {e}')
        ge[gid] = dict(values=sorted(vals), errors=errs[:3], n=n_)
    out['guards'] = ge
    # ---- the family of props/C03.py (i): get_tensor_transformations never raises for a config admitted by a shipped recipe / policy (imported, not copied)
    try:
        from props import C03 as _C03
        from replay import c03_native as _N3
        out['c03_admitted'] = _C03.admitted(None, _N3.load(), {'gtt': core.Fn('algorithms/utils/min_max_quantize_utils.py', 'get_tensor_transformations')}, emit=False)
    except Exception as e: out['c03_admitted'] = dict(error=f'{type(e).__name__}: {e}')
    # config-check function the registry selects for the algorithms named by the shipped rules
    live_checks = {}
    for rid, rec in out['recipes'].items():
        for r in rec.get('rules', []):
            a = r['algorithm_key']
            if a != 'no_quantize':
                try: live_checks[a] = fname(algorithm_manager._alg_manager_instance._config_check_registry[a])
                except Exception as e: live_checks[a] = dict(error=f'{type(e).__name__}: {e}')
    out['live_checks'] = live_checks
    # ---- mini graphs: real materialize on real one-operator graphs
    def variants(k):
        if k in ('FULLY_CONNECTED', 'CONV_2D', 'DEPTHWISE_CONV_2D', 'CONV_2D_TRANSPOSE'): return [dict(bias=True), dict(bias=False)]
        if k == 'BATCH_MATMUL': return [dict(adj_y=False), dict(adj_y=True), dict(adj_y=False, act_rhs=True)]
        if k in ('ADD', 'SUB', 'MUL', 'CONCATENATION'): return [dict(), dict(const_second=True)]
        return [dict()]
    entries = set()
    def run_mini(rid, k, var):
        rm = managers[rid]; r0 = out['resolution'][rid][k]['']
        rec = dict(rid=rid, op=k, variant=var, alg=r0.get('alg'))
        if 'error' in r0 or r0['alg'] == 'no_quantize': rec['skipped'] = 'not quantized under this recipe'; return rec
        cfg = cfgs[r0['cfg']]
        if k in ('INPUT', 'OUTPUT'):
            m = MG.build('TANH'); t = m.ins[0] if k == 'INPUT' else m.outs[0]
            op = qtyping.IOOperator(inputs=[] if k == 'INPUT' else [t], outputs=[t] if k == 'INPUT' else [], op_key=N(k)); idx = -1
            names = [m.names[t]]; float_acts = [t]
        else:
            kw = {kk: v for kk, v in var.items() if kk in ('bias', 'adj_y')}
            m = MG.build(k, **kw); op = m.op; idx = 0
            if var.get('const_second'): m.make_const(m.ins[1])
            if var.get('act_rhs'):                       # BATCH_MATMUL with an activation right-hand side
                m.buffers[m.tensors[m.weight].buffer].data = None
            float_acts = [i for i, t in enumerate(m.tensors) if t.type == 0 and not m.has_data(i)]
        op_info = qtyping.OpInfo(op=op, op_name=N(k), subgraph_op_index=idx, op_quant_config=cfg)
        ginfo = qtyping.GraphInfo(subgraph_tensors=m.tensors, buffers=m.buffers)
        rs = np.random.RandomState(7)
        content = {m.names[i]: rs.randn(*[int(d) for d in m.tensors[i].shape]).astype(np.float32) for i in float_acts}
        def body():
            qsvs = {}
            if rm.need_calibration():
                if k not in ('INPUT', 'OUTPUT'):         # Calibrator._initialize_model_qsvs visits real operators only
                    init = algorithm_manager.get_init_qsv_func(r0['alg'], N(k))
                    for n_, q in init(op_info, ginfo).items(): qsvs.setdefault(n_, q)
                cal = algorithm_manager.get_quantization_func(r0['alg'], N(k), QM.CALIBRATE)
                for n_, q in cal(op, ginfo, content).items(): qsvs[n_] = q
            mat = algorithm_manager.get_quantization_func(r0['alg'], N(k), QM.MATERIALIZE)
            return mat(op_info, ginfo, qsvs if rm.need_calibration() else {})
        tr = Tracer()
        try:
            res = tr.run(body) if want_lines else body()
            rec['ok'] = True; rec['n_params'] = len(res); bits = set(); zdt = set()
            for p in res:
                for role, es in (('out', [p.producer] if p.producer is not None else []), ('in', p.consumers or [])):
                    for e in es:
                        is_const = any(m.names[i] == p.tensor_name and m.has_data(i) for i in range(len(m.tensors)))
                        entries.add((role, bool(is_const), tuple(t.name for t in e.transformations), e.parameters is not None))
                        if e.parameters is not None:
                            bits.add(int(e.parameters.num_bits)); zdt.add(str(np.asarray(e.parameters.zero_point).dtype))
            rec['num_bits'] = sorted(bits); rec['zero_point_dtypes'] = sorted(zdt)
        except Exception as e:
            rec['ok'] = False; rec.update(exc_info(e))
        rec['lines'] = sorted(tr.lines) if want_lines else []
        return rec
    for rid in managers:
        for k in possible_keys:
            for var in variants(k):
                try: out['mini'].append(run_mini(rid, k, var))
                except Exception as e: out['mini'].append(dict(rid=rid, op=k, variant=var, ok=False, harness_error=True, **exc_info(e)))
    out['entries'] = sorted(entries)
    # ---- pair lemma: the real _compatible_tensor_params on opaque tokens
    ents_by = {c: sorted({(tuple(w), hp) for (role, c2, w, hp) in entries if role == 'in' and c2 == c} | {(('NO_QUANTIZE',), False)}) for c in (False, True)}
    ents = sorted(set(ents_by[False]) | set(ents_by[True]))
    pl = []
    for const in (False, True):                     # two consumer entries of ONE tensor: both see a constant, or both see an activation
        for (w1, h1), (w2, h2) in itertools.product(ents_by[const], repeat=2):
            for t1 in ([Token(1)] if h1 else [None]):
                for t2 in ([Token(1), Token(2)] if h2 else [None]):
                    for ids in ((0, 0), (3, 5)):
                        a = qtyping.OpToTensorParams(subgraph_op_id=ids[0], transformations=[T[x] for x in w1], parameters=t1)
                        b = qtyping.OpToTensorParams(subgraph_op_id=ids[1], transformations=[T[x] for x in w2], parameters=t2)
                        try: r = bool(params_generator._compatible_tensor_params(a, b))
                        except Exception as e: r = dict(error=exc_info(e))
                        pl.append(dict(const=const, w1=list(w1), p1=None if t1 is None else t1.cls, w2=list(w2), p2=None if t2 is None else t2.cls, ids=list(ids), result=r))
    out['pair_lemma'] = pl
    # lifting: _compatible_tensor_transformation_params(p, p) on one tensor listed twice, k consumers that are pairwise compatible -> True
    lift = []
    for k_ in (1, 2, 3):
      for const in (False, True):
        for combo in itertools.product(ents_by[const], repeat=k_):
            cons = [qtyping.OpToTensorParams(subgraph_op_id=j, transformations=[T[x] for x in w], parameters=Token(1) if hp else None) for j, (w, hp) in enumerate(combo)]
            pair_ok = all(params_generator._compatible_tensor_params(c, cons[0]) for c in cons)
            for prod in (None, qtyping.OpToTensorParams(subgraph_op_id=9, transformations=[T.ADD_DEQUANTIZE], parameters=Token(1)), qtyping.OpToTensorParams(subgraph_op_id=9, transformations=[T.NO_QUANTIZE])):
                p = qtyping.TensorTransformationParams('t', prod, cons)
                try: r = bool(params_generator._compatible_tensor_transformation_params(p, p))
                except Exception as e: r = dict(error=exc_info(e))
                lift.append(dict(k=k_, pair_ok=bool(pair_ok), result=r))
    out['lift'] = dict(cases=len(lift), bad=[x for x in lift if x['result'] is not True and x['pair_ok']][:5], converse_bad=[x for x in lift if x['result'] is True and not x['pair_ok']][:5])
    # ---- vertical optimisation without repeated consumer ids: never raises
    gen = tig.TransformationInstructionsGenerator()
    prod_words = sorted({w for (role, c, w, hp) in entries if role == 'out'} | {('NO_QUANTIZE',)})
    cons_kinds = sorted({(w[0], hp) for (role, c, w, hp) in entries if role == 'in'} | {('NO_QUANTIZE', False)})
    vcases = 0; vbad = []
    def partitions(ids):
        if not ids: yield []; return
        first, rest = ids[0], ids[1:]
        for p in partitions(rest):
            yield [[first]] + p
            for i in range(len(p)): yield p[:i] + [[first] + p[i]] + p[i + 1:]
    for n_ in (1, 2, 3, 4):
        idsets = [list(range(n_)), [-1] + list(range(n_ - 1))]
        for ids in idsets:
            for part in partitions(ids):
                for kinds in itertools.product(cons_kinds, repeat=len(part)):
                    for toks in itertools.product((1, 2), repeat=len(part)):
                        for pw in prod_words:
                            prod = qtyping.TransformationInst(T[pw[-1]], 0, 0, list(ids), Token(1) if pw[-1] != 'NO_QUANTIZE' else None)
                            rules = [qtyping.TransformationInst(T[kd], 0, 0, list(g), Token(tk) if hp else None) for g, (kd, hp), tk in zip(part, kinds, toks)]
                            vcases += 1
                            try: gen._apply_vertical_optimization(prod, rules)
                            except Exception as e:
                                if len(vbad) < 5: vbad.append(dict(ids=ids, part=part, kinds=kinds, toks=toks, producer=pw, **exc_info(e)))
    # the witness shape of the class: a consumer id listed twice in one rule, producer and consumer parameters differ
    try:
        gen._apply_vertical_optimization(qtyping.TransformationInst(T.ADD_DEQUANTIZE, 0, 0, [1], Token(1)), [qtyping.TransformationInst(T.ADD_QUANTIZE, 0, 0, [1, 1], Token(2))]); rep_raises = False
    except ValueError: rep_raises = True
    except Exception: rep_raises = 'other'
    out['vertical'] = dict(cases=vcases, bad=vbad, repeated_id_raises=rep_raises, producer_words=[list(w) for w in prod_words], consumer_kinds=[list(x) for x in cons_kinds])
    return out

def _child(args):
    try: return _facts(*args)
    except Exception as e:
        return dict(crash=f'{type(e).__name__}: {e}', trace=traceback.format_exc()[-1500:])

def facts(mut=None, sample=True, want_lines=True, guards=()):
    """runs _facts in a forked child process"""
    with mp.get_context('fork').Pool(1) as pool: return pool.apply(_child, ((mut, sample, want_lines, tuple(guards)),))
