"""C08 — generated float models in converter normal form + the public-API pipeline runner (bounded stand-in and replay vehicle).

Spec format (extends bounded/e2e.py):  dict(ops=[(kind, a, b)], outs=[tensor ids])
  tensor 0 = graph input x (float32 [1,4]); operator i writes tensor 1+i; `a`, `b` are tensor ids < 1+i.
  b = -1: no second operand; b = -2: a fresh float32 constant of shape [1,4] (its own buffer); b = -3: the ONE shared float32 constant ws[4,4]
  (the weight tensor of the FCS operators): a constant tensor read by several operators.
  kinds
    unary, supported      TANH LOGISTIC SOFTMAX GELU
    unary, NOT in table   ABS NEG                                        ("arbitrary other float operators")
    binary, supported     ADD SUB MUL            (a, b broadcast compatible; b may equal a: squared / doubled tensors)
    CONCATENATION         (a, b) along axis 0   (b may equal a)
    FC                    FULLY_CONNECTED(a, own 4x4 weight, no bias);  FCB = with a bias constant;  FCS = all FCS operators share ONE weight tensor
    RESHAPE               same-shape reshape with an int32 shape constant;  TRANSPOSE identity permutation (int32 constant)
    MEAN                  over axis 0, keep_dims  ([r,4] -> [1,4])
Every tensor has its own buffer (activations: an empty one), names are unique, everything is float32 except the int32 shape/axis constants:
this is the converter normal form of the property.  Shapes are tracked ([r,4]); a spec with incompatible shapes is not a model (valid() is False)."""
import os, sys, json, random, itertools, traceback, importlib
os.environ.setdefault('TF_CPP_MIN_LOG_LEVEL', '3')
import numpy as np
from vlib import core

UNARY = {'TANH': 'TANH', 'LOGISTIC': 'LOGISTIC', 'SOFTMAX': 'SOFTMAX', 'GELU': 'GELU', 'ABS': 'ABS', 'NEG': 'NEG'}
BINARY = ('ADD', 'SUB', 'MUL')
UNSUPPORTED = ('ABS', 'NEG')
ALL_KINDS = ['TANH', 'LOGISTIC', 'SOFTMAX', 'GELU', 'ABS', 'NEG', 'ADD', 'SUB', 'MUL', 'CONCATENATION', 'FC', 'FCB', 'FCS', 'RESHAPE', 'TRANSPOSE', 'MEAN']
TWO = BINARY + ('CONCATENATION',)
FLOAT, INT32 = 0, 2

def recipe_files():
    """the recipe files shipped under recipes/ (read from the working tree): (shipped defaults, samples)"""
    d = os.path.join(core.PKG, 'recipes'); fs = sorted(f for f in os.listdir(d) if f.endswith('.json'))
    return [f for f in fs if not f.startswith('sample_')], [f for f in fs if f.startswith('sample_')]
def helpers():
    """public zero-argument functions of recipe.py (found on the AST of the real file)"""
    import ast
    tree = ast.parse(core.read_source('recipe.py'))
    return ['recipe.' + n.name for n in tree.body if isinstance(n, ast.FunctionDef) and not n.name.startswith('_') and len(n.args.defaults) >= len(n.args.args) and not n.args.kwonlyargs]
def recipe_ids(sample=False):
    main, samples = recipe_files()
    return ['file:' + f for f in main] + ['helper:' + h for h in helpers()] + (['file:' + f for f in samples] if sample else [])

def norm(spec): return dict(ops=[tuple(o) for o in spec['ops']], outs=[int(t) for t in spec['outs']])

def shapes(spec):
    """row count of every activation tensor ([r,4]) or None if the spec is not shape-correct"""
    r = [1]
    for i, (k, a, b) in enumerate(spec['ops']):
        n = 1 + i
        if not (0 <= a < n): return None
        if k in TWO:
            if b == -2: rb = 1
            elif b == -3: rb = 4
            elif not (0 <= b < n): return None
            else: rb = r[b]
            if k == 'CONCATENATION': r.append(r[a] + rb)
            else:
                if r[a] != rb and 1 not in (r[a], rb): return None
                r.append(max(r[a], rb))
        elif k == 'MEAN': r.append(1)
        elif k in UNARY or k in ('FC', 'FCB', 'FCS', 'RESHAPE', 'TRANSPOSE'):
            if b != -1: return None
            r.append(r[a])
        else: return None
    return r
def valid(spec):
    r = shapes(spec)
    if r is None or max(r) > 8: return False
    n = 1 + len(spec['ops'])
    outs = spec['outs']
    if not outs or len(set(outs)) != len(outs) or any(not (1 <= t < n) for t in outs): return False
    consumed = {t for (_, a, b) in spec['ops'] for t in (a, b) if t >= 1}
    return all(t in outs for t in range(1, n) if t not in consumed)      # every sink is exported (no dead operator)

def build(spec):
    """-> bytes of a .tflite model (through the real flatbuffer serializer)"""
    from bounded import mk
    S, B = mk.S, mk.B
    spec = norm(spec); r = shapes(spec); assert r is not None, 'shape-incorrect spec'
    W = (np.arange(16, dtype=np.float32).reshape(4, 4) - 7.5) / 9.0
    tensors = [('x', [1, 4], FLOAT, None)] + [(f't{i}', [r[1 + i], 4], FLOAT, None) for i in range(len(spec['ops']))]
    ops = []; shared_w = [None]
    def const(name, shape, ttype, data):
        tensors.append((name, list(shape), ttype, data)); return len(tensors) - 1
    def opt(t, c, **kw):
        o = c()
        for k, v in kw.items(): setattr(o, k, v)
        return (t, o)
    BO = S.BuiltinOptions
    for i, (k, a, b) in enumerate(spec['ops']):
        o = 1 + i
        if b == -2: b = const(f'c{i}', [1, 4], FLOAT, (np.arange(4, dtype=np.float32) - 1.5) / 3.0 + i)
        elif b == -3:
            if shared_w[0] is None: shared_w[0] = const('ws', [4, 4], FLOAT, W - 0.25)
            b = shared_w[0]
        if k in ('TANH', 'LOGISTIC', 'ABS', 'NEG', 'GELU'): ops.append((getattr(B, k), [a], [o], None if k != 'GELU' else opt(BO.GeluOptions, S.GeluOptionsT)))
        elif k == 'SOFTMAX': ops.append((B.SOFTMAX, [a], [o], opt(BO.SoftmaxOptions, S.SoftmaxOptionsT, beta=1.0)))
        elif k == 'ADD': ops.append((B.ADD, [a, b], [o], opt(BO.AddOptions, S.AddOptionsT)))
        elif k == 'SUB': ops.append((B.SUB, [a, b], [o], opt(BO.SubOptions, S.SubOptionsT)))
        elif k == 'MUL': ops.append((B.MUL, [a, b], [o], opt(BO.MulOptions, S.MulOptionsT)))
        elif k == 'CONCATENATION': ops.append((B.CONCATENATION, [a, b], [o], opt(BO.ConcatenationOptions, S.ConcatenationOptionsT, axis=0)))
        elif k in ('FC', 'FCB', 'FCS'):
            if k == 'FCS':
                if shared_w[0] is None: shared_w[0] = const('ws', [4, 4], FLOAT, W - 0.25)
                w = shared_w[0]
            else: w = const(f'w{i}', [4, 4], FLOAT, W + i)
            bias = const(f'b{i}', [4], FLOAT, np.arange(4, dtype=np.float32) / 4.0) if k == 'FCB' else -1
            ops.append((B.FULLY_CONNECTED, [a, w, bias], [o], opt(BO.FullyConnectedOptions, S.FullyConnectedOptionsT)))
        elif k == 'RESHAPE':
            s = const(f's{i}', [2], INT32, np.array([r[o], 4], dtype=np.int32))
            ops.append((B.RESHAPE, [a, s], [o], opt(BO.ReshapeOptions, S.ReshapeOptionsT, newShape=[r[o], 4])))
        elif k == 'TRANSPOSE':
            s = const(f'p{i}', [2], INT32, np.array([0, 1], dtype=np.int32))
            ops.append((B.TRANSPOSE, [a, s], [o], opt(BO.TransposeOptions, S.TransposeOptionsT)))
        elif k == 'MEAN':
            s = const(f'ax{i}', [1], INT32, np.array([0], dtype=np.int32))
            ops.append((B.MEAN, [a, s], [o], opt(BO.ReducerOptions, S.ReducerOptionsT, keepDims=True)))
        else: raise ValueError(k)
    return mk.model(tensors, ops, [0], spec['outs'])

# ------------------------------------------------------------------------------------------------ normal-form check of a built model (Pre8)
def normal_form(mb):
    """the precondition of the property, checked on the bytes: unique names, one buffer per tensor (buffer 0 unused), float32 activations"""
    from tensorflow.lite.tools import flatbuffer_utils as fu
    m = fu.read_model_from_bytearray(bytearray(mb)); names = []; bufs = []
    for g in m.subgraphs:
        prod = {}
        for t in g.tensors: names.append(t.name); bufs.append(t.buffer)
        for j, op in enumerate(g.operators):
            for t in op.outputs:
                if t in prod: return False
                prod[t] = j
        for i, t in enumerate(g.tensors):
            if m.buffers[t.buffer].data is None and t.type != FLOAT: return False
    return len(set(names)) == len(names) and len(set(bufs)) == len(bufs) and 0 not in bufs

# ------------------------------------------------------------------------------------------------ pipeline
_MUT = {}
def apply_mutants(mut):
    """canaries only: re-executes the given module texts (relpath -> text) INTO the already imported real modules of this process
    (call in a forked worker; the parent keeps the unmodified modules)"""
    mut = dict(mut or {})
    if mut and 'algorithm_manager.py' not in mut: mut['algorithm_manager.py'] = core.read_source('algorithm_manager.py')   # rebuild the registry from the (mutated) functions
    for rel, text in sorted(mut.items(), key=lambda kv: kv[0] == 'algorithm_manager.py'):
        name = 'ai_edge_quantizer.' + rel[:-3].replace('/', '.')
        mod = importlib.import_module(name)
        exec(compile(text, os.path.join(core.PKG, rel), 'exec'), mod.__dict__)

def load_recipe(rid):
    """-> what the user hands to Quantizer: the path of a shipped file, or the list returned by a recipe.py helper"""
    kind, what = rid.split(':', 1)
    if kind == 'file': return os.path.join(core.PKG, 'recipes', what)
    mod, fn = what.rsplit('.', 1)
    return getattr(importlib.import_module('ai_edge_quantizer.' + mod), fn)()

def data_for(n, seed):
    rs = np.random.RandomState(1000 + seed)
    return [{'in0': (rs.randn(1, 4) * (1.0 + 2.0 * j)).astype(np.float32)} for j in range(n)]

def site_of(tb):
    """innermost frame of the traceback that lies in the package under test -> (relpath, function name, line)"""
    best = None
    for fr in traceback.extract_tb(tb):
        fn = os.path.abspath(fr.filename)
        if fn.startswith(os.path.abspath(core.PKG) + os.sep): best = (os.path.relpath(fn, core.PKG), fr.name, fr.lineno)
    return best

def run_pipeline(rid, spec, n_samples=1, seed=0, interp=True):
    """load the shipped recipe unchanged, calibrate when the recipe needs it, quantize, then let LiteRT allocate + invoke the result.
    -> dict(status='ok'|'raise'|'interp', stage, exc, msg, site)"""
    import absl.logging; absl.logging.set_verbosity('error')
    from ai_edge_quantizer import quantizer
    from ai_edge_quantizer.utils import tfl_interpreter_utils as tiu
    mb = build(spec); data = data_for(max(1, n_samples), seed); stage = 'load'
    try:
        qt = quantizer.Quantizer(bytearray(mb), load_recipe(rid))
        stage = 'calibrate'
        cal = qt.calibrate(data[:n_samples]) if qt.need_calibration else None
        stage = 'quantize'
        q = qt.quantize(cal).quantized_model
        if q is None or len(q) == 0: return dict(status='raise', stage=stage, exc='NoModel', msg='quantize() returned no model', site=None)
    except Exception as e:
        return dict(status='raise', stage=stage, exc=type(e).__name__, msg=str(e)[:160], site=site_of(e.__traceback__))
    if interp:
        try:
            it = tiu.create_tfl_interpreter(bytes(q)); tiu.invoke_interpreter_signature(it, data[0])
        except Exception as e:
            return dict(status='interp', stage='litert', exc=type(e).__name__, msg=str(e)[:160].replace('\n', ' '), site=None)
    return dict(status='ok')

def run_sequence(rid_a, rid_b, spec, n_samples=1, seed=0):
    """ONE Quantizer used for two shipped recipes one after the other (load A -> calibrate when needed -> quantize; load B unchanged -> calibrate when needed -> quantize).
    -> (status of the second run, status of the same recipe B on a FRESH Quantizer): a shipped recipe "loaded unchanged" must not be rejected because of what the object did before"""
    import absl.logging; absl.logging.set_verbosity('error')
    from ai_edge_quantizer import quantizer
    mb = build(spec); data = data_for(max(1, n_samples), seed)
    def step(qt):
        try:
            cal = qt.calibrate(data[:n_samples]) if qt.need_calibration else None
            q = qt.quantize(cal).quantized_model
            return dict(status='ok') if q else dict(status='raise', exc='NoModel', msg='quantize() returned no model', site=None)
        except Exception as e: return dict(status='raise', exc=type(e).__name__, msg=str(e)[:160], site=site_of(e.__traceback__))
    try:
        qt = quantizer.Quantizer(bytearray(mb), load_recipe(rid_a)); step(qt)
        rb = load_recipe(rid_b); qt.load_quantization_recipe(rb); second = step(qt)
    except Exception as e: second = dict(status='raise', exc=type(e).__name__, msg=str(e)[:160], site=site_of(e.__traceback__))
    try: fresh = step(quantizer.Quantizer(bytearray(mb), load_recipe(rid_b)))
    except Exception as e: fresh = dict(status='raise', exc=type(e).__name__, msg=str(e)[:160], site=site_of(e.__traceback__))
    return second, fresh
SEQ_SPECS = [dict(ops=[('FC', 0, -1), ('TANH', 1, -1), ('MUL', 2, -2), ('ADD', 3, 2)], outs=[4]), dict(ops=[('TANH', 0, -1), ('MUL', 1, -2)], outs=[2]), dict(ops=[('FC', 0, -1), ('ABS', 1, -1), ('SUB', 2, -2)], outs=[3])]

# ------------------------------------------------------------------------------------------------ class predicates of the known findings
def _params_differ(p, q):
    """value comparison of two consumer parameter objects, written from the property text ("consumers needing different parameters")"""
    if p is None or q is None: return (p is None) != (q is None)
    for f in ('num_bits', 'symmetric', 'quantized_dimension'):
        if getattr(p, f, None) != getattr(q, f, None): return True
    for f in ('scale', 'zero_point'):
        a, b = getattr(p, f, None), getattr(q, f, None)
        if (a is None) != (b is None): return True
        if a is not None and (np.shape(a) != np.shape(b) or not np.array_equal(np.asarray(a), np.asarray(b))): return True
    return False

def consumer_params(rid, spec, n_samples=1, seed=0):
    """per tensor name: (producer entry, consumer entries, is_constant) as the REAL materialisation produces them (real ParamsGenerator with only
    the final post-processing check disabled in a subclass); None if materialisation itself raises"""
    from ai_edge_quantizer import quantizer, params_generator
    from tensorflow.lite.tools import flatbuffer_utils as fu
    class PG(params_generator.ParamsGenerator):
        def _post_process_results(self): return None
    mb = build(spec); qt = quantizer.Quantizer(bytearray(mb), load_recipe(rid))
    cal = qt.calibrate(data_for(max(1, n_samples), seed)[:n_samples]) if qt.need_calibration else None
    try: res = PG(bytearray(mb)).generate_quantization_parameters(qt._recipe_manager, cal)
    except Exception: return None
    m = fu.read_model_from_bytearray(bytearray(mb)); const = {}
    for g in m.subgraphs:
        for t in g.tensors: const[t.name.decode()] = m.buffers[t.buffer].data is not None
    return {n: (p.producer, list(p.consumers or []), const.get(n, False)) for n, p in res.items()}

_STORED = ('QUANTIZE_TENSOR', 'ADD_DEQUANTIZE')
def classes_of(rid, spec, n_samples=1, seed=0):
    """class predicates of the known findings, computed from the inputs (model, recipe, calibration) only:
      divergent  tensors with two consumers (operators reading it, graph-output marker included) that need different parameters: both carry
                 parameters with different VALUES, or (constant tensor) one consumer stores it quantized while another reads it as float
      repeated   (operator index, tensor) with the tensor in two operand slots of one operator
      requant    some repeated operand is produced with parameters that differ from the ones that operator needs (requantize branch)"""
    spec = norm(spec); out = dict(divergent=[], repeated=[], requant=False)
    cp = consumer_params(rid, spec, n_samples, seed)
    rep_ops = [(i, a) for i, (k, a, b) in enumerate(spec['ops']) if k in TWO and a == b]
    out['repeated'] = rep_ops
    if cp is None: return out
    for n, (prod, cons, is_const) in cp.items():
        for a, b in itertools.combinations(cons, 2):
            both = a.parameters is not None and b.parameters is not None
            if (both and _params_differ(a.parameters, b.parameters)) or (is_const and ((a.transformations[0].name in _STORED) != (b.transformations[0].name in _STORED))):
                out['divergent'].append(n); break
    for i, t in rep_ops:
        name = 'x' if t == 0 else f't{t - 1}'
        if name in cp:
            prod, cons, _ = cp[name]
            mine = [c for c in cons if c.subgraph_op_id == i]
            if prod is not None and prod.parameters is not None and any(c.parameters is not None and _params_differ(prod.parameters, c.parameters) for c in mine): out['requant'] = True
    return out

def run_case_with_classes(rid, spec, n_samples=1, seed=0, interp=True):
    r = run_pipeline(rid, spec, n_samples, seed, interp)
    if r['status'] == 'raise' and r.get('site') and r['site'][1] in ('_check_buffer_sharing', '_apply_vertical_optimization'):
        try: r['classes'] = classes_of(rid, spec, n_samples, seed)
        except Exception as e: r['classes'] = dict(error=f'{type(e).__name__}: {e}')
    return r

# ------------------------------------------------------------------------------------------------ generators
def _outs_variants(ops, export):
    n = 1 + len(ops)
    consumed = {t for (_, a, b) in ops for t in (a, b) if t >= 1}
    sinks = [t for t in range(1, n) if t not in consumed]; inner = [t for t in range(1, n) if t in consumed]
    yield sinks
    if export and inner:
        yield sorted(sinks + inner)
        if len(inner) > 1:
            for t in inner: yield sorted(sinks + [t])

def _operand_choices(k, n, consts):
    if k in TWO:
        for a in range(n):
            extra = [-3] if consts == 'shared' else ([-2] if consts and k != 'CONCATENATION' else [])
            for b in list(range(n)) + extra:
                yield a, b
    else:
        for a in range(n): yield a, -1

def exhaustive(nops, kinds, export=True, consts=False):
    """every shape-correct spec with exactly `nops` operators over `kinds`, every operand wiring (repeated operands included), every
    export variant (sinks only; sinks + all intermediates; sinks + one intermediate)"""
    out = []
    def rec(ops):
        if len(ops) == nops:
            if shapes(dict(ops=ops, outs=[1])) is None: return
            for outs in _outs_variants(ops, export):
                s = dict(ops=list(ops), outs=outs)
                if valid(s): out.append(s)
            return
        n = 1 + len(ops)
        for k in kinds:
            for a, b in _operand_choices(k, n, consts):
                nxt = ops + [(k, a, b)]
                if shapes(dict(ops=nxt, outs=[1])) is not None: rec(nxt)
    rec([])
    return out

def sampled(nops, kinds, count, seed, consts=True):
    rng = random.Random(seed); out = []; guard = 0
    while len(out) < count and guard < count * 50:
        guard += 1; ops = []
        for i in range(nops):
            k = rng.choice(kinds); n = 1 + i; a = rng.randrange(n)
            if k in TWO:
                c = rng.random()
                b = a if c < 0.25 else (-2 if (consts and c < 0.35 and k != 'CONCATENATION') else rng.randrange(n))
            else: b = -1
            ops.append((k, a, b))
        if shapes(dict(ops=ops, outs=[1])) is None: continue
        consumed = {t for (_, a, b) in ops for t in (a, b) if t >= 1}
        sinks = [t for t in range(1, 1 + nops) if t not in consumed]
        extra = [t for t in range(1, 1 + nops) if t in consumed and rng.random() < 0.35]
        s = dict(ops=ops, outs=sorted(set(sinks + extra)))
        if valid(s): out.append(s)
    return out

A1 = ALL_KINDS
A2 = ['TANH', 'SOFTMAX', 'ABS', 'ADD', 'MUL', 'CONCATENATION', 'FC', 'FCS', 'RESHAPE', 'MEAN']
A3 = ['TANH', 'ABS', 'ADD', 'MUL', 'CONCATENATION', 'FC']
AT = ['FCS', 'ADD', 'MUL', 'ABS']
SCOPE = ('models: one float32 graph input x[1,4], operators over the stated alphabet, every operand wiring incl. repeated operands (MUL(t,t), ADD(t,t), CONCATENATION(t,t)) and shared '
         'tensors, every sink exported plus {no, all, each single} intermediate tensor exported; exhaustive for 1 operator over ' + str(A1) + ' (with and without a constant second operand), '
         '2 operators over ' + str(A2) + ', 3 operators over ' + str(A3) + ' (quick tier: sinks-only and all-intermediates export variants for 3 operators); tied constants: 2 operators over ' + str(AT) +
         ' where a binary operator may read the ONE shared constant ws[4,4] that is also the weight of every FCS; plus seeded random 4-operator graphs over all kinds')

# a tensor that is exactly zero for every input (NEG(ABS(x)) + ABS(x)): degenerate calibration range [0, 0]
DEGENERATE = [dict(ops=[('ABS', 0, -1), ('NEG', 1, -1), ('ADD', 2, 1)], outs=[3]), dict(ops=[('SUB', 0, 0)], outs=[1]), dict(ops=[('SUB', 0, 0), ('TANH', 1, -1)], outs=[2])]
def cases(tier='quick', seed=0):
    out = DEGENERATE + exhaustive(1, A1, consts=True) + exhaustive(2, A2, consts=False)
    e3 = exhaustive(3, A3, consts=False)
    if tier != 'thorough':
        keep = []
        for s in e3:
            n = 4; consumed = {t for (_, a, b) in s['ops'] for t in (a, b) if t >= 1}
            sinks = [t for t in range(1, n) if t not in consumed]; inner = [t for t in range(1, n) if t in consumed]
            if s['outs'] == sinks or s['outs'] == sorted(sinks + inner): keep.append(s)
        e3 = keep
    out += e3
    out += [s for s in exhaustive(2, AT, export=False, consts='shared') if any(b == -3 for _, _, b in s['ops'])]
    out += sampled(4, ALL_KINDS, 1500 if tier == 'thorough' else 400, seed)
    seen = set(); res = []
    for s in out:
        key = json.dumps(s, sort_keys=True)
        if key not in seen: seen.add(key); res.append(s)
    return res

# ------------------------------------------------------------------------------------------------ pool worker
def _chunk_worker(args):
    rids, specs, n_samples, seed, mut, interp, with_classes = args
    if mut: apply_mutants(mut)
    out = []
    for s in specs:
        for rid in rids:
            try: r = run_case_with_classes(rid, s, n_samples, seed, interp) if with_classes else run_pipeline(rid, s, n_samples, seed, interp)
            except Exception as e: r = dict(status='checker-crash', exc=type(e).__name__, msg=str(e)[:160], site=None)
            if r['status'] != 'ok': out.append((rid, s, r))
    return out, len(specs) * len(rids)

def _proc_entry(conn, a):
    try: conn.send(_chunk_worker(a))
    except BaseException as e:
        try: conn.send((None, f'{type(e).__name__}: {e}'))
        except Exception: pass
    finally: conn.close()

def _run_procs(args, procs):
    """one forked process per chunk, at most `procs` at a time; a chunk whose process dies (crash inside TensorFlow / LiteRT) yields None
    instead of hanging the whole run (multiprocessing.Pool would wait forever)"""
    import multiprocessing as mp, time as _t
    ctx = mp.get_context('fork'); pending = list(enumerate(args)); running = {}; results = {}
    while pending or running:
        while pending and len(running) < procs:
            i, a = pending.pop(0); pc, cc = ctx.Pipe(False); p = ctx.Process(target=_proc_entry, args=(cc, a)); p.start(); cc.close(); running[i] = (p, pc)
        progressed = False
        for i in list(running):
            p, pc = running[i]
            if pc.poll(0):
                try: results[i] = pc.recv()
                except EOFError: results[i] = (None, f'process died (exit code {p.exitcode})')
                p.join(); del running[i]; progressed = True
            elif not p.is_alive():
                p.join()
                results[i] = pc.recv() if pc.poll(0.2) else (None, f'process died (exit code {p.exitcode})')
                del running[i]; progressed = True
        if not progressed: _t.sleep(0.02)
    return [results[i] for i in range(len(args))]

def run_many(rids, specs, n_samples=1, seed=0, mut=None, interp=True, procs=None, with_classes=False):
    """-> (failures [(rid, spec, result)], number of pipeline runs); forked worker processes, real modules imported once in the parent.
    A worker that dies is re-run spec by spec; the (recipe, spec) that kills its process is reported as a failure with status 'crash'."""
    from ai_edge_quantizer import quantizer   # import in the parent so that the forked workers share it
    procs = procs or min(16, os.cpu_count() or 4)
    if not specs: return [], 0
    k = max(1, min(len(specs), procs * 4)); chunks = [specs[i::k] for i in range(k)]
    args = [(rids, c, n_samples, seed, mut, interp, with_classes) for c in chunks if c]
    res = _run_procs(args, procs) if procs > 1 else [_chunk_worker(a) for a in args]
    fails = []; n = 0; retry = []
    for a, r in zip(args, res):
        if r[0] is None: retry += [(rids_, [sp], *a[2:]) for rids_ in [[x] for x in a[0]] for sp in a[1]]
        else: fails += r[0]; n += r[1]
    if retry:
        res2 = _run_procs(retry, procs); dead = []
        for a, r in zip(retry, res2):
            n += 1
            if r[0] is None: dead.append((a, r[1]))
            else: fails += r[0]
        # which stage kills the process?  re-run without the LiteRT step
        res3 = _run_procs([(a[0], a[1], a[2], a[3], a[4], False, a[6]) for a, _ in dead], procs) if dead else []
        for (a, why), r in zip(dead, res3):
            if r[0] is None: fails.append((a[0][0], a[1][0], dict(status='crash', stage='load/calibrate/quantize', exc='ProcessDied', msg=str(why), site=None)))
            elif r[0]: fails += r[0]
            else: fails.append((a[0][0], a[1][0], dict(status='interp', stage='litert', exc='ProcessDied', msg=f'LiteRT allocate_tensors / invoke on the returned model kills the process: {why}', site=None)))
    return fails, n
