"""Native execution of the REAL C03 carriers (never copies of them): module loading (incl. in-memory mutants), the mode table written
from the property text (DESIGN A.10), synthetic operators built from real schema objects, the abstract interpreter of an emitted
instruction list (performer's retargeting rule), the upstream guard (_check_buffer_sharing) and the frame check of quantize_tensor.

Every `*_case(m, case)` function takes a JSON-serialisable case description, runs the real function(s) of the module set `m`
and returns None when the C03 clause holds on that input, otherwise a short text saying what was observed.  They are used both by
props/C03.py (exhaustive enumeration) and by replay (re-execution of one recorded input)."""
import copy, importlib, itertools, json, os, sys, types
import numpy as np
from vlib import core

MMU, TIG, PG, QTEN, TFU = ('algorithms/utils/min_max_quantize_utils.py', 'transformation_instruction_generator.py', 'params_generator.py',
                           'transformations/quantize_tensor.py', 'utils/tfl_flatbuffer_utils.py')
NMM, PERF, DP, QTY, RECIPE_PY = 'algorithms/uniform_quantize/naive_min_max_quantize.py', 'transformation_performer.py', 'default_policy.py', 'qtyping.py', 'recipe.py'
REL = dict(mmu=MMU, tig=TIG, pg=PG, qten=QTEN, tfu=TFU, nmm=NMM, perf=PERF, dp=DP, q=QTY)

def describe(e): return f'{type(e).__name__}: {str(e)[:140]}'

# ------------------------------------------------------------------------------------------------ real modules
class Mods:
    def __init__(s, **k): s.__dict__.update(k)
    def variant(s, **k):
        d = dict(s.__dict__); d.update(k); return Mods(**d)

def load():
    core.stub_package(); imp = lambda n: importlib.import_module('ai_edge_quantizer.' + n)
    m = Mods(q=imp('qtyping'), tfu=imp('utils.tfl_flatbuffer_utils'), mmu=imp('algorithms.utils.min_max_quantize_utils'), dp=imp('default_policy'),
             am=imp('algorithm_manager'), nmm=imp('algorithms.uniform_quantize.naive_min_max_quantize'), pg=imp('params_generator'),
             tig=imp('transformation_instruction_generator'), qten=imp('transformations.quantize_tensor'), tu=imp('transformations.transformation_utils'),
             perf=imp('transformation_performer'))
    from ai_edge_litert import schema_py_generated as schema
    m.schema = schema
    try:
        from absl import logging as absl_logging
        absl_logging.set_verbosity(absl_logging.ERROR)
    except Exception: pass
    return m

_mut_n = itertools.count()
def exec_module(which, src):
    """the file `REL[which]` with the (mutated) text `src`, executed in memory as a module of its own; nothing is written to disk"""
    name = f'c03_{which}_mutant_{next(_mut_n)}'
    mod = types.ModuleType(name); mod.__file__ = os.path.join(core.PKG, REL[which]); sys.modules[name] = mod
    exec(compile(src, mod.__file__, 'exec'), mod.__dict__); return mod

# ------------------------------------------------------------------------------------------------ opaque integers (parametricity)
class Inspected(Exception):
    """an opaque integer was looked at: the parametricity argument does not apply to this execution"""
class Opaque(int):
    """an integer nobody may look at: everything except identity, equality with another opaque integer, hash, repr raises"""
    def __new__(cls, tag):
        o = int.__new__(cls, 0); o.tag = tag; return o
    def __eq__(s, o):
        if s is o: return True
        if isinstance(o, Opaque): return s.tag == o.tag
        raise Inspected(f'{s!r} compared with {type(o).__name__}')
    def __ne__(s, o): return not s.__eq__(o)
    def __hash__(s): return hash(('opaque', s.tag))
    def __deepcopy__(s, memo): return s
    def __copy__(s): return s
    def __repr__(s): return f'<int {s.tag}>'
    __str__ = __repr__
    def __format__(s, spec): return repr(s)
    def _no(s, *a, **k): raise Inspected(f'{s!r} inspected')
    __lt__ = __le__ = __gt__ = __ge__ = __bool__ = __index__ = __int__ = __float__ = __neg__ = __pos__ = __abs__ = __invert__ = _no
    __add__ = __radd__ = __sub__ = __rsub__ = __mul__ = __rmul__ = __mod__ = __rmod__ = __floordiv__ = __rfloordiv__ = _no
    __truediv__ = __rtruediv__ = __pow__ = __rpow__ = __and__ = __or__ = __xor__ = __lshift__ = __rshift__ = __divmod__ = __round__ = __trunc__ = _no

# ================================================================================================ (i) the mode table
# DESIGN A.10, written from the property text.  A row is a property of the CONFIG plus, for BLOCK, of the tensor being constant.
#   SRQ   INTEGER and activation config present : in & const -> QUANTIZE_TENSOR ; in & not const -> ADD_QUANTIZE ; out -> ADD_DEQUANTIZE
#   DRQ   INTEGER and no activation config      : in & const -> QUANTIZE_TENSOR ; otherwise NO_QUANTIZE
#   BLOCK (neither of the above) weight BLOCKWISE and the tensor constant : EMULATED_SUBCHANNEL
#   WO    (none of the above) FLOAT and explicit_dequantize : in & const -> ADD_DEQUANTIZE ; otherwise NO_QUANTIZE
#   NONE  anything else : ValueError
ROWS = ('SRQ', 'DRQ', 'BLOCK', 'WO', 'NONE')
def mode_row(cp, act_present, w_gran, ed, const):
    if cp == 'INTEGER': return 'SRQ' if act_present else 'DRQ'
    if w_gran == 'BLOCKWISE' and const: return 'BLOCK'
    if cp == 'FLOAT' and ed: return 'WO'
    return 'NONE'
def table(row, inbound, const):
    """expected transformation names, or 'ValueError'"""
    if row == 'SRQ': return ['QUANTIZE_TENSOR'] if (inbound and const) else ['ADD_QUANTIZE'] if inbound else ['ADD_DEQUANTIZE']
    if row == 'DRQ': return ['QUANTIZE_TENSOR'] if (inbound and const) else ['NO_QUANTIZE']
    if row == 'BLOCK': return ['EMULATED_SUBCHANNEL']
    if row == 'WO': return ['ADD_DEQUANTIZE'] if (inbound and const) else ['NO_QUANTIZE']
    return 'ValueError'

def tensor_skeletons(): return [None] + [[sym, g, d] for sym in (True, False) for g in ('TENSORWISE', 'CHANNELWISE', 'BLOCKWISE') for d in ('INT', 'FLOAT')]
def mode_cases():
    """every config skeleton x inbound x constant (integers are not part of the skeleton)"""
    for a in tensor_skeletons():
        for w in tensor_skeletons():
            for cp in ('INTEGER', 'FLOAT'):
                for ed in (False, True):
                    for inbound in (True, False):
                        for const in (True, False):
                            yield dict(act=a, w=w, cp=cp, ed=ed, inbound=inbound, const=const)
def case_row(c): return mode_row(c['cp'], c['act'] is not None, None if c['w'] is None else c['w'][1], c['ed'], c['const'])

CONCRETE = {'a.num_bits': 16, 'a.block_size': 0, 'w.num_bits': 4, 'w.block_size': 32}
def build_cfg(m, c, opaque=True):
    """the real constructors (the real __post_init__ runs): config object, or None when construction refuses with ValueError"""
    q = m.q; ints = (lambda t: Opaque(t)) if opaque else (lambda t: CONCRETE[t])
    def tc(s, tag): return None if s is None else q.TensorQuantizationConfig(ints(tag + '.num_bits'), s[0], q.QuantGranularity(s[1]), q.TensorDataType(s[2]), ints(tag + '.block_size'))
    try: return q.OpQuantizationConfig(tc(c['act'], 'a'), tc(c['w'], 'w'), q.ComputePrecision(c['cp']), c['ed'])
    except ValueError: return None

def observe_mode(m, cfg, inbound, const):
    try: r = m.mmu.get_tensor_transformations(cfg, inbound, const)
    except ValueError: return 'ValueError'
    return [t.name for t in r] if isinstance(r, list) else repr(r)

def mode_case(m, c):
    """None = holds | text.  Runs with opaque integers first; `Inspected` is reported by raising it to the caller."""
    cfg = build_cfg(m, c, opaque=c.get('opaque', True))
    if cfg is None: return None                    # not a config: the constructor refuses it
    want = table(case_row(c), c['inbound'], c['const'])
    try: got = observe_mode(m, cfg, c['inbound'], c['const'])
    except Inspected: raise
    except Exception as e: got = 'raises ' + describe(e)
    return None if got == want else f'get_tensor_transformations(cfg, is_inbounding_tensor={c["inbound"]}, is_constant={c["const"]}) = {got}; the mode table ({case_row(c)} row) says {want}'

def cfg_skeleton(cfg):
    """skeleton of a REAL config object (for the admitted-config obligations)"""
    def ts(t): return None if t is None else [bool(t.symmetric), str(getattr(t.granularity, 'value', t.granularity)), str(getattr(t.dtype, 'value', t.dtype))]
    return dict(act=ts(cfg.activation_tensor_config), w=ts(cfg.weight_tensor_config), cp=str(getattr(cfg.compute_precision, 'value', cfg.compute_precision)), ed=bool(cfg.explicit_dequantize))

def admitted_sources(m):
    """-> {source name: [(label, config dict as accepted by OpQuantizationConfig.from_dict)]}: every config a shipped policy or recipe admits"""
    out = {}
    pol = [(f'{op.value}#{i}', cfg.to_dict()) for op, cfgs in m.dp.DEFAULT_CONFIG_CHECK_POLICY.items() for i, cfg in enumerate(cfgs)]
    out['default_policy.DEFAULT_CONFIG_CHECK_POLICY'] = pol
    pdir = os.path.join(core.PKG, 'policies')
    for f in sorted(os.listdir(pdir)) if os.path.isdir(pdir) else []:
        if f.endswith('.json'):
            with open(os.path.join(pdir, f)) as fh: text = fh.read()
            p = m.dp.update_default_config_policy(text)
            out['policies/' + f] = [(f'{op.value}#{i}', cfg.to_dict()) for op, cfgs in p.items() for i, cfg in enumerate(cfgs)]
    rdir = os.path.join(core.PKG, 'recipes')
    for f in sorted(os.listdir(rdir)) if os.path.isdir(rdir) else []:
        if f.endswith('.json'):
            with open(os.path.join(rdir, f)) as fh: rules = json.load(fh)
            out['recipes/' + f] = [(f'rule{i}:{r.get("operation")}', r['op_config']) for i, r in enumerate(rules) if r.get('algorithm_key') == 'min_max_uniform_quantize' and 'op_config' in r]
    rp = importlib.import_module('ai_edge_quantizer.recipe')
    for nme in sorted(dir(rp)):
        f = getattr(rp, nme)
        if callable(f) and not nme.startswith('_') and getattr(f, '__module__', '') == rp.__name__:
            try: rules = f()
            except TypeError: continue
            out[f'recipe.{nme}()'] = [(f'rule{i}:{r.get("operation")}', r['op_config']) for i, r in enumerate(rules) if r.get('algorithm_key') == 'min_max_uniform_quantize' and 'op_config' in r]
    return out

def admitted_case(m, c):
    """c = dict(source, label, op_config, inbound, const): the real function on the real config object never raises and follows the table"""
    cfg = m.q.OpQuantizationConfig.from_dict(c['op_config']); sk = cfg_skeleton(cfg)
    row = mode_row(sk['cp'], sk['act'] is not None, None if sk['w'] is None else sk['w'][1], sk['ed'], c['const'])
    want = table(row, c['inbound'], c['const'])
    try: got = observe_mode(m, cfg, c['inbound'], c['const'])
    except Exception as e: got = 'raises ' + describe(e)
    if got == 'ValueError': return f'{c["source"]} {c["label"]}: get_tensor_transformations raises ValueError for an admitted config (inbound={c["inbound"]}, constant={c["const"]})'
    return None if got == want else f'{c["source"]} {c["label"]}: got {got}, the mode table ({row}) says {want}'

# ================================================================================================ (ii) materialize_standard_op on synthetic ops
F32, I32 = 0, 2        # TensorType codes written here from the TFLite schema
MODES = {   # name -> (activation (bits, sym) | None, weight (bits, sym, gran), compute precision, explicit_dequantize); all admitted by the shipped policy for the ops below
    'SRQ8': ((8, False), (8, True, 'CHANNELWISE'), 'INTEGER', False),
    'SRQ16': ((16, True), (8, True, 'CHANNELWISE'), 'INTEGER', False),
    'DRQ': (None, (8, True, 'CHANNELWISE'), 'INTEGER', False),
    'WO': (None, (4, False, 'CHANNELWISE'), 'FLOAT', True),
}
# (operator, mode, constraint): constraints are only ever combined with non-weight operators (reshape/pool/transpose/slice/split: input scale; concatenation: output scale)
COMBOS = [('ADD', 'SRQ8', 'NO_CONSTRAIN'), ('ADD', 'SRQ8', 'SAME_AS_INPUT_SCALE'), ('ADD', 'SRQ8', 'SAME_AS_OUTPUT_SCALE'), ('ADD', 'SRQ16', 'NO_CONSTRAIN'),
          ('FULLY_CONNECTED', 'SRQ16', 'NO_CONSTRAIN'), ('FULLY_CONNECTED', 'DRQ', 'NO_CONSTRAIN'), ('FULLY_CONNECTED', 'WO', 'NO_CONSTRAIN')]
WEIGHT_OPS = ('FULLY_CONNECTED', 'CONV_2D', 'BATCH_MATMUL', 'EMBEDDING_LOOKUP', 'DEPTHWISE_CONV_2D', 'CONV_2D_TRANSPOSE')   # ops whose constants take the weight config (property text: "integer weights")
CONSTRAINTS = ('NO_CONSTRAIN', 'SAME_AS_INPUT_SCALE', 'SAME_AS_OUTPUT_SCALE')
IN_KINDS, OUT_KINDS = ('fa', 'fc', 'ia', 'ic', 'x'), ('fa', 'ia', 'x')          # float activation / float constant / int32 activation / int32 constant / missing (-1)

def mode_cfg(m, mode):
    q = m.q; a, w, cp, ed = MODES[mode]
    return q.OpQuantizationConfig(None if a is None else q.TensorQuantizationConfig(a[0], a[1]), q.TensorQuantizationConfig(w[0], w[1], q.QuantGranularity(w[2])), q.ComputePrecision(cp), ed)

def synth_op(m, inputs, outputs, last='f'):
    """real OperatorT / TensorT / BufferT objects: one tensor per present operand (inputs then outputs), one trailing unrelated tensor whose
    dtype is `last` (it is what subgraph_tensors[-1] denotes).  -> (op, tensors, buffers, operand descriptions in operand order)"""
    S = m.schema; tensors, buffers, desc = [], [S.BufferT()], []
    def add(name, kind):
        t = S.TensorT(); t.name = name.encode(); t.shape = np.array([2, 3], np.int32); t.type = F32 if kind[0] == 'f' else I32
        b = S.BufferT()
        if kind[1] == 'c':
            data = (np.arange(6, dtype=np.float32).reshape(2, 3) - 2.5) / 4 if kind[0] == 'f' else np.arange(6, dtype=np.int32).reshape(2, 3)
            b.data = np.frombuffer(data.tobytes(), np.uint8)
        buffers.append(b); t.buffer = len(buffers) - 1; tensors.append(t); return len(tensors) - 1
    ins, outs = [], []
    for k, kind in enumerate(inputs):
        if kind == 'x': ins.append(-1); continue
        ins.append(add(f'in{k}', kind)); desc.append(dict(name=f'in{k}', inbound=True, pos=k, kind=kind))
    for k, kind in enumerate(outputs):
        if kind == 'x': outs.append(-1); continue
        outs.append(add(f'out{k}', kind)); desc.append(dict(name=f'out{k}', inbound=False, pos=k, kind=kind))
    add('unrelated', 'fa' if last == 'f' else 'ia')
    op = S.OperatorT(); op.inputs = np.array(ins, np.int32); op.outputs = np.array(outs, np.int32); op.opcodeIndex = 0
    return op, tensors, buffers, desc

def materialize_cases(combos=None):
    """1-3 inputs over {float activation, float constant, int32 activation, int32 constant, -1}; 1 output over {float, int32, -1} or 2 outputs over
    {float, int32}; every subset of input / output positions as ignore lists; the dtype of subgraph_tensors[-1] varied when an input is -1"""
    for op, mode, con in (combos or COMBOS):
        for n_in in (1, 2, 3):
            for ins in itertools.product(IN_KINDS, repeat=n_in):
                for n_out in (1, 2):
                    for outs in itertools.product(OUT_KINDS if n_out == 1 else OUT_KINDS[:2], repeat=n_out):
                        lasts = ('f', 'i') if 'x' in ins else ('f',)
                        for gi in range(n_in + 1):
                            for ign_in in itertools.combinations(range(n_in), gi):
                                for go in range(n_out + 1):
                                    for ign_out in itertools.combinations(range(n_out), go):
                                        for last in lasts:
                                            yield dict(op=op, mode=mode, inputs=list(ins), outputs=list(outs), ign_in=list(ign_in), ign_out=list(ign_out), constraint=con, last=last)

ALLOWED_RAISES = ('ValueError', 'KeyError')
def materialize_case(m, c, stats=None):
    """None = holds | text.  Contract (C03 ii): the result is aligned with the operands != -1 (inputs then outputs); an operand that is not
    float32 or is listed as ignored carries [NO_QUANTIZE] without parameters; any other operand carries the mode-table transformation, with
    parameters of the configured width (activation width; weight width for a constant of a weight operator) iff it is not NO_QUANTIZE.
    A ValueError / KeyError (a refusal, e.g. 'single tensor' constraints, missing calibration entry) is not a malformed result."""
    q = m.q; op, tensors, buffers, desc = synth_op(m, c['inputs'], c['outputs'], c.get('last', 'f'))
    cfg = mode_cfg(m, c['mode']); opn = q.TFLOperationName(c['op'])
    oi = q.OpInfo(op=op, op_name=opn, subgraph_op_index=7, op_quant_config=cfg); gi = q.GraphInfo(subgraph_tensors=tensors, buffers=buffers)
    qsv = {d['name']: {'min': np.array([[-1.5]], np.float32), 'max': np.array([[2.5]], np.float32)} for d in desc if d['kind'][1] == 'a'}
    kw = {}
    if c['ign_in'] or c.get('ign_in_explicit'): kw['inputs_to_ignore'] = list(c['ign_in'])
    if c['ign_out'] or c.get('ign_out_explicit'): kw['outputs_to_ignore'] = list(c['ign_out'])
    try: res = m.mmu.materialize_standard_op(oi, gi, qsv, m.mmu.OpQuantConstraint[c['constraint']], **kw)
    except Exception as e:
        if stats is not None: stats['raise:' + type(e).__name__] = stats.get('raise:' + type(e).__name__, 0) + 1
        return None if type(e).__name__ in ALLOWED_RAISES else 'raises ' + describe(e)
    if stats is not None: stats['returned'] = stats.get('returned', 0) + 1
    a, w, cp, ed = MODES[c['mode']]
    if not isinstance(res, list) or len(res) != len(desc): return f'{len(res) if isinstance(res, list) else type(res).__name__} entries for {len(desc)} present operands'
    for d, r in zip(desc, res):
        if r.tensor_name != d['name']: return f'entry for operand {d["name"]} is named {r.tensor_name!r} (order not kept)'
        if d['inbound']:
            if r.producer is not None or not r.consumers or len(r.consumers) != 1: return f'input {d["name"]}: producer={r.producer!r}, {0 if not r.consumers else len(r.consumers)} consumer entries'
            e = r.consumers[0]
        else:
            if r.consumers is not None or r.producer is None: return f'output {d["name"]}: producer/consumers fields {r.producer!r} / {r.consumers!r}'
            e = r.producer
        if e.subgraph_op_id != 7: return f'{d["name"]}: subgraph_op_id {e.subgraph_op_id}'
        ignored = d['pos'] in (c['ign_in'] if d['inbound'] else c['ign_out'])
        const = d['kind'][1] == 'c'
        if d['kind'][0] != 'f' or ignored: want = ['NO_QUANTIZE']
        else: want = table(mode_row(cp, a is not None, w[2], ed, const), d['inbound'], const)
        got = [t.name for t in e.transformations]
        if got != want: return f'{d["name"]} ({d["kind"]}{", ignored" if ignored else ""}): transformations {got}, expected {want}'
        if want == ['NO_QUANTIZE']:
            if e.parameters is not None: return f'{d["name"]}: [NO_QUANTIZE] with parameters'
        else:
            if e.parameters is None: return f'{d["name"]}: {got} without parameters'
            bits = w[0] if (const and c['op'] in WEIGHT_OPS) else a[0]
            if e.parameters.num_bits != bits: return f'{d["name"]}: parameters of {e.parameters.num_bits} bits, configured width {bits}'
            if const and e.parameters.quantized_data is None and stats is not None: stats['note:constant-without-quantized-data'] = stats.get('note:constant-without-quantized-data', 0) + 1
    return None

# ---- the small list helpers, executed natively over a small scope (bounded stand-ins; where pyvc proves the helper this is a cross-check)
def helper_ignored_lists_case(m, c):
    """_add_non_match_tensors_to_ignored_lists: result SETS = positions whose tensor dtype is not kept, plus the already ignored positions
    (only `in` and len() are applied to the result downstream; it has no duplicates)"""
    S = m.schema
    def mk(types):
        ts = []
        for t in types:
            x = S.TensorT(); x.type = t; ts.append(x)
        return ts
    tensors = mk(c['types']); op = S.OperatorT(); op.inputs = np.array(c['inputs'], np.int32); op.outputs = np.array(c['outputs'], np.int32)
    try: ri, ro = m.mmu._add_non_match_tensors_to_ignored_lists(op, tensors, [F32], list(c['ign_in']), list(c['ign_out']))
    except Exception as e: return 'raises ' + describe(e)
    for nme, got, idx, ign in (('inputs', ri, c['inputs'], c['ign_in']), ('outputs', ro, c['outputs'], c['ign_out'])):
        want = {i for i, t in enumerate(idx) if tensors[t].type != F32 or i in ign}       # tensors[-1] for a missing operand: python indexing, as in the code
        if sorted(got) != sorted(want) or len(set(got)) != len(got):
            if all(idx[i] == -1 for i in set(got) ^ want) and len(set(got)) == len(got): continue   # positions of missing operands are skipped downstream whatever their status
            return f'{nme}_to_ignore = {sorted(got)}, expected {sorted(want)}'
    return None

def helper_cases_ignored_lists():
    types = [F32, I32, F32]
    for n_in in (0, 1, 2, 3):
        for ins in itertools.product((-1, 0, 1, 2), repeat=n_in):
            for n_out in (0, 1, 2):
                for outs in itertools.product((0, 1), repeat=n_out):
                    for gi in range(n_in + 1):
                        for ign_in in itertools.combinations(range(n_in), gi):
                            for go in range(n_out + 1):
                                for ign_out in itertools.combinations(range(n_out), go):
                                    yield dict(types=types, inputs=list(ins), outputs=list(outs), ign_in=list(ign_in), ign_out=list(ign_out))

def tiwd_case(m, c):
    """_tensor_indices_with_dtype against its reading: the ascending positions i with subgraph_tensors[tensors[i]].type in codes (python indexing)"""
    S = m.schema; ts = []
    for t in c['types']:
        x = S.TensorT(); x.type = t; ts.append(x)
    try: got = m.mmu._tensor_indices_with_dtype(np.array(c['tensors'], np.int32), ts, list(c['codes']))
    except Exception as e: return 'raises ' + describe(e)
    want = [i for i, t in enumerate(c['tensors']) if c['types'][t] in c['codes']]
    return None if list(got) == want else f'returned {list(got)}, expected {want}'
def tiwd_cases():
    types = [F32, I32, F32]
    for n in (0, 1, 2, 3):
        for ts in itertools.product((-1, 0, 1, 2), repeat=n):
            for codes in ([], [F32], [I32], [F32, I32], [9]): yield dict(tensors=list(ts), types=types, codes=codes)

def split_case(m, c):
    """_split_tensors_by_indices against its reading: operands != -1 split in order by membership of their position in `indices`;
    updated_indices = positions of the selected ones among the operands != -1"""
    S = m.schema; q = m.q; ts = []
    for k in range(3):
        x = S.TensorT(); x.name = f't{k}'.encode(); ts.append(x)
    op = S.OperatorT(); op.inputs = np.array(c['operands'] if c['inbound'] else [0], np.int32); op.outputs = np.array([0] if c['inbound'] else c['operands'], np.int32)
    oi = q.OpInfo(op=op, op_name=q.TFLOperationName.ADD, subgraph_op_index=0, op_quant_config=q.OpQuantizationConfig()); gi = q.GraphInfo(subgraph_tensors=ts, buffers=[])
    try: sel, oth, upd = m.mmu._split_tensors_by_indices(oi, gi, None if c['indices'] is None else list(c['indices']), c['inbound'])
    except Exception as e: return 'raises ' + describe(e)
    idx = c['indices'] or []; present = [(i, t) for i, t in enumerate(c['operands']) if t != -1]
    w_sel = [ts[t] for i, t in present if i in idx]; w_oth = [ts[t] for i, t in present if i not in idx]; w_upd = [k for k, (i, t) in enumerate(present) if i in idx]
    same = lambda a, b: len(a) == len(b) and all(x is y for x, y in zip(a, b))
    if not same(sel, w_sel) or not same(oth, w_oth) or list(upd) != w_upd:
        return f'selected {[x.name for x in sel]}, others {[x.name for x in oth]}, updated_indices {list(upd)}; expected {[x.name for x in w_sel]}, {[x.name for x in w_oth]}, {w_upd}'
    return None
def split_cases():
    for n in (0, 1, 2, 3):
        for ops in itertools.product((-1, 0, 1, 2), repeat=n):
            for g in range(n + 1):
                for idx in itertools.combinations(range(n), g):
                    for inbound in (True, False): yield dict(operands=list(ops), indices=list(idx), inbound=inbound)
            yield dict(operands=list(ops), indices=None, inbound=True)

def merge_case(m, c):
    """_merge_materialized_tensors against its reading: the entries of the non-ignored and of the ignored operands interleaved back into operand order
    (inputs then outputs); ignore lists are positions among the operands != -1 (as returned by _split_tensors_by_indices)"""
    S = m.schema; q = m.q
    ni, no = c['n_in'], c['n_out']; gi, go = list(c['ign_in']), list(c['ign_out'])
    op = S.OperatorT(); op.inputs = np.array(([-1] if c.get('pad') else []) + list(range(ni)), np.int32); op.outputs = np.array(list(range(ni, ni + no)) + ([-1] if c.get('pad') else []), np.int32)
    oi = q.OpInfo(op=op, op_name=q.TFLOperationName.ADD, subgraph_op_index=0, op_quant_config=q.OpQuantizationConfig())
    tp = [('kept-in', i) for i in range(ni) if i not in gi] + [('kept-out', i) for i in range(no) if i not in go]
    ig_in = [('ign-in', i) for i in range(ni) if i in gi]; ig_out = [('ign-out', i) for i in range(no) if i in go]
    want = [(('ign-in', i) if i in gi else ('kept-in', i)) for i in range(ni)] + [(('ign-out', i) if i in go else ('kept-out', i)) for i in range(no)]
    try: got = m.mmu._merge_materialized_tensors(list(tp), ig_in, ig_out, oi, gi, go)
    except Exception as e: return 'raises ' + describe(e)
    return None if list(got) == want else f'merged {list(got)}, expected {want}'
def merge_cases():
    for ni in (0, 1, 2, 3):
        for no in (0, 1, 2):
            for a in range(ni + 1):
                for gi in itertools.combinations(range(ni), a):
                    for b in range(no + 1):
                        for go in itertools.combinations(range(no), b):
                            for pad in (False, True): yield dict(n_in=ni, n_out=no, ign_in=list(gi), ign_out=list(go), pad=pad)

# ================================================================================================ (iii) no-quant ops
def noquant_case(m, c):
    """_get_params_for_no_quant_op on a synthetic op: one entry per operand != -1, inputs then outputs, each [NO_QUANTIZE], parameters None"""
    op, tensors, buffers, desc = synth_op(m, c['inputs'], c['outputs'], 'f')
    pgen = object.__new__(m.pg.ParamsGenerator)
    try: res = pgen._get_params_for_no_quant_op(c.get('op_id', 3), op, tensors)
    except Exception as e: return 'raises ' + describe(e)
    if len(res) != len(desc): return f'{len(res)} entries for {len(desc)} present operands'
    for d, r in zip(desc, res):
        e = (r.consumers or [None])[0] if d['inbound'] else r.producer
        if r.tensor_name != d['name'] or e is None: return f'entry for {d["name"]}: {r!r}'
        if (r.producer is not None) == d['inbound'] or ((r.consumers is not None) != d['inbound']): return f'{d["name"]}: wrong side {r!r}'
        if [t.name for t in e.transformations] != ['NO_QUANTIZE'] or e.parameters is not None or e.subgraph_op_id != c.get('op_id', 3): return f'{d["name"]}: {e!r}'
    return None
def noquant_cases():
    for n_in in (0, 1, 2, 3):
        for ins in itertools.product(IN_KINDS, repeat=n_in):
            for n_out in (0, 1, 2):
                for outs in itertools.product(OUT_KINDS, repeat=n_out): yield dict(inputs=list(ins), outputs=list(outs))

ROUTE_KINDS = ('unknown-code', 'no-quantize-rule', 'quantized')
def routing_case(m, c):
    """generate_quantization_parameters on a synthetic model whose operators are of the given kinds (c['ops']).  The recipe manager and the
    materialize function are recording stubs; everything else is the real method.  Clause: the materialize function is called exactly for the
    'quantized' operators; every operand of the other operators carries [NO_QUANTIZE] without parameters in the returned result."""
    S = m.schema; q = m.q; tfu = m.tfu
    known = next(code for code, nme in tfu.TFL_OP_CODE_TO_NAME.items() if nme == q.TFLOperationName.ADD)
    unknown = next(cd for cd in range(0, 200) if cd not in tfu.TFL_OP_CODE_TO_NAME)
    model = S.ModelT(); sg = S.SubGraphT(); model.subgraphs = [sg]; model.buffers = [S.BufferT()]
    model.operatorCodes = []
    for cd in (known, unknown):
        oc = S.OperatorCodeT(); oc.builtinCode = cd; model.operatorCodes.append(oc)
    sg.tensors = []; sg.operators = []
    def tensor(name):
        t = S.TensorT(); t.name = name.encode(); t.type = F32; t.shape = np.array([1, 2], np.int32); model.buffers.append(S.BufferT()); t.buffer = len(model.buffers) - 1
        sg.tensors.append(t); return len(sg.tensors) - 1
    prev = tensor('g_in'); sg.inputs = np.array([prev], np.int32)
    for k, kind in enumerate(c['ops']):
        o = S.OperatorT(); o.opcodeIndex = 1 if kind == 'unknown-code' else 0
        out = tensor(f'op{k}_out'); o.inputs = np.array([prev, -1], np.int32); o.outputs = np.array([out], np.int32); sg.operators.append(o); prev = out
    sg.outputs = np.array([prev], np.int32)
    pgen = object.__new__(m.pg.ParamsGenerator); pgen.flatbuffer_model = model; pgen.buffer_to_tensors = {}; pgen.model_quant_results = {}
    NOQ = m.am.AlgorithmName.NO_QUANTIZE; ALG = m.am.AlgorithmName.MIN_MAX_UNIFORM_QUANT
    kinds = {f'op{k}_out;': kind for k, kind in enumerate(c['ops'])}
    class RM:
        def need_calibration(s): return False
        def get_quantization_configs(s, op_key, scope):
            if kinds.get(scope) == 'quantized': return ALG, q.OpQuantizationConfig()
            return NOQ, q.OpQuantizationConfig()
    called = []
    def fake_get_func(alg, op_key, mode):
        def mat(op_info, graph_info, qsvs):
            called.append(op_info.subgraph_op_index)
            return [q.TensorTransformationParams(f'op{op_info.subgraph_op_index}_out', producer=q.OpToTensorParams(op_info.subgraph_op_index, [q.QuantTransformation.ADD_DEQUANTIZE], None))]
        return mat
    am_mod = m.pg.algorithm_manager; old = am_mod.get_quantization_func; am_mod.get_quantization_func = fake_get_func
    try: res = pgen.generate_quantization_parameters(RM(), None)
    except Exception as e: return 'raises ' + describe(e)
    finally: am_mod.get_quantization_func = old
    want_called = [k for k, kind in enumerate(c['ops']) if kind == 'quantized']
    if called != want_called: return f'materialize function called for operators {called}, expected exactly the selected ones {want_called}'
    for k, kind in enumerate(c['ops']):
        if kind == 'quantized': continue
        outp = res.get(f'op{k}_out'); inp = res.get('g_in' if k == 0 else f'op{k - 1}_out')
        if outp is None or outp.producer is None or [t.name for t in outp.producer.transformations] != ['NO_QUANTIZE'] or outp.producer.parameters is not None:
            return f'operator {k} ({kind}): output entry {outp!r}'
        mine = [e for e in (inp.consumers or []) if e.subgraph_op_id == k] if inp is not None else []
        if len(mine) != 1 or [t.name for t in mine[0].transformations] != ['NO_QUANTIZE'] or mine[0].parameters is not None:
            return f'operator {k} ({kind}): input entry {mine!r}'
    return None
def routing_cases(max_ops=3):
    for n in range(1, max_ops + 1):
        for ks in itertools.product(ROUTE_KINDS, repeat=n): yield dict(ops=list(ks))

# ================================================================================================ (iv) dtype algebra of the instruction list
PRODUCERS = (None, ['NOQ', None], ['DQ', 'A'], ['DQ', 'B'])
CONSUMER_KINDS = (['NOQ', None], ['Q', 'A'], ['Q', 'B'], ['QT', 'A'], ['QT', 'B'], ['DQ', 'A'])
CHAINS = {'NOQ': ['NO_QUANTIZE'], 'Q': ['ADD_QUANTIZE'], 'QT': ['QUANTIZE_TENSOR'], 'DQ': ['ADD_DEQUANTIZE']}
def algebra_cases(max_consumers=4):
    """QUANTIZE_TENSOR / ADD_DEQUANTIZE as a CONSUMER's transformation only occur for constant tensors (mode table: is_constant), which have no producer"""
    for prod in PRODUCERS:
        kinds = CONSUMER_KINDS if prod is None else CONSUMER_KINDS[:3]
        for k in range(1, max_consumers + 1):
            for assign in itertools.product(kinds, repeat=k):
                for dup in (False, True):
                    for is_output in (False, True):
                        yield dict(producer=prod, consumers=[list(a) for a in assign], dup=dup, graph_output=is_output)

def _params(m):
    q = m.q
    return {'A': q.UniformQuantParams(8, None, np.array([0.1]), np.array([0])), 'B': q.UniformQuantParams(8, None, np.array([0.2]), np.array([3]), symmetric=False)}

def build_algebra(m, c):
    """-> (generator with the tensor's graph info, TensorTransformationParams, consumer entries, producer entry, P)"""
    q = m.q; P = _params(m); QT = q.QuantTransformation
    mk = lambda oid, kind, pk: q.OpToTensorParams(oid, [QT[t] for t in CHAINS[kind]], None if pk is None else P[pk])
    cons = [(i + 1, kd, pk) for i, (kd, pk) in enumerate(c['consumers'])]
    if c['dup']: cons = cons + [cons[0]]                      # repeated operand: the same operator listed twice (MUL(x, x))
    op_ids = sorted({x[0] for x in cons})
    has_prod = c['producer'] is not None
    g = m.tig.TransformationInstructionsGenerator()
    g._tensor_name_to_graph_info = {'t': g.TensorGraphInfo(5, 0, 0 if has_prod else -1, ([-1] if c['graph_output'] else []) + op_ids)}
    entries = [mk(*x) for x in cons] + ([mk(-1, 'NOQ', None)] if c['graph_output'] else [])
    pr = mk(0, *c['producer']) if has_prod else None
    return g, q.TensorTransformationParams('t', pr, entries), entries, pr, P

def upstream_guard(m, c, tp):
    """the REAL ParamsGenerator._check_buffer_sharing on the REAL buffer_to_tensors of a synthetic model in which the tensor occurs exactly as
    in the case (producer output, one input occurrence per consumer entry).  True = the case passes the guard and reaches the generator."""
    S = m.schema; model = S.ModelT(); sg = S.SubGraphT(); model.subgraphs = [sg]; model.buffers = [S.BufferT(), S.BufferT()]
    t = S.TensorT(); t.name = b't'; t.buffer = 1; t.type = F32; sg.tensors = [t]; sg.operators = []
    def op(ins, outs):
        o = S.OperatorT(); o.inputs = np.array(ins, np.int32); o.outputs = np.array(outs, np.int32); sg.operators.append(o)
    if c['producer'] is not None: op([], [0])
    for i in range(len(c['consumers'])): op([0, 0] if (c['dup'] and i == 0) else [0], [])
    pgen = object.__new__(m.pg.ParamsGenerator); pgen.flatbuffer_model = model
    pgen.buffer_to_tensors = m.tfu.buffer_to_tensors(model); pgen.model_quant_results = {'t': tp}
    try: pgen._check_buffer_sharing(); return True
    except RuntimeError: return False

def interpret(m, insts):
    """abstract interpretation of an instruction list with the performer's rules: instructions are applied in order, NO_QUANTIZE is skipped;
    an instruction acts on the original tensor T unless an earlier INSERTED op shares a consumer with it, then on that op's output
    (TransformationPerformer._update_instructions); an insertion rewires those of its consumers that currently read the tensor it acts on.
    -> (class of each tensor, tensor read by each consumer id, per-consumer count of rewiring instructions)"""
    QT = m.q.QuantTransformation
    cls = {'T': 'float'}; cur = {}; added = []; rewires = {}; ops = []
    for k, ins in enumerate(insts):
        tgt = 'T'
        for cs, nm in added:
            if set(ins.consumers) & cs: tgt = nm
        tr = ins.transformation
        if tr == QT.NO_QUANTIZE: continue
        qc = ('q', id(ins.parameters))
        if tr == QT.QUANTIZE_TENSOR: cls[tgt] = qc
        elif tr in (QT.ADD_DEQUANTIZE, QT.ADD_QUANTIZE):
            nm = f'N{k}'
            if tr == QT.ADD_DEQUANTIZE: cls[tgt] = qc; cls[nm] = 'float'
            else: cls[nm] = qc
            for cid in set(ins.consumers):
                rewires[cid] = rewires.get(cid, 0) + 1
                if cur.get(cid, 'T') == tgt: cur[cid] = nm
            added.append((set(ins.consumers), nm)); ops.append((tr.name, tgt, nm, qc))
        else: cls[tgt] = ('other', tr.name)
    return cls, cur, rewires, ops

def algebra_case(m, c, stats=None, gen=None):
    """None = holds | text.  Clause (C03 iv) for one tensor: unless the real generator refuses (ValueError) or the real upstream guard rejects the
    parameters (RuntimeError of _check_buffer_sharing), the emitted list is InstValid + laminar, gives every consumer the class its own
    transformation demands, leaves T in the producer's class and lists every consumer in exactly one rewiring instruction iff it needs one."""
    q = m.q; QT = q.QuantTransformation
    g, tp, entries, pr, P = build_algebra(m, c)
    info = g._tensor_name_to_graph_info['t']; info_consumers = list(info.consumers)
    tp_guard = copy.deepcopy(tp)
    def note(k):
        if stats is not None: stats[k] = stats.get(k, 0) + 1
    try: insts = g._quant_params_to_transformation_insts(tp).instructions
    except ValueError as e:
        note('raise:ValueError:list.remove' if 'list.remove' in str(e) else 'raise:ValueError:validity-check'); return None
    except Exception as e: return 'raises ' + describe(e)
    pn = lambda p: None if p is None else next((k for k, v in P.items() if v is p), '?')
    shown = [(i.transformation.name, list(i.consumers), pn(i.parameters)) for i in insts]
    bad = None
    for i in insts:                                                    # InstValid
        if i.tensor_id != 5 or i.producer != info.producer or not set(i.consumers) <= set(info_consumers):
            bad = f'instruction {i.transformation.name}{list(i.consumers)} is not about tensor 5 / producer {info.producer} / a subset of its consumers {info_consumers}'
    for a in range(len(insts)):                                        # laminar
        for b in range(a + 1, len(insts)):
            x, y = set(insts[a].consumers), set(insts[b].consumers)
            if not (y <= x or not (x & y)): bad = bad or f'not laminar: consumers {sorted(y)} of instruction {b} partially overlap {sorted(x)} of instruction {a}'
    cls, cur, rewires, ops = interpret(m, insts)
    def demanded(e):
        last = e.transformations[-1]
        return 'float' if last in (QT.NO_QUANTIZE, QT.ADD_DEQUANTIZE) else ('q', id(e.parameters))
    if pr is not None: want_t = 'float' if pr.transformations[0] == QT.NO_QUANTIZE else ('q', id(pr.parameters))
    else:
        qs = [('q', id(e.parameters)) for e in entries if e.transformations[0] in (QT.QUANTIZE_TENSOR, QT.ADD_DEQUANTIZE)]
        want_t = qs[0] if qs else 'float'
    cname = lambda x: 'float' if x == 'float' else f'q({next((k for k, v in P.items() if id(v) == x[1]), "?")})' if x[0] == 'q' else str(x)
    if cls['T'] != want_t: bad = bad or f'tensor left in class {cname(cls["T"])}, its producer side requires {cname(want_t)}'
    for e in entries:
        got = cls[cur.get(e.subgraph_op_id, 'T')]
        if got != demanded(e): bad = bad or f'consumer {e.subgraph_op_id} reads class {cname(got)}, its own transformation {[t.name for t in e.transformations]} demands {cname(demanded(e))}'
        need = 0 if demanded(e) == want_t else 1
        if rewires.get(e.subgraph_op_id, 0) != need: bad = bad or f'consumer {e.subgraph_op_id} is listed in {rewires.get(e.subgraph_op_id, 0)} rewiring instruction(s), expected {need}'
    for kind, src, dst, qc in ops:                                     # inserted ops convert between the classes of their two neighbours
        if kind == 'ADD_DEQUANTIZE' and not (cls[src] == qc and cls[dst] == 'float'): bad = bad or f'inserted DEQUANTIZE reads class {cname(cls[src])} and writes {cname(cls[dst])} (must be {cname(qc)} -> float)'
        if kind == 'ADD_QUANTIZE' and not (cls[dst] == qc and cls[src] != qc): bad = bad or f'inserted QUANTIZE reads class {cname(cls[src])} and writes {cname(cls[dst])} (must write {cname(qc)} from another class)'
    if bad is None: note('well-formed'); return None
    if not upstream_guard(m, c, tp_guard): note('rejected-upstream:_check_buffer_sharing'); return None
    return f'{bad}; instructions {shown}'

# ================================================================================================ (vi) frame of quantize_tensor
def frame_cases():
    for target in (0, 1, 2, 3):                      # tensor 0: buffer 0 (no own buffer); 1: constant with buffer 2; 2: activation with empty buffer 3; 3: constant sharing nothing, odd length
        for kind in ('u4', 'u8', 'u16', 'u32', 'u8-nodata', 'u8-qdim', 'nl16', 'nl16-nodata'):
            yield dict(target=target, params=kind)
def _frame_params(m, kind, n):
    q = m.q
    if kind.startswith('nl'): return q.NonLinearQuantParams(16, None if kind.endswith('nodata') else np.arange(n, dtype=np.float16))
    bits = int(kind[1:].split('-')[0]); dt = {4: np.int8, 8: np.int8, 16: np.int16, 32: np.int32}[bits]
    data = None if kind.endswith('nodata') else (np.arange(n) % 7 - 3).astype(dt)
    return q.UniformQuantParams(bits, 0 if kind.endswith('qdim') else None, np.array([0.5, 0.25], np.float32), np.array([0, 1], np.int64), True, data)
def snapshot(model):
    sg = model.subgraphs[0]
    def qz(t): return None if t.quantization is None else (None if t.quantization.scale is None else [float(x) for x in t.quantization.scale], None if t.quantization.zeroPoint is None else [int(x) for x in t.quantization.zeroPoint], t.quantization.quantizedDimension)
    return dict(buffers=[None if b.data is None else bytes(np.asarray(b.data, np.uint8).tobytes()) for b in model.buffers],
                tensors=[(t.name, int(t.type), int(t.buffer), [int(x) for x in t.shape], qz(t)) for t in sg.tensors],
                ops=[([int(x) for x in o.inputs], [int(x) for x in o.outputs], int(o.opcodeIndex)) for o in sg.operators],
                io=([int(x) for x in sg.inputs], [int(x) for x in sg.outputs]), codes=[int(c.builtinCode) for c in model.operatorCodes],
                ids=([id(b) for b in model.buffers], [id(t) for t in sg.tensors], [id(o) for o in sg.operators]))
def frame_model(m):
    S = m.schema; model = S.ModelT(); sg = S.SubGraphT(); model.subgraphs = [sg]
    def buf(data): b = S.BufferT(); b.data = None if data is None else np.frombuffer(np.asarray(data).tobytes(), np.uint8); return b
    model.buffers = [buf(None), buf(np.arange(3, dtype=np.float32)), buf(np.arange(6, dtype=np.float32) / 3), buf(None), buf(np.arange(5, dtype=np.float32) - 2), buf(np.arange(4, dtype=np.float32))]
    def tensor(name, shape, b): t = S.TensorT(); t.name = name; t.shape = np.array(shape, np.int32); t.type = F32; t.buffer = b; return t
    sg.tensors = [tensor(b'act0', [1, 6], 0), tensor(b'w', [2, 3], 2), tensor(b'act1', [1, 6], 3), tensor(b'odd', [5], 4), tensor(b'other_const', [4], 5), tensor(b'other_const2', [3], 1)]
    o = S.OperatorT(); o.inputs = np.array([0, 1, 3], np.int32); o.outputs = np.array([2], np.int32); o.opcodeIndex = 0
    o2 = S.OperatorT(); o2.inputs = np.array([2, 4, 5], np.int32); o2.outputs = np.array([0], np.int32); o2.opcodeIndex = 0
    sg.operators = [o, o2]; sg.inputs = np.array([0], np.int32); sg.outputs = np.array([2], np.int32)
    oc = S.OperatorCodeT(); oc.builtinCode = 0; model.operatorCodes = [oc]
    return model
def frame_case(m, c):
    """the real quantize_tensor on real flatbuffer objects: nothing but the target tensor's type / quantization and (iff tensor.buffer != 0 and
    quantized data are given) the data of buffers[tensor.buffer] changes; no object is replaced"""
    model = frame_model(m); sg = model.subgraphs[0]; T = c['target']; t = sg.tensors[T]
    n = int(np.prod(t.shape)); p = _frame_params(m, c['params'], n)
    before = snapshot(model)
    ti = m.tu.TransformationInput(T, model.operatorCodes, model.buffers, sg, -1, [0], p)
    try: info = m.qten.quantize_tensor(ti)
    except Exception as e: return 'raises ' + describe(e)
    after = snapshot(model)
    if (info.op_id, info.num_ops_added, info.output_tensor_id) != (0, 0, T): return f'returned {info}'
    for key in ('ops', 'io', 'codes', 'ids'):
        if before[key] != after[key]: return f'{key} changed: {before[key]} -> {after[key]}'
    for k, (a, b) in enumerate(zip(before['tensors'], after['tensors'])):
        if k != T and a != b: return f'tensor {k} (not the target {T}) changed: {a} -> {b}'
        if k == T and (a[0], a[2], a[3]) != (b[0], b[2], b[3]): return f'name / buffer / shape of the target changed: {a} -> {b}'
    may = t.buffer if (t.buffer != 0 and p.quantized_data is not None) else None
    for k, (a, b) in enumerate(zip(before['buffers'], after['buffers'])):
        if k != may and a != b: return f'buffer {k} changed (target tensor {T} owns buffer {t.buffer}; writable: {may})'
    if may is not None and before['buffers'][may] == after['buffers'][may]: return f'buffer {may} of the target was not rewritten'
    want_type = {'u4': 17, 'u8': 9, 'u16': 7, 'u32': 2, 'nl': 1}[c['params'][:2] if c['params'].startswith('nl') else c['params'].split('-')[0]]
    if after['tensors'][T][1] != want_type: return f'target dtype {after["tensors"][T][1]}, expected {want_type}'
    return None

def performer_skips_no_quantize(m):
    """finite fact about the REAL TransformationPerformer instance: NO_QUANTIZE is in neither application pass and has no registered transformation,
    and _apply_transformations on a list of NO_QUANTIZE instructions leaves a model untouched"""
    QT = m.q.QuantTransformation; p = m.perf.TransformationPerformer()
    if QT.NO_QUANTIZE in p._op_insertion_transformations or QT.NO_QUANTIZE in p._op_replacement_transformations: return 'NO_QUANTIZE is applied by a performer pass'
    if QT.NO_QUANTIZE in p._transformation_registration: return 'NO_QUANTIZE has a registered transformation'
    model = frame_model(m); before = snapshot(model)
    insts = m.q.TensorTransformationInsts('w', 0, [m.q.TransformationInst(QT.NO_QUANTIZE, 1, -1, [0, 1], None), m.q.TransformationInst(QT.NO_QUANTIZE, 1, -1, [-1], None)])
    try: p.transform_graph({'w': insts}, model)
    except Exception as e: return 'raises ' + describe(e)
    return None if snapshot(model) == before else 'transform_graph with NO_QUANTIZE instructions changed the model'

# ================================================================================================ (vii) fused bias / weights of the conv-like operators
BIAS_OPS = {'FULLY_CONNECTED': dict(w=(4, 6), x=(1, 6), y=(1, 4), nb=4), 'CONV_2D': dict(w=(3, 2, 2, 5), x=(1, 4, 4, 5), y=(1, 3, 3, 3), nb=3),
            'DEPTHWISE_CONV_2D': dict(w=(1, 2, 2, 4), x=(1, 4, 4, 4), y=(1, 3, 3, 4), nb=4)}
BIAS_MODES = {'FULLY_CONNECTED': ('SRQ8', 'SRQ16', 'DRQ', 'WO'), 'CONV_2D': ('SRQ8', 'SRQ16', 'DRQ', 'WO8'), 'DEPTHWISE_CONV_2D': ('SRQ8', 'SRQ16', 'DRQ', 'WO8')}
MODES['WO8'] = (None, (8, False, 'CHANNELWISE'), 'FLOAT', True)
def bias_cases():
    for op, modes in BIAS_MODES.items():
        for mode in modes:
            for bias in (True, False): yield dict(op=op, mode=mode, bias=bias)
def bias_case(m, c):
    """naive_min_max_quantize.materialize_fc_conv on a real synthetic op (property text): SRQ -> activations ADD_QUANTIZE / ADD_DEQUANTIZE of the activation
    width, weight QUANTIZE_TENSOR, bias QUANTIZE_TENSOR of 32 bits (64 for 16-bit activations); DRQ -> float activations, integer weight, FLOAT bias;
    weight-only -> float activations, weight behind ADD_DEQUANTIZE, FLOAT bias"""
    S = m.schema; q = m.q; sh = BIAS_OPS[c['op']]; rng = np.random.RandomState(0)
    tensors, buffers = [], [S.BufferT()]
    def add(name, shape, data):
        t = S.TensorT(); t.name = name.encode(); t.shape = np.array(shape, np.int32); t.type = F32; b = S.BufferT()
        if data is not None: b.data = np.frombuffer(data.astype(np.float32).tobytes(), np.uint8)
        buffers.append(b); t.buffer = len(buffers) - 1; tensors.append(t); return len(tensors) - 1
    x = add('x', sh['x'], None); w = add('w', sh['w'], rng.rand(*sh['w']) - 0.5); y = add('y', sh['y'], None)
    b = add('b', (sh['nb'],), np.linspace(-1, 1, sh['nb'])) if c['bias'] else -1
    op = S.OperatorT(); op.inputs = np.array([x, w, b], np.int32); op.outputs = np.array([y], np.int32)
    cfg = mode_cfg(m, c['mode']); opn = q.TFLOperationName(c['op'])
    try: m.mmu.check_if_valid_op_config(opn, cfg, m.dp.DEFAULT_CONFIG_CHECK_POLICY)
    except ValueError as e: return f'scope error: ({c["op"]}, {c["mode"]}) is not admitted by the shipped policy: {e}'
    oi = q.OpInfo(op=op, op_name=opn, subgraph_op_index=2, op_quant_config=cfg); gi = q.GraphInfo(subgraph_tensors=tensors, buffers=buffers)
    qsv = {n: {'min': np.array([[-1.5]], np.float32), 'max': np.array([[2.5]], np.float32)} for n in ('x', 'y')}
    try: res = m.nmm.materialize_fc_conv(oi, gi, qsv)
    except Exception as e: return 'raises ' + describe(e)
    names = ['x', 'w'] + (['b'] if c['bias'] else []) + ['y']
    if [r.tensor_name for r in res] != names: return f'entries {[r.tensor_name for r in res]}, expected {names}'
    a, wc, cp, ed = MODES[c['mode']]; srq = cp == 'INTEGER' and a is not None
    want = {'x': (['ADD_QUANTIZE'], a and a[0]) if srq else (['NO_QUANTIZE'], None), 'y': (['ADD_DEQUANTIZE'], a and a[0]) if srq else (['NO_QUANTIZE'], None),
            'w': (['QUANTIZE_TENSOR'], wc[0]) if cp == 'INTEGER' else (['ADD_DEQUANTIZE'], wc[0]),
            'b': (['QUANTIZE_TENSOR'], 64 if (a and a[0] == 16) else 32) if srq else (['NO_QUANTIZE'], None)}
    for r in res:
        e = r.producer if r.tensor_name == 'y' else r.consumers[0]; tr, bits = want[r.tensor_name]
        if [t.name for t in e.transformations] != tr: return f'{r.tensor_name}: {[t.name for t in e.transformations]}, expected {tr}'
        if (e.parameters is None) != (bits is None): return f'{r.tensor_name}: parameters {"missing" if bits else "present on a float operand"}'
        if bits is not None and e.parameters.num_bits != bits: return f'{r.tensor_name}: {e.parameters.num_bits}-bit parameters, expected {bits}'
    return None

# ================================================================================================ (viii) float casting (fp16 weight-only)
FP16_OPS = {'FULLY_CONNECTED': (0, 1, 2, None), 'CONV_2D': (0, 1, 2, None), 'DEPTHWISE_CONV_2D': (0, 1, 2, None), 'EMBEDDING_LOOKUP': (0, 1, None, None), 'CONV_2D_TRANSPOSE': (2, 1, 3, 0)}   # operand positions: input, weight, bias, int32 shape operand
def fp16_cases():
    for op, (xi, wi, bi, si) in FP16_OPS.items():
        for bias in ((True, False) if bi is not None else (False,)): yield dict(op=op, bias=bias)
def fp16_case(m, c):
    """the registered float_casting materialize function of the operator on a real synthetic op (property text: float16-cast operators read float activations
    and receive their weights through a DEQUANTIZE of a float16 constant): weight -> [ADD_DEQUANTIZE] with 16-bit non-linear parameters holding the float16 data;
    every other operand that gets an entry -> [NO_QUANTIZE] without parameters; the activation input and the output do get an entry"""
    S = m.schema; q = m.q; xi, wi, bi, si = FP16_OPS[c['op']]
    tensors, buffers = [], [S.BufferT()]
    def add(name, shape, data, ttype=F32):
        t = S.TensorT(); t.name = name.encode(); t.shape = np.array(shape, np.int32); t.type = ttype; b = S.BufferT()
        if data is not None: b.data = np.frombuffer(np.asarray(data).tobytes(), np.uint8)
        buffers.append(b); t.buffer = len(buffers) - 1; tensors.append(t); return len(tensors) - 1
    n_in = 1 + max(i for i in (xi, wi, bi, si) if i is not None); ins = [-1] * n_in
    W = (np.arange(24, dtype=np.float32).reshape(4, 6) - 11.5) / 7
    ins[xi] = add('x', (1, 6), None, I32 if c['op'] == 'EMBEDDING_LOOKUP' else F32); ins[wi] = add('w', (4, 6), W)
    if bi is not None and c['bias']: ins[bi] = add('b', (4,), np.linspace(-1, 1, 4).astype(np.float32))
    if si is not None: ins[si] = add('shape', (4,), np.array([1, 2, 2, 4], np.int32), I32)
    y = add('y', (1, 4), None)
    op = S.OperatorT(); op.inputs = np.array(ins, np.int32); op.outputs = np.array([y], np.int32)
    cfg = q.OpQuantizationConfig(weight_tensor_config=q.TensorQuantizationConfig(16, dtype=q.TensorDataType.FLOAT), compute_precision=q.ComputePrecision.FLOAT, explicit_dequantize=True)
    A = m.am.AlgorithmName.FLOAT_CASTING; opn = q.TFLOperationName(c['op'])
    try:
        m.am.check_op_quantization_config(A, opn, cfg)
        f = m.am.get_quantization_func(A, opn, q.QuantizeMode.MATERIALIZE)
        res = f(q.OpInfo(op=op, op_name=opn, subgraph_op_index=4, op_quant_config=cfg), q.GraphInfo(subgraph_tensors=tensors, buffers=buffers), {})
    except Exception as e: return 'raises ' + describe(e)
    by = {r.tensor_name: r for r in res}
    if len(by) != len(res) or not {'x', 'w', 'y'} <= set(by) or (c['bias'] and 'b' not in by): return f'entries {[r.tensor_name for r in res]}'
    for nme, r in by.items():
        e = r.producer if nme == 'y' else (r.consumers or [None])[0]
        if e is None or e.subgraph_op_id != 4 or (nme == 'y') != (r.consumers is None): return f'{nme}: {r!r}'[:200]
        tr = [t.name for t in e.transformations]
        if nme == 'w':
            p = e.parameters
            if tr != ['ADD_DEQUANTIZE'] or not isinstance(p, q.NonLinearQuantParams) or p.num_bits != 16 or p.quantized_data is None or p.quantized_data.dtype != np.float16 or not np.array_equal(p.quantized_data, W.astype(np.float16)):
                return f'weight: {tr} with {type(p).__name__}'
        elif tr != ['NO_QUANTIZE'] or e.parameters is not None: return f'{nme}: {tr} parameters={e.parameters!r}'[:200]
    return None

# ================================================================================================ dispatch for replay
FAMILY = {'tiwd': tiwd_case, 'split': split_case, 'merge': merge_case, 'mode': mode_case, 'admitted': admitted_case, 'materialize': materialize_case, 'ignored-lists': helper_ignored_lists_case, 'noquant': noquant_case,
          'routing': routing_case, 'algebra': algebra_case, 'frame': frame_case, 'bias': bias_case, 'fp16': fp16_case}
def run_case(m, family, case):
    """-> (fails, observed text)"""
    try:
        if family == 'performer': f = performer_skips_no_quantize(m)
        else: f = FAMILY[family](m, case)
    except Inspected as e: return True, f'opaque integer inspected: {e}'
    except Exception as e: return True, 'replay raised ' + describe(e)
    return (f is not None), (f or 'clause holds for this input')
