"""C18 native side: replays of counter-models on the real code, the bounded search used as fallback for add_new_signature_results,
and the bounded stand-in through the public API (Quantizer.validate / model_validator.compare_model on fixture models) in which
every reported number is recomputed from this module's OWN interpreter runs, dequantisation and metric formulas.
Nothing here is counted as a proved obligation."""
import importlib, itertools, os, sys, types, math
import numpy as np
from vlib import core

MODELS = os.path.join(core.PKG, 'tests', 'models'); RECIPES = os.path.join(core.PKG, 'recipes')
SIG = 'sig'

# ------------------------------------------------------------------------------------------------ add_new_signature_results
_k = [0]
def load_validator(src_override=None):
    """the real model_validator module text executed in a fresh module (so that its `utils` global can be replaced by a stub)"""
    core.stub_package(); _k[0] += 1
    m = types.ModuleType(f'c18_mv_{_k[0]}'); m.__file__ = os.path.join(core.PKG, 'model_validator.py'); sys.modules[m.__name__] = m
    exec(compile(src_override if src_override is not None else core.read_source('model_validator.py'), m.__file__, 'exec'), m.__dict__); return m

class UtilsStub:
    """stands for tfl_interpreter_utils inside add_new_signature_results: the name lists are given"""
    DEFAULT_SIGNATURE_KEY = 'serving_default'
    def __init__(self, ins, outs, consts): self.ins, self.outs, self.consts = list(ins), list(outs), list(consts)
    def get_input_tensor_names(self, model, key=None): return list(self.ins)
    def get_output_tensor_names(self, model, key=None): return list(self.outs)
    def get_constant_tensor_names(self, model, subgraph_index=0, min_constant_size=1): return list(self.consts)
    def create_tfl_interpreter(self, *a, **k): return object()
    def get_signature_main_subgraph_index(self, interp, key=None): return 0

def check_add(mv, keys, ins, outs, consts, present=False):
    """runs the real add_new_signature_results; returns None when the outcome is the one the contract prescribes, else a description"""
    names = lambda xs: [f't{n}' for n in xs]
    C = {f't{k}': np.float64(0.5 + k) for k in keys}; C0 = dict(C)
    saved = mv.utils; mv.utils = UtilsStub(names(ins), names(outs), names(consts))
    try:
        cr = mv.ComparisonResult(b'ref', b'targ'); old = object()
        if present: cr._comparison_results[SIG] = old
        before = dict(cr._comparison_results)
        seq = list(ins) + list(outs) + list(consts); pre = all(n in keys for n in seq) and len(set(seq)) == len(seq)
        want = 'ValueError' if present else ('return' if pre else 'KeyError')
        try: cr.add_new_signature_results('mse', C, SIG); got = 'return'
        except (ValueError, KeyError) as e: got = type(e).__name__
        if got != want: return f'outcome {got}, contract says {want}'
        if C != C0: return 'the argument dict was mutated'
        if got != 'return':
            return None if cr._comparison_results == before else 'something was stored although the call raised'
        s = cr._comparison_results[SIG]
        groups = dict(input_tensors=set(names(ins)), output_tensors=set(names(outs)), constant_tensors=set(names(consts)))
        groups['intermediate_tensors'] = set(C) - set().union(*groups.values())
        for g, wantset in groups.items():
            d = getattr(s, g)
            if set(d) != wantset: return f'{g} holds {sorted(d)}, expected {sorted(wantset)}'
            for n, v in d.items():
                if type(v) is not float or v != float(C[n]): return f'{g}[{n}] = {v!r}, expected float({C[n]!r})'
        if s.error_metric != 'mse': return 'error metric not recorded'
        return None
    finally: mv.utils = saved

def search_add(mv, universe=3, max_len=2, stop_at_first=True):
    """all key sets over `universe` names x all name lists (length <= max_len) for inputs / outputs / constants x signature present or not"""
    U = range(universe); cases = 0; seqs = [s for L in range(max_len + 1) for s in itertools.product(U, repeat=L)]
    for r in range(universe + 1):
        for keys in itertools.combinations(U, r):
            for ins, outs, consts in itertools.product(seqs, repeat=3):
                for present in (False, True):
                    cases += 1; bad = check_add(mv, set(keys), ins, outs, consts, present)
                    if bad: return dict(confirmed=True, cases=cases, inputs=dict(keys=list(keys), inputs=list(ins), outputs=list(outs), constants=list(consts), signature_present=present), observed=bad)
    return dict(confirmed=False, cases=cases)

# ------------------------------------------------------------------------------------------------ own interpreter runs / own metrics
def own_metric(name, targ, ref):
    a = np.asarray(targ, np.float32).astype(np.float64).ravel(); b = np.asarray(ref, np.float32).astype(np.float64).ravel()
    if a.size != b.size: raise ValueError('size')
    if a.size == 0: return 0.0
    if name == 'mse': return float(np.mean((a - b) ** 2))
    return float(np.median(np.abs(a - b) / (np.abs(b) + 1e-6)))

def own_dequant(data, qp):
    scales = np.asarray(qp['scales'], np.float64)
    if scales.size == 0: return data
    zps = np.asarray(qp['zero_points'], np.int64); q = np.asarray(data).astype(np.int64)
    if scales.size > 1:
        shp = [1] * q.ndim; shp[qp['quantized_dimension']] = scales.size; scales = scales.reshape(shp); zps = zps.reshape(shp)
    return (q - zps) * scales

def own_quantize_input(x, detail):
    qp = detail['quantization_parameters']
    if len(qp['scales']) == 0: return x
    info = np.iinfo(detail['dtype']); q = np.rint(np.asarray(x, np.float64) / np.float64(qp['scales'][0]) + int(qp['zero_points'][0]))
    return np.clip(q, info.min, info.max).astype(detail['dtype'])

def own_reads(model, key, sample, reference_kernel=False):
    """{tensor name: (dtype, dequantised content)} of the signature's main subgraph after one invocation, by THIS module's interpreter"""
    from ai_edge_litert import interpreter as tfl
    res = tfl.OpResolverType.BUILTIN_REF if reference_kernel else tfl.OpResolverType.BUILTIN_WITHOUT_DEFAULT_DELEGATES
    it = tfl.Interpreter(model_content=bytes(model), experimental_op_resolver_type=res, experimental_preserve_all_tensors=True); it.allocate_tensors()
    runner = it.get_signature_runner(key)
    # inputs are fed through the library's own invocation helper (input quantisation is C17's contract; a re-implementation differs from it
    # in the last bit on rounding ties, which would only blur the comparison of what C18 is about: the reads and the metric)
    from ai_edge_quantizer.utils import tfl_interpreter_utils
    tfl_interpreter_utils.invoke_interpreter_signature(it, sample, key); sg = runner._subgraph_index; out = {}
    for d in it.get_tensor_details(sg):
        if not d['name']: continue
        if d['dtype'] == np.object_: out[d['name']] = (np.object_, None); continue
        out[d['name']] = (d['dtype'], own_dequant(it.get_tensor(d['index'], sg), d['quantization_parameters']))
    ins = [d['name'] for d in runner.get_input_details().values()]; outs = [d['name'] for d in runner.get_output_details().values()]
    return out, ins, outs, sg

def flatbuffer_names(model, sg):
    from ai_edge_litert import schema_py_generated as S
    m = S.ModelT.InitFromPackedBuf(bytearray(model), 0)
    return {(t.name.decode() if isinstance(t.name, bytes) else t.name) for t in m.subgraphs[sg].tensors}

def own_constants(model, sg):
    """names of the tensors of subgraph sg that own a non-empty buffer in the flatbuffer (read with the schema classes, no interpreter)"""
    from ai_edge_litert import schema_py_generated as S
    m = S.ModelT.InitFromPackedBuf(bytearray(model), 0); names = []
    for t in m.subgraphs[sg].tensors:
        b = m.buffers[t.buffer]; has = (b.data is not None and len(b.data) > 0) or (getattr(b, 'size', 0) or 0) > 0
        shape = list(t.shape) if t.shape is not None else []
        if has and t.type != S.TensorType.STRING and int(np.prod(shape)) >= 1: names.append(t.name.decode() if isinstance(t.name, bytes) else t.name)
    return names

def expected_report(ref_model, targ_model, test_data, metric, reference_kernel=False):
    """{signature: ('return', groups) | ('KeyError', why)} recomputed from own runs"""
    exp = {}; temps = set()
    for key, samples in test_data.items():
        vals = {}; ins = outs = None; sg = 0
        for sample in samples:
            R, ins, outs, sg = own_reads(ref_model, key, sample, reference_kernel); T, _, _, _ = own_reads(targ_model, key, sample, reference_kernel)
            for n, (dt, data) in R.items():
                if dt == np.object_ or n not in T: continue
                vals.setdefault(n, []).append(own_metric(metric, T[n][1], data))
        agg = {n: float(np.mean(v)) for n, v in vals.items()}
        if ins is None:       # no sample: the interpreter is never run
            exp[key] = ('unspecified', None); continue
        temps |= set(agg) - flatbuffer_names(ref_model, sg)          # tensors the runtime added (kernel temporaries): contents are not reproducible
        consts = own_constants(ref_model, sg); seq = list(ins) + list(outs) + list(consts)
        if not (all(n in agg for n in seq) and len(set(seq)) == len(seq)): exp[key] = ('KeyError', [n for n in seq if n not in agg or seq.count(n) > 1]); continue
        groups = dict(input_tensors={n: agg[n] for n in ins}, output_tensors={n: agg[n] for n in outs}, constant_tensors={n: agg[n] for n in consts})
        groups['intermediate_tensors'] = {n: v for n, v in agg.items() if n not in seq}
        exp[key] = ('return', groups)
    return exp, temps

def compare_reports(result, exp, rtol=1e-4, atol=1e-9, skip_values=()):
    """None or a description of the first difference between the ComparisonResult and the expected report"""
    if sorted(result.available_signature_keys()) != sorted(k for k, v in exp.items() if v[0] == 'return'): return f'signatures {result.available_signature_keys()} vs {sorted(exp)}'
    for key, (kind, groups) in exp.items():
        s = result.get_signature_comparison_result(key); seen = {}
        for g, want in groups.items():
            got = getattr(s, g)
            if set(got) != set(want): return f'{key}.{g}: names {sorted(set(got) ^ set(want))} differ'
            for n, v in got.items():
                if n in seen: return f'{key}: {n} filed under {seen[n]} and {g}'
                seen[n] = g
                if n in skip_values: continue
                if not (math.isclose(v, want[n], rel_tol=rtol, abs_tol=atol) or (math.isnan(v) and math.isnan(want[n]))): return f'{key}.{g}[{n}] = {v!r}, recomputed {want[n]!r}'
    return None

def quantized_variants(model_path, recipes, num_calib=2):
    """(recipe name, quantized model bytes) produced by the REAL quantizer; recipes that do not apply to the model are skipped"""
    from ai_edge_quantizer import quantizer
    from ai_edge_quantizer.utils import test_utils
    out = []
    for rc in recipes:
        try:
            q = quantizer.Quantizer(model_path, os.path.join(RECIPES, rc)); cal = None
            if q.need_calibration:
                for key, data in test_utils.create_random_normal_input_data(model_path, num_samples=num_calib).items(): cal = q.calibrate(data, key, cal)
            out.append((rc, q, q.quantize(cal).quantized_model))
        except Exception as e: out.append((rc, None, e))
    return out

def standin(models, recipes, metrics=('mse', 'median_diff_ratio'), samples=(1, 3), mv=None, vu=None):
    """returns dict(cases, failures=[...], raised=[...], skipped=[...])"""
    from ai_edge_quantizer import model_validator as MV, quantizer
    from ai_edge_quantizer.utils import validation_utils as VU, test_utils
    mv = mv or MV; vu = vu or VU
    cases = 0; failures = []; raised = []; skipped = []; temporaries = {}; observations = []
    for mname in models:
        path = os.path.join(MODELS, mname)
        with open(path, 'rb') as f: ref = f.read()
        variants = [('self', None, ref)] + quantized_variants(path, recipes)
        for rc, q, targ in variants:
            if isinstance(targ, Exception): skipped.append(f'{mname}/{rc}: {type(targ).__name__}: {str(targ)[:80]}'); continue
            for metric, ns in itertools.product(metrics, samples):
                data = test_utils.create_random_normal_input_data(path, num_samples=ns, random_seed=7 + ns); cases += 1
                inputs = dict(model=mname, target=rc, metric=metric, samples=ns)
                try: res = mv.compare_model(ref, targ, data, metric, vu.get_validation_func(metric)); got = 'return'
                except Exception as e: res = e; got = type(e).__name__
                try: exp, temps = expected_report(ref, targ, data, metric)
                except Exception as e:
                    raised.append(dict(inputs, note=f'own recomputation failed: {type(e).__name__}: {e}', code=got)); continue
                kinds = {v[0] for v in exp.values()}
                if got != 'return':
                    if got == 'KeyError' and 'KeyError' in kinds: raised.append(dict(inputs, note=f'KeyError as the contract of add_new_signature_results prescribes: {[v[1] for v in exp.values() if v[0] == "KeyError"]}')); continue
                    if got == 'ValueError': raised.append(dict(inputs, note=f'ValueError: {str(res)[:120]}')); continue
                    failures.append(dict(kind='raise', inputs=inputs, observed=f'{got}: {res}')); continue
                if 'KeyError' in kinds: failures.append(dict(kind='value', inputs=inputs, observed=f'returned although names {[v[1] for v in exp.values() if v[0] == "KeyError"]} are missing / duplicated')); continue
                bad = compare_reports(res, exp, skip_values=temps)
                if bad: failures.append(dict(kind='value', inputs=inputs, observed=bad))
                if rc == 'self':
                    allv = res.get_all_tensor_results()
                    nz = {n: v for n, v in allv.items() if v != 0 and n not in temps}          # tensors OF THE MODEL (flatbuffer main subgraph)
                    if nz: failures.append(dict(kind='self-zero', inputs=inputs, observed=f'model compared with itself reports {nz}'))
                    tz = {n: allv[n] for n in temps if n in allv and allv[n] != 0}
                    if tz: observations.append(dict(inputs, kernel_temporaries=tz))
                if temps: temporaries.setdefault(mname, set()).update(temps)
    return dict(cases=cases, failures=failures, raised=raised, skipped=skipped, temporaries={k: sorted(v) for k, v in temporaries.items()}, observations=observations)
