"""Native replay for the graph-rewriting carriers: JSON description -> real flatbuffer object-API objects -> the REAL function ->
the property clauses of C01/C02/C03 evaluated natively on the before/after states.  Used to replay solver counter-models and
as the bounded stand-in enumerator.  Runs under the overlay interpreter with PYTHONPATH=/repo (ai_edge_litert schema only)."""
import copy, itertools, json, sys
import numpy as np

def _mods():
    from vlib import core; core.stub_package()
    from ai_edge_litert import schema_py_generated as schema
    import importlib
    tu = importlib.import_module('ai_edge_quantizer.transformations.transformation_utils')
    di = importlib.import_module('ai_edge_quantizer.transformations.dequant_insert')
    qi = importlib.import_module('ai_edge_quantizer.transformations.quant_insert')
    qt = importlib.import_module('ai_edge_quantizer.qtyping')
    return schema, tu, di, qi, qt

def build(desc):
    """desc: dict(n_tensors, ops=[{inputs:[..], outputs:[..], code:int}], outputs=[..], inputs=[..], codes=[builtin codes])"""
    schema, tu, di, qi, qt = _mods()
    sg = schema.SubGraphT(); sg.tensors = []; sg.operators = []
    bufs = [schema.BufferT()]
    for t in range(desc['n_tensors']):
        T = schema.TensorT(); T.name = f't{t}'.encode(); T.shape = [1, 2]; T.type = schema.TensorType.FLOAT32
        b = schema.BufferT(); bufs.append(b); T.buffer = len(bufs) - 1
        if t in desc.get('constants', []): b.data = np.frombuffer(np.arange(2, dtype=np.float32).tobytes(), dtype=np.uint8)
        sg.tensors.append(T)
    codes = []
    for c in desc.get('codes', [0]):
        oc = schema.OperatorCodeT(); oc.builtinCode = c; codes.append(oc)
    for o in desc['ops']:
        op = schema.OperatorT(); op.inputs = np.array(o['inputs'], dtype=np.int32); op.outputs = np.array(o['outputs'], dtype=np.int32)
        op.opcodeIndex = o.get('code', 0); sg.operators.append(op)
    sg.outputs = np.array(desc.get('outputs', []), dtype=np.int32); sg.inputs = np.array(desc.get('inputs', []), dtype=np.int32)
    return sg, codes, bufs

def producers(ops):
    prod = {}
    for j, op in enumerate(ops):
        for t in op['outputs']: prod.setdefault(int(t), []).append(j)
    return prod

def wf_violations(view, n_tensors, n_codes):
    """C01 structural clauses on a plain view: list of violated clause names"""
    bad = []
    prod = producers(view['ops'])
    for j, op in enumerate(view['ops']):
        if not (0 <= op['code'] < n_codes): bad.append(f'opcode index out of range at op {j}')
        for t in op['inputs']:
            if not (-1 <= t < n_tensors): bad.append(f'input index {t} out of range at op {j}')
            elif t >= 0 and t in prod and not (min(prod[t]) < j): bad.append(f'execution order: op {j} reads tensor {t} produced by op {prod[t]}')
        for t in op['outputs']:
            if not (0 <= t < n_tensors): bad.append(f'output index {t} out of range at op {j}')
    for t, ps in prod.items():
        if len(ps) > 1: bad.append(f'tensor {t} has {len(ps)} producers')
    for t in view['outputs']:
        if not (0 <= t < n_tensors): bad.append(f'graph output {t} out of range')
    names = view.get('names')
    if names and len(set(names)) != len(names): bad.append('tensor names not unique')
    return bad

def view_of(sg):
    return dict(ops=[dict(inputs=[int(x) for x in op.inputs], outputs=[int(x) for x in op.outputs], code=int(op.opcodeIndex)) for op in sg.operators],
                outputs=[int(x) for x in sg.outputs], inputs=[int(x) for x in sg.inputs], names=[t.name for t in sg.tensors])

def pre_violations(desc, T, P, C):
    """the contract's `requires` evaluated natively"""
    bad = []; n = len(desc['ops']); nt = desc['n_tensors']
    v = dict(ops=[dict(o, code=o.get('code', 0)) for o in desc['ops']], outputs=desc.get('outputs', []))
    bad += ['entry graph: ' + b for b in wf_violations(v, nt, len(desc.get('codes', [0])))]
    if not (0 <= T < nt): bad.append('tensor_id out of range')
    prod = producers(desc['ops']).get(T, [])
    if (prod[0] if prod else -1) != P: bad.append('producer is not the position of the producing operator')
    if not C: bad.append('empty consumers')
    for c in C:
        if not (-1 <= c < n): bad.append('consumer out of range')
        elif c >= 0 and not c > P: bad.append('consumer not after producer')
        elif c >= 0 and T not in desc['ops'][c]['inputs']: bad.append('listed consumer does not read the tensor')
    if -1 in C and T not in desc.get('outputs', []): bad.append('marker listed but tensor is not a graph output')
    return bad

def run_insert(kind, desc, T, P, C, num_bits=8):
    """executes the real insert_dequant / insert_quant; returns (violations of the C01/C02 clauses, observed dict)"""
    schema, tu, di, qi, qt = _mods()
    sg, codes, bufs = build(desc)
    before = view_of(sg); ops_before = list(sg.operators); nt = desc['n_tensors']; n = len(ops_before)
    qp = qt.UniformQuantParams(num_bits, None, np.array([0.5], dtype=np.float32), np.array([0], dtype=np.int64))
    fn = di.insert_dequant if kind == 'dequant' else qi.insert_quant
    try:
        info = fn(tu.TransformationInput(T, codes, bufs, sg, P, list(C), qp))
    except Exception as e:
        return [], dict(raised=f'{type(e).__name__}: {e}')            # raising is allowed by C01 (never a malformed model)
    after = view_of(sg); NEW = nt; bad = []
    real = sorted(c for c in C if c >= 0); GO = -1 in C
    want_pos = max(P + 1, real[0] if real else n)
    if info.op_id != want_pos: bad.append(f'C01 op position {info.op_id}, expected max(producer+1, first consumer or end) = {want_pos}')
    if len(sg.operators) != n + 1: bad.append('operator count')
    else:
        rest = [op for k, op in enumerate(sg.operators) if k != info.op_id]
        if any(a is not b for a, b in zip(rest, ops_before)): bad.append('C02 original operators not kept in order')
        else:
            for j, op in enumerate(ops_before):
                for k, (old, new) in enumerate(zip(before['ops'][j]['inputs'], [int(x) for x in op.inputs])):
                    want = NEW if (j in real and old == T) else old
                    if new != want: bad.append(f'C02 rewiring: op {j} input {k} is {new}, expected {want} (listed consumers {real})')
                if [int(x) for x in op.outputs] != before['ops'][j]['outputs']: bad.append(f'C02 outputs of op {j} changed')
        newop = sg.operators[info.op_id] if 0 <= info.op_id < len(sg.operators) else None
        if newop is not None and ([int(x) for x in newop.inputs] != [T] or [int(x) for x in newop.outputs] != [NEW]): bad.append('inserted operator wiring')
    for m, (old, new) in enumerate(zip(before['outputs'], after['outputs'])):
        want = NEW if (GO and old == T) else old
        if new != want: bad.append(f'C02 graph output {m} is {new}, expected {want} (marker listed: {GO})')
    bad += ['C01 ' + b for b in wf_violations(after, len(sg.tensors), len(codes))]
    return bad, dict(op_id=int(info.op_id), after=dict(ops=after['ops'], outputs=after['outputs']))

def replay_insert(kind, case):
    desc, T, P, C = case['graph'], case['tensor_id'], case['producer'], case['consumers']
    pre = pre_violations(desc, T, P, C)
    if pre: return dict(confirmed=False, note='counter-model violates a precondition natively', pre=pre, inputs=case)
    bad, obs = run_insert(kind, desc, T, P, C)
    return dict(confirmed=bool(bad), inputs=case, violated=bad, observed=obs)

def enumerate_insert_cases(max_ops=2, max_in=2):
    """small-scope enumeration: chains/DAGs of up to max_ops single-output ops over inputs; every tensor, every admissible consumer subset"""
    cases = []
    for n in range(0, max_ops + 1):
        n_in = 2; nt = n_in + n
        choices = []
        for j in range(n):
            avail = list(range(n_in + j)); opts = [list(c) for k in range(1, max_in + 1) for c in itertools.product(avail, repeat=k)]
            choices.append(opts)
        for ins in itertools.product(*choices):
            ops = [dict(inputs=list(ins[j]), outputs=[n_in + j]) for j in range(n)]
            for outs in ([nt - 1], [0], [nt - 1, 0]) if nt else ([],):
                desc = dict(n_tensors=nt, ops=ops, outputs=list(outs), inputs=list(range(n_in)), codes=[0])
                for T in range(nt):
                    prod = producers(ops).get(T, []); P = prod[0] if prod else -1
                    cons = [j for j in range(n) if T in ops[j]['inputs']]
                    pool = cons + ([-1] if T in outs else [])
                    for r in range(1, len(pool) + 1):
                        for C in itertools.combinations(pool, r):
                            cases.append(dict(graph=desc, tensor_id=T, producer=P, consumers=sorted(C)))
    return cases

if __name__ == '__main__':
    case = json.load(open(sys.argv[2])); print(json.dumps(replay_insert(sys.argv[1], case), indent=1, default=str))

# ------------------------------------------------------------------------------------------------ performer
def replay_apply_single(mv):
    """state of a TransformationPerformer (op-id maps of one subgraph) + one instruction -> the REAL _apply_single_transformation ->
    native PerfInv / C01 clauses"""
    schema, tu, di, qi, qt = _mods()
    import importlib
    tp = importlib.import_module('ai_edge_quantizer.transformation_performer')
    O, A, n, tr, P, C = list(mv['orig_map']), list(mv['added_map']), mv['n_ops'], mv['transformation'], mv['producer'], list(mv['consumers'])
    n0 = len(O)
    pre = []
    if any(not (0 <= x < n) for x in O + A) or any(O[k] >= O[k + 1] for k in range(n0 - 1)): pre.append('PerfInv violated at entry')
    if not C or any(not (-1 <= c < n0) for c in C) or not (-1 <= P < n0 + len(A)): pre.append('InstValid violated')
    Pcur = -1 if P < 0 else (O[P] if P < n0 else A[P - n0])
    if not pre and any(c >= 0 and O[c] <= Pcur for c in C): pre.append('consumer not after producer')
    if pre: return dict(confirmed=False, note='counter-model violates a precondition natively', pre=pre, inputs=mv)
    cons_cur = sorted({O[c] for c in C if c >= 0})
    ops = []
    nt = 2 + n
    for j in range(n):
        ops.append(dict(inputs=[0] if j in cons_cur else [1], outputs=[0] if j == Pcur else [2 + j], code=0))
    desc = dict(n_tensors=nt, ops=ops, outputs=[0] if -1 in C else [nt - 1], inputs=[1], codes=[0])
    sg, codes, bufs = build(desc)
    model = schema.ModelT(); model.subgraphs = [sg]; model.operatorCodes = codes; model.buffers = bufs
    perf = tp.TransformationPerformer(); perf._original_op_id_map = [list(O)]; perf._added_op_id_map = [list(A)]
    qp = qt.UniformQuantParams(8, None, np.array([0.5], dtype=np.float32), np.array([0], dtype=np.int64))
    inst = qt.TransformationInst(qt.QuantTransformation(tr), 0, P, list(C), qp)
    tinst = qt.TensorTransformationInsts('t0', 0, [inst])
    ops_before = list(sg.operators)
    try: perf._apply_single_transformation(tinst, 0, model)
    except Exception as e: return dict(confirmed=False, inputs=mv, observed=dict(raised=f'{type(e).__name__}: {e}'))
    bad = []
    newmap = perf._original_op_id_map[0]
    if len(newmap) != n0: bad.append('op-id map length changed')
    else:
        for k in range(n0):
            if not (0 <= newmap[k] < len(sg.operators)) or sg.operators[newmap[k]] is not ops_before[O[k]]: bad.append(f'PerfInv: map entry {k} = {newmap[k]} does not track original operator {k}')
    bad += ['C01 ' + b for b in wf_violations(view_of(sg), len(sg.tensors), len(codes))]
    return dict(confirmed=bool(bad), inputs=mv, violated=bad, observed=dict(op_id_map=list(newmap), ops=view_of(sg)['ops']))

def enumerate_apply_single(max_ops=3):
    cases = []
    for n in range(1, max_ops + 1):
        for n0 in range(0, n + 1):
            for O in itertools.combinations(range(n), n0):
                for A in ([], [x for x in range(n) if x not in O][:1]):
                    for P in range(-1, n0 + len(A)):
                        pool = list(range(n0)) + [-1]
                        for r in (1, 2):
                            for C in itertools.combinations(pool, r):
                                for tr in (1, 2, 3):
                                    cases.append(dict(orig_map=list(O), added_map=list(A), n_ops=n, transformation=tr, producer=P, consumers=sorted(C)))
                                    # the generator emits list(set): the order of the consumer list is NOT part of the instruction's contract
                                    if r == 2: cases.append(dict(orig_map=list(O), added_map=list(A), n_ops=n, transformation=tr, producer=P, consumers=sorted(C, reverse=True)))
    return cases
