"""Native (bounded) side of C09: the public API `Quantizer.calibrate` on fixture models against an INDEPENDENT reference.

Reference, written here from the property text (nothing of the calibrator is reused):
  * per-sample truth: our own `ai_edge_litert` interpreter (a fresh one per sample, experimental_preserve_all_tensors=True) is
    invoked through the signature runner on the sample; min/max of every named tensor of the signature's subgraph is read back;
  * statistics of a runtime tensor after samples 0..n-1 = moving average  s_0 = v_0,  s_{t+1} = 0.95 s_t + (1 - 0.95) v_{t+1}
    (binary64 here; the library computes in binary32 -> compared with a relative tolerance);
  * statistics of a constant = min/max of the buffer content, per tensor or per slice along the spec dimension of a consuming
    op (TFLite quantization spec table, written in contracts/c04_common.QDIM_REF);
  * resume: calibrate(D1) then calibrate(D2, previous_calibration_result=r1) must equal calibrate(D1 ++ D2) BITWISE (same float
    operations in the same order), r1 must be left untouched (deep compare against a snapshot) and must share no array with r2.
"""
import copy, itertools, os
import numpy as np
from vlib import core

ALPHA = 0.95
RTOL, ATOL = 2e-5, 1e-7
TYPES = {0: np.float32, 1: np.float16, 2: np.int32, 3: np.uint8, 4: np.int64, 6: np.bool_, 7: np.int16, 9: np.int8}
FIXTURES = ['single_fc_bias.tflite', 'conv_fc_mnist.tflite', 'single_add.tflite', 'two_inputs_concatenation.tflite', 'branching_conv_fc.tflite']
MULTI = 'two_signatures.tflite'

def _tfl():
    from ai_edge_litert import interpreter as tfl
    return tfl
def _interp(path):
    tfl = _tfl()
    it = tfl.Interpreter(model_path=path, experimental_preserve_all_tensors=True, experimental_op_resolver_type=tfl.OpResolverType.BUILTIN_WITHOUT_DEFAULT_DELEGATES)
    it.allocate_tensors(); return it
def model_path(name): return os.path.join(core.PKG, 'tests/models', name)
def recipe_path(): return os.path.join(core.PKG, 'recipes/default_a8w8_recipe.json')

def make_data(path, n, seed, key=None):
    """n deterministic samples for the signature `key`; the spread grows with the sample index so that the moving average moves"""
    it = _tfl().Interpreter(model_path=path); det = it.get_signature_runner(key).get_input_details(); rng = np.random.default_rng(seed); out = []
    for s in range(n):
        sample = {}
        for k in sorted(det):
            d = det[k]
            if np.issubdtype(d['dtype'], np.floating): sample[k] = (rng.normal(0.0, 1.0 + s, d['shape']) + (s - 1) * 0.5).astype(d['dtype'])
            else: sample[k] = rng.integers(0, 3, d['shape']).astype(d['dtype'])
        out.append(sample)
    return out

def own_stats(path, data, key=None):
    """[ {tensor name: (min, max)} per sample ]  from OUR interpreter runs (a fresh interpreter per sample: no state carried)"""
    out = []
    for sample in data:
        it = _interp(path); r = it.get_signature_runner(key); r(**sample); sg = r._subgraph_index; st = {}
        for d in it.get_tensor_details(sg):
            if not d['name']: continue
            try: v = it.get_tensor(d['index'], sg)
            except ValueError: continue
            if v.size: st[d['name']] = (float(np.min(v)), float(np.max(v)))
        out.append(st)
    return out

def flat_model(path):
    from ai_edge_litert import schema_py_generated as S
    with open(path, 'rb') as f: return S.ModelT.InitFromPackedBuf(f.read(), 0)
def constants(m):
    """{name: (array, [(consumer builtin op name, operand position)])} over all subgraphs"""
    from ai_edge_litert import schema_py_generated as S
    names = {v: k for k, v in vars(S.BuiltinOperator).items() if isinstance(v, int)}
    out = {}
    for sg in m.subgraphs:
        for ti, t in enumerate(sg.tensors):
            b = m.buffers[t.buffer]
            if b.data is None or t.type not in TYPES: continue
            arr = np.frombuffer(bytes(b.data), dtype=TYPES[t.type]).reshape(t.shape if t.shape is not None else ())
            users = [names.get(m.operatorCodes[op.opcodeIndex].builtinCode, '?') for op in sg.operators if ti in list(op.inputs)]
            out[t.name.decode()] = (arr, users)
    return out
def runtime_names(m, subgraph=0):
    """names of the non-constant operands of every operator of the subgraph + the graph inputs / outputs"""
    sg = m.subgraphs[subgraph]; out = set()
    idxs = set(int(i) for i in sg.inputs) | set(int(i) for i in sg.outputs)
    for op in sg.operators: idxs |= {int(i) for i in list(op.inputs) + list(op.outputs) if i != -1}
    for i in idxs:
        if m.buffers[sg.tensors[i].buffer].data is None: out.add(sg.tensors[i].name.decode())
    return out

def ema(values):
    s = None
    for v in values: s = v if s is None else ALPHA * s + (1 - ALPHA) * v
    return s
def close(a, b): return abs(a - b) <= ATOL + RTOL * max(abs(a), abs(b))

def const_ok(q, arr, users, qdim_ref):
    """statistics of a constant: true per-tensor min/max, or true per-slice min/max along the spec dimension of a consuming op"""
    mn, mx = np.asarray(q['min']), np.asarray(q['max'])
    if mn.size == 1 and mx.size == 1: return float(mn.ravel()[0]) == float(arr.min()) and float(mx.ravel()[0]) == float(arr.max())
    for u in users:
        d = qdim_ref.get(u)
        if d is None or d >= arr.ndim: continue
        axes = tuple(a for a in range(arr.ndim) if a != d)
        if mn.shape == np.min(arr, axis=axes, keepdims=True).shape and np.array_equal(mn, np.min(arr, axis=axes, keepdims=True)) and np.array_equal(mx, np.max(arr, axis=axes, keepdims=True)): return True
    return False

def snapshot(res): return {k: {m: np.array(v[m], copy=True) for m in v} for k, v in res.items()}
def same(a, b):
    """bitwise equality of two calibration results"""
    if set(a) != set(b): return False
    for k in a:
        if set(a[k]) != set(b[k]): return False
        for m in a[k]:
            x, y = np.asarray(a[k][m]), np.asarray(b[k][m])
            if x.shape != y.shape or x.dtype != y.dtype or not np.array_equal(x, y): return False
    return True
def shares(a, b):
    for k in a:
        if k in b:
            if a[k] is b[k] and a[k]: return f'{k}: same qsv dict object'
            for m in a[k]:
                if m in b[k] and isinstance(a[k][m], np.ndarray) and isinstance(b[k][m], np.ndarray) and np.shares_memory(a[k][m], b[k][m]): return f'{k}.{m}: shared array'
    return None

def compositions(n):
    """all ways of cutting 0..n-1 into consecutive non-empty sessions"""
    for cuts in itertools.product((0, 1), repeat=n - 1):
        sizes, cur = [], 1
        for c in cuts:
            if c: sizes.append(cur); cur = 1
            else: cur += 1
        sizes.append(cur); yield sizes

def new_quantizer(path):
    import absl.logging; absl.logging.set_verbosity('error')
    from ai_edge_quantizer import quantizer
    qt = quantizer.Quantizer(path); qt.load_quantization_recipe(recipe_path()); return qt

def check_model(name, n_max=3, seed=1):
    """-> (cases, failures[list of dict])  for one single-signature fixture; an exception of the real code is a recorded failure"""
    try: return _check_model(name, n_max, seed)
    except Exception as e:
        import traceback; tb = traceback.extract_tb(e.__traceback__)[-1]
        return 1, [dict(model=name, seed=seed, what=f'calibration raised {type(e).__name__}: {str(e)[:200]} @ {tb.name}:{tb.lineno}')]
def _check_model(name, n_max, seed):
    from contracts.c04_common import QDIM_REF
    path = model_path(name); data = make_data(path, n_max, seed); truth = own_stats(path, data); m = flat_model(path); consts = constants(m); rt = runtime_names(m)
    cases = 0; fails = []
    def fail(**kw): fails.append(dict(model=name, seed=seed, **kw))
    single = {}
    for n in range(1, n_max + 1):
        qt = new_quantizer(path); res = qt.calibrate(data[:n]); single[n] = snapshot(res)
        missing = sorted(rt - set(res)); cases += 1
        if missing: fail(n=n, what='runtime tensors without statistics', names=missing[:5])
        for nm, q in res.items():
            cases += 1
            if nm in consts:
                if not q: continue                                # a constant never seen through a quantizable operand position keeps {}
                if not const_ok(q, consts[nm][0], consts[nm][1], QDIM_REF): fail(n=n, tensor=nm, what='constant statistics are not its true per-tensor / per-channel min/max', got=dict(min=np.ravel(q['min'])[:4].tolist(), max=np.ravel(q['max'])[:4].tolist()))
                continue
            if set(q) != {'min', 'max'}: fail(n=n, tensor=nm, what='keys', got=sorted(q)); continue
            if any(nm not in t for t in truth[:n]): fail(n=n, tensor=nm, what='no such tensor in our interpreter run'); continue
            want = (ema([t[nm][0] for t in truth[:n]]), ema([t[nm][1] for t in truth[:n]])); got = (float(np.ravel(q['min'])[0]), float(np.ravel(q['max'])[0]))
            if np.size(q['min']) != 1 or np.size(q['max']) != 1 or not close(got[0], want[0]) or not close(got[1], want[1]):
                fail(n=n, tensor=nm, what='recorded min/max != moving average (0.95) of the true per-sample min/max in dataset order', got=got, expected=want, per_sample=[t[nm] for t in truth[:n]])
        # order-faithfulness: the reversed dataset must give the statistics of the reversed sequence (and differ when the sequence is not a palindrome)
        if n >= 2:
            cases += 1; rres = new_quantizer(path).calibrate(data[:n][::-1])
            for nm in rt & set(rres):
                want = ema([t[nm][1] for t in truth[:n][::-1]]); got = float(np.ravel(rres[nm]['max'])[0])
                if not close(got, want): fail(n=n, tensor=nm, what='reversed dataset: max != moving average of the reversed per-sample sequence', got=got, expected=want); break
        # every way of splitting the n samples into resumed sessions
        for sizes in compositions(n):
            if len(sizes) == 1: continue
            cases += 1; prev = None; pos = 0; bad = None
            for sz in sizes:
                snap = snapshot(prev) if prev is not None else None
                cur = new_quantizer(path).calibrate(data[pos:pos + sz], previous_calibration_result=prev); pos += sz
                if prev is not None:
                    if not same(prev, snap): bad = 'the previous calibration result passed in was modified'
                    sh = shares(prev, cur)
                    if sh and not bad: bad = f'the returned result shares a mutable object with the previous one ({sh})'
                prev = cur
            if bad is None and not same(prev, single[n]):
                diff = [k for k in single[n] if k not in prev or not same({k: prev[k]}, {k: single[n][k]})][:3]
                bad = f'resumed sessions {sizes} != single pass over {n} samples (e.g. {diff})'
            if bad: fail(n=n, sessions=sizes, what=bad)
    # several sessions on ONE Quantizer object: a session without a previous result starts from nothing (== a fresh Quantizer), results already returned are not touched,
    # and resuming on the same object equals the single pass
    if n_max >= 2:
        cases += 1; q = new_quantizer(path); r1 = q.calibrate(data[:1]); s1 = snapshot(r1)
        r2 = q.calibrate(data[1:2]); fresh2 = new_quantizer(path).calibrate(data[1:2])
        if not same(r2, snapshot(fresh2)): fail(n=2, sessions='same Quantizer: calibrate(D1); calibrate(D2)', what='the second session on the same Quantizer (no previous result) differs from a fresh Quantizer calibrating D2')
        elif not same(r1, s1): fail(n=2, sessions='same Quantizer: calibrate(D1); calibrate(D2)', what='the result returned by the first session was modified by the second session')
        else:
            r3 = q.calibrate(data[1:2], previous_calibration_result=r1)
            if not same(r3, single[2]): fail(n=2, sessions='same Quantizer: calibrate(D1); calibrate(D2, previous=r1)', what='resuming on the same Quantizer differs from the single pass over both samples')
    return cases, fails

def check_multi_signature(seed=2):
    """two signatures calibrated one after the other, the second session resumed from the first result"""
    try: return _check_multi_signature(seed)
    except Exception as e:
        import traceback; tb = traceback.extract_tb(e.__traceback__)[-1]
        return 1, [dict(model=MULTI, seed=seed, what=f'calibration raised {type(e).__name__}: {str(e)[:200]} @ {tb.name}:{tb.lineno}')]
def _check_multi_signature(seed):
    path = model_path(MULTI); it = _tfl().Interpreter(model_path=path); keys = sorted(it.get_signature_list()); cases = 0; fails = []
    prev = None; per_key = {}
    for key in keys:
        data = make_data(path, 2, seed, key); per_key[key] = (data, own_stats(path, data, key))
        snap = snapshot(prev) if prev is not None else None
        cur = new_quantizer(path).calibrate(data, signature_key=key, previous_calibration_result=prev); cases += 1
        if prev is not None and not same(prev, snap): fails.append(dict(model=MULTI, signature=key, what='the previous calibration result passed in was modified'))
        prev = cur
    m = flat_model(path); consts = constants(m)
    for key, (data, truth) in per_key.items():
        for nm in truth[0]:
            if nm in consts or nm not in prev or not prev[nm]: continue
            if sum(1 for k2, (_, t2) in per_key.items() if nm in t2[0]) != 1: continue          # a name used by both subgraphs is folded by both sessions
            cases += 1; want = (ema([t[nm][0] for t in truth]), ema([t[nm][1] for t in truth])); got = (float(np.ravel(prev[nm]['min'])[0]), float(np.ravel(prev[nm]['max'])[0]))
            if not close(got[0], want[0]) or not close(got[1], want[1]): fails.append(dict(model=MULTI, signature=key, tensor=nm, what='recorded min/max != moving average of the true per-sample min/max', got=got, expected=want))
    return cases, fails

def operator_list_growth(n=3):
    """observation (not an obligation): Calibrator.calibrate appends the INPUT/OUTPUT pseudo-operators to the flatbuffer's operator list once per sample"""
    import absl.logging; absl.logging.set_verbosity('error'); import json
    from ai_edge_quantizer import calibrator, recipe_manager
    path = model_path('single_fc_bias.tflite'); rm = recipe_manager.RecipeManager()
    with open(recipe_path()) as f: rm.load_quantization_recipe(json.load(f))
    cal = calibrator.Calibrator(path); n0 = len(cal._flatbuffer_model.subgraphs[0].operators); cal.calibrate(make_data(path, n, 5), rm)
    n1 = len(cal._flatbuffer_model.subgraphs[0].operators); reuse = 'ok'
    cal.reset_model_qsvs()
    try: cal.calibrate(make_data(path, 1, 5), rm)
    except Exception as e: reuse = f'{type(e).__name__}: {e}'
    return dict(samples=n, operators_before=n0, operators_after=n1, calibrate_after_reset_model_qsvs_on_the_same_Calibrator=reuse)

def replay_case(inp):
    """re-run the scenario of a recorded failure"""
    if inp.get('model') == MULTI: c, f = check_multi_signature(inp.get('seed', 2))
    else: c, f = check_model(inp['model'], 3, inp.get('seed', 1))
    return f
