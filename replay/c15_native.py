"""Native execution of the REAL C15 carriers (never copies of them).

(1) `compat_*`   : the finite enumeration behind the COMPATIBILITY LEMMA, executed on the real `_compatible_tensor_params`,
                   `_same_tensor_params_except_id`, `_compatible_tensor_transformation_params`, `_check_buffer_sharing` with real
                   `qtyping.OpToTensorParams` / `TensorTransformationParams` objects whose `parameters` are OPAQUE tokens (objects that only
                   support `==` / `!=` with a fixed equivalence: exactly the interface the four functions use on them).
(2) `instr_*`    : `_check_tensor_transformation_instructions_valid` over all transformation words up to a bound.
(3) `twice_*`    : `quantize_tensor` applied twice / to two tensors sharing one buffer (real flatbuffer objects).
(4) `e2e_*`      : models with tied constants built in memory, quantized through the public API (Quantizer), byte-level check of every
                   buffer of the returned model.
Every `*_case` function takes a JSON-serialisable description and returns None when the clause holds on that input, otherwise a short
text / dict saying what was observed.  Used by props/C15.py (enumeration) and by replay (re-execution of one recorded input)."""
import copy, importlib, itertools, os, sys, types
import numpy as np
from vlib import core

PG, TFU, TIG, QTEN = 'params_generator.py', 'utils/tfl_flatbuffer_utils.py', 'transformation_instruction_generator.py', 'transformations/quantize_tensor.py'
# numeric values of qtyping.QuantTransformation (written here from the documentation of the enum, checked against the real enum in load())
NO_QUANTIZE, ADD_QUANTIZE, ADD_DEQUANTIZE, QUANTIZE_TENSOR, EMULATED_SUBCHANNEL = 0, 1, 2, 3, 4
TR_NAMES = ['NO_QUANTIZE', 'ADD_QUANTIZE', 'ADD_DEQUANTIZE', 'QUANTIZE_TENSOR', 'EMULATED_SUBCHANNEL']
FLOAT_SRC, QUANT_SRC, OTHER = 'FLOAT_SRC', 'QUANT_SRC', 'OTHER'
def klass(tr0):
    """class(tr0) of DESIGN A.14 (the property text: what kind of bytes the tensor's buffer holds when this entry is honoured)"""
    if tr0 in (ADD_QUANTIZE, NO_QUANTIZE): return FLOAT_SRC
    if tr0 in (QUANTIZE_TENSOR, ADD_DEQUANTIZE): return QUANT_SRC
    return OTHER

def describe(e): return f'{type(e).__name__}: {str(e)[:160]}'

class Mods:
    def __init__(s, **k): s.__dict__.update(k)

_n = itertools.count()
def exec_module(rel, src, swaps=None):
    """the repository file `rel` with the (mutated) text `src`, executed in memory as a module of its own; nothing is written to disk"""
    name = f'c15_mutant_{next(_n)}'
    mod = types.ModuleType(name); mod.__file__ = os.path.join(core.PKG, rel); mod.__package__ = 'ai_edge_quantizer'; sys.modules[name] = mod
    exec(compile(src, mod.__file__, 'exec'), mod.__dict__)
    for k, v in (swaps or {}).items(): setattr(mod, k, v)
    return mod

def load(mut=None):
    """real modules from the working tree; `mut = {relpath: text}` executes the named files from the given text in memory"""
    core.stub_package(); imp = lambda n: importlib.import_module('ai_edge_quantizer.' + n); mut = mut or {}
    q = imp('qtyping'); tfu = imp('utils.tfl_flatbuffer_utils')
    if TFU in mut: tfu = exec_module(TFU, mut[TFU])
    pg = imp('params_generator')
    if PG in mut or TFU in mut: pg = exec_module(PG, mut.get(PG, core.read_source(PG)), swaps=dict(tfl_flatbuffer_utils=tfu))
    tig = imp('transformation_instruction_generator')
    if TIG in mut: tig = exec_module(TIG, mut[TIG])
    qten = imp('transformations.quantize_tensor')
    if QTEN in mut: qten = exec_module(QTEN, mut[QTEN])
    tu = imp('transformations.transformation_utils')
    from ai_edge_litert import schema_py_generated as schema
    T = q.QuantTransformation
    assert [T.NO_QUANTIZE.value, T.ADD_QUANTIZE.value, T.ADD_DEQUANTIZE.value, T.QUANTIZE_TENSOR.value, T.EMULATED_SUBCHANNEL.value] == [0, 1, 2, 3, 4] and len(T) == 5, 'QuantTransformation enum changed'
    try:
        from absl import logging as absl_logging
        absl_logging.set_verbosity(absl_logging.ERROR)
    except Exception: pass
    return Mods(q=q, tfu=tfu, pg=pg, tig=tig, qten=qten, tu=tu, schema=schema, TR=[T(i) for i in range(5)])

# ------------------------------------------------------------------------------------------------ (1) compatibility lemma
class Token:
    """opaque parameter object: supports only == / != (an equivalence given by `cls`), like the dataclass __eq__ of UniformQuantParams /
    NonLinearQuantParams; anything else the code might do with it raises AttributeError / TypeError"""
    __slots__ = ('cls', 'uid')
    def __init__(s, cls, uid): s.cls, s.uid = cls, uid
    def __eq__(s, o): return isinstance(o, Token) and o.cls == s.cls
    def __ne__(s, o): return not s.__eq__(o)
    __hash__ = None
    def __deepcopy__(s, memo): return s
    def __repr__(s): return f'P{s.cls}'
def param(code, uid=0):
    """0 -> None, k >= 1 -> a token of equivalence class k (distinct objects for distinct uid: equality is by value, not identity)"""
    return None if code == 0 else Token(code, uid)
def entry(m, e, uid=0):
    """e = [transformation word (list of ints, non-empty), parameter code]"""
    word, pc = e
    return m.q.OpToTensorParams(subgraph_op_id=uid, transformations=[m.TR[t] for t in word], parameters=param(pc, uid))
def eqp(a, b): return a == b                     # parameter codes: equal code <=> equal parameters (None is code 0)
def R(a, b):
    """the conclusion of the lemma for two entries (property text: same kind of bytes; integer bytes => the same parameters)"""
    ka, kb = klass(a[0][0]), klass(b[0][0])
    return ka == kb and (not (ka == QUANT_SRC and kb == QUANT_SRC) or eqp(a[1], b[1]))
def entries(max_len=2, n_param=3):
    """all entries: transformation words of length 1..max_len over the 5 letters x parameter code in 0..n_param-1 (0 = None)"""
    return [[list(w), pc] for L in range(1, max_len + 1) for w in itertools.product(range(5), repeat=L) for pc in range(n_param)]
def compat_pair_case(m, case):
    a, b = case['a'], case['b']
    try: got = m.pg._compatible_tensor_params(entry(m, a, 1), entry(m, b, 2))
    except Exception as e: return 'raised ' + describe(e)
    if got is not True and got is not False: return f'returned {got!r} (not a bool)'
    if got and not R(a, b): return f'_compatible_tensor_params returned True but class/parameters differ: {a} vs {b}'
    try: same = m.pg._same_tensor_params_except_id(entry(m, a, 1), entry(m, b, 2))
    except Exception as e: return 'same raised ' + describe(e)
    want_same = a[0] == b[0] and eqp(a[1], b[1])
    if bool(same) != want_same: return f'_same_tensor_params_except_id returned {same!r}, specification {want_same}: {a} vs {b}'
    if want_same and not got: return f'identical entries (up to the op id) reported incompatible: {a} vs {b}'
    return None
def tparams(m, t, name):
    """t = dict(producer=entry|None, consumers=[entry...]|None)"""
    return m.q.TensorTransformationParams(tensor_name=name, producer=None if t.get('producer') is None else entry(m, t['producer'], 100),
                                          consumers=None if t.get('consumers') is None else [entry(m, c, 10 + k) for k, c in enumerate(t['consumers'])])
def spec_tensor_pair(t1, t2):
    """the conclusion for two tensors on one buffer: every pair of consumer entries (within and across) in relation R; producers both absent or R"""
    cs = (t1.get('consumers') or []) + (t2.get('consumers') or [])
    ok = all(R(a, b) for a in cs for b in cs)
    p1, p2 = t1.get('producer'), t2.get('producer')
    if (p1 is None) != (p2 is None): ok = False
    if p1 is not None and p2 is not None and not R(p1, p2): ok = False
    return ok
def compat_tensors_case(m, case):
    t1, t2 = case['t1'], case['t2']
    try: got = m.pg._compatible_tensor_transformation_params(tparams(m, t1, 'a'), tparams(m, t2, 'b'))
    except Exception as e: return 'raised ' + describe(e)
    if got and not spec_tensor_pair(t1, t2): return f'accepted although some pair of entries disagrees: {t1} / {t2}'
    return None

class FakeTensor:
    def __init__(s, name, buffer): s.name, s.buffer = name, buffer
class FakeSelf:
    pass
def sharing_case(m, case):
    """case: dict(buffers={b: [tensor names (with multiplicity, in order)]}, params={name: tensor description})
    runs the REAL ParamsGenerator._check_buffer_sharing on a stand-in `self` (the method reads self.buffer_to_tensors and
    self.model_quant_results only); returns a text when it returns normally although two entries on one buffer disagree"""
    self_ = FakeSelf(); tens = {}
    for b, names in case['buffers'].items():
        for nme in names: tens.setdefault(nme, FakeTensor(nme.encode(), int(b)))
    self_.buffer_to_tensors = {int(b): [tens[nme] for nme in names] for b, names in case['buffers'].items()}
    self_.model_quant_results = {nme: tparams(m, t, nme) for nme, t in case['params'].items()}
    try: m.pg.ParamsGenerator._check_buffer_sharing(self_); raised = None
    except RuntimeError as e: raised = e
    except Exception as e: return 'raised ' + describe(e)
    if raised is not None: return None
    for b, names in case['buffers'].items():
        ts = [case['params'][nme] for nme in names]
        for t1 in ts:
            for t2 in ts:
                if not spec_tensor_pair(t1, t2): return f'returned normally although entries on buffer {b} disagree: {t1} / {t2}'
    return None

# ------------------------------------------------------------------------------------------------ (2) instruction validity
def instr_case(m, case):
    """case: dict(word=[ints]) ; _check_tensor_transformation_instructions_valid returns normally => not (some NO_QUANTIZE and some
    QUANTIZE_TENSOR/ADD_DEQUANTIZE) and (EMULATED_SUBCHANNEL => it is the only instruction); and it raises ValueError otherwise"""
    word = case['word']
    insts = m.q.TensorTransformationInsts(tensor_name='t', subgraph_id=0, instructions=[
        m.q.TransformationInst(transformation=m.TR[t], tensor_id=0, producer=-1, consumers=[k], parameters=None) for k, t in enumerate(word)])
    try: m.tig.TransformationInstructionsGenerator._check_tensor_transformation_instructions_valid(None, insts); raised = False
    except ValueError: raised = True
    except Exception as e: return 'raised ' + describe(e)
    unq = NO_QUANTIZE in word; qz = QUANTIZE_TENSOR in word or ADD_DEQUANTIZE in word; emu = EMULATED_SUBCHANNEL in word
    want_raise = (unq and qz) or (emu and len(word) > 1)
    if raised != want_raise: return f'word {[TR_NAMES[t] for t in word]}: raised={raised}, specification raises={want_raise}'
    return None

# ------------------------------------------------------------------------------------------------ (3) quantize_tensor twice
TTYPE = {4: 17, 8: 9, 16: 7, 32: 2, 64: 4}
def int_dtype(bits): return {4: np.int8, 8: np.int8, 16: np.int16, 32: np.int32, 64: np.int64}[bits]
def twice_setup(m, bits, shape, per_channel, nonlinear, variant=0):
    S = m.schema; qt = m.q; n = int(np.prod(shape)); lo, hi = (-8, 7) if bits <= 4 else (-100, 100)
    orig = (np.arange(n, dtype=np.float32) * 0.37 - 1.0).reshape(shape)
    bufs = [S.BufferT(), S.BufferT(), S.BufferT()]; bufs[0].data = None
    bufs[1].data = np.frombuffer(orig.tobytes(), dtype=np.uint8); bufs[2].data = np.frombuffer(np.array([4.0], np.float32).tobytes(), dtype=np.uint8)
    sg = S.SubGraphT(); sg.tensors = []; sg.operators = []; sg.inputs = np.array([], np.int32); sg.outputs = np.array([], np.int32)
    for name, b, shp in ((b'A', 1, shape), (b'B', 1, shape), (b'other', 2, (1,))):
        t = S.TensorT(); t.name = name; t.shape = np.array(shp, np.int32); t.type = 0; t.quantization = None; t.buffer = b; sg.tensors.append(t)
    def params():
        if nonlinear:
            return qt.NonLinearQuantParams(num_bits=bits, quantized_data=orig.astype(np.float16) if bits == 16 else orig.astype(np.float32))
        codes = (((np.arange(n) * 5 + 3 + variant) % (hi - lo + 1)) + lo).astype(int_dtype(bits)).reshape(shape)
        nch = shape[0] if per_channel else 1
        scale = (np.arange(nch, dtype=np.float32) + 1) * np.float32(0.013); zp = (np.arange(nch) - 1).astype(int_dtype(bits))
        pshape = tuple(shape[0] if (per_channel and d == 0) else 1 for d in range(len(shape)))
        return qt.UniformQuantParams(num_bits=bits, quantized_dimension=0 if per_channel else None, scale=scale.reshape(pshape), zero_point=zp.reshape(pshape), symmetric=False, quantized_data=codes)
    return sg, bufs, params
def snap(sg, bufs):
    q = lambda z: None if z is None else ([float(v) for v in z.scale], [int(v) for v in z.zeroPoint], z.quantizedDimension)
    return dict(bufs=[None if b.data is None else bytes(np.asarray(b.data).tobytes()) for b in bufs], tens=[(t.name, tuple(t.shape), t.type, t.buffer, q(t.quantization)) for t in sg.tensors])
def twice_case(m, case):
    """quantize_tensor(A, p) ; quantize_tensor(A, p') with p' == p (a distinct but equal object)  leaves the state of the first application;
       quantize_tensor(A, p) ; quantize_tensor(B, p') with A, B on one buffer: buffer bytes as after the first application, A and B carry the
       same dtype and quantization record, the third tensor and its buffer untouched"""
    bits, shape, pc, nl = case['bits'], tuple(case['shape']), case['per_channel'], case['nonlinear']
    sg, bufs, params = twice_setup(m, bits, shape, pc, nl)
    p1, p2 = params(), params()
    if p1 is p2 or not (p1 == p2): return 'test set-up: the two parameter objects must be distinct and equal'
    TI = m.tu.TransformationInput
    s0 = snap(sg, bufs)
    try:
        m.qten.quantize_tensor(TI(0, [], bufs, sg, -1, [0], p1)); s1 = snap(sg, bufs)
        m.qten.quantize_tensor(TI(0, [], bufs, sg, -1, [0], p2)); s2 = snap(sg, bufs)
        m.qten.quantize_tensor(TI(1, [], bufs, sg, -1, [1], p2)); s3 = snap(sg, bufs)
    except Exception as e: return 'raised ' + describe(e)
    n = int(np.prod(shape))
    want_len = (n + 1) // 2 if (bits <= 4 and not nl) else n * p1.quantized_data.dtype.itemsize
    if s1['bufs'][1] == s0['bufs'][1] and not (nl and bits == 32): return 'first application did not rewrite the buffer'
    if len(s1['bufs'][1]) != want_len: return f'stored {len(s1["bufs"][1])} bytes, expected {want_len}'
    if s2 != s1: return 'second application with equal parameters changed the state: ' + str([k for k in s1 if s1[k] != s2[k]])
    if s3['bufs'] != s1['bufs']: return 'application to the second tensor on the buffer changed the bytes'
    a, b = s3['tens'][0], s3['tens'][1]
    if a[2:] != b[2:]: return f'the two tensors on the buffer disagree after quantization: {a} / {b}'
    if s3['tens'][2] != s0['tens'][2] or s3['bufs'][2] != s0['bufs'][2] or s3['bufs'][0] is not None: return 'an unrelated tensor / buffer changed'
    # function of the parameters only: a different starting content of the buffer gives the same bytes
    sg2, bufs2, params2 = twice_setup(m, bits, shape, pc, nl); bufs2[1].data = np.frombuffer(bytes(len(s0['bufs'][1])), dtype=np.uint8)
    try: m.qten.quantize_tensor(TI(0, [], bufs2, sg2, -1, [0], params2()))
    except Exception as e: return 'raised ' + describe(e)
    if snap(sg2, bufs2)['bufs'][1] != s1['bufs'][1]: return 'the bytes written depend on the previous content of the buffer'
    return None
def twice_table():
    shapes = [(3, 1), (3, 2), (5,), (1,)]
    t = [dict(bits=b, shape=list(s), per_channel=pc, nonlinear=False) for b in (4, 8, 16, 32, 64) for s in shapes for pc in (False, True) if not (pc and len(s) == 1)]
    t += [dict(bits=b, shape=list(s), per_channel=False, nonlinear=True) for b in (16, 32) for s in shapes]
    return t

# ------------------------------------------------------------------------------------------------ (4) end to end through the public API
FLOAT32, INT8, INT16, INT32, INT4 = 0, 9, 7, 2, 17
ITEMSIZE = {0: 4, 1: 2, 2: 4, 4: 8, 7: 2, 9: 1, 3: 1}
MODES = ['none', 'srq8', 'drq8', 'wo8', 'srq16']
W0 = (np.arange(16, dtype=np.float32).reshape(4, 4) - 7.5) / 9.0
BIAS0 = np.array([0.25, -0.5, 0.125, 1.0], np.float32)
CONST_ADD = np.array([[0.3, -0.7, 1.1, 0.05]], np.float32)

def e2e_mods():
    os.environ.setdefault('TF_CPP_MIN_LOG_LEVEL', '3')
    from ai_edge_quantizer import quantizer, qtyping
    from ai_edge_litert import schema_py_generated as S
    from tensorflow.lite.tools import flatbuffer_utils as fu
    try:
        import absl.logging; absl.logging.set_verbosity('error')
    except Exception: pass
    return Mods(quantizer=quantizer, q=qtyping, S=S, fu=fu)

def cfg(q, mode):
    T = q.TensorQuantizationConfig; O = q.OpQuantizationConfig; CP = q.ComputePrecision
    if mode == 'srq8': return O(activation_tensor_config=T(8, False), weight_tensor_config=T(8, True), compute_precision=CP.INTEGER)
    if mode == 'srq16': return O(activation_tensor_config=T(16, True), weight_tensor_config=T(8, True), compute_precision=CP.INTEGER)
    if mode == 'drq8': return O(weight_tensor_config=T(8, True), compute_precision=CP.INTEGER)
    if mode == 'wo8': return O(weight_tensor_config=T(8, False), compute_precision=CP.FLOAT, explicit_dequantize=True)
    raise ValueError(mode)

def build_model(M, case):
    """case: dict(topology, k, wiring, what)
       topology 'two-tensors'  : k sharers = k tensors (own names) pointing to ONE buffer, each feeding its own op, all in one subgraph
                'one-tensor'   : ONE constant tensor feeding k ops
                'subgraphs'    : k subgraphs (= k signatures) with one op each, each with its own tensor on the ONE shared buffer
       wiring   'chain' (op i reads op i-1's output) | 'parallel' (every op reads the graph input; every op output is a graph output)
       what     'weight' (FULLY_CONNECTED weight 4x4) | 'bias' (FULLY_CONNECTED bias, own weights) | 'addend' (constant operand of ADD)
       op i writes the tensor named 'y<i>' (recipes address ops by that name)"""
    S = M.S; B = S.BuiltinOperator; k = case['k']; topo = case['topology']; what = case['what']; wiring = case.get('wiring', 'chain')
    m = S.ModelT(); m.version = 3; m.description = 'c15'; m.buffers = [S.BufferT()]; m.operatorCodes = []; m.subgraphs = []; m.signatureDefs = []
    def add_buffer(data=None):
        b = S.BufferT()
        if data is not None: b.data = np.frombuffer(np.asarray(data).tobytes(), dtype=np.uint8)
        m.buffers.append(b); return len(m.buffers) - 1
    def opcode(code):
        for i, oc in enumerate(m.operatorCodes):
            if oc.builtinCode == code: return i
        oc = S.OperatorCodeT(); oc.builtinCode = code; oc.deprecatedBuiltinCode = min(code, 127); oc.version = 1; m.operatorCodes.append(oc); return len(m.operatorCodes) - 1
    shared_data = {'weight': W0, 'bias': BIAS0, 'addend': CONST_ADD}[what]
    shared_buf = add_buffer(shared_data)
    groups = [[i] for i in range(k)] if topo == 'subgraphs' else [list(range(k))]
    variant = case.get('variant')
    for gi, ops_here in enumerate(groups):
        sg = S.SubGraphT(); sg.name = f'sg{gi}'.encode(); sg.tensors = []; sg.operators = []
        def tensor(name, shape, buf):
            t = S.TensorT(); t.name = name.encode(); t.shape = list(shape); t.buffer = buf; t.type = FLOAT32; sg.tensors.append(t); return len(sg.tensors) - 1
        x = tensor(f'x{gi}', [1, 4], add_buffer()); prev = x; outs = []; shared_tensor = None
        for i in ops_here:
            if topo == 'one-tensor':
                if shared_tensor is None: shared_tensor = tensor('shared', shared_data.shape, shared_buf)
                c = shared_tensor
            else: c = tensor(f'c{i}', shared_data.shape, shared_buf)
            y = tensor(f'y{i}', [1, 4], add_buffer()); src = prev if wiring == 'chain' else x
            o = S.OperatorT(); o.outputs = [y]
            if what == 'addend':
                o.opcodeIndex = opcode(B.ADD); o.inputs = [src, c]; o.builtinOptionsType = S.BuiltinOptions.AddOptions; o.builtinOptions = S.AddOptionsT()
            else:
                o.opcodeIndex = opcode(B.FULLY_CONNECTED); o.builtinOptionsType = S.BuiltinOptions.FullyConnectedOptions; o.builtinOptions = S.FullyConnectedOptionsT()
                if what == 'weight': o.inputs = [src, c, -1]
                else: o.inputs = [src, tensor(f'w{i}', [4, 4], add_buffer(W0 + 0.1 * (i + 1))), c]
            sg.operators.append(o); prev = y; outs.append(y)
        sg.inputs = [x]; sg.outputs = [prev] if wiring == 'chain' else outs
        if topo == 'unlisted' and variant in ('unused', 'graph-output'):
            extra = tensor('c_extra', shared_data.shape, shared_buf)               # references the shared buffer, is not an operand of any operator
            if variant == 'graph-output': sg.outputs = list(sg.outputs) + [extra]
        m.subgraphs.append(sg)
        sd = S.SignatureDefT(); sd.signatureKey = (f'sig{gi}' if topo == 'subgraphs' else 'serving_default').encode(); sd.subgraphIndex = gi; sd.inputs = []; sd.outputs = []
        tm = S.TensorMapT(); tm.name = b'in0'; tm.tensorIndex = x; sd.inputs.append(tm)
        for j, t in enumerate(sg.outputs):
            tm = S.TensorMapT(); tm.name = f'out{j}'.encode(); tm.tensorIndex = t; sd.outputs.append(tm)
        m.signatureDefs.append(sd)
    if topo == 'unlisted' and variant == 'signature-output':
        # a second signature that returns the tied constant (no operator): 'get_table'
        sg = S.SubGraphT(); sg.name = b'sg_table'; sg.operators = []; t = S.TensorT(); t.name = b'table'; t.shape = list(shared_data.shape); t.buffer = shared_buf; t.type = FLOAT32
        sg.tensors = [t]; sg.inputs = []; sg.outputs = [0]; m.subgraphs.append(sg)
        sd = S.SignatureDefT(); sd.signatureKey = b'get_table'; sd.subgraphIndex = len(m.subgraphs) - 1; sd.inputs = []; sd.outputs = []
        tm = S.TensorMapT(); tm.name = b'out0'; tm.tensorIndex = 0; sd.outputs.append(tm); m.signatureDefs.append(sd)
    return bytes(M.fu.convert_object_to_bytearray(m))

def decode(data, ttype, n):
    raw = np.asarray(data, dtype=np.uint8).tobytes() if data is not None else b''
    if ttype == INT4:
        if len(raw) != (n + 1) // 2: return None
        a = np.frombuffer(raw, np.uint8); lo = (a & 0x0F).astype(np.int8); hi = (a >> 4).astype(np.int8)
        v = np.stack([lo, hi], 1).reshape(-1)[:n]; return np.where(v > 7, v - 16, v).astype(np.int64)
    if ttype not in ITEMSIZE or len(raw) != n * ITEMSIZE[ttype]: return None
    return np.frombuffer(raw, {0: np.float32, 1: np.float16, 2: np.int32, 4: np.int64, 7: np.int16, 9: np.int8, 3: np.uint8}[ttype])

def check_buffers(M, mb, qb, case=None, modes=None):
    """the `observe_at` of the property: for every data-bearing buffer of the returned model, all tensors referencing it (any subgraph)"""
    m0 = M.fu.read_model_from_bytearray(bytearray(mb)); m1 = M.fu.read_model_from_bytearray(bytearray(qb)); fails = []
    orig = {}
    for sg in m0.subgraphs:
        for t in sg.tensors:
            d = m0.buffers[t.buffer].data
            if t.buffer and d is not None and len(d): orig[t.name] = np.frombuffer(np.asarray(d, dtype=np.uint8).tobytes(), np.float32)
    users = {}
    for si, sg in enumerate(m1.subgraphs):
        for ti, t in enumerate(sg.tensors): users.setdefault(t.buffer, []).append((si, ti, t))
    for b, us in sorted(users.items()):
        d = m1.buffers[b].data
        if b == 0 or d is None or len(d) == 0: continue
        sigs = set()
        for si, ti, t in us:
            n = int(np.prod(t.shape)) if t.shape is not None and len(t.shape) else 1; qz = t.quantization
            sc = [] if qz is None or qz.scale is None else [float(v) for v in qz.scale]; zp = [] if qz is None or qz.zeroPoint is None else [int(v) for v in qz.zeroPoint]
            qd = 0 if qz is None else int(qz.quantizedDimension)
            sigs.add((int(t.type), tuple(sc), tuple(zp), qd if len(sc) > 1 else 0))
            vals = decode(d, int(t.type), n); nm = t.name.decode()
            if vals is None: fails.append(f'C15:bytes-vs-dtype buffer {b} holds {len(d)} bytes, tensor {nm} has type {t.type} and {n} elements'); continue
            if t.name not in orig: continue
            o = orig[t.name]
            if int(t.type) == FLOAT32:
                if sc: fails.append(f'C15:float-tensor-with-quantization-record {nm}')
                if not np.array_equal(vals, o): fails.append(f'C15:float-bytes-changed {nm}')
            elif int(t.type) in (INT8, INT16, INT32, INT4):
                if not sc or len(sc) != len(zp): fails.append(f'C15:integer-tensor-without-parameters {nm}'); continue
                shape = list(t.shape); v = vals.astype(np.float64).reshape(shape); oo = o.astype(np.float64).reshape(shape)
                if len(sc) > 1:
                    bs = [1] * len(shape); bs[qd] = len(sc)
                    if shape[qd] != len(sc): fails.append(f'C15:per-channel-length {nm}'); continue
                    s_ = np.array(sc).reshape(bs); z_ = np.array(zp).reshape(bs)
                else: s_, z_ = sc[0], zp[0]
                err = np.abs((v - z_) * s_ - oo); worst = float(np.max(err / s_))
                if worst > 1.0 + 1e-6: fails.append(f'C15:decoded-values-off-by-{worst:.2f}-steps {nm}')
            else: fails.append(f'C15:unexpected-dtype {t.type} {nm}')
        if len(sigs) > 1: fails.append(f'C15:tensors-on-buffer-{b}-disagree {sorted(sigs)}')
    # a float consumer never reads integer bytes / an integer consumer never reads float bytes: operand dtype seen by each original op
    if case is not None and modes is not None and case['what'] in ('weight', 'addend'):
        B = M.S.BuiltinOperator; codes = [c.builtinCode for c in m1.operatorCodes]; i = 0
        for sg in m1.subgraphs:
            deq = {op.outputs[0]: op.inputs[0] for op in sg.operators if codes[op.opcodeIndex] == B.DEQUANTIZE}
            for op in sg.operators:
                if codes[op.opcodeIndex] in (B.QUANTIZE, B.DEQUANTIZE): continue
                mode = modes[i]; i += 1; c = op.inputs[1]; ty = int(sg.tensors[c].type)
                want = {'none': FLOAT32, 'wo8': FLOAT32, 'drq8': INT8, 'srq8': INT8, 'srq16': INT8 if case['what'] == 'weight' else INT16}[mode]
                if ty != want: fails.append(f'C15:consumer-{i - 1}-({mode})-reads-operand-of-type-{ty}')
                if ty == FLOAT32 and c in deq and int(sg.tensors[deq[c]].type) == FLOAT32: fails.append(f'C15:dequantize-of-float-bytes consumer {i - 1}')
                if ty == FLOAT32 and c not in deq:
                    d = m1.buffers[sg.tensors[c].buffer].data
                    if d is None or len(d) != 4 * int(np.prod(sg.tensors[c].shape)): fails.append(f'C15:float-consumer-{i - 1}-reads-non-float-bytes')
    return fails

_E2E = {}
def e2e_case(case, M=None):
    """returns ('raise', text) | ('ok', []) | ('fail', [tags])"""
    M = M or _E2E.setdefault('m', e2e_mods()); q = M.q; N_ = q.TFLOperationName
    mb = build_model(M, case); modes = case['modes']
    qt = M.quantizer.Quantizer(bytearray(mb))
    opname = N_.ADD if case['what'] == 'addend' else N_.FULLY_CONNECTED
    for i, mode in enumerate(modes):
        if mode == 'none': continue
        if case['what'] == 'addend' and mode in ('drq8', 'wo8'): return ('skip', 'mode not applicable to ADD')
        qt.update_quantization_recipe(f'^y{i};?$', opname, cfg(q, mode))
    rs = np.random.RandomState(1)
    try:
        cal = None
        if qt.need_calibration:
            keys = [f'sig{g}' for g in range(case['k'])] if case['topology'] == 'subgraphs' else ['serving_default']
            for key in keys:
                cal = qt.calibrate([{'in0': rs.randn(1, 4).astype(np.float32)} for _ in range(2)], signature_key=key, previous_calibration_result=cal)
        qb = qt.quantize(cal).quantized_model
    except Exception as e:
        return ('raise', describe(e))
    fails = check_buffers(M, mb, qb, case, modes)
    if fails:                                   # diagnostic only: does the runtime accept the float model and refuse the returned one?
        try:
            from ai_edge_quantizer.utils import tfl_interpreter_utils as tiu
            tiu.create_tfl_interpreter(bytes(mb))
            try: tiu.create_tfl_interpreter(bytes(qb))
            except Exception as e: fails.append('C15:LiteRT-loads-the-float-model-but-refuses-the-returned-model: ' + ' '.join(str(e).split())[:160])
        except Exception: pass
    return ('fail', fails) if fails else ('ok', [])

UNLISTED = ['signature-output', 'graph-output', 'unused']
def unlisted_cases():
    return [dict(topology='unlisted', variant=v, k=1, wiring='chain', what='weight', modes=[md]) for v in UNLISTED for md in MODES]

def e2e_cases(k3=True):
    out = []
    for what, modes_ in (('weight', MODES), ('bias', MODES), ('addend', ['none', 'srq8', 'srq16'])):
        for topo in ('two-tensors', 'one-tensor', 'subgraphs'):
            for k in ((2, 3) if (k3 and what == 'weight') else (2,)):
                for wiring in (('chain', 'parallel') if (k == 2 and topo != 'subgraphs') else ('chain',)):
                    for ms in itertools.product(modes_, repeat=k):
                        out.append(dict(topology=topo, k=k, wiring=wiring, what=what, modes=list(ms)))
    return out

# ------------------------------------------------------------------------------------------------ buffer_to_tensors on a model described by a solver counter-model
def b2t_model_case(m, case):
    """case: dict(subgraphs=[dict(n_tensors, tensor_buffers=[...], operands_of_ops=[[tensor index, ...], ...])]) — real schema objects, the REAL buffer_to_tensors;
    returns what is missing when a tensor references a buffer that is a key of the map without being listed under it, else None"""
    S = m.schema; model = S.ModelT(); model.subgraphs = []
    for si, g in enumerate(case['subgraphs']):
        sg = S.SubGraphT(); sg.tensors = []; sg.operators = []
        bufs = list(g.get('tensor_buffers', [])) + [0] * max(0, g['n_tensors'] - len(g.get('tensor_buffers', [])))
        data = list(g.get('buffer_holds_data', [])) + [True] * g['n_tensors']
        for t in range(g['n_tensors']):
            T = S.TensorT(); T.name = f's{si}t{t}'.encode(); T.buffer = int(bufs[t]); T.on_data_buffer = bool(data[t]); sg.tensors.append(T)
        for opnds in g.get('operands_of_ops', []):
            if any(not (0 <= o < g['n_tensors']) for o in opnds): return None
            op = S.OperatorT(); op.inputs = np.array(list(opnds), np.int32); op.outputs = np.array([], np.int32); sg.operators.append(op)
        model.subgraphs.append(sg)
    mp = m.tfu.buffer_to_tensors(model); missing = []
    for si, sg in enumerate(model.subgraphs):
        for t in sg.tensors:
            if t.on_data_buffer and t.buffer in mp and not any(u is t for u in mp[t.buffer]): missing.append(dict(subgraph=si, tensor=t.name.decode(), buffer=int(t.buffer), listed_under_that_buffer=[u.name.decode() for u in mp[t.buffer]]))
    return missing or None

def unlisted_sharers(M, mb):
    """tensors of the model (bytes) that reference a data-bearing buffer without being an operand of any operator of any subgraph: the class of the known finding"""
    m0 = M.fu.read_model_from_bytearray(bytearray(mb)); out = []
    for si, sg in enumerate(m0.subgraphs):
        used = {int(t) for op in sg.operators for t in list(op.inputs) + list(op.outputs) if t != -1}
        for ti, t in enumerate(sg.tensors):
            d = m0.buffers[t.buffer].data
            if t.buffer and d is not None and len(d) and ti not in used: out.append((si, t.name.decode()))
    return out

# ------------------------------------------------------------------------------------------------ parse_op_tensors / buffer_to_tensors against the specification written in Python
def b2t_oracle_case(m, case):
    """case: dict(subgraphs=[dict(tensor_buffers=[...], ops=[[outputs, inputs], ...])]); reference (from the contract text): for every subgraph in order, every operator in
    order, outputs then inputs, every operand != -1: append the tensor to the list of its buffer; keys in order of first occurrence"""
    S = m.schema; model = S.ModelT(); model.subgraphs = []; ref = {}
    for si, g in enumerate(case['subgraphs']):
        sg = S.SubGraphT(); sg.tensors = []; sg.operators = []
        for t, b in enumerate(g['tensor_buffers']):
            T = S.TensorT(); T.name = f's{si}t{t}'.encode(); T.buffer = int(b); sg.tensors.append(T)
        for outs, ins in g['ops']:
            op = S.OperatorT(); op.inputs = np.array(list(ins), np.int32); op.outputs = np.array(list(outs), np.int32); sg.operators.append(op)
            want_parse = [sg.tensors[i] for i in list(outs) + list(ins) if i != -1]
            try: got = m.tfu.parse_op_tensors(op, sg.tensors)
            except Exception as e: return 'parse_op_tensors raised ' + describe(e)
            if len(got) != len(want_parse) or any(a is not b for a, b in zip(got, want_parse)): return f'parse_op_tensors returned {[t.name for t in got]}, specification {[t.name for t in want_parse]}'
            for T in want_parse: ref.setdefault(T.buffer, []).append(T)
        model.subgraphs.append(sg)
    try: got = m.tfu.buffer_to_tensors(model)
    except Exception as e: return 'buffer_to_tensors raised ' + describe(e)
    if list(got.keys()) != list(ref.keys()): return f'keys {list(got.keys())}, specification {list(ref.keys())}'
    for b in ref:
        if len(got[b]) != len(ref[b]) or any(x is not y for x, y in zip(got[b], ref[b])): return f'buffer {b}: {[t.name for t in got[b]]}, specification {[t.name for t in ref[b]]}'
    return None
def b2t_oracle_cases():
    ops1 = [[list(o), list(i)] for o in ((), (0,), (1,)) for i in ((), (0,), (1, 0), (-1, 1), (1, 1))]
    for bufs in ((0, 0), (0, 1), (1, 1), (2, 1)):
        for a in ops1:
            yield dict(subgraphs=[dict(tensor_buffers=list(bufs), ops=[a])])
            for b in ops1[::3]:
                yield dict(subgraphs=[dict(tensor_buffers=list(bufs), ops=[a, b])])
                yield dict(subgraphs=[dict(tensor_buffers=list(bufs), ops=[a]), dict(tensor_buffers=[1, 0], ops=[b])])
