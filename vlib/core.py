"""Shared infrastructure: extraction of real functions from /repo, obligation records, evidence files, known findings,
verdict/exit discipline.  Every check (props/Cxx.py) builds a Report through this module.

Exit discipline (DESIGN §2.1):
  0  every registered obligation discharged (known findings confined to their class and still reproducing)
  1  VIOLATION: a refuted obligation (with a natively replayed input where one could be concretised; otherwise
     the line ends with no-failing-input-found and the replay file carries the solver output)
  2  UNDECIDED: solver unknown/timeout on an obligation whose function text is byte-identical to the locked baseline
  3  engine failure (crash, canary still verifying, replay contradicting the counter-model)
"""
import ast, hashlib, json, os, sys, time, traceback, textwrap

VERIF = os.path.dirname(os.path.dirname(os.path.abspath(__file__)))
REPO = os.environ.get('VERIF_REPO', '/repo')
PKG = os.path.join(REPO, 'ai_edge_quantizer')
LOCK_PATH = os.path.join(VERIF, 'obligations.lock.json')
KF_PATH = os.path.join(VERIF, 'known_findings.json')
OUT = os.environ.get('VERIF_OUT_DIR') or os.path.join(VERIF, 'out')          # replay files written at run time (git-ignored)
EVIDENCE_DIR = os.environ.get('VERIF_EVIDENCE_DIR') or os.path.join(VERIF, 'evidence')     # (overridden only by checks/seedtest.sh, so that runs on a changed scratch tree do not replace the evidence of the real tree)

# ----------------------------------------------------------------------------------------------- source extraction
_src_cache = {}
def read_source(relpath):
    """text of a repository file, read from the working tree on every run (never from a copy)."""
    p = os.path.join(PKG, relpath)
    if p not in _src_cache:
        with open(p) as f: _src_cache[p] = f.read()
    return _src_cache[p]

class Fn:
    """A function (or method) of the real repository: located by qualified name in the file's AST."""
    def __init__(self, relpath, qual, src_override=None):
        self.relpath, self.qual = relpath, qual
        self.file_src = src_override if src_override is not None else read_source(relpath)
        self.tree = ast.parse(self.file_src)
        node = self.tree
        for part in qual.split('.'):
            node = next((n for n in ast.iter_child_nodes(node) if isinstance(n, (ast.FunctionDef, ast.ClassDef)) and n.name == part), None)
            if node is None: raise LookupError(f'{qual} not found in {relpath}')
        self.node = node
        self.line = node.lineno
        self.text = ast.get_source_segment(self.file_src, node)
        # hash of the normalised AST (docstrings, comments, annotations and layout are what extraction drops)
        self.sha = hashlib.sha256(ast.dump(strip_for_hash(node)).encode()).hexdigest()[:16]
        self.text_sha = hashlib.sha256(self.text.encode()).hexdigest()[:16]
    @property
    def name(self): return f'{self.relpath[:-3].replace("/", ".")}.{self.qual}'
    def record(self): return dict(name=self.name, file='ai_edge_quantizer/' + self.relpath, line=self.line, sha256=self.text_sha, ast_sha=self.sha)

def strip_for_hash(node):
    """copy of the function AST without docstrings and annotations (exactly what the VC generator ignores)."""
    import copy
    n = copy.deepcopy(node)
    for sub in ast.walk(n):
        if isinstance(sub, (ast.FunctionDef, ast.ClassDef, ast.Module)) and sub.body and isinstance(sub.body[0], ast.Expr) \
           and isinstance(sub.body[0].value, ast.Constant) and isinstance(sub.body[0].value.value, str):
            sub.body = sub.body[1:] or [ast.Pass()]
        if isinstance(sub, ast.FunctionDef):
            sub.returns = None
            for a in sub.args.args + sub.args.kwonlyargs + sub.args.posonlyargs: a.annotation = None
    return n

# ----------------------------------------------------------------------------------------------- obligations
PROVED, REFUTED, UNKNOWN, ERROR = 'proved', 'refuted', 'unknown', 'error'
INCONCLUSIVE = 'inconclusive'     # a supporting lemma (code-to-spec link) failed without any natively failing input: the property is undecided, not violated

class Ob:
    """One proof obligation and its verdict."""
    def __init__(self, oid, fn=None, backend='z3-qf', status=UNKNOWN, time_s=0.0, detail='', model=None, replay=None, clause=''):
        self.id, self.fn, self.backend, self.status, self.time_s = oid, fn, backend, status, time_s
        self.detail, self.model, self.replay, self.clause = detail, model, replay, clause
    def sample(self):
        d = dict(obligation=self.id, backend=self.backend, result=self.status, time_s=round(self.time_s, 3))
        if self.clause: d['clause'] = self.clause[:300]
        return d

def load_json(path, default):
    try:
        with open(path) as f: return json.load(f)
    except FileNotFoundError: return default

class Report:
    def __init__(self, prop, tier='quick', seed=0, level='proof'):
        self.prop, self.tier, self.seed, self.level = prop, tier, seed, level
        self.t0 = time.time(); self.obs = []; self.fns = {}; self.bounded = []; self.assumptions = []; self.trusted = []
        self.canaries = []; self.covers = 0; self.covers_failed = []; self.kf_lines = []; self.violations = []; self.undecided = []; self.errors = []
        self.notes = []; self.extra = {}
        self.lock = load_json(LOCK_PATH, {}).get(prop, {})
        self.kf = [k for k in load_json(KF_PATH, {'findings': []})['findings'] if k.get('property') == prop]
        os.makedirs(OUT, exist_ok=True)
    # ---- registration
    def fn(self, f):
        self.fns[f.name] = f; return f
    def add(self, ob): self.obs.append(ob); return ob
    def extend(self, obs):
        for o in obs: self.add(o)
    def assume(self, text):
        if text not in self.assumptions: self.assumptions.append(text)
    def trust(self, text):
        if text not in self.trusted: self.trusted.append(text)
    def add_bounded(self, function, scope, cases, failures=0, note=''):
        self.bounded.append(dict(function=function, scope=scope, cases=cases, failures=failures, note=note, label='bounded (not counted as proved)'))
    def canary(self, name, killed, detail=''):
        self.canaries.append(dict(canary=name, killed=bool(killed), detail=detail))
        if not killed: self.errors.append(f'canary still verifies: {name} {detail}')
    def cover(self, name, ok):
        if ok: self.covers += 1
        else: self.covers_failed.append(name); self.errors.append(f'vacuity: cover {name} unreachable')
    # ---- known findings
    def active_findings(self):
        return [k for k in self.kf if k.get('status') == 'known']
    def finding_for(self, oid):
        for k in self.active_findings():
            if oid in k.get('obligations', []) or any(oid.startswith(p) for p in k.get('obligation_prefixes', [])): return k
        return None
    def known_finding(self, k, still_fails, what=None):
        """called by a check after replaying the witness of a listed finding natively"""
        if still_fails: self.kf_lines.append(f"KNOWN-FINDING: property={self.prop} {what or k['what']}")
        else: self.notes.append(f"listed finding {k['id']} no longer reproduces natively (witness passes)")
    # ---- verdicts
    def write_replay(self, ob, payload):
        path = os.path.join(OUT, f'{self.prop}_{sanitize(ob.id)}.replay.json')
        payload = dict(property=self.prop, obligation=ob.id, function=ob.fn.name if ob.fn else None,
                       file=('ai_edge_quantizer/' + ob.fn.relpath + f':{ob.fn.line}') if ob.fn else None,
                       clause=ob.clause, backend=ob.backend, solver_status=ob.status, solver_output=str(ob.detail)[:4000], **payload)
        with open(path, 'w') as f: json.dump(payload, f, indent=1, default=str)
        return path
    def classify(self):
        for ob in self.obs:
            if ob.status == PROVED: continue
            changed = False          # spec-level lemmas (no code attached) cannot change with the repository
            if ob.fn is not None:
                locked = self.lock.get(ob.id, {}).get('fn_sha')
                changed = (locked is None) or (locked != ob.fn.sha)
            if ob.status == ERROR:
                self.errors.append(f'{ob.id}: {ob.detail}'); continue
            if ob.status == INCONCLUSIVE:
                self.undecided.append(ob); continue
            if ob.status == REFUTED and changed and ob.backend in ('ast-dataflow', 'syntactic-dataflow') and not (isinstance(ob.replay, dict) and ob.replay.get('confirmed')) and self.standins_clean():
                # a SYNTACTIC pattern no longer matches the (changed) function text, no input fails natively and every native stand-in of this check ran without a failure: the clause is undecided by
                # this contract (the pattern has to be re-stated), it is not reported as a violation of the property
                ob.status = UNKNOWN; ob.detail = f'syntactic pattern no longer matches the changed function; the {len(self.bounded)} native stand-in(s) of this check found no failing input. ' + str(ob.detail)[:300]
                self.undecided.append(ob); continue
            if ob.status == UNKNOWN and changed and ob.id in self.lock and isinstance(ob.replay, dict) and ob.replay.get('native_search_ran') and self.standins_clean():
                # undischarged (no counter-model) on a changed function, the function's native search and every stand-in of the check found no failing input: undecided, not a violation
                self.undecided.append(ob); continue
            if ob.status == REFUTED or (ob.status == UNKNOWN and changed and ob.id in self.lock):
                rp = ob.replay if isinstance(ob.replay, dict) else {}
                confirmed = bool(rp.get('confirmed'))
                path = self.write_replay(ob, rp or {'confirmed': False, 'note': 'no input could be concretised for this obligation'})
                self.violations.append((ob, path, confirmed))
            else:
                self.undecided.append(ob)
    def standins_clean(self):
        """at least one bounded native stand-in ran in this check, with cases, and none of them reported a failure"""
        b = [x for x in self.bounded if isinstance(x, dict)]
        return bool(b) and all(int(x.get('failures', x.get('fails', 0)) or 0) == 0 for x in b) and any(int(x.get('cases', 0) or 0) > 0 for x in b) \
               and not any(o.backend == 'bounded-native' and o.status == REFUTED for o in self.obs)
    def finish(self, checker_cmd=None):
        self.classify()
        wall = time.time() - self.t0
        n = len(self.obs); d = sum(1 for o in self.obs if o.status == PROVED)
        backends = {}
        for o in self.obs: backends[o.backend] = backends.get(o.backend, 0) + 1
        # vacuity: the registered obligation count must be reproduced
        locked_n = len(self.lock)
        if n == 0: self.errors.append('no obligations generated (vacuous run)')
        have = {o.id for o in self.obs}; cur_sha = {f.name: f.sha for f in self.fns.values()}
        missing = [k for k in self.lock if k not in have]
        # a locked obligation that is not regenerated is a vacuity alarm only if its function is UNCHANGED (same normalised AST): after an edit
        # of the function, obligations may legitimately be renamed (their verdicts are then reported under the new names)
        stale = [k for k in missing if self.lock[k].get('fn') is None or cur_sha.get(self.lock[k].get('fn')) == self.lock[k].get('fn_sha')]
        # a run that declares itself partial (a changed function left the engine's subset: `.../engine-subset` is undecided or refuted) is reported as such, not as a vacuity error
        partial = any(o.id.endswith('engine-subset') and o.status != PROVED for o in self.obs)
        if stale and partial: self.notes.append(f'{len(stale)} locked obligations were not regenerated because the front end stopped at an engine-subset obligation (run is partial)')
        elif stale and not os.environ.get('VERIF_UPDATE_LOCK'):
            self.errors.append(f'{len(stale)} locked obligations of unchanged functions were not regenerated, e.g. {stale[:3]}')
        elif missing: self.notes.append(f'{len(missing)} locked obligation names were not regenerated because their functions changed (renamed obligations are reported under their new names)')
        samples = [o.sample() for o in self.obs if o.status != PROVED][:10]
        step = max(1, n // 12)
        samples += [o.sample() for o in self.obs[::step]][:14]
        cov = dict(obligations=n, discharged=d, checker_cmd=checker_cmd or f'./vrun checks/run.py {self.prop} --tier {self.tier}',
                   trusted_base=self.trusted, functions_under_contract=[f.record() for f in self.fns.values()],
                   samples=samples, backends=backends, solver_time_s=round(sum(o.time_s for o in self.obs), 2),
                   bounded=self.bounded, canaries=self.canaries, canaries_killed=sum(1 for c in self.canaries if c['killed']),
                   covers_sat=self.covers, known_findings=[l for l in self.kf_lines], notes=self.notes,
                   undecided=[o.id for o in self.undecided], locked_obligations=locked_n,
                   explanation='obligations = verification conditions generated from the current /repo source and discharged by the named back ends; '
                               'bounded stand-ins are listed separately and never counted', **self.extra)
        ev = dict(property_id=self.prop, tier=self.tier, seed=self.seed, level=self.level, coverage=cov, assumptions=self.assumptions,
                  wall_s=round(wall, 2), violations=len(self.violations))
        os.makedirs(EVIDENCE_DIR, exist_ok=True)
        with open(os.path.join(EVIDENCE_DIR, f'{self.prop}.json'), 'w') as f: json.dump(ev, f, indent=1, default=str)
        print(f'[{self.prop}] tier={self.tier} functions={len(self.fns)} obligations={n} discharged={d} '
              f'bounded={len(self.bounded)} canaries={cov["canaries_killed"]}/{len(self.canaries)} covers={self.covers} wall={wall:.1f}s')
        for l in self.kf_lines: print(l)
        for nme in self.notes: print('NOTE:', nme)
        code = 0
        if self.violations:
            seen = set()
            for ob, path, confirmed in self.violations:
                tail = '' if confirmed else ' no-failing-input-found'
                print(f'VIOLATION property={self.prop} replay={path}{tail}')
                print(f'  failed obligation: {ob.id} [{ob.status}] {ob.clause[:200]}')
            code = 1
        if self.errors:
            for e in self.errors: print('ENGINE-ERROR:', e)
            code = code or 3
        if self.undecided and not code:
            for o in self.undecided: print(f'UNDECIDED obligation={o.id} [{o.status}] {str(o.detail)[:200]}')
            code = 2
        return code

def native_search_for_undischarged(o, fallback, cache, label):
    """an obligation that is not proved and has no replayed counter-model: the function's bounded native search decides whether an input fails on the real code (memoised in `cache`);
    a failing input makes the obligation REFUTED with that input, a clean search is recorded so that `Report.classify` can call the obligation undecided instead of a violation"""
    if o.status != UNKNOWN or not fallback: return
    if '$fb' not in cache:
        try: cache['$fb'] = fallback(label)
        except Exception as e: cache['$fb'] = dict(confirmed=False, crashed=True, note=f'native search crashed: {e!r}')
    fb = cache['$fb']
    if fb and fb.get('confirmed'): o.status = REFUTED; o.replay = dict(fb, note='undischarged obligation; failing input found by the bounded native search of this function')
    elif not (fb or {}).get('crashed'): o.replay = dict(confirmed=False, native_search_ran=True, note='undischarged obligation; the bounded native search of this function found no failing input')

def oracle_selfcheck(rep, fn, fallback, all_proved, label='oracle-selfcheck'):
    """thorough tier: the native search that decides `engine-subset` obligations (it only runs when the engine cannot follow a changed function) is executed on the
    CURRENT function as well; if it reports a failing input although every obligation of that function is proved, the oracle itself is wrong (it would raise false alarms)"""
    if not fallback or not all_proved or getattr(rep, 'tier', 'quick') != 'thorough': return
    try: fb = fallback(label)
    except Exception as e: rep.notes.append(f'native search of {fn.name} could not run on the current tree: {type(e).__name__}: {e}'); return
    rep.extra.setdefault('fallback_oracles_checked', []).append(fn.name)
    if fb and fb.get('confirmed'): rep.errors.append(f'native fallback search of {fn.name} reports a failing input although every obligation is proved (inconsistent oracle): {str(fb)[:300]}')

def sanitize(s): return ''.join(c if c.isalnum() or c in '._-' else '_' for c in s)[:150]

def update_lock(prop, obs):
    lock = load_json(LOCK_PATH, {})
    lock[prop] = {o.id: dict(fn_sha=o.fn.sha if o.fn else None, fn=o.fn.name if o.fn else None) for o in obs if o.status == PROVED}
    with open(LOCK_PATH, 'w') as f: json.dump(lock, f, indent=0, sort_keys=True)

# ----------------------------------------------------------------------------------------------- loading real modules cheaply
def stub_package():
    """make `ai_edge_quantizer.*` importable from the working tree WITHOUT running ai_edge_quantizer/__init__.py (which imports
    tensorflow through quantizer.py).  Sub-modules are the real, unmodified files."""
    import types, importlib
    if 'ai_edge_quantizer' in sys.modules and getattr(sys.modules['ai_edge_quantizer'], '__verif_stub__', False): return
    for name, path in (('ai_edge_quantizer', PKG),):
        m = types.ModuleType(name); m.__path__ = [path]; m.__verif_stub__ = True; sys.modules[name] = m

def run_pool(fn, n, procs=None, hard_s=None, on_timeout=None, stop_when=None):
    """fork-based pool over indices 0..n-1 (z3 objects live in the parent's memory image; only verdict tuples travel back).
    With `hard_s`, every task runs in its OWN forked process under a hard wall-clock limit: a solver call that ignores its soft timeout is killed
    and the task's result is on_timeout(i) (an 'undecided' verdict, never a violation), so one stuck query cannot hang a whole check.
    With `stop_when` (hard_s mode only) the pool stops as soon as a result satisfies the predicate; unfinished tasks yield None."""
    import multiprocessing as mp
    procs = procs or min(16, os.cpu_count() or 4)
    if n == 0: return []
    if hard_s is None:
        if procs <= 1 or n == 1: return [fn(i) for i in range(n)]
        ctx = mp.get_context('fork')
        with ctx.Pool(min(procs, n)) as pool:
            return pool.map(fn, range(n), chunksize=1)
    ctx = mp.get_context('fork'); res = [None] * n; live = {}; wid = 0; stopped = False
    chunk = max(1, min(8, n // (procs * 4)))                       # a forked worker handles a few tasks (fork of the large parent image is not free)
    queue = [list(range(k, min(n, k + chunk))) for k in range(0, n, chunk)]
    def child(tasks, conn):
        for i in tasks:
            try: conn.send((i, fn(i)))
            except BaseException as e: conn.send((i, ('__error__', repr(e))))
        conn.close()
    while queue or live:
        while queue and len(live) < procs:
            tasks = queue.pop(0); a, b_ = ctx.Pipe(duplex=False); pr = ctx.Process(target=child, args=(tasks, b_)); pr.start(); b_.close()
            live[wid] = [pr, a, time.time(), list(tasks)]; wid += 1
        done = []; progressed = False
        for w, st in live.items():
            pr, a, t0, tasks = st
            try:
                while tasks and a.poll(0):
                    i, r = a.recv(); res[i] = r; tasks.remove(i); st[2] = time.time(); progressed = True
                    if stop_when is not None and stop_when(r): stopped = True
            except EOFError: pass
            if not tasks: pr.join(5); done.append(w)
            elif not pr.is_alive() and not a.poll(0):
                res[tasks[0]] = ('__error__', f'worker exited with code {pr.exitcode}'); rest = tasks[1:]
                if rest: queue.append(rest)
                done.append(w)
            elif time.time() - st[2] > hard_s:
                pr.kill(); pr.join(5); res[tasks[0]] = ('__timeout__', hard_s); rest = tasks[1:]
                if rest: queue.append(rest)
                done.append(w)
        for w in done: live.pop(w)[1].close()
        if stopped:
            for w, st in live.items(): st[0].kill(); st[0].join(5); st[1].close()
            live.clear(); queue[:] = []
        if not done and not progressed: time.sleep(0.02)
    out = []
    for i, r in enumerate(res):
        if r is None and stopped: out.append(None); continue
        if isinstance(r, tuple) and len(r) == 2 and r[0] == '__timeout__':
            if on_timeout is None: raise RuntimeError(f'task {i} exceeded the hard limit of {hard_s}s')
            r = on_timeout(i)
        elif isinstance(r, tuple) and len(r) == 2 and r[0] == '__error__': raise RuntimeError(f'task {i} failed in its worker: {r[1]}')
        out.append(r)
    return out
