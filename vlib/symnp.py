"""Second front end (DESIGN §2.1): verification conditions for the numpy arithmetic carriers are obtained by letting CPython
execute the REAL, unmodified repository functions on symbolic array stand-ins.  Nothing is translated, so nothing can be
mistranslated: control flow on configuration values (num_bits, symmetric, dtype checks) is executed by Python itself, dtype
promotion is computed by numpy's own np.result_type, and every arithmetic step builds a z3 term.

Abstraction: a SymArray is ONE ARBITRARY ELEMENT of an array (z3 term) + a real numpy dtype + a concrete shape tuple.
  * integer dtypes are machine integers: every result is wrapped to its dtype (int8 - int8 wraps);
  * float dtypes are mathematical reals in the default mode ("machine arithmetic treated as mathematical", recorded as an
    assumption), or IEEE terms (z3 FP theory, RNE) in FP mode, used for finiteness/sign obligations;
  * float -> int `astype` emits the side obligation "value is integral and within the target range" (numpy's behaviour
    is undefined otherwise) and is then exact;
  * x / y emits the side obligation y != 0 and is encoded as a fresh t with t*y == x (keeps the problem in QF_NRA);
  * np.rint is the uninterpreted function rint : Real -> Int constrained by |rint(x)-x| <= 1/2, monotonicity and
    rint(n) = n for integers n (all three hold for round-half-to-even; instantiated for every application pair);
  * a numpy entry point that is not intercepted, or a symbolic value reaching bool(), raises Undecided - never ignored.
Elementwise numpy = pointwise lifting (trusted)."""
import itertools, sys, time
import numpy as np, z3

class Undecided(Exception): pass

DIV = z3.Function('DIV', z3.RealSort(), z3.RealSort(), z3.RealSort())      # x / y as an uninterpreted function: equal arguments => equal quotients
RINT = z3.Function('RINT', z3.RealSort(), z3.IntSort())                     # np.rint

def div_fact(x, y): return z3.Implies(y != 0, DIV(x, y) * y == x)
def rint_facts(x, others=()):
    r = z3.ToReal(RINT(x)); out = [z3.And(x - r <= z3.RealVal('1/2'), r - x <= z3.RealVal('1/2')), z3.Implies(x == z3.ToReal(z3.ToInt(x)), r == x)]
    for x0 in others: out += [z3.Implies(x0 <= x, RINT(x0) <= RINT(x)), z3.Implies(x <= x0, RINT(x) <= RINT(x0))]
    return out

class Ctx:
    """collects the side obligations and definitional facts produced while the real code runs"""
    def __init__(self, fp=False):
        self.fp = fp; self.defs = []; self.side = []; self.rints = []; self.n = 0
    def fresh(self, base, sort):
        self.n += 1; return z3.Const(f'{base}!{self.n}', sort)
    def div(self, x, y):
        self.defs.append(div_fact(x, y)); return DIV(x, y)
    def rint(self, x):
        if not any(x.eq(x0) for x0 in self.rints):
            self.defs += rint_facts(x, self.rints); self.rints.append(x)
        return z3.ToReal(RINT(x))
    def hyps(self): return list(self.defs)

CUR = None
def ctx(): return CUR
class session:
    def __init__(self, fp=False): self.c = Ctx(fp)
    def __enter__(self):
        global CUR; self.prev = CUR; CUR = self.c; return self.c
    def __exit__(self, *a):
        global CUR; CUR = self.prev

def _wrap(t, dt, single=True):
    if dt.kind == 'f' or dt.kind == 'b': return t
    bits = dt.itemsize * 8; half = 2 ** (bits - 1); full = 2 ** bits
    t = z3.simplify(t)
    if z3.is_int_value(t):
        v = t.as_long(); return z3.IntVal(((v + half) % full) - half if dt.kind == 'i' else v % full)
    if dt.kind == 'i':
        if single: return z3.If(t > half - 1, t - full, z3.If(t < -half, t + full, t))
        return ((t + half) % full) - half
    return t % full

FP_SORTS = {2: z3.Float16(), 4: z3.Float32(), 8: z3.Float64()}
RNE = z3.RNE()
def fp_sort(dt): return FP_SORTS[np.dtype(dt).itemsize]
def fp_const(v, dt): return z3.FPVal(float(np.dtype(dt).type(v)), fp_sort(dt))
def fp_cast(t, dt):
    so = fp_sort(dt)
    return t if t.sort() == so else z3.fpFPToFP(RNE, t, so)

def _rv(v):
    """exact real value of a python/numpy float"""
    import fractions
    return z3.RealVal(str(fractions.Fraction(float(v))))

def lift(v):
    if isinstance(v, SymArray): return v
    if isinstance(v, (bool, np.bool_)): raise Undecided('bool operand')
    if isinstance(v, int): return ('pyint', v)
    if isinstance(v, float): return ('pyfloat', v)
    a = np.asarray(v)
    if a.size != 1: raise Undecided(f'concrete array operand with {a.size} elements')
    if a.dtype.kind == 'f': return SymArray(_rv(a.reshape(-1)[0]), a.dtype, a.shape)
    return SymArray(z3.IntVal(int(a.reshape(-1)[0])), a.dtype, a.shape)

def as_real(s): return s.term if s.dtype.kind == 'f' else z3.ToReal(s.term)

def result_dtype(a, b, name):
    """numpy's own promotion (NEP 50: python scalars are weak)"""
    def dt_of(x, other):
        if isinstance(x, SymArray): return x.dtype
        kind, val = x
        if kind == 'pyfloat': return other.dtype if other.dtype.kind == 'f' else np.dtype('float64')
        return other.dtype if other.dtype.kind in 'iuf' else np.dtype('int64')
    oa = a if isinstance(a, SymArray) else b; ob = b if isinstance(b, SymArray) else a
    if not isinstance(oa, SymArray): raise Undecided('no symbolic operand')
    rt = np.result_type(dt_of(a, ob), dt_of(b, oa))
    if name == 'true_divide' and rt.kind != 'f': rt = np.dtype('float64')
    return rt

def binop(name, a, b):
    a, b = lift(a), lift(b)
    if name == 'divide': name = 'true_divide'
    rt = result_dtype(a, b, name)
    def term(x):
        if isinstance(x, SymArray): return as_real(x) if rt.kind == 'f' else x.term
        return _rv(x[1]) if rt.kind == 'f' else z3.IntVal(int(x[1]))
    shape = np.broadcast_shapes(*(s.shape for s in (a, b) if isinstance(s, SymArray)))
    c = ctx()
    if c.fp:
        if rt.kind != 'f': raise Undecided('integer arithmetic in FP mode')
        def fterm(x):
            if isinstance(x, SymArray):
                if x.dtype.kind != 'f': raise Undecided('int operand in FP mode')
                return fp_cast(x.term, rt)
            return fp_const(x[1], rt)
        x, y = fterm(a), fterm(b)
        if name == 'add': t = z3.fpAdd(RNE, x, y)
        elif name == 'subtract': t = z3.fpSub(RNE, x, y)
        elif name == 'multiply': t = z3.fpMul(RNE, x, y)
        elif name == 'true_divide': t = z3.fpDiv(RNE, x, y)
        elif name == 'maximum': t = z3.If(z3.fpGEQ(x, y), x, y)       # NaN-free inputs assumed by the goals that use FP mode
        elif name == 'minimum': t = z3.If(z3.fpLEQ(x, y), x, y)
        else: raise Undecided('FP ufunc ' + name)
        return SymArray(t, rt, shape)
    x, y = term(a), term(b)
    if name == 'add': t = x + y
    elif name == 'subtract': t = x - y
    elif name == 'multiply': t = x * y
    elif name == 'true_divide':
        c.side.append(('division-by-nonzero', y != 0))
        if z3.is_rational_value(z3.simplify(y)): t = x / y
        else: t = c.div(x, y)
    elif name == 'maximum': t = z3.If(x >= y, x, y)
    elif name == 'minimum': t = z3.If(x <= y, x, y)
    elif name in ('bitwise_and', 'bitwise_or', 'left_shift', 'right_shift'):
        raise Undecided('bit operation on the real/int front end: ' + name)
    elif name in ('less', 'greater', 'less_equal', 'greater_equal', 'equal', 'not_equal'):
        raise Undecided('symbolic comparison: ' + name)
    else: raise Undecided('ufunc ' + name)
    return SymArray(_wrap(t, rt, single=(name in ('add', 'subtract', 'maximum', 'minimum'))), rt, shape)

def is_integral(t):
    """structural 'the real term t denotes an integer' (If pushed into branches; falls back to t == to_real(to_int(t)))"""
    if z3.is_app(t):
        k = t.decl().kind()
        if k == z3.Z3_OP_ITE: return z3.And(is_integral(t.arg(1)), is_integral(t.arg(2)))
        if k == z3.Z3_OP_TO_REAL: return z3.BoolVal(True)
        if z3.is_rational_value(t): return z3.BoolVal(t.denominator_as_long() == 1)
    return t == z3.ToReal(z3.ToInt(t))

class SymArray:
    __array_priority__ = 1000
    def __init__(self, term, dtype, shape=()):
        self.term, self.dtype, self.shape = term, np.dtype(dtype), tuple(int(d) for d in shape)
    ndim = property(lambda s: len(s.shape))
    size = property(lambda s: int(np.prod(s.shape)) if s.shape else 1)
    def __len__(self):
        if not self.shape: raise TypeError('len() of unsized object')
        return self.shape[0]
    def __array_ufunc__(self, ufunc, method, *inputs, **kw):
        if method != '__call__': raise Undecided(f'ufunc method {method}')
        if kw.get('out') is not None: raise Undecided('out=')
        n = ufunc.__name__
        if n == 'reciprocal' and len(inputs) == 1: return binop('true_divide', 1.0 if inputs[0].dtype.kind == 'f' else 1, inputs[0]) if inputs[0].dtype.kind == 'f' else (_ for _ in ()).throw(Undecided('integer reciprocal'))
        if n in ('absolute', 'rint', 'negative'):
            (x,) = inputs
            if ctx().fp:
                if n == 'absolute': return SymArray(z3.fpAbs(x.term), x.dtype, x.shape)
                if n == 'negative': return SymArray(z3.fpNeg(x.term), x.dtype, x.shape)
                return SymArray(z3.fpRoundToIntegral(RNE, x.term), x.dtype, x.shape)
            if n == 'absolute': t = z3.If(x.term >= 0, x.term, -x.term)
            elif n == 'negative': t = -x.term
            else: t = ctx().rint(x.term) if x.dtype.kind == 'f' else x.term
            return SymArray(_wrap(t, x.dtype), x.dtype, x.shape)
        if len(inputs) != 2: raise Undecided('ufunc ' + n)
        return binop(n, *inputs)
    def __array_function__(self, func, types_, args, kwargs):
        n = func.__name__
        if n in ('zeros_like', 'ones_like'):
            src = args[0]; dt = np.dtype(kwargs.get('dtype') or src.dtype); v = 0 if n == 'zeros_like' else 1
            if ctx().fp and dt.kind == 'f': return SymArray(fp_const(v, dt), dt, src.shape)
            return SymArray(z3.RealVal(v) if dt.kind == 'f' else z3.IntVal(v), dt, src.shape)
        if n == 'clip':
            x, lo, hi = args[:3]; x = lift(x)
            if isinstance(lo, SymArray) or isinstance(hi, SymArray): raise Undecided('symbolic clip bounds')
            rdt = np.clip(np.zeros(1, dtype=x.dtype), lo, hi).dtype          # numpy's own result dtype (NEP 50 weak scalars)
            if x.dtype.kind != 'f':
                if rdt.kind == 'f': xt = z3.ToReal(x.term); lo_t, hi_t = _rv(lo), _rv(hi)
                else:
                    if float(lo) != int(lo) or float(hi) != int(hi): raise Undecided('integer clip with fractional bounds')
                    xt = x.term; lo_t, hi_t = z3.IntVal(int(lo)), z3.IntVal(int(hi))
                return SymArray(z3.If(xt < lo_t, lo_t, z3.If(xt > hi_t, hi_t, xt)), rdt, x.shape)
            lo_t, hi_t = _rv(lo), _rv(hi)
            return SymArray(z3.If(x.term < lo_t, lo_t, z3.If(x.term > hi_t, hi_t, x.term)), rdt, x.shape)
        if n == 'squeeze':
            if kwargs.get('axis') is not None or len(args) > 1: raise Undecided('squeeze axis')
            return SymArray(self.term, self.dtype, tuple(d for d in self.shape if d != 1))
        if n == 'expand_dims':
            a = args[0]; ax = kwargs.get('axis', args[1] if len(args) > 1 else None)
            shp = np.expand_dims(np.empty(a.shape, dtype=np.int8), axis=ax).shape       # numpy's own shape rule
            return SymArray(a.term, a.dtype, shp)
        if n == 'shape': return args[0].shape
        if n == 'ndim': return args[0].ndim
        if n == 'size': return args[0].size
        raise Undecided('np.' + n)
    def astype(self, dt):
        dt = np.dtype(dt); c = ctx()
        if c.fp:
            if self.dtype.kind == 'f' and dt.kind == 'f': return SymArray(fp_cast(self.term, dt), dt, self.shape)
            if self.dtype.kind == 'f' and dt.kind in 'iu':      # value kept as an FP term; goals in FP mode only talk about floats
                return SymArray(self.term, self.dtype, self.shape)
            if self.dtype.kind == 'f' or dt.kind == 'f': raise Undecided('astype in FP mode')
        if self.dtype.kind == 'f' and dt.kind in 'iu':
            bits = dt.itemsize * 8; lo, hi = (-(2 ** (bits - 1)), 2 ** (bits - 1) - 1) if dt.kind == 'i' else (0, 2 ** bits - 1)
            c.side.append((f'cast-float-to-{dt}-exact', z3.And(is_integral(self.term), self.term >= lo, self.term <= hi)))
            return SymArray(z3.ToInt(self.term), dt, self.shape)
        if self.dtype.kind in 'iu' and dt.kind == 'f': return SymArray(z3.ToReal(self.term), dt, self.shape)
        if self.dtype.kind in 'iu' and dt.kind in 'iu':
            return SymArray(_wrap(self.term, dt, single=False), dt, self.shape)
        return SymArray(self.term, dt, self.shape)            # float -> float: real semantics (rounding not modelled; assumption)
    def flatten(self): return SymArray(self.term, self.dtype, (self.size,))
    def reshape(self, *shape):
        shp = np.empty(self.shape, dtype=np.int8).reshape(*shape).shape
        return SymArray(self.term, self.dtype, shp)
    def item(self): raise Undecided('.item() on a symbolic array (rank-0 path is covered by the bounded stand-in)')
    def __add__(self, o): return binop('add', self, o)
    def __radd__(self, o): return binop('add', o, self)
    def __sub__(self, o): return binop('subtract', self, o)
    def __rsub__(self, o): return binop('subtract', o, self)
    def __mul__(self, o): return binop('multiply', self, o)
    def __rmul__(self, o): return binop('multiply', o, self)
    def __truediv__(self, o): return binop('true_divide', self, o)
    def __rtruediv__(self, o): return binop('true_divide', o, self)
    def __neg__(self): return SymArray(_wrap(-self.term, self.dtype), self.dtype, self.shape)
    def __abs__(self): return SymArray(_wrap(z3.If(self.term >= 0, self.term, -self.term), self.dtype), self.dtype, self.shape)
    def __bool__(self): raise Undecided('symbolic value used as a condition')
    def __eq__(self, o): raise Undecided('symbolic == in control flow')
    __hash__ = None
    def __repr__(self): return f'SymArray({self.dtype}, {self.shape})'

# ------------------------------------------------------------------------------------------------ discharge
def _nonlinear(t):
    if z3.is_app(t):
        if t.decl().kind() == z3.Z3_OP_MUL and sum(1 for a in t.children() if not (z3.is_rational_value(a) or z3.is_int_value(a))) >= 2: return True
        return any(_nonlinear(a) for a in t.children())
    return False

def prove(hyps, goal, timeout_ms=20000, cvc5_s=60):
    """(status, seconds, backend, model-dict|None).  First with the linear hypotheses only (sound: fewer hypotheses), then with
    all of them in z3; cvc5 takes z3's unknowns."""
    lin = [h for h in hyps if not _nonlinear(h)]
    if len(lin) < len(hyps) and not _nonlinear(goal):
        s0 = z3.Solver(); s0.set('timeout', 5000); s0.add(*lin); s0.add(z3.Not(goal)); t0 = time.time()
        if s0.check() == z3.unsat: return 'proved', time.time() - t0, 'z3-lia', None
    s = z3.Solver(); s.set('timeout', timeout_ms); s.add(*hyps); s.add(z3.Not(goal))
    t0 = time.time(); r = s.check(); dt = time.time() - t0
    if r == z3.unsat: return 'proved', dt, 'z3-nra', None
    if r == z3.sat:
        m = s.model(); return 'refuted', dt, 'z3-nra', {str(d): str(m[d]) for d in m.decls() if '!' not in str(d)}
    import subprocess, tempfile, os
    with tempfile.NamedTemporaryFile('w', suffix='.smt2', delete=False) as f:
        f.write('(set-logic ALL)\n' + s.to_smt2()); path = f.name
    try:
        out = subprocess.run(['/usr/bin/cvc5', f'--tlimit={cvc5_s * 1000}', '--nl-ext-tplanes', path], capture_output=True, text=True, timeout=cvc5_s + 10).stdout.strip()
    except Exception as e: out = 'error ' + str(e)
    finally: os.unlink(path)
    dt = time.time() - t0
    if out.startswith('unsat'): return 'proved', dt, 'cvc5', None
    if out.startswith('sat'): return 'refuted', dt, 'cvc5', {}
    return 'unknown', dt, 'z3-nra+cvc5', None

def model_value(m, name):
    """parse a z3 model entry (rational / integer string) into a python Fraction"""
    import fractions
    v = m.get(name)
    if v is None: return None
    v = v.replace('?', '')
    try: return fractions.Fraction(v)
    except Exception: return None
