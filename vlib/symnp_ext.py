"""Extensions of the CPython-executes-the-real-code front end (vlib/symnp.py) needed by C04 / C05.  symnp.py is not modified.

1. `SymArrayX(SymArray)` -- a symbolic float array that additionally understands, through numpy's `__array_function__`,
     np.min / np.max (np.amin / np.amax) with `axis=` (None | int | tuple) and `keepdims=`   -> a fresh real r with the recorded
         fact  r <= x  (resp. r >= x)  for the arbitrary element x of the SAME slice, result shape computed by numpy itself on
         an empty array; every reduction is logged in `ctx().reductions` as (name, operand, axis, keepdims, result) so that a
         contract can state WHICH axes were reduced;
     np.transpose(a, axes) / np.reshape(a, shape)   -> same arbitrary element, numpy's own shape rule.
   Everything else falls through to SymArray (so an entry point that is not modelled still raises Undecided).
   Results of arithmetic are plain SymArray objects: the extension is needed on the INPUT of init_tensor_min_max only.

2. `BVArray` / `Len` -- a symbolic 1-D BYTE array for bit-level goals: element k is a z3 bit-vector term given by a Python
   closure over a z3 integer index, the length is `a*m + b` for ONE shared symbolic integer m >= 0 and concrete a, b (the
   caller splits on parity: n = 2m and n = 2m+1), so that the Python-level control flow of the real code (`odd.shape[0] ==
   even.shape[0] - 1`) is decided for ALL m or raises Undecided.  Supported, exactly what quantize_tensor._pack_data uses:
     a[::2], a[1::2], a & int, np.left_shift(a, int), a.astype(dtype), a.shape, np.pad(a, (0, k), constant_values=c),
     np.bitwise_or(a, b) / np.bitwise_and(a, b).
   Result dtypes are obtained by running the same numpy operation on a one-element concrete array of the operand dtype.

3. `OpaqueArray` -- an array about which nothing is known; it records the chain of `.astype(dtype)` calls applied to it and
   raises Undecided on every other use (parametricity: a function that only moves / casts it behaves the same for all data)."""
import numpy as np, z3
from vlib import symnp
from vlib.symnp import SymArray, Undecided, ctx

# ------------------------------------------------------------------------------------------------ 1. reductions / transpose
def _axis_tuple(axis, ndim):
    if axis is None: return None
    ax = (axis,) if isinstance(axis, (int, np.integer)) else tuple(int(a) for a in axis)
    return tuple(sorted(a % ndim if ndim else a for a in ax))

class SymArrayX(SymArray):
    def __array_function__(self, func, types_, args, kwargs):
        n = func.__name__
        if n in ('min', 'max', 'amin', 'amax'):
            a = args[0]; axis = kwargs.get('axis', args[1] if len(args) > 1 else None); keep = bool(kwargs.get('keepdims', False))
            extra = set(kwargs) - {'axis', 'keepdims'}
            if extra or len(args) > 2: raise Undecided(f'np.{n} with {sorted(extra)}')
            if a.dtype.kind != 'f' or ctx().fp: raise Undecided(f'np.{n} on {a.dtype}')
            shp = getattr(np, n)(np.empty(a.shape, dtype=np.int8), axis=axis, keepdims=keep).shape if a.size else None
            if shp is None: raise Undecided('reduction of an empty array')
            c = ctx(); r = c.fresh('min' if 'min' in n else 'max', z3.RealSort())
            c.defs.append(r <= a.term if 'min' in n else r >= a.term)
            out = SymArray(r, a.dtype, shp)
            if not hasattr(c, 'reductions'): c.reductions = []
            c.reductions.append(dict(name='min' if 'min' in n else 'max', operand=a, axis=_axis_tuple(axis, a.ndim), keepdims=keep, result=out))
            return out
        if n == 'transpose':
            a = args[0]; axes = kwargs.get('axes', args[1] if len(args) > 1 else None)
            return SymArrayX(a.term, a.dtype, np.transpose(np.empty(a.shape, dtype=np.int8), axes).shape)
        if n == 'reshape':
            a = args[0]; shape = kwargs.get('shape', kwargs.get('newshape', args[1] if len(args) > 1 else None))
            return SymArrayX(a.term, a.dtype, np.reshape(np.empty(a.shape, dtype=np.int8), shape).shape)
        return super().__array_function__(func, types_, args, kwargs)

# ------------------------------------------------------------------------------------------------ 2. byte arrays over bit-vectors
M_SYM = z3.Int('m')                    # the one symbolic length parameter (m >= 0 is a hypothesis of every goal)

class Len:
    """a*m + b with concrete a >= 0, b; comparisons are decided for all m >= 0 or raise Undecided"""
    def __init__(self, a, b): self.a, self.b = int(a), int(b)
    def expr(self): return self.a * M_SYM + self.b
    def _co(self, o):
        if isinstance(o, Len): return o
        if isinstance(o, (int, np.integer)): return Len(0, int(o))
        raise Undecided(f'length compared with {type(o).__name__}')
    def __add__(self, o): o = self._co(o); return Len(self.a + o.a, self.b + o.b)
    __radd__ = __add__
    def __sub__(self, o):
        o = self._co(o)
        if o.a > self.a: raise Undecided('negative symbolic length')
        return Len(self.a - o.a, self.b - o.b)
    def __eq__(self, o):
        o = self._co(o)
        if self.a == o.a: return self.b == o.b
        raise Undecided(f'length equality {self} == {o} depends on m')
    def __ne__(self, o): return not self.__eq__(o)
    def __hash__(self): return hash((self.a, self.b))
    def __bool__(self): raise Undecided('symbolic length used as a condition')
    def __index__(self): raise Undecided('symbolic length used as a concrete integer')
    def __repr__(self): return f'Len({self.a}*m+{self.b})'

def _bits(dt): return np.dtype(dt).itemsize * 8
def _np_result_dtype(opname, dt, scalar):
    """dtype numpy itself gives for `<array of dt> op <python int>`"""
    one = np.zeros(1, dtype=dt)
    return {'and': lambda: (one & scalar), 'or': lambda: (one | scalar), 'left_shift': lambda: np.left_shift(one, scalar)}[opname]().dtype

def _resize(t, src, dst):
    sb, db = _bits(src), _bits(dst)
    if db == sb: return t
    if db < sb: return z3.Extract(db - 1, 0, t)
    return z3.SignExt(db - sb, t) if np.dtype(src).kind == 'i' else z3.ZeroExt(db - sb, t)

class BVArray:
    __array_priority__ = 1000
    def __init__(self, elem, length, dtype):
        self.elem, self.length, self.dtype = elem, length, np.dtype(dtype)
        if self.dtype.kind not in 'iu': raise Undecided(f'BVArray of {self.dtype}')
    shape = property(lambda s: (s.length,)); ndim = 1
    @staticmethod
    def source(name, length, dtype=np.uint8):
        arr = z3.Array(name, z3.IntSort(), z3.BitVecSort(_bits(dtype)))
        return BVArray(lambda k: z3.Select(arr, k), length, dtype)
    def __getitem__(self, key):
        if not (isinstance(key, slice) and key.step == 2 and key.stop is None and key.start in (None, 0, 1)): raise Undecided(f'BVArray index {key!r}')
        if self.length.a != 2 or self.length.b not in (0, 1): raise Undecided(f'stride-2 slice of an array of length {self.length}')
        start = key.start or 0
        new = Len(1, self.length.b) if start == 0 else Len(1, 0)          # ceil((2m+b)/2) = m+b ; floor((2m+b)/2) = m   for b in {0,1}
        return BVArray(lambda k, e=self.elem, s=start: e(2 * k + s), new, self.dtype)
    def _with_int(self, opname, o, f):
        if not isinstance(o, (int, np.integer)) or isinstance(o, bool): raise Undecided(f'BVArray {opname} {type(o).__name__}')
        rt = _np_result_dtype(opname, self.dtype, int(o)); w = _bits(rt)
        return BVArray(lambda k, e=self.elem: f(_resize(e(k), self.dtype, rt), z3.BitVecVal(int(o), w)), self.length, rt)
    def __and__(self, o): return self._with_int('and', o, lambda x, c: x & c)
    def __or__(self, o): return self._with_int('or', o, lambda x, c: x | c)
    def astype(self, dt):
        dt = np.dtype(dt)
        if dt.kind not in 'iu': raise Undecided(f'astype({dt}) on a byte array')
        return BVArray(lambda k, e=self.elem: _resize(e(k), self.dtype, dt), self.length, dt)
    def __array_ufunc__(self, ufunc, method, *inputs, **kw):
        if method != '__call__' or kw.get('out') is not None: raise Undecided(f'ufunc {ufunc.__name__}.{method}')
        n = ufunc.__name__
        if n == 'left_shift' and isinstance(inputs[0], BVArray) and not isinstance(inputs[1], BVArray):
            return inputs[0]._with_int('left_shift', inputs[1], lambda x, c: x << c)
        if n in ('bitwise_or', 'bitwise_and') and all(isinstance(i, BVArray) for i in inputs):
            a, b = inputs
            if not (a.length == b.length): raise ValueError(f'operands could not be broadcast together with shapes ({a.length},) ({b.length},)')
            rt = np.result_type(a.dtype, b.dtype); f = (lambda x, y: x | y) if n == 'bitwise_or' else (lambda x, y: x & y)
            return BVArray(lambda k: f(_resize(a.elem(k), a.dtype, rt), _resize(b.elem(k), b.dtype, rt)), a.length, rt)
        if n in ('bitwise_or', 'bitwise_and') and isinstance(inputs[0], BVArray): return inputs[0]._with_int('and' if n == 'bitwise_and' else 'or', inputs[1], (lambda x, c: x & c) if n == 'bitwise_and' else (lambda x, c: x | c))
        raise Undecided('ufunc ' + n)
    def __array_function__(self, func, types_, args, kwargs):
        if func.__name__ == 'pad':
            a, width = args[0], args[1]; mode = kwargs.get('mode', args[2] if len(args) > 2 else 'constant'); cv = kwargs.get('constant_values', 0)
            if mode != 'constant' or not (isinstance(width, tuple) and len(width) == 2 and width[0] == 0 and isinstance(width[1], int)) or not isinstance(cv, int): raise Undecided('np.pad arguments')
            w = _bits(a.dtype); old = a.length.expr()
            return BVArray(lambda k, e=a.elem: z3.If(k < old, e(k), z3.BitVecVal(cv, w)), a.length + width[1], a.dtype)
        if func.__name__ == 'shape': return args[0].shape
        raise Undecided('np.' + func.__name__)
    def __bool__(self): raise Undecided('symbolic byte array used as a condition')
    def __len__(self): raise Undecided('len() of a symbolic-length array')
    def __eq__(self, o): raise Undecided('symbolic == in control flow')
    __hash__ = None
    def __repr__(self): return f'BVArray({self.dtype}, {self.length})'

# ------------------------------------------------------------------------------------------------ 3. opaque arrays
class OpaqueArray:
    def __init__(self, name, casts=()): object.__setattr__(self, '_name', name); object.__setattr__(self, '_casts', tuple(casts))
    def astype(self, dt, *a, **k):
        if a or k: raise Undecided('astype with extra arguments')
        return OpaqueArray(self._name, self._casts + (np.dtype(dt),))
    def __getattr__(self, n): raise Undecided(f'opaque array inspected: .{n}')
    def __array_ufunc__(self, *a, **k): raise Undecided('opaque array used in arithmetic')
    def __array_function__(self, *a, **k): raise Undecided('opaque array passed to numpy')
    def __bool__(self): raise Undecided('opaque array used as a condition')
    def __eq__(self, o): raise Undecided('opaque array compared')
    __hash__ = None
    def __repr__(self): return f'OpaqueArray({self._name}, casts={[str(c) for c in self._casts]})'
