"""pyvc — verification-condition generator for the pointer/list manipulating carriers (DESIGN §2.1).

Reads the REAL function from /repo (core.Fn), symbolically executes its AST path by path over a Boogie-style heap and emits
proof obligations:  (path condition, schematic (universally quantified) facts, goal).
  * objects are Refs; one z3 array per attribute name;  Python lists and numpy 1-D int arrays are heap objects with
    `$len : Int` and `$items:<sort> : Array(Int, sort)`  (z3's Seq theory is deliberately not used);
  * loops are cut by sidecar invariants (assert on entry; havoc assigned locals and written heap fields; assume invariant and
    guard; execute body; assert invariant), calls to functions that have a contract are replaced by the contract (sidecar
    handler: assert pre, havoc/modify, assume post) — never by the callee body;
  * Python semantics that matter are explicit: negative indices, IndexError/ValueError obligations, truthiness of ints / None /
    lists (`not producer`), `in`, min/max, list.insert clamping, early return / break / continue, raise;
  * every heap store emits a frame obligation against the sidecar's `may_write`.
Discharge (prove): goal skolemised, universally quantified hypotheses instantiated by the generator over the index terms of the
query (two rounds, +-1 closure) -> quantifier-free -> z3.  Refute: the same VC with every list length bounded and the
quantifiers fully expanded -> genuine counter-model.  What extraction drops: docstrings, annotations, comments, logging calls."""
import ast, itertools, time, os
import z3

Ref = z3.DeclareSort('Ref'); Str = z3.DeclareSort('Str')
NULL = z3.Const('null', Ref)
I = z3.IntSort(); Bo = z3.BoolSort()
_n = itertools.count()
def fresh(name, sort): return z3.Const(f'{name}!{next(_n)}', sort)
And, Or, Not, Implies, If = z3.And, z3.Or, z3.Not, z3.Implies, z3.If

# strings/bytes: uninterpreted sort with concatenation and length (enough for scope joins and tensor-name suffixes)
sconcat = z3.Function('str_concat', Str, Str, Str); slen = z3.Function('str_len', Str, I)
_lits = {}
def strlit(s):
    if s not in _lits: _lits[s] = z3.Const('lit_' + ''.join(c if c.isalnum() else f'_{ord(c)}_' for c in str(s)) + f'#{len(_lits)}', Str)
    return _lits[s]
def str_axioms(terms):
    """ground axioms for the string terms occurring in a query"""
    out = []; seen = set()
    def walk(t):
        if t.get_id() in seen: return
        seen.add(t.get_id())
        if t.sort() == Str:
            out.append(slen(t) >= 0)
            if z3.is_app(t) and t.decl().eq(sconcat): out.append(slen(t) == slen(t.arg(0)) + slen(t.arg(1)))
        for c in t.children(): walk(c)
    for t in terms: walk(t)
    for s, c in _lits.items(): out.append(slen(c) == len(s))
    ls = list(_lits.items())
    for (a, ca), (b, cb) in itertools.combinations(ls, 2): out.append(ca != cb)
    return out

class Unsupported(Exception): pass

def dict_kinds(kind):
    """'dict[K,V]' -> (K, V)"""
    assert kind.startswith('dict['), kind
    inner = kind[5:-1]; k, v = inner.split(',', 1); return k.strip(), v.strip()
def dkeys_field(k): return '$dkeys:' + k
def dhas_field(k): return '$dhas:' + k
def dmap_field(k, v): return '$dmap:' + k + ':' + ({'int': 'int', 'bool': 'bool', 'str': 'str'}.get(v, 'ref'))

def sort_of(kind):
    if kind == 'int': return I
    if kind == 'bool': return Bo
    if kind == 'str': return Str
    return Ref
def items_field(kind):
    """heap field holding the items of a list of element kind `kind`"""
    return {'int': '$items:int', 'bool': '$items:bool', 'str': '$items:str'}.get(kind, '$items:ref')
def elem_kind(kind):
    assert kind.startswith('list['), kind
    return kind[5:-1]

class V:
    __slots__ = ('kind', 'term', 'kw')
    def __init__(self, kind, term=None, **kw): self.kind, self.term, self.kw = kind, term, kw
    def __repr__(self): return f'V({self.kind},{self.term})'
def vint(t): return V('int', t if z3.is_expr(t) else z3.IntVal(t))
def vbool(t): return V('bool', t if z3.is_expr(t) else z3.BoolVal(bool(t)))
NONE = V('none', NULL)

REC = set()          # names of heap fields written since the last reset (used by the loop rule to compute its havoc set)
REC_LOC = {}         # field name -> list of ref terms stored to (None = whole-field update)

ALLOC_LOG = []        # every reference handed out by Heap.new, in order (the loop rule needs ALL objects a body allocates, also those of paths that end inside a nested loop)
class Heap:
    def __init__(self, fields, f=None, alloc=None):
        self.fields = fields; self.f = dict(f or {}); self.alloc = alloc if alloc is not None else z3.Array('alloc', Ref, Bo)
    def copy(self): return Heap(self.fields, self.f, self.alloc)
    def fsort(self, name):
        if name == '$len': return I
        S_ = {'int': I, 'bool': Bo, 'str': Str, 'ref': Ref}
        if name.startswith('$items:'): return z3.ArraySort(I, S_[name[7:]])
        if name.startswith('$dkeys:'): return z3.ArraySort(I, S_[name[7:]])
        if name.startswith('$dhas:'): return z3.ArraySort(S_[name[6:]], Bo)
        if name.startswith('$dmap:'):
            _, k_, v_ = name.split(':'); return z3.ArraySort(S_[k_], S_[v_])
        return sort_of(self.fields[name])
    def arr(self, name):
        if name not in self.f: self.f[name] = z3.Array('H_' + name, Ref, self.fsort(name))
        return self.f[name]
    def load(self, r, name): return self.arr(name)[r]
    def store(self, r, name, v):
        self.f[name] = z3.Store(self.arr(name), r, v); REC.add(name); REC_LOC.setdefault(name, []).append(r)
    def set(self, name, arr):
        """whole-field update (used by callee contracts)"""
        self.arr(name); self.f[name] = arr; REC.add(name); REC_LOC.setdefault(name, []).append(None)
    def havoc_at(self, name, refs, tag):
        """forget the value of field `name` at the given objects only (everything else keeps its value)"""
        a = self.arr(name); so = self.fsort(name)
        for r in refs: a = z3.Store(a, r, fresh('hv_' + name + '_' + tag, so)); REC_LOC.setdefault(name, []).append(r)
        self.f[name] = a; REC.add(name)
    def havoc(self, names, tag):
        for nme in names:
            self.f[nme] = fresh('H_' + nme + '_' + tag, z3.ArraySort(Ref, self.fsort(nme))); REC.add(nme); REC_LOC.setdefault(nme, []).append(None)
    def new(self, path, name='new'):
        r = fresh(name, Ref); path.pc += [Not(self.alloc[r]), r != NULL]
        self.alloc = z3.Store(self.alloc, r, True); path.fresh.append(r); ALLOC_LOG.append(r); REC.add('$alloc'); return r
    # list helpers
    def llen(self, r): return self.load(r, '$len')
    def items(self, r, ek): return self.load(r, items_field(ek))

class Schematic:
    """universally quantified fact: fn(*int terms) -> Bool.  Every such fact must be range guarded (array-property fragment)."""
    def __init__(self, n, fn, name=''): self.n, self.fn, self.name = n, fn, name

class Path:
    def __init__(self, heap, env=None, pc=None, facts=None, fr=None):
        self.env = dict(env or {}); self.heap = heap.copy(); self.pc = list(pc or []); self.facts = list(facts or []); self.fresh = list(fr or [])
    def fork(self): return Path(self.heap, self.env, self.pc, self.facts, self.fresh)

class RawOb:
    def __init__(self, label, pc, schem, goal, line=0): self.label, self.pc, self.schem, self.goal, self.line = label, pc, schem, goal, line

class Ctx:
    """spec evaluation context: goal mode skolemises forall, hyp mode records schematic facts"""
    def __init__(self, mode): self.mode, self.schem = mode, []
    def forall(self, n, fn, name=''):
        if self.mode == 'goal': return fn(*[fresh('sk', I) for _ in range(n)])
        self.schem.append(Schematic(n, fn, name)); return z3.BoolVal(True)

class Outcome:
    def __init__(self, kind, path, val=None): self.kind, self.path, self.val = kind, path, val   # kind: next | break | continue | raise:<Exc>

class Engine:
    """spec (sidecar) interface:
         fields: {attr: kind};  consts: {dotted: int};  constructors: {dotted: [field names]}
         bind(E, p): bind parameters, add preconditions (p.pc / p.facts)
         ensures(E, ctx, p, ret) -> [(label, goal)]      raises(E, ctx, p, exc) -> [(label, goal)]  (default: raising is forbidden)
         invariants: {loop ordinal: fn(E, ctx, p, pre, i) -> [(label, formula)]}
         may_write(E, p, ref, field) -> Bool formula (frame);  callees: {dotted name: handler(E, p, args, kwargs, node)}
         implicit_raises: set of exception names that are allowed to escape (then the path ends with raises(...) obligations)"""
    def __init__(self, fn, spec, mutate=None):
        src = fn.file_src
        self.fn = fn; self.spec = spec
        self.node = fn.node
        self.obs = []; self.exits = []; self.loopk = 0; self.callk = {}; self.mute = 0
        self.loop_ids = {}
        for nd in ast.walk(self.node):          # ast.walk order (breadth first): a sibling loop is numbered before a loop nested in an earlier one
            if isinstance(nd, ast.For): self.loop_ids.setdefault(id(nd), len(self.loop_ids))
        self.fields = dict(spec.fields)
    # -------------------------------------------------------------------------------------------- obligations
    def emit(self, path, label, goal, line=0, extra=()):
        if label.startswith('no-') and 'Error@' in label:
            # implicit raises are modelled as obligations ("cannot happen"), not as control flow: inside a try block that CATCHES the exception that would be wrong
            exc = label[3:].split('@')[0]
            for caught in getattr(self, '_try_stack', []):
                if exc in caught or '*' in caught or 'Exception' in caught or ('LookupError' in caught and exc in ('IndexError', 'KeyError')):
                    raise Unsupported(f'implicit {exc} inside a try block that catches it (line {line}): expression-level exceptional control flow is outside the subset')
        if self.mute: return None
        ob = RawOb(label, list(path.pc), list(path.facts) + list(extra), goal, line); self.obs.append(ob); return ob
    def dotted(self, e):
        parts = []
        while isinstance(e, ast.Attribute): parts.append(e.attr); e = e.value
        if isinstance(e, ast.Name): parts.append(e.id); return '.'.join(reversed(parts))
        return None
    # -------------------------------------------------------------------------------------------- lists
    def llen(self, v, p): return p.heap.llen(v.term)
    def litems(self, v, p): return p.heap.items(v.term, elem_kind(v.kind))
    def mk(self, kind, term):
        return V(kind, term)
    def norm(self, v, i, p, line):
        n = self.llen(v, p); self.emit(p, f'no-IndexError@{line}', And(i >= -n, i < n), line); p.pc.append(And(i >= -n, i < n))
        return If(i < 0, i + n, i)
    def lget(self, v, i, p, line):
        j = self.norm(v, i, p, line); return self.mk(elem_kind(v.kind), self.litems(v, p)[j])
    def frame(self, p, ref, field, line):
        mw = self.spec.may_write(self, p, ref, field)
        if mw is not None: self.emit(p, f'frame@{line}:{field}', Or(*([ref == f for f in p.fresh] + [mw])), line)
    def lset(self, v, i, val, p, line):
        j = self.norm(v, i, p, line); fld = items_field(elem_kind(v.kind))
        self.frame(p, v.term, fld, line)
        p.heap.store(v.term, fld, z3.Store(p.heap.load(v.term, fld), j, val.term))
    def newlist(self, ek, elems, p):
        r = p.heap.new(p, 'lst'); fld = items_field(ek)
        arr = fresh('lit', p.heap.fsort(fld))
        for k, e in enumerate(elems): arr = z3.Store(arr, k, e.term)
        p.heap.store(r, fld, arr); p.heap.store(r, '$len', z3.IntVal(len(elems))); return V(f'list[{ek}]', r)
    def lappend(self, v, val, p, line):
        fld = items_field(elem_kind(v.kind)); n = self.llen(v, p)
        self.frame(p, v.term, fld, line)
        p.heap.store(v.term, fld, z3.Store(p.heap.load(v.term, fld), n, val.term)); p.heap.store(v.term, '$len', n + 1)
    def linsert(self, v, pos, val, p, line):
        ek = elem_kind(v.kind); fld = items_field(ek); n = self.llen(v, p); it = self.litems(v, p)
        q = If(pos < 0, If(pos + n < 0, 0, pos + n), If(pos > n, n, pos))                  # CPython clamp semantics of list.insert
        self.frame(p, v.term, fld, line)
        new = fresh('ins', p.heap.fsort(fld)); x = val.term; ARR_SIG[new.decl().name()] = _canon_arr(it)
        p.facts.append(Schematic(1, lambda k, new=new, it=it, q=q, x=x: new[k] == If(k < q, it[k], If(k == q, x, it[k - 1])), 'list.insert'))
        p.heap.store(v.term, fld, new); p.heap.store(v.term, '$len', n + 1)
    def lremove(self, v, x, p, line):
        """list.remove(x): removes the FIRST occurrence; ValueError when there is none (obligation `no-ValueError@line`)"""
        ek = elem_kind(v.kind); fld = items_field(ek); n = self.llen(v, p); it = self.litems(v, p); k0 = fresh('rm_at', I)
        present = self.contains(v, x, p)
        self.emit(p, f'no-ValueError@{line}', present, line); p.pc.append(present)
        p.pc.append(And(0 <= k0, k0 < n, it[k0] == x))                                                      # the first occurrence (ghost)
        p.facts.append(Schematic(1, lambda j, it=it, k0=k0, x=x: Implies(And(0 <= j, j < k0), it[j] != x), 'list.remove:first'))
        self.frame(p, v.term, fld, line); self.frame(p, v.term, '$len', line)
        new = fresh('rm', p.heap.fsort(fld)); ARR_SIG[new.decl().name()] = _canon_arr(it)
        p.facts.append(Schematic(1, lambda j, new=new, it=it, k0=k0: new[j] == If(j < k0, it[j], it[j + 1]), 'list.remove'))
        p.heap.store(v.term, fld, new); p.heap.store(v.term, '$len', n - 1)
    def contains(self, v, x, p):
        """`x in list`: ghost witness form (exists k) — returns a Bool term with definitional facts"""
        n = self.llen(v, p); it = self.litems(v, p); b = fresh('in', Bo); w = fresh('in_w', I)
        p.pc.append(Implies(b, And(0 <= w, w < n, it[w] == x)))
        p.facts.append(Schematic(1, lambda k, b=b, it=it, n=n, x=x: Implies(And(0 <= k, k < n, it[k] == x), b), 'in-def'))
        return b
    # -------------------------------------------------------------------------------------------- dicts (insertion ordered)
    def dparts(self, v, p):
        K, Vk = dict_kinds(v.kind); h = p.heap
        return K, Vk, h.load(v.term, dkeys_field(K)), h.load(v.term, dhas_field(K)), h.load(v.term, dmap_field(K, Vk)), h.load(v.term, '$len')
    def newdict(self, kind, p):
        K, Vk = dict_kinds(kind); r = p.heap.new(p, 'dict')
        p.heap.store(r, dkeys_field(K), fresh('dk', p.heap.fsort(dkeys_field(K)))); p.heap.store(r, '$len', z3.IntVal(0))
        p.heap.store(r, dhas_field(K), z3.K(sort_of(K), z3.BoolVal(False))); p.heap.store(r, dmap_field(K, Vk), fresh('dm', p.heap.fsort(dmap_field(K, Vk))))
        return V(kind, r)
    def dget(self, v, k, p, line):
        K, Vk, keys, has, mp, n = self.dparts(v, p)
        self.emit(p, f'no-KeyError@{line}', has[k.term], line); p.pc.append(has[k.term])
        return self.mk(Vk, mp[k.term])
    def dset(self, v, k, val, p, line):
        K, Vk, keys, has, mp, n = self.dparts(v, p); h = p.heap; r = v.term; present = has[k.term]
        for fld in (dkeys_field(K), dhas_field(K), dmap_field(K, Vk), '$len'): self.frame(p, r, fld, line)
        h.store(r, dkeys_field(K), If(present, keys, z3.Store(keys, n, k.term))); h.store(r, '$len', If(present, n, n + 1))
        h.store(r, dhas_field(K), z3.Store(has, k.term, True)); h.store(r, dmap_field(K, Vk), z3.Store(mp, k.term, val.term))
    # -------------------------------------------------------------------------------------------- truthiness
    def truth(self, v, p):
        if v.kind == 'bool': return v.term
        if v.kind == 'int': return v.term != 0
        if v.kind == 'none': return z3.BoolVal(False)
        if v.kind.startswith('list[') or v.kind.startswith('dict['): return And(v.term != NULL, p.heap.llen(v.term) != 0)     # a list-typed variable may hold None
        if v.kind.startswith('set['): raise Unsupported('truthiness of a set (emptiness is not tracked)')
        if v.kind == 'str': return slen(v.term) != 0
        if v.kind == 'ref': return v.term != NULL
        if v.kind == 'pyconst': return z3.BoolVal(bool(v.kw['value']))
        raise Unsupported('truthiness of ' + v.kind)
    # -------------------------------------------------------------------------------------------- expressions
    def ev(self, e, p):
        if isinstance(e, ast.Constant):
            v = e.value
            if isinstance(v, bool): return vbool(v)
            if isinstance(v, int): return vint(v)
            if v is None: return NONE
            if isinstance(v, bytes) and getattr(self.spec, 'bytes_as_lists', False):
                return self.newlist('int', [vint(b_) for b_ in v], p)
            if isinstance(v, (bytes, str)): return V('str', strlit(v if isinstance(v, str) else v.decode('latin1')))
            raise Unsupported(f'constant {v!r}')
        if isinstance(e, ast.Name):
            if e.id in p.env: return p.env[e.id]
            raise Unsupported(f'unbound name {e.id}@{e.lineno}')
        if isinstance(e, ast.Attribute):
            d = self.dotted(e)
            if d in self.spec.consts: return vint(self.spec.consts[d])
            if d in getattr(self.spec, 'str_consts', {}): return V('str', strlit(self.spec.str_consts[d]))
            b = self.ev(e.value, p)
            if b.kind == 'ref':
                if e.attr not in self.fields: raise Unsupported(f'field {e.attr} has no declared kind')
                kind = self.fields[e.attr]
                if hasattr(self.spec, 'field_kind'): kind = self.spec.field_kind(e, kind) or kind      # same attribute name on two classes (e.g. `outputs`)
                if hasattr(self.spec, 'field_alias'):                                                   # same attribute name with two SORTS (`param.producer` is a record, `tensor_info.producer` an int): a separate heap field, read-only
                    al = self.spec.field_alias(e)
                    if al: return V(self.fields[al], p.heap.load(b.term, al))
                return V(kind, p.heap.load(b.term, e.attr))
            if b.kind == 'tuple': return b.kw['fields'][e.attr]
            raise Unsupported(f'attribute {e.attr} of {b.kind}@{e.lineno}')
        if isinstance(e, ast.Compare):
            if len(e.ops) != 1: raise Unsupported('chained comparison')
            op = type(e.ops[0]); a = self.ev(e.left, p); b = self.ev(e.comparators[0], p)
            if op in (ast.In, ast.NotIn) and b.kind.startswith('set['):
                t = p.heap.load(b.term, dhas_field(b.kind[4:-1]))[a.term]; return vbool(t if op is ast.In else Not(t))
            if op in (ast.In, ast.NotIn) and b.kind.startswith('dict['):
                K, Vk, keys, has, mp, n = self.dparts(b, p); t = has[a.term]; return vbool(t if op is ast.In else Not(t))
            if op in (ast.In, ast.NotIn) and b.kind.startswith('list[') and hasattr(self.spec, 'pure_member'):
                t = self.spec.pure_member(self, p, b, a.term)          # membership as a ghost predicate axiomatised by the sidecar (no side effects)
                if t is not None: return vbool(t if op is ast.In else Not(t))
            if op in (ast.In, ast.NotIn):
                if not b.kind.startswith('list['): raise Unsupported('in on ' + b.kind)
                t = self.contains(b, a.term, p); return vbool(t if op is ast.In else Not(t))
            if op in (ast.Is, ast.IsNot, ast.Eq, ast.NotEq) and (a.kind == 'none' or b.kind == 'none'):
                o = b if a.kind == 'none' else a
                if o.kind == 'none': t = z3.BoolVal(True)
                elif sort_of(o.kind) == Ref: t = o.term == NULL
                else: t = z3.BoolVal(False)
                return vbool(t if op in (ast.Is, ast.Eq) else Not(t))
            f = {ast.Eq: lambda x, y: x == y, ast.NotEq: lambda x, y: x != y, ast.Lt: lambda x, y: x < y, ast.LtE: lambda x, y: x <= y,
                 ast.Gt: lambda x, y: x > y, ast.GtE: lambda x, y: x >= y, ast.Is: lambda x, y: x == y, ast.IsNot: lambda x, y: x != y}[op]
            if op in (ast.Eq, ast.NotEq) and a.kind.startswith('list['): raise Unsupported('list equality')
            return vbool(f(a.term, b.term))
        if isinstance(e, ast.BoolOp):
            # short-circuit value semantics only matters for conditions here: evaluate as booleans, guarding later operands
            # later operands are evaluated only under the guard established by the earlier ones (their implicit-raise obligations
            # and assumptions are conditional on that guard)
            terms = []; is_and = isinstance(e.op, ast.And)
            for sub in e.values:
                guard = [t if is_and else Not(t) for t in terms]
                q = p.fork(); q.pc += guard; n_pc, n_f = len(q.pc), len(q.facts)
                t = self.truth(self.ev(sub, q), q); terms.append(t)
                for extra in q.pc[n_pc:]: p.pc.append(Implies(And(*guard), extra) if guard else extra)
                p.facts += q.facts[n_f:]; p.heap = q.heap; p.fresh = q.fresh
            return vbool(And(*terms) if is_and else Or(*terms))
        if isinstance(e, ast.UnaryOp):
            a = self.ev(e.operand, p)
            if isinstance(e.op, ast.Not): return vbool(Not(self.truth(a, p)))
            if isinstance(e.op, ast.USub): return vint(-a.term)
            raise Unsupported('unary op')
        if isinstance(e, ast.BinOp):
            a, b = self.ev(e.left, p), self.ev(e.right, p)
            if a.kind == 'str' and isinstance(e.op, ast.Add): return V('str', sconcat(a.term, b.term))
            if a.kind == 'str' and isinstance(e.op, ast.Mod): return V('str', fresh('fmt', Str))          # '...' % x : opaque message text
            if a.kind == 'int' and b.kind == 'int':
                if isinstance(e.op, ast.Add): return vint(a.term + b.term)
                if isinstance(e.op, ast.Sub): return vint(a.term - b.term)
                if isinstance(e.op, ast.Mult): return vint(a.term * b.term)
                if isinstance(e.op, ast.Mod):
                    self.emit(p, f'no-ZeroDivisionError@{e.lineno}', b.term != 0, e.lineno); return vint(a.term % b.term)   # python % == z3 mod for positive divisor
                if isinstance(e.op, ast.FloorDiv):
                    self.emit(p, f'no-ZeroDivisionError@{e.lineno}', b.term != 0, e.lineno); return vint(a.term / b.term)
            raise Unsupported(f'binop {type(e.op).__name__} on {a.kind},{b.kind}')
        if isinstance(e, ast.IfExp):
            c = self.truth(self.ev(e.test, p), p); vals = []
            for sub, guard in ((e.body, c), (e.orelse, Not(c))):         # each branch is evaluated only under its guard
                q = p.fork(); q.pc.append(guard); n_pc, n_f = len(q.pc), len(q.facts)
                vals.append(self.ev(sub, q))
                for extra in q.pc[n_pc:]: p.pc.append(Implies(guard, extra))
                p.facts += q.facts[n_f:]; p.heap = q.heap; p.fresh = q.fresh
            a, b = vals
            if a.kind != b.kind: raise Unsupported('IfExp of different kinds')
            return V(a.kind, If(c, a.term, b.term))
        if isinstance(e, ast.ListComp):
            # [x for x in src if cond(x)]  (single generator over an int list, element = the loop variable): a fresh list characterised by
            # ghost witnesses in both directions (every result element comes from a source element satisfying cond, and vice versa)
            g0 = e.generators[0] if len(e.generators) == 1 else None
            if g0 is not None and isinstance(g0.iter, ast.Call) and self.dotted(g0.iter.func) == 'enumerate' and isinstance(g0.target, ast.Tuple) and len(g0.target.elts) == 2 \
               and all(isinstance(t_, ast.Name) for t_ in g0.target.elts) and isinstance(e.elt, ast.Name) and e.elt.id == g0.target.elts[0].id and len(g0.ifs) <= 1:
                # [i for (i, x) in enumerate(xs) if cond(i, x)]: the increasing list of the positions that satisfy cond (cond must be pure)
                src = self.ev(g0.iter.args[0], p)
                if not src.kind.startswith('list['): raise Unsupported('comprehension over enumerate of ' + src.kind)
                n = self.llen(src, p); it = self.litems(src, p); ek = elem_kind(src.kind); iv, xv = g0.target.elts[0].id, g0.target.elts[1].id; snap = p.fork()
                def cond(t):
                    if not g0.ifs: return z3.BoolVal(True)
                    q = snap.fork(); q.env[iv] = vint(t); q.env[xv] = self.mk(ek, it[t]); n_pc = len(q.pc)
                    self.mute += 1
                    try: c_ = self.truth(self.ev(g0.ifs[0], q), q)
                    finally: self.mute -= 1
                    if len(q.pc) != n_pc: raise Unsupported('impure condition in a comprehension')
                    return c_
                r = p.heap.new(p, 'comp'); arr = fresh('comp', z3.ArraySort(I, I)); m = fresh('comp_len', I); v = z3.Function(f'comp_dst!{next(_n)}', I, I)
                ARR_SIG[arr.decl().name()] = _canon_arr(z3.Select(p.heap.arr('$items:int'), r))          # the fresh items array carries the signature of the list it becomes
                p.heap.store(r, '$items:int', arr); p.heap.store(r, '$len', m); p.pc += [0 <= m, m <= n]
                p.facts.append(Schematic(1, lambda k: Implies(And(0 <= k, k < m), And(0 <= arr[k], arr[k] < n, cond(arr[k]), Implies(k + 1 < m, arr[k] < arr[k + 1]))), 'comp-sound-increasing'))
                p.facts.append(Schematic(1, lambda j: Implies(And(0 <= j, j < n, cond(j)), And(0 <= v(j), v(j) < m, arr[v(j)] == j)), 'comp-complete'))
                return V('list[int]', r, comp_witness=v)          # the completeness witness is available to sidecars (ghost definitions)
            if len(e.generators) != 1 or not isinstance(e.elt, ast.Name) or not isinstance(e.generators[0].target, ast.Name) \
               or e.elt.id != e.generators[0].target.id or len(e.generators[0].ifs) > 1: raise Unsupported('list comprehension form')
            g = e.generators[0]; src = self.ev(g.iter, p)
            if src.kind != 'list[int]': raise Unsupported('comprehension over ' + src.kind)
            n = self.llen(src, p); it = self.litems(src, p); var = g.target.id
            def cond(t):
                if not g.ifs: return z3.BoolVal(True)
                q = p.fork(); q.env[var] = vint(t); return self.truth(self.ev(g.ifs[0], q), q)
            r = p.heap.new(p, 'comp'); arr = fresh('comp', z3.ArraySort(I, I)); m = fresh('comp_len', I)
            ARR_SIG[arr.decl().name()] = _canon_arr(z3.Select(p.heap.arr('$items:int'), r))
            w = z3.Function(f'comp_src!{next(_n)}', I, I); v = z3.Function(f'comp_dst!{next(_n)}', I, I)
            p.heap.store(r, '$items:int', arr); p.heap.store(r, '$len', m); p.pc += [0 <= m, m <= n]
            p.facts.append(Schematic(1, lambda k: Implies(And(0 <= k, k < m), And(0 <= w(k), w(k) < n, it[w(k)] == arr[k], cond(arr[k]))), 'comp-sound'))
            p.facts.append(Schematic(1, lambda j: Implies(And(0 <= j, j < n, cond(it[j])), And(0 <= v(j), v(j) < m, arr[v(j)] == it[j])), 'comp-complete'))
            return V('list[int]', r)
        if isinstance(e, ast.List):
            elems = [self.ev(x, p) for x in e.elts]
            ek = elems[0].kind if elems else self.spec.empty_list_kind(e.lineno)
            return self.newlist(ek, elems, p)
        if isinstance(e, ast.Tuple): return V('tuple', None, elts=[self.ev(x, p) for x in e.elts])
        if isinstance(e, ast.Subscript):
            b = self.ev(e.value, p)
            if b.kind.startswith('list['):
                if isinstance(e.slice, ast.Slice): raise Unsupported('slice')
                i = self.ev(e.slice, p); return self.lget(b, i.term, p, e.lineno)
            if b.kind == 'tuple': return b.kw['elts'][e.slice.value]
            if b.kind.startswith('dict['): return self.dget(b, self.ev(e.slice, p), p, e.lineno)
            raise Unsupported('subscript of ' + b.kind)
        if isinstance(e, ast.Call): return self.call(e, p)
        if isinstance(e, ast.JoinedStr): return V('str', fresh('fstring', Str))
        raise Unsupported(ast.dump(e)[:120])
    def call(self, e, p):
        f = e.func; d = self.dotted(f) if isinstance(f, (ast.Attribute, ast.Name)) else None
        args = e.args; line = e.lineno
        if d == 'len':
            a = self.ev(args[0], p)
            if a.kind.startswith('list['): return vint(self.llen(a, p))
            if a.kind == 'str': return vint(slen(a.term))
            if a.kind.startswith('dict['): return vint(p.heap.llen(a.term))
            if a.kind == 'ref' and hasattr(self.spec, 'opaque_len'): return vint(self.spec.opaque_len(self, p, a))     # len() of an object the sidecar keeps abstract (e.g. an ndarray)
            raise Unsupported('len of ' + a.kind)
        if d == 'range':
            if len(args) == 1: return V('range', None, lo=z3.IntVal(0), hi=self.ev(args[0], p).term)
            if len(args) == 2: return V('range', None, lo=self.ev(args[0], p).term, hi=self.ev(args[1], p).term)
            raise Unsupported('range step')
        if d == 'set' and not args:
            K = self.spec.empty_set_kind(line); r = p.heap.new(p, 'set'); p.heap.store(r, dhas_field(K), z3.K(sort_of(K), z3.BoolVal(False))); return V(f'set[{K}]', r)
        if d == 'enumerate': return V('enumerate', None, lst=self.ev(args[0], p))
        if isinstance(f, ast.Attribute) and f.attr in ('items', 'values', 'keys') and not args:
            recv0 = self.ev(f.value, p)
            if recv0.kind.startswith('dict['): return V('dictiter', None, d=recv0, mode=f.attr)
        if d == 'max' and len(args) == 2:
            a, b = self.ev(args[0], p).term, self.ev(args[1], p).term; return vint(If(a >= b, a, b))
        if d == 'min' and len(args) == 2:
            a, b = self.ev(args[0], p).term, self.ev(args[1], p).term; return vint(If(a <= b, a, b))
        if d in ('min', 'max') and len(args) == 1:
            lst = self.ev(args[0], p); n = self.llen(lst, p); it = self.litems(lst, p)
            self.emit(p, f'no-ValueError-{d}-of-empty@{line}', n > 0, line); p.pc.append(n > 0)
            m = fresh(d, I); w = fresh(d + 'w', I)
            p.pc += [0 <= w, w < n, it[w] == m]
            cmp = (lambda a, b: a <= b) if d == 'min' else (lambda a, b: a >= b)
            p.facts.append(Schematic(1, lambda k, it=it, n=n, m=m: Implies(And(0 <= k, k < n), cmp(m, it[k])), d + '-bound'))
            return vint(m)
        if d in ('np.array', 'numpy.array', 'np.asarray') and len(args) == 1:
            src = self.ev(args[0], p)
            if not src.kind.startswith('list['): raise Unsupported('np.array of ' + src.kind)
            ek = elem_kind(src.kind); r = p.heap.new(p, 'nparr')
            p.heap.store(r, items_field(ek), self.litems(src, p)); p.heap.store(r, '$len', self.llen(src, p)); return V(src.kind, r)
        if d == 'list' and len(args) == 1:
            src = self.ev(args[0], p)
            if src.kind == 'range':
                r = p.heap.new(p, 'lst'); lo, hi = src.kw['lo'], src.kw['hi']; n = If(hi > lo, hi - lo, 0)
                arr = fresh('rng', z3.ArraySort(I, I))
                p.facts.append(Schematic(1, lambda k, arr=arr, lo=lo, n=n: Implies(And(0 <= k, k < n), arr[k] == lo + k), 'list(range)'))
                p.heap.store(r, '$items:int', arr); p.heap.store(r, '$len', n); return V('list[int]', r)
            if src.kind.startswith('set['):                # list(set): SOME enumeration of the members (the order is the hash order: nothing is assumed about it)
                K = src.kind[4:-1]; r = p.heap.new(p, 'lst'); arr = fresh('setlist', z3.ArraySort(I, sort_of(K))); n = fresh('setlist_len', I); has = p.heap.load(src.term, dhas_field(K))
                idx = z3.Function(f'setlist_idx!{next(_n)}', sort_of(K), I); p.pc.append(n >= 0)
                ARR_SIG[arr.decl().name()] = _canon_arr(z3.Select(p.heap.arr(items_field(K)), r))
                p.facts.append(Schematic(1, lambda k, arr=arr, n=n, has=has: Implies(And(0 <= k, k < n), has[arr[k]]), 'list(set):members'))
                p.facts.append(Schematic(2, lambda k, k2, arr=arr, n=n: Implies(And(0 <= k, k < k2, k2 < n), arr[k] != arr[k2]), 'list(set):distinct'))
                if K == 'int': p.facts.append(Schematic(1, lambda x, arr=arr, n=n, has=has, idx=idx: Implies(has[x], And(0 <= idx(x), idx(x) < n, arr[idx(x)] == x)), 'list(set):complete'))
                p.heap.store(r, items_field(K), arr); p.heap.store(r, '$len', n); out = V(f'list[{K}]', r, set_idx=idx)
                if hasattr(self.spec, 'on_list_of_set'): self.spec.on_list_of_set(self, p, src, out)
                return out
            if src.kind.startswith('list['):               # shallow copy
                ek = elem_kind(src.kind); r = p.heap.new(p, 'lst')
                p.heap.store(r, items_field(ek), self.litems(src, p)); p.heap.store(r, '$len', self.llen(src, p)); return V(src.kind, r)
            raise Unsupported('list() of ' + src.kind)
        if d == 'isinstance' and d in self.spec.callees:          # the class argument is not a value of the modelled heap
            return self.spec.callees[d](self, p, [self.ev(args[0], p), V('pyconst', None, value=ast.unparse(args[1]))], {}, e)
        if d in self.spec.callees:
            kw = {k.arg: self.ev(k.value, p) for k in e.keywords}
            return self.spec.callees[d](self, p, [self.ev(a, p) for a in args], kw, e)
        if d in self.spec.constructors:
            names = self.spec.constructors[d]; r = p.heap.new(p, d.split('.')[-1])
            vals = {}
            for nme, a in zip(names, args): vals[nme] = self.ev(a, p)
            for k in e.keywords: vals[k.arg] = self.ev(k.value, p)
            for nme, v in vals.items():
                if nme not in self.fields: raise Unsupported(f'constructor field {nme} undeclared')
                p.heap.store(r, nme, v.term)
            return V('ref', r)
        if isinstance(f, ast.Subscript):
            key = '$dispatch:' + (self.dotted(f.value) or '?')
            if key in self.spec.callees:
                return self.spec.callees[key](self, p, [self.ev(f.slice, p)] + [self.ev(a, p) for a in args], {}, e)
        if isinstance(f, ast.Attribute):
            recv_d = self.dotted(f.value)
            if recv_d == 'logging': return NONE                                    # logging.* dropped
            recv = self.ev(f.value, p)
            if ('.' + f.attr) in self.spec.callees:            # method of an opaque object given a contract by the sidecar (e.g. ndarray.tobytes)
                return self.spec.callees['.' + f.attr](self, p, [recv] + [self.ev(a, p) for a in args], {k.arg: self.ev(k.value, p) for k in e.keywords}, e)
            if recv.kind.startswith('dict[') and f.attr == 'pop' and len(args) in (1, 2):
                # d.pop(k[, default]): the key leaves the ordered key sequence (later keys move up by one)
                K, Vk, keys, has, mp, n = self.dparts(recv, p); kt = self.ev(args[0], p).term; present = has[kt]
                if len(args) == 1:
                    self.emit(p, f'no-KeyError@{line}', present, line); p.pc.append(present); dflt = None
                else: dflt = self.ev(args[1], p)
                pos = fresh('pop_pos', I); p.pc.append(Implies(present, And(0 <= pos, pos < n, keys[pos] == kt)))
                for fld in (dkeys_field(K), dhas_field(K), '$len'): self.frame(p, recv.term, fld, line)
                nk = fresh('dk_pop', p.heap.fsort(dkeys_field(K))); ARR_SIG[nk.decl().name()] = _canon_arr(keys)
                p.facts.append(Schematic(1, lambda i, nk=nk, keys=keys, pos=pos, n=n: Implies(And(0 <= i, i < n - 1), nk[i] == If(i < pos, keys[i], keys[i + 1])), 'dict.pop'))
                p.heap.store(recv.term, dkeys_field(K), If(present, nk, keys)); p.heap.store(recv.term, '$len', If(present, n - 1, n))
                p.heap.store(recv.term, dhas_field(K), z3.Store(has, kt, False))
                val = mp[kt] if dflt is None else If(present, mp[kt], dflt.term)
                return self.mk(Vk, val)
            if recv.kind.startswith('set['):
                K = recv.kind[4:-1]; fld = dhas_field(K); has = p.heap.load(recv.term, fld)
                if f.attr == 'add':
                    self.frame(p, recv.term, fld, line); p.heap.store(recv.term, fld, z3.Store(has, self.ev(args[0], p).term, True)); return NONE
                if f.attr == 'update':
                    other = self.ev(args[0], p)
                    if other.kind != recv.kind: raise Unsupported('set.update with ' + other.kind)
                    o = p.heap.load(other.term, fld); a_, b_ = z3.Bools('a b'); union = z3.Map(z3.Or(a_, b_).decl(), has, o)
                    self.frame(p, recv.term, fld, line); p.heap.store(recv.term, fld, union); return NONE
                raise Unsupported(f'set method {f.attr}')
            if recv.kind.startswith('list['):
                if f.attr == 'append': self.lappend(recv, self.ev(args[0], p), p, line); return NONE
                if f.attr == 'insert': self.linsert(recv, self.ev(args[0], p).term, self.ev(args[1], p), p, line); return NONE
                if f.attr == 'remove': self.lremove(recv, self.ev(args[0], p).term, p, line); return NONE
                if f.attr == 'pop' and not args:          # list.pop(): last element; IndexError on an empty list (obligation)
                    n = self.llen(recv, p); it = self.litems(recv, p)
                    self.emit(p, f'no-IndexError-pop-from-empty@{line}', n > 0, line); p.pc.append(n > 0)
                    self.frame(p, recv.term, '$len', line); p.heap.store(recv.term, '$len', n - 1)
                    return self.mk(elem_kind(recv.kind), it[n - 1])
                if f.attr == 'tolist':           # fresh python list with the same items
                    ek = elem_kind(recv.kind); r = p.heap.new(p, 'lst')
                    p.heap.store(r, items_field(ek), self.litems(recv, p)); p.heap.store(r, '$len', self.llen(recv, p)); return V(recv.kind, r)
            raise Unsupported(f'method {f.attr} on {recv.kind}@{line}')
        raise Unsupported(f'call {d}@{line}')
    # -------------------------------------------------------------------------------------------- statements
    def run(self):
        heap = Heap(self.fields); p = Path(heap)
        self.spec.bind(self, p); self.h0 = p.heap.copy(); self.e0 = dict(p.env); self.p0 = p.fork()
        for o in self.block(self.node.body, p): self.finish(o)
        return self.obs
    def finish(self, o):
        p = o.path
        if o.kind in ('next', 'return'):
            for label, g in self.spec.ensures(self, Ctx('goal'), p, o.val if o.val is not None else NONE): self.emit(p, f'return:{label}', g)
            self.exits.append(('return', o.val, p))
        elif o.kind.startswith('raise:'):
            for label, g in self.spec.raises(self, Ctx('goal'), p, o.kind[6:]): self.emit(p, f'{o.kind}:{label}', g)
            self.exits.append((o.kind, None, p))
        else: raise Unsupported('stray ' + o.kind)
    def block(self, stmts, p):
        live = [Outcome('next', p)]
        for s in stmts:
            nxt = []
            for o in live:
                if o.kind != 'next': nxt.append(o)
                else: nxt += self.stmt(s, o.path)
            live = nxt
        return live
    def assign(self, tgt, val, p):
        if isinstance(tgt, ast.Name): p.env[tgt.id] = val; return
        if isinstance(tgt, ast.Attribute):
            b = self.ev(tgt.value, p)
            if b.kind != 'ref': raise Unsupported('attribute store on ' + b.kind)
            if tgt.attr not in self.fields: raise Unsupported(f'field {tgt.attr} has no declared kind')
            self.frame(p, b.term, tgt.attr, tgt.lineno)
            p.heap.store(b.term, tgt.attr, val.term); return
        if isinstance(tgt, ast.Subscript):
            b = self.ev(tgt.value, p); i = self.ev(tgt.slice, p)
            if b.kind.startswith('dict['): self.dset(b, i, val, p, tgt.lineno); return
            self.lset(b, i.term, val, p, tgt.lineno); return
        if isinstance(tgt, ast.Tuple) and val.kind == 'tuple':
            for t, v in zip(tgt.elts, val.kw['elts']): self.assign(t, v, p)
            return
        raise Unsupported(ast.dump(tgt)[:100])
    def stmt(self, s, p):
        if isinstance(s, ast.Expr) and isinstance(s.value, ast.Constant): return [Outcome('next', p)]       # docstring dropped
        if isinstance(s, ast.Pass): return [Outcome('next', p)]
        if isinstance(s, ast.Expr) and isinstance(s.value, ast.Yield):
            # generator function: the yielded values are appended to the ghost result lists p.env['$yield<k>'] (created by the sidecar's bind)
            val = self.ev(s.value.value, p); parts = val.kw['elts'] if val.kind == 'tuple' else [val]
            if hasattr(self.spec, 'on_yield'): self.spec.on_yield(self, p)          # ghost definitions for the record about to be yielded
            for k_, v_ in enumerate(parts):
                if f'$yield{k_}' not in p.env: raise Unsupported('yield without ghost result lists')
                self.lappend(p.env[f'$yield{k_}'], v_, p, s.lineno)
            return [Outcome('next', p)]
        if isinstance(s, ast.Expr):
            r = self.ev(s.value, p)
            return r if isinstance(r, list) else [Outcome('next', p)]
        if isinstance(s, ast.Assign):
            r = self.ev(s.value, p)
            if isinstance(r, list):                 # forking callee: [(Outcome)] with val
                out = []
                for o in r:
                    if o.kind == 'next': self.assign(s.targets[0], o.val, o.path)
                    out.append(o)
                return out
            self.assign(s.targets[0], r, p); return [Outcome('next', p)]
        if isinstance(s, ast.AugAssign) and isinstance(s.target, ast.Subscript) and isinstance(s.target.slice, ast.Slice):
            # numpy / list slice update  a[start:] += n  with exact Python slice-start normalisation (negative start counts from the end)
            sl = s.target.slice
            if sl.upper is not None or sl.step is not None or sl.lower is None or not isinstance(s.op, ast.Add): raise Unsupported('slice form')
            lst = self.ev(s.target.value, p); a = self.ev(sl.lower, p).term; nadd = self.ev(s.value, p).term
            if lst.kind != 'list[int]': raise Unsupported('slice update on ' + lst.kind)
            n = self.llen(lst, p); it = self.litems(lst, p)
            start = If(a >= 0, If(a > n, n, a), If(n + a < 0, 0, n + a))
            self.frame(p, lst.term, '$items:int', s.lineno)
            new = fresh('slc', z3.ArraySort(I, I)); ARR_SIG[new.decl().name()] = _canon_arr(it)
            p.facts.append(Schematic(1, lambda k, new=new, it=it, start=start, nadd=nadd, n=n: Implies(And(0 <= k, k < n), new[k] == it[k] + If(k >= start, nadd, 0)), 'slice+='))
            p.heap.store(lst.term, '$items:int', new); return [Outcome('next', p)]
        if isinstance(s, ast.AugAssign):
            cur = self.ev(s.target, p); rhs = self.ev(s.value, p)
            if cur.kind.startswith('list[') and isinstance(s.op, ast.Add) and rhs.kind == cur.kind:
                # in-place extend (list += list, bytearray += bytes): pointwise characterisation of the new contents
                ek = elem_kind(cur.kind); fld = items_field(ek); n = self.llen(cur, p); m = self.llen(rhs, p); a = self.litems(cur, p); b = self.litems(rhs, p)
                self.frame(p, cur.term, fld, s.lineno)
                new = fresh('ext', p.heap.fsort(fld)); ARR_SIG[new.decl().name()] = _canon_arr(a)
                p.facts.append(Schematic(1, lambda k, new=new, a=a, b=b, n=n, m=m: Implies(And(0 <= k, k < n + m), new[k] == If(k < n, a[k], b[k - n])), 'list+='))
                p.heap.store(cur.term, fld, new); p.heap.store(cur.term, '$len', n + m); return [Outcome('next', p)]
            if cur.kind == 'int' and isinstance(s.op, ast.Add): val = vint(cur.term + rhs.term)
            elif cur.kind == 'int' and isinstance(s.op, ast.Sub): val = vint(cur.term - rhs.term)
            elif cur.kind == 'str' and isinstance(s.op, ast.Add): val = V('str', sconcat(cur.term, rhs.term))
            else: raise Unsupported('augassign on ' + cur.kind)
            self.assign(s.target, val, p); return [Outcome('next', p)]
        if isinstance(s, ast.Return):
            v = self.ev(s.value, p) if s.value is not None else NONE
            return [Outcome('return', p, v)]
        if isinstance(s, ast.Raise):
            name = '?'
            if isinstance(s.exc, ast.Call): name = self.dotted(s.exc.func) or '?'
            elif s.exc is not None: name = self.dotted(s.exc) or '?'
            return [Outcome('raise:' + name, p)]
        if isinstance(s, ast.If):
            c = self.truth(self.ev(s.test, p), p); a, b = p.fork(), p.fork(); a.pc.append(c); b.pc.append(Not(c))
            return self.block(s.body, a) + (self.block(s.orelse, b) if s.orelse else [Outcome('next', b)])
        if isinstance(s, ast.For): return self.loop(s, p)
        if isinstance(s, ast.Try):
            if s.finalbody or s.orelse: raise Unsupported('try/finally/else')
            outs = []
            caught = set()
            for hnd in s.handlers:
                caught |= {'*'} if hnd.type is None else ({self.dotted(t).split('.')[-1] for t in hnd.type.elts} if isinstance(hnd.type, ast.Tuple) else {self.dotted(hnd.type).split('.')[-1]})
            self._try_stack = getattr(self, '_try_stack', []) + [caught]
            try: body_outs = self.block(s.body, p)
            finally: self._try_stack = self._try_stack[:-1]
            for o in body_outs:
                if o.kind.startswith('raise:'):
                    exc = o.kind[6:].split('.')[-1]; handled = False
                    for hnd in s.handlers:
                        names = [] if hnd.type is None else ([self.dotted(t).split('.')[-1] for t in hnd.type.elts] if isinstance(hnd.type, ast.Tuple) else [self.dotted(hnd.type).split('.')[-1]])
                        if hnd.type is None or exc in names or 'Exception' in names:
                            outs += self.block(hnd.body, o.path); handled = True; break
                    if not handled: outs.append(o)
                else: outs.append(o)
            return outs
        if isinstance(s, ast.Delete):
            for t in s.targets:
                if isinstance(t, ast.Name): p.env.pop(t.id, None)
                else: raise Unsupported('del of a non-name')
            return [Outcome('next', p)]
        if isinstance(s, ast.While): return self.while_loop(s, p)
        if isinstance(s, ast.Break): return [Outcome('break', p)]
        if isinstance(s, ast.Continue): return [Outcome('continue', p)]
        raise Unsupported(ast.dump(s)[:120])
    # -------------------------------------------------------------------------------------------- loops
    def _assume_inv(self, inv, ch, q, pre, *idx):
        """assume the invariant on path q.  The sidecar's quantified conjuncts are closures that are instantiated LATER (at discharge time);
        they must talk about the state at the loop head, not about the heap object that the body goes on mutating: the invariant is therefore
        evaluated on a frozen copy of q, and whatever it added to that copy (path facts, ghost definitions) is carried over to q."""
        snap = q.fork(); n_pc, n_f = len(snap.pc), len(snap.facts); env0 = dict(snap.env)
        for label, g in inv(self, ch, snap, pre, *idx): q.pc.append(g)
        q.pc += snap.pc[n_pc:]; q.facts += snap.facts[n_f:]
        q.heap = snap.heap.copy()                       # an invariant may itself re-state loop state (e.g. the allocated set); snap.heap stays frozen
        for k_, v_ in snap.env.items():                 # ghost bindings a sidecar keeps on the path (e.g. witnesses carried through a loop)
            if env0.get(k_) is not v_: q.env[k_] = v_
        q.fresh = list(dict.fromkeys(q.fresh + snap.fresh))
    def while_loop(self, s, p):
        """while cond: body — cut by the sidecar invariant spec.while_invariants[k](E, ctx, p, pre) (k = ordinal among the function's
        while statements, ast.walk order).  Partial correctness only: termination is not verified."""
        if s.orelse: raise Unsupported('while/else')
        ids = getattr(self, 'while_ids', None)
        if ids is None:
            ids = self.while_ids = {}
            for nd in ast.walk(self.node):
                if isinstance(nd, ast.While): ids.setdefault(id(nd), len(ids))
        k = ids[id(s)]
        invs = getattr(self.spec, 'while_invariants', {})
        if k not in invs: raise Unsupported(f'while loop {k}@{s.lineno} has no invariant (stale or missing contract)')
        inv = invs[k]; pre = p.fork()
        for label, g in inv(self, Ctx('goal'), p, pre): self.emit(p, f'while{k}-entry:{label}', g, s.lineno)
        _, wn = self.written(s.body)
        global REC, REC_LOC
        saved_rec, saved_loc = set(REC), {k_: list(v_) for k_, v_ in REC_LOC.items()}; REC.clear(); REC_LOC.clear(); self.mute += 1
        try:
            d = p.fork(); n0 = len(d.fresh); n_log0 = len(ALLOC_LOG); paths = [d]
            for o_ in self.block(s.body, d): paths.append(o_.path)
        finally: self.mute -= 1
        wf = set(REC); locs = {k_: list(v_) for k_, v_ in REC_LOC.items()}
        REC.clear(); REC.update(saved_rec | wf); REC_LOC.clear(); REC_LOC.update(saved_loc)
        for k_, v_ in locs.items(): REC_LOC.setdefault(k_, []).extend(v_)
        wf.discard('$alloc'); dry_fresh = {r.get_id() for q_ in paths for r in q_.fresh[n0:]} | {r.get_id() for r in ALLOC_LOG[n_log0:]}
        def havoc(q, tag):
            for f in wf:
                rs = [r for r in locs.get(f, [None]) if r is None or r.get_id() not in dry_fresh]
                if not rs: continue
                # a while body re-executes on the state it produced: only stores to objects named by loop-invariant LOCALS are precise
                if all(r is not None and r.num_args() == 0 for r in rs): q.heap.havoc_at(f, list({r.get_id(): r for r in rs}.values()), f'W{k}{tag}')
                else: q.heap.havoc([f], f'W{k}{tag}')
            for nme in wn:
                if nme in q.env and (q.env[nme].kind in ('int', 'bool', 'str', 'ref') or q.env[nme].kind.startswith('list[')):
                    q.env[nme] = V(q.env[nme].kind, fresh(f'{nme}_W{k}{tag}', sort_of(q.env[nme].kind)))
        b = p.fork(); havoc(b, 'i'); ch = Ctx('hyp'); self._assume_inv(inv, ch, b, pre)
        b.facts += ch.schem
        c = self.truth(self.ev(s.test, b), b)
        body = b.fork(); body.pc.append(c); outs = []
        for o in self.block(s.body, body):
            if o.kind in ('next', 'continue'):
                for label, g in inv(self, Ctx('goal'), o.path, pre): self.emit(o.path, f'while{k}-preserve:{label}', g, s.lineno)
            elif o.kind == 'break': outs.append(Outcome('next', o.path))
            else: outs.append(o)
        ex = b.fork(); ex.pc.append(Not(c)); outs.append(Outcome('next', ex))
        return outs
    def written(self, body):
        """heap fields and local names possibly written by a loop body (syntactic; callee effects via spec.callee_modifies)"""
        fields, names = set(), set()
        for n in ast.walk(ast.Module(body=body, type_ignores=[])):
            tgts = []
            if isinstance(n, ast.Assign): tgts = n.targets
            elif isinstance(n, ast.AugAssign): tgts = [n.target]
            elif isinstance(n, ast.For): tgts = [n.target]
            for t in tgts:
                for el in ([t] if not isinstance(t, ast.Tuple) else t.elts):
                    if isinstance(el, ast.Name): names.add(el.id)
                    if isinstance(el, ast.Subscript): fields.update(['$items:int', '$items:ref', '$items:str', '$items:bool'])
                    if isinstance(el, ast.Attribute): fields.add(el.attr)
            if isinstance(n, ast.Call):
                d = self.dotted(n.func) if isinstance(n.func, (ast.Attribute, ast.Name)) else None
                if isinstance(n.func, ast.Attribute) and n.func.attr in ('append', 'insert', 'remove', 'pop', 'extend'):
                    fields.update(['$items:int', '$items:ref', '$items:str', '$items:bool', '$len'])
                if d in getattr(self.spec, 'callee_modifies', {}): fields.update(self.spec.callee_modifies[d])
                if isinstance(n.func, ast.Subscript):
                    key = '$dispatch:' + (self.dotted(n.func.value) or '?')
                    fields.update(getattr(self.spec, 'callee_modifies', {}).get(key, []))
        return {f for f in fields if f in self.fields or f.startswith('$')}, names
    def loop(self, s, p):
        k = self.loop_ids.setdefault(id(s), len(self.loop_ids))          # ordinal of the syntactic loop (textual order of first visit)
        it = self.ev(s.iter, p)
        if k not in self.spec.invariants: raise Unsupported(f'loop {k}@{s.lineno} has no invariant (stale or missing contract)')
        inv = self.spec.invariants[k]
        if it.kind == 'range':
            lo, hi = it.kw['lo'], it.kw['hi']; n = If(hi > lo, hi - lo, 0)
            bindf = lambda q, i: self.assign(s.target, vint(lo + i), q)
        elif it.kind == 'enumerate':
            lst = it.kw['lst']; n = self.llen(lst, p)
            def bindf(q, i, lst=lst):
                self.assign(s.target.elts[0], vint(i), q); self.assign(s.target.elts[1], self.mk(elem_kind(lst.kind), self.litems(lst, q)[i]), q)
        elif it.kind.startswith('list['):
            lst = it; n = self.llen(lst, p)
            bindf = lambda q, i, lst=lst: self.assign(s.target, self.mk(elem_kind(lst.kind), self.litems(lst, q)[i]), q)
        elif it.kind == 'dictiter' or it.kind.startswith('dict['):
            dv = it.kw['d'] if it.kind == 'dictiter' else it; mode = it.kw['mode'] if it.kind == 'dictiter' else 'keys'
            K, Vk, keys0, has0, mp0, n = self.dparts(dv, p)
            def bindf(q, i, dv=dv, mode=mode):
                K, Vk, keys, has, mp, _ = self.dparts(dv, q); kv = self.mk(K, keys[i]); vv = self.mk(Vk, mp[keys[i]])
                if mode == 'items': self.assign(s.target.elts[0], kv, q); self.assign(s.target.elts[1], vv, q)
                elif mode == 'values': self.assign(s.target, vv, q)
                else: self.assign(s.target, kv, q)
        else: raise Unsupported('loop over ' + it.kind)
        # NOTE: n is the length at loop entry; a body that changes the length of the iterated list is outside the subset
        pre = p.fork()
        for label, g in inv(self, Ctx('goal'), p, pre, z3.IntVal(0)): self.emit(p, f'loop{k}-entry:{label}', g, s.lineno)
        _, wn = self.written(s.body)
        # write set of the body: dry symbolic run of the body on the entry state with obligations muted, recording every heap field
        # written (directly, through list operations, or by callee contracts)
        global REC, REC_LOC
        saved_rec, saved_loc = set(REC), {k_: list(v_) for k_, v_ in REC_LOC.items()}; REC.clear(); REC_LOC.clear(); self.mute += 1
        dry_syms = set()
        try:
            d = p.fork(); di = fresh(f'dry{k}', I); dry_syms.add(di.get_id()); d.pc += [0 <= di, di < n]; n_fresh0 = len(d.fresh); n_log0 = len(ALLOC_LOG); dry_paths = [d]
            for nme in wn:                      # locals assigned in the body hold arbitrary values in an arbitrary iteration
                if nme in d.env and (d.env[nme].kind in ('int', 'bool', 'str', 'ref') or d.env[nme].kind.startswith('list[')):
                    c = fresh(f'dry_{nme}', sort_of(d.env[nme].kind)); dry_syms.add(c.get_id()); d.env[nme] = V(d.env[nme].kind, c)
            bindf(d, di); d.env[f'$i{k}'] = vint(di)
            for o_ in self.block(s.body, d): dry_paths.append(o_.path)
        finally:
            self.mute -= 1
        wf = set(REC); locs = {k_: list(v_) for k_, v_ in REC_LOC.items()}
        REC.clear(); REC.update(saved_rec | wf); REC_LOC.clear(); REC_LOC.update(saved_loc)
        for k_, v_ in locs.items(): REC_LOC.setdefault(k_, []).extend(v_)
        allocates = '$alloc' in wf
        if allocates:
            wf.discard('$alloc')
            if not getattr(self.spec, 'loops_may_allocate', True): raise Unsupported(f'allocation inside loop {k}')
            # the allocation map becomes loop state: an arbitrary superset of the map at loop entry (invariants may mention p.heap.alloc)
        entry_arrays = {p.heap.arr(f).get_id() for f in wf}
        def invariant_ref(r):
            """the object written is the same in every iteration: its term mentions no per-iteration symbol, no heap update, and reads
            no field that the loop writes"""
            seen = set()
            def ok(t):
                if t.get_id() in seen: return True
                seen.add(t.get_id())
                if t.get_id() in dry_syms: return False
                if z3.is_app(t):
                    kd = t.decl().kind()
                    if kd == z3.Z3_OP_STORE: return False
                    if kd == z3.Z3_OP_UNINTERPRETED and t.num_args() == 0 and str(t.sort()).startswith('Array') and t.decl().name().startswith('H_'):
                        nm_ = _base_name(t.decl().name())
                        if nm_ in wf: return False
                return all(ok(c) for c in t.children())
            return ok(r)
        # objects allocated by the body itself are new in every iteration: stores to them cannot change any object that exists at the loop
        # head, so they need no havoc at all (and the dry run's names for them mean nothing on the real path)
        dry_fresh = {r.get_id() for q_ in dry_paths for r in q_.fresh[n_fresh0:]} | {r.get_id() for r in ALLOC_LOG[n_log0:]}      # incl. objects allocated on paths that end inside a nested loop (its preserve branch)
        precise = {}
        for f in list(wf):
            rs0 = locs.get(f, [None])
            rs = [r for r in rs0 if r is None or r.get_id() not in dry_fresh]
            if not rs and rs0: wf.discard(f); continue
            if rs and all(r is not None and invariant_ref(r) for r in rs):
                uniq = {}
                for r in rs: uniq[r.get_id()] = r
                precise[f] = list(uniq.values())
        entry_alloc = p.heap.alloc
        def havoc(q, tag):
            q.heap.havoc([f for f in wf if f not in precise], f'L{k}{tag}')
            for f, refs in precise.items(): q.heap.havoc_at(f, refs, f'L{k}{tag}')
            if allocates:
                na = fresh(f'alloc_L{k}{tag}', z3.ArraySort(Ref, Bo)); a_, b_ = z3.Bools('a b')
                q.pc.append(z3.Map(z3.Implies(a_, b_).decl(), entry_alloc, na) == z3.K(Ref, z3.BoolVal(True))); q.heap.alloc = na
            for nme in wn:
                if nme in q.env and q.env[nme].kind in ('int', 'bool', 'str', 'ref') or (nme in q.env and q.env[nme].kind.startswith('list[')):
                    q.env[nme] = V(q.env[nme].kind, fresh(f'{nme}_L{k}{tag}', sort_of(q.env[nme].kind)))
        outs = []
        # arbitrary iteration
        b = p.fork(); havoc(b, 'i'); i = fresh(f'i{k}', I); b.pc += [0 <= i, i < n]
        ch = Ctx('hyp'); self._assume_inv(inv, ch, b, pre, i)
        b.facts += ch.schem; bindf(b, i); b.env[f'$i{k}'] = vint(i)            # the loop index is visible to inner invariants as pre.env['$i<k>']
        for o in self.block(s.body, b):
            if o.kind in ('next', 'continue'):
                for label, g in inv(self, Ctx('goal'), o.path, pre, i + 1): self.emit(o.path, f'loop{k}-preserve:{label}', g, s.lineno)
            elif o.kind == 'break': outs.append(Outcome('next', o.path))
            else: outs.append(o)                    # return / raise propagate
        # normal exit
        a = p.fork(); havoc(a, 'x'); ch = Ctx('hyp'); self._assume_inv(inv, ch, a, pre, n)
        a.facts += ch.schem
        if s.orelse: outs += self.block(s.orelse, a)
        else: outs.append(Outcome('next', a))
        return outs

# ------------------------------------------------------------------------------------------------------------ discharge
def _has_var(t): return z3.is_var(t) or any(_has_var(c) for c in t.children())
def int_terms(exprs, cap):
    """candidate instantiation terms: integer constants (skolems, loop indices, parameters) and every ground term used as an
    index of an Int-indexed array or as an argument of a ghost function (this includes python-normalised indices)"""
    seen, consts, idxs = set(), [], []
    def walk(t):
        if t.get_id() in seen: return
        seen.add(t.get_id())
        if z3.is_app(t):
            kd = t.decl().kind()
            if z3.is_int(t) and t.num_args() == 0 and kd == z3.Z3_OP_UNINTERPRETED: consts.append(t)
            if kd == z3.Z3_OP_SELECT and z3.is_int(t.arg(1)) and not z3.is_int_value(t.arg(1)) and not _has_var(t.arg(1)): idxs.append(t.arg(1))
            if kd == z3.Z3_OP_UNINTERPRETED and t.num_args() > 0:
                if z3.is_int(t) and not _has_var(t): idxs.append(t)
                for a in t.children():
                    if z3.is_int(a) and not z3.is_int_value(a) and not _has_var(a): idxs.append(a)
        for c in t.children(): walk(c)
    for e in exprs: walk(e)
    out, ids = [], set()
    for t in consts + sorted(idxs, key=lambda t: len(str(t))):
        if t.get_id() not in ids and len(str(t)) < 4000: ids.add(t.get_id()); out.append(t)
    return out[:cap]

def discharge(ob, timeout=60000, cap=40, extra_hyps=(), extra_terms=()):
    base = list(ob.pc) + list(extra_hyps) + [Not(ob.goal)]
    terms = int_terms(base, cap) + list(extra_terms)
    c1 = terms + [t - 1 for t in terms] + [t + 1 for t in terms] + [z3.IntVal(0)]
    inst = []
    for sc in ob.schem:
        dom = c1 if sc.n == 1 else terms + [z3.IntVal(0)]
        if sc.n >= 3: dom = terms[:10] + [z3.IntVal(0)]
        for args in itertools.product(dom, repeat=sc.n): inst.append(sc.fn(*args))
    known = {u.get_id() for u in terms}
    def ghost_first(ts):
        def arith(t): st = str(t); return st.count(' + ') + st.count(' - ') + st.count('If(')
        return sorted(ts, key=lambda t: (0 if (t.decl().kind() == z3.Z3_OP_UNINTERPRETED and t.num_args() > 0) else 1, arith(t), len(str(t))))
    terms2 = ghost_first([t for t in int_terms(inst, 400) if t.get_id() not in known])[:cap]
    inst2 = []
    for sc in ob.schem:
        if sc.n == 1:
            for t in terms2: inst2.append(sc.fn(t))
        elif sc.n == 2:
            for t in terms2[:8]:
                for u in terms[:12]: inst2 += [sc.fn(t, u), sc.fn(u, t)]
    inst += inst2
    s = z3.Solver(); s.set('timeout', timeout); s.add(*base); s.add(*inst); s.add(*str_axioms(base + inst))
    t0 = time.time(); r = s.check(); return r, time.time() - t0, len(inst), s

def refute(ob, B=3, timeout=60000, extra_hyps=(), bound_terms=()):
    """bounded scope: every list length term in bound_terms <= B, universals expanded over -1..B+1 -> a model is a genuine
    counterexample of the VC within the scope"""
    s = z3.Solver(); s.set('timeout', timeout); s.add(*ob.pc); s.add(*extra_hyps); s.add(Not(ob.goal))
    for t in bound_terms: s.add(t >= 0, t <= B)
    dom = [z3.IntVal(v) for v in range(-1, B + 2)]
    allf = []
    for sc in ob.schem:
        for args in itertools.product(dom, repeat=sc.n): allf.append(sc.fn(*args))
    s.add(*allf); s.add(*str_axioms(list(ob.pc) + [ob.goal] + allf))
    t0 = time.time(); r = s.check(); return r, time.time() - t0, s

# ------------------------------------------------------------------------------------------------------------ sidecar base
class Spec:
    """base class of sidecar contracts (defaults: nothing may be written, raising is forbidden)"""
    fields = {}; consts = {}; constructors = {}; callees = {}; invariants = {}; callee_modifies = {}
    def bind(self, E, p): raise NotImplementedError
    def ensures(self, E, ctx, p, ret): return []
    def raises(self, E, ctx, p, exc): return [(f'no-{exc}', z3.BoolVal(False))]
    def may_write(self, E, p, ref, field): return z3.BoolVal(False)
    def empty_list_kind(self, line): return 'int'
    def empty_set_kind(self, line): return 'str'
    def bounds(self, E): return []            # list-length terms to bound in the refutation stage
    def exclusions(self, E, names): return []  # extra schematic hypotheses excluding known-finding classes

def run_function(fn, spec, engine_cls=None):
    """-> (engine, raw obligations).  Raises Unsupported when the function leaves the engine's subset or no longer matches the
    shape the sidecar was written for (stale contract: a local the invariant mentions is gone, a loop has no invariant, ...)."""
    E = (engine_cls or Engine)(fn, spec)
    try: E.run()
    except Unsupported: raise
    except (KeyError, AttributeError, IndexError, TypeError, z3.Z3Exception) as e:
        raise Unsupported(f'stale contract or unsupported shape: {type(e).__name__}: {e}')
    return E

def decide(E, spec, timeout=60000, B=2, exclude=()):
    """discharge every raw obligation of E: returns list of (label, status, seconds, detail, model_solver|None)"""
    extra = spec.exclusions(E, exclude) if exclude else []
    out = []
    for ob in E.obs:
        ob.schem = ob.schem + extra
        r, dt, ninst, s = discharge(ob, timeout=timeout)
        if r == z3.unsat: out.append((ob, 'proved', dt, f'{ninst} instances', None)); continue
        if getattr(spec, 'refutable', True): r2, dt2, s2 = refute(ob, B=B, bound_terms=spec.bounds(E), timeout=timeout)
        else: r2, dt2, s2 = 'skipped (quantified ranges exceed any small scope)', 0.0, None
        if r2 == z3.sat: out.append((ob, 'refuted', dt + dt2, 'bounded-scope counter-model', s2.model()))
        else: out.append((ob, 'unknown', dt + dt2, f'stage1={r} stage2={r2}', None))
    return out

def discharge_rel(ob, spec, timeout=60000):
    """relevance filtering (the `uses=` of DESIGN §2.1): first try with the hypotheses the sidecar names as relevant for this kind of
    obligation (sound: fewer hypotheses), then with all of them"""
    rel = spec.relevant(ob.label) if hasattr(spec, 'relevant') else None
    if rel is not None and getattr(spec, 'relaxed_first', False):
        # sidecars whose lists are named through two access paths: the owner-relaxed matching over the relevant hypotheses is the stage that succeeds
        keep = [sc for sc in ob.schem if any(sc.name.startswith(pfx) if pfx else sc.name == '' for pfx in rel)]
        r, dt, n, s = discharge_typed(RawOb(ob.label, ob.pc, keep, ob.goal, ob.line), timeout=min(timeout, 20000), cap_per_var=6, relax=True)
        if r == z3.unsat: return r, dt, n, s
    # cheapest first: few candidates per bound variable (the needed ones are almost always the skolems and loop indices)
    r, dt, n, s = discharge_typed(ob, timeout=min(timeout, 15000), cap_per_var=8)
    if r == z3.unsat: return r, dt, n, s
    rel = spec.relevant(ob.label) if hasattr(spec, 'relevant') else None
    if rel is not None:
        keep = [sc for sc in ob.schem if any(sc.name.startswith(pfx) if pfx else sc.name == '' for pfx in rel)]
        if len(keep) < len(ob.schem):
            sub = RawOb(ob.label, ob.pc, keep, ob.goal, ob.line)
            r, dt, n, s = discharge_typed(sub, timeout=min(timeout, 20000))
            if r == z3.unsat: return r, dt, n, s
            # owner-relaxed matching over the relevant hypotheses with few candidates per variable (one list named through two access paths)
            r, dt, n, s = discharge_typed(sub, timeout=min(timeout, 20000), cap_per_var=6, relax=True)
            if r == z3.unsat: return r, dt, n, s
    return discharge_typed(ob, timeout=timeout)

def discharge_mb(ob, timeout=60000, rounds=14, pool1=120, pool2=24, extra_hyps=()):
    """model-guided instantiation: keep only the instances that the current candidate model violates (sound: every added
    formula is an instance of a hypothesis; `unsat` is therefore a proof).  `sat` here is only a candidate."""
    base = list(ob.pc) + list(extra_hyps) + [Not(ob.goal)]
    s = z3.Solver(); s.set('timeout', timeout); s.add(*base); s.add(*str_axioms(base))
    t0 = time.time(); added = 0; seen = set()
    for rnd in range(rounds):
        r = s.check()
        if r != z3.sat: return r, time.time() - t0, added, s
        if time.time() - t0 > timeout / 1000.0: return z3.unknown, time.time() - t0, added, s
        m = s.model()
        terms = int_terms(s.assertions(), 4000)
        def rank(t):
            st = str(t); return (st.count(' + ') + st.count(' - ') + st.count('If('), len(st))
        terms = sorted(terms, key=rank)
        p1 = terms[:pool1]; p1 = p1 + [t + 1 for t in p1[:40]] + [t - 1 for t in p1[:40]] + [z3.IntVal(0)]
        p2 = terms[:pool2] + [z3.IntVal(0)]
        new = []
        for sc in ob.schem:
            dom = p1 if sc.n == 1 else (p2 if sc.n == 2 else p2[:10])
            for args in itertools.product(dom, repeat=sc.n):
                key = (id(sc),) + tuple(a.get_id() for a in args)
                if key in seen: continue
                f = sc.fn(*args)
                if z3.is_false(m.eval(f, model_completion=True)): new.append(f); seen.add(key)
        if not new: return z3.sat, time.time() - t0, added, s
        s.add(*new); s.add(*str_axioms(new)); added += len(new)
    return z3.unknown, time.time() - t0, added, s

_POOL = {}
def _decide_one(i):
    E, spec, timeout, B, extra = _POOL['args']; ob = E.obs[i]
    try:
        r, dt, ninst, s = discharge_rel(ob, spec, timeout=timeout)
        if r == z3.unsat: return (i, 'proved', dt, f'{ninst} instances', None)
        if getattr(spec, 'refutable', True): r2, dt2, s2 = refute(ob, B=B, bound_terms=spec.bounds(E), timeout=timeout)
        else: r2, dt2, s2 = 'skipped (quantified ranges exceed any small scope)', 0.0, None
        if r2 == z3.sat:
            m = s2.model(); vals = spec.model_values(E, m) if hasattr(spec, 'model_values') else {}
            return (i, 'refuted', dt + dt2, 'bounded-scope counter-model', vals)
        if _POOL.get('fast'): return (i, 'unknown', dt + dt2, 'fast-mode: not proved by the first-stage ladder', None)
        # no counter-model in the small scope: the stage-1 `sat` was an artefact of incomplete instantiation -> relaxed matching, then deeper instantiation
        r6, dt6, ninst6, s6 = discharge(ob, timeout=min(timeout, 15000), cap=10)            # small untyped instantiation: independent of the signature heuristics, cheap at this size
        if r6 == z3.unsat: return (i, 'proved', dt + dt2 + dt6, f'{ninst6} instances (untyped, small)', None)
        dt2 += dt6
        r5, dt5, ninst5, s5 = discharge_typed(ob, timeout=min(timeout, 20000), cap_per_var=10, relax=True)
        if r5 == z3.unsat: return (i, 'proved', dt + dt2 + dt5, f'{ninst5} instances (owner-relaxed matching)', None)
        r3, dt3, ninst, s3 = discharge_typed(ob, timeout=timeout, rounds=6, cap_per_var=120, max_inst=40000)
        if r3 == z3.unsat: return (i, 'proved', dt + dt2 + dt3, f'{ninst} instances (deep)', None)
        # last resort: untyped eager instantiation over every index term (+-1): heavier, but independent of the signature heuristics
        r4, dt4, ninst4, s4 = discharge(ob, timeout=timeout, cap=30)
        if r4 == z3.unsat: return (i, 'proved', dt + dt2 + dt3 + dt4, f'{ninst4} instances (untyped)', None)
        return (i, 'unknown', dt + dt2 + dt3 + dt4, f'stage1={r} stage2={r2} stage3={r3} stage4={r4}', None)
    except Exception as e:
        import traceback; return (i, 'error', 0.0, traceback.format_exc()[-600:], None)

STAGE1 = {}          # function name -> labels of the obligations that the FIRST-stage ladder proved on the real function in this process (filled by verify)
def decide_parallel(E, spec, timeout=40000, B=2, exclude=(), procs=16, canary=False):
    """canary=True (mutants): the question is only whether SOME obligation is no longer proved.  Obligations are then decided with the first-stage ladder
    only and the pool stops at the first one that is refuted, or that fails although the same ladder proved it on the real function (STAGE1); obligations
    whose proof on the real function needed the deeper stages are re-decided with the full ladder if nothing else failed.  Only finished obligations are returned."""
    from vlib import core
    extra = spec.exclusions(E, exclude) if exclude else []
    for ob in E.obs: ob.schem = ob.schem + extra
    _POOL['args'] = (E, spec, timeout, B, extra); _POOL['fast'] = False
    # hard wall-clock limit per obligation (all stages together): a query on which z3 ignores its soft timeout becomes 'unknown' instead of hanging the check
    hard = 6 * timeout / 1000.0 + 120
    tmo = lambda i: (i, 'unknown', hard, f'hard wall-clock limit of {hard:.0f}s: the solver did not return', None)
    if canary:
        base = STAGE1.get(getattr(E.fn, 'name', None), set()); _POOL['fast'] = True
        killed = lambda r: r is not None and (r[1] == 'refuted' or (r[1] != 'proved' and E.obs[r[0]].label in base))
        try: res = core.run_pool(_decide_one, len(E.obs), procs, hard_s=hard, on_timeout=tmo, stop_when=killed)
        finally: _POOL['fast'] = False
        done = [r for r in res if r is not None]
        if any(killed(r) for r in done): return [(E.obs[i], st, dt, det, mv) for (i, st, dt, det, mv) in done]
        redo = [r[0] for r in done if r[1] != 'proved']
        if redo:
            full = core.run_pool(lambda k: _decide_one(redo[k]), len(redo), procs, hard_s=hard, on_timeout=lambda k: tmo(redo[k])); byi = {r[0]: r for r in full}
            done = [byi.get(r[0], r) for r in done]
        return [(E.obs[i], st, dt, det, mv) for (i, st, dt, det, mv) in done]
    res = core.run_pool(_decide_one, len(E.obs), procs, hard_s=hard, on_timeout=tmo)
    return [(E.obs[i], st, dt, det, mv) for (i, st, dt, det, mv) in res]

# ------------------------------------------------------------------------------------------------------------ typed instantiation
ARR_SIG = {}      # id of a fresh items-array constant -> signature of the list it belongs to (set by the engine)
def _base_name(nm):
    nm = nm.split('!')[0]
    if nm.startswith('H_'):
        nm = nm[2:]
        for tag in ('_L',):
            k = nm.rfind(tag)
            if k > 0 and nm[k + 2:k + 3].isdigit(): nm = nm[:k]
    return nm
def _canon_ref(r, depth=0):
    if depth > 4: return '_'
    if z3.is_app(r):
        kd = r.decl().kind()
        if r.num_args() == 0: return _base_name(r.decl().name())
        if kd == z3.Z3_OP_SELECT:
            a, i = r.arg(0), r.arg(1)
            if z3.is_int(i): return _canon_arr(a, depth + 1) + '[_]'
            if i.sort() != Ref: return _canon_arr(a, depth + 1) + '.*'          # map lookup by a string/int key: the key is not part of the signature
            return _canon_arr(a, depth + 1) + '.' + _canon_ref(i, depth + 1)
        if kd == z3.Z3_OP_ITE: return _canon_ref(r.arg(1), depth + 1)
    return '_'
def _canon_arr(a, depth=0):
    """signature of an array-sorted term: base heap field (version stripped) + shape of the owning object"""
    if depth > 6: return '_'
    if z3.is_app(a) and a.num_args() == 0 and a.decl().name() in ARR_SIG: return ARR_SIG[a.decl().name()]
    if z3.is_app(a):
        kd = a.decl().kind()
        if a.num_args() == 0: return _base_name(a.decl().name())
        if kd == z3.Z3_OP_STORE: return _canon_arr(a.arg(0), depth + 1)
        if kd == z3.Z3_OP_ITE: return _canon_arr(a.arg(1), depth + 1)
        if kd == z3.Z3_OP_SELECT: return _canon_arr(a.arg(0), depth + 1) + '@' + _canon_ref(a.arg(1), depth + 1)
    return '_'

def _occurrences(exprs, placeholders):
    """ground: sig -> {id: term};  pats: placeholder id -> set of (offset, sig)"""
    ground, pats = {}, {}
    ph = {v.get_id(): v for v in placeholders}
    seen = set()
    def has_ph(t, memo={}):
        if not ph: return False
        i = t.get_id()
        if i in memo: return memo[i]
        r = (i in ph) or any(has_ph(c) for c in t.children()); memo[i] = r; return r
    def note(idx, sig):
        if not z3.is_int(idx): return
        if z3.is_int_value(idx):
            if -1 <= idx.as_long() <= 4: ground.setdefault(sig, {})[idx.get_id()] = idx
            return
        if not has_ph(idx):
            ground.setdefault(sig, {})[idx.get_id()] = idx; return
        if idx.get_id() in ph: pats.setdefault(idx.get_id(), set()).add((0, sig)); return
        if z3.is_app(idx) and idx.decl().kind() in (z3.Z3_OP_ADD, z3.Z3_OP_SUB) and idx.num_args() == 2:
            a, b = idx.arg(0), idx.arg(1)
            if a.get_id() in ph and z3.is_int_value(b): pats.setdefault(a.get_id(), set()).add((b.as_long() if idx.decl().kind() == z3.Z3_OP_ADD else -b.as_long(), sig))
            elif b.get_id() in ph and z3.is_int_value(a) and idx.decl().kind() == z3.Z3_OP_ADD: pats.setdefault(b.get_id(), set()).add((a.as_long(), sig))
    def walk(t):
        if t.get_id() in seen: return
        seen.add(t.get_id())
        if z3.is_app(t):
            kd = t.decl().kind()
            if kd == z3.Z3_OP_SELECT and z3.is_int(t.arg(1)): note(t.arg(1), 'A:' + _canon_arr(t.arg(0)))
            elif kd == z3.Z3_OP_UNINTERPRETED and t.num_args() > 0:
                for k, a in enumerate(t.children()):
                    if z3.is_int(a): note(a, f'F:{t.decl().name()}#{k}')
        for c in t.children(): walk(c)
    for e in exprs: walk(e)
    return ground, pats

_PH = [z3.Int(f'$ph{k}') for k in range(4)]
def _schematic_patterns(sc):
    if not hasattr(sc, '_pats'):
        body = sc.fn(*_PH[:sc.n]); _, pats = _occurrences([z3.simplify(body)], _PH[:sc.n])
        sc._pats = [pats.get(_PH[k].get_id(), set()) for k in range(sc.n)]
    return sc._pats

import re as _re
_bang = _re.compile(r'!\d+')
def _term_key(t):
    """deterministic, run-independent ordering of candidate terms: small terms first; fresh-name counters are ignored"""
    # (z3's python pretty printer takes minutes on deeply nested store chains: terms above a node budget are keyed by the C printer's s-expression)
    if _tree_size(t, 400) >= 400:
        st = _bang.sub('!', t.sexpr()); return (100000 + len(st), st)
    st = _bang.sub('!', str(t)); return (len(st), st)
def _tree_size(t, budget):
    n = 0; stack = [t]
    while stack and n < budget:
        x = stack.pop(); n += 1; stack.extend(x.children())
    return n

def discharge_typed(ob, timeout=60000, rounds=3, extra_hyps=(), cap_per_var=40, max_inst=12000, relax=False):
    """E-matching done by the generator: each universally quantified hypothesis is instantiated only with ground terms that occur
    as an index of an array (or argument of a ghost function) of the same signature as one of the positions where the bound
    variable occurs in the hypothesis.  Sound (instances only); the result is quantifier-free."""
    base = [z3.simplify(f) for f in list(ob.pc) + list(extra_hyps)] + [z3.simplify(Not(ob.goal))]
    insts = []; seen = set(); t0 = time.time()
    cur = list(base)
    for rnd in range(rounds):
        ground, _ = _occurrences(cur + insts, [])
        if relax:
            # relaxed matching: the OWNER of an array is ignored (`xs[k]` matches an index of any list with the same element kind).  Needed when one list is
            # named through two access paths (a local and a field of a record); still instances only, hence sound
            g2 = {}
            for sig, d in ground.items(): g2.setdefault(sig.split('@')[0], {}).update(d)
            ground = g2
        allg = {}
        for sig, d in ground.items(): allg.update(d)
        new = []
        for sc in ob.schem:
            pats = _schematic_patterns(sc); doms = []
            for k in range(sc.n):
                cand = {}
                for (off, sig) in pats[k]:
                    for t in ground.get(sig.split('@')[0] if relax else sig, {}).values():
                        u = z3.simplify(t - off) if off else t; cand[u.get_id()] = u
                if not pats[k]:
                    for t in list(allg.values())[:cap_per_var]: cand[t.get_id()] = t
                    z0 = z3.IntVal(0); cand[z0.get_id()] = z0
                lits = [t for t in cand.values() if z3.is_int_value(t)]
                c = sorted((t for t in cand.values() if not z3.is_int_value(t)), key=_term_key)[:cap_per_var] + sorted(lits, key=_term_key)      # literals never crowd out symbolic terms
                doms.append(c)
            for args in itertools.product(*doms):
                key = (id(sc),) + tuple(a.get_id() for a in args)
                if key in seen: continue
                seen.add(key); new.append(z3.simplify(sc.fn(*args)))
                if len(insts) + len(new) > max_inst: break
        if not new: break
        insts += new
    s = z3.Solver(); s.set('timeout', timeout); s.add(*base); s.add(*insts); s.add(*str_axioms(base + insts))
    r = s.check(); return r, time.time() - t0, len(insts), s

# ------------------------------------------------------------------------------------------------------------ glue to core.Report
def verify(rep, prop, fn, spec, select=None, exclude=(), replay=None, fallback=None, timeout=40000, B=2, backend='z3-qf(typed-instantiation)', engine_cls=None):
    """Generate and decide the obligations of one function under its sidecar contract and add them to the report.
       select(label) -> bool : which obligations belong to this property (loop-invariant and implicit-raise obligations always do)
       replay(model_values, label) -> dict(confirmed=..., ...) : native replay of a counter-model on the real code
       fallback(label) -> dict | None : bounded native search used when the engine cannot follow the (changed) function"""
    from vlib import core
    rep.fn(fn)
    try:
        E = run_function(fn, spec, engine_cls)
    except Unsupported as e:
        ob = core.Ob(f'{prop}/{fn.name}/engine-subset', fn, 'pyvc', core.UNKNOWN, 0.0, detail=f'outside the engine subset: {e}', clause='function within the verified Python subset')
        fb = fallback('engine-subset') if fallback else None
        if fb and fb.get('confirmed'): ob.status = core.REFUTED; ob.replay = fb
        rep.add(ob); return []
    res = decide_parallel(E, spec, timeout=timeout, B=B, exclude=exclude)
    if not exclude: STAGE1[fn.name] = {ob.label for ob, st, dt, det, mv in res if st == 'proved' and str(det).endswith('instances')}
    counts = {}; out = []
    for ob, st, dt, det, mv in res:
        k = counts.get(ob.label, 0); counts[ob.label] = k + 1
        always = ob.label.startswith(('loop', 'no-', 'frame', 'pre:'))
        if select is not None and not always and not select(ob.label): continue
        # line numbers in labels are made relative to the function's first line, so that edits elsewhere in the file do not rename obligations
        rel_label = _re.sub(r'@(\d+)', lambda m_: '@+%d' % (int(m_.group(1)) - fn.line), ob.label)
        o = core.Ob(f'{prop}/{fn.name}/{rel_label}' + (f'#{k}' if k else ''), fn, backend, st, dt, detail=det if st != 'refuted' else f'{det}: {mv}', clause=ob.label)
        if exclude: o.id += '[excluding:' + ','.join(exclude) + ']'
        if st == 'refuted':
            rp = None
            if replay and mv:
                try: rp = replay(mv, ob.label)
                except Exception as e: rp = dict(confirmed=False, note=f'replay crashed: {e!r}', inputs=mv)
            if (not rp or not rp.get('confirmed')) and fallback:
                fb = fallback(ob.label)
                if fb and fb.get('confirmed'): fb['note'] = 'the solver counter-model did not replay; failing input found by bounded native search guided by the failed obligation'; rp = fb
            o.replay = rp or dict(confirmed=False, inputs=mv)
        elif st == 'unknown' and fallback:
            # not proved, no counter-model: the function's bounded native search decides whether an input fails on the real code (memoised per function)
            if '$fb' not in counts:
                try: counts['$fb'] = fallback(ob.label)
                except Exception as e: counts['$fb'] = dict(confirmed=False, note=f'native search crashed: {e!r}', crashed=True)
            fb = counts['$fb']
            if fb and fb.get('confirmed'): o.status = core.REFUTED; o.replay = dict(fb, note='undischarged obligation; failing input found by the bounded native search of this function')
            elif not (fb or {}).get('crashed'): o.replay = dict(confirmed=False, native_search_ran=True, note='undischarged obligation; the bounded native search of this function found no failing input')
        out.append(o); rep.add(o)
    core.oracle_selfcheck(rep, fn, fallback, all(o.status == core.PROVED for o in out))
    return out
