"""Frame / effect analysis over the REAL source of ai_edge_quantizer (re-read from the repository on every run).

Three analyses share one program model (function table, import map, call resolution, call graph):

  1. may-mutate-a-parameter (frame / `modifies` clauses): conservative, interprocedural, flow-insensitive (one exception:
     a top-level statement rebinding a parameter name on every path through it, see FnInfo.rebind_line / stmt_rebinds), field-sensitive.
     Abstract values (AV) are trees: `refs` = set of (root, access path) the value may denote, `fields` = known contents of a
     (fresh) object by attribute name ('*' = container element, '?' = unknown field), `funcs` = function / class references the
     value may be (this is how registry dispatch is resolved from algorithm_manager.py's own registration code), `classes` =
     repository classes of the object, `ext` = tags of trusted external objects.  Roots are parameters of functions and
     module-level variables.  Every heap store / mutating call whose target has refs produces an *event* on the root; events
     of callee parameters are transferred to the arguments at every call site, to a global fixpoint.  `self.<attr>` is a
     per-class heap shared by all methods (a parameter stored on self and mutated by ANY method counts, unless deep-copied).
  2. history independence: events on module-level roots (global writes, registry mutation) sited in functions on a call tree.
  3. set iteration sites with an inferred element type.

Nothing here whitelists functions of the repository by name; precision comes from copy-awareness (deep / shallow), field
sensitivity, fresh-object construction and call-site substitution of return values.  What IS listed explicitly is the
behaviour of *external* callables (builtins, numpy, json, tensorflow helpers): see EXT_FUNCS / EXT_METHODS below; any external
callable not listed is an *unresolved call* and taints the arguments it receives as 'unknown'."""
import ast, os, collections

# ------------------------------------------------------------------------------------------------ explicit external tables
MUTATORS = {'append', 'extend', 'insert', 'remove', 'pop', 'clear', 'update', 'setdefault', 'sort', 'reverse', 'add', 'discard',
            'popitem', '__setitem__', '__delitem__', 'fill', 'resize', 'itemset', 'put', 'partition', 'setflags', 'byteswap',
            'difference_update', 'intersection_update', 'symmetric_difference_update', 'move_to_end', 'appendleft', 'popleft'}
# external functions, canonical dotted name -> result kind.  All of them are trusted NOT to mutate their arguments.
#   fresh    result shares nothing mutable with the arguments      shallow  new container, elements alias those of arg 0
#   alias0/1 result may BE (a view of) argument 0 / 1              elem     result is an element of arg 0 (or one of the args)
#   enum/zip/iter  iteration adapters                              deepcopy result is a deep copy (no aliasing at any depth)
EXT_FUNCS = {}
for _n in ('abs bool bytes float int str len isinstance issubclass range type sum repr hash id print round any all callable ord chr '
           'format divmod pow bytearray complex object super hasattr').split(): EXT_FUNCS['builtins.' + _n] = 'fresh'
for _n in ('dict list tuple set frozenset sorted'.split()): EXT_FUNCS['builtins.' + _n] = 'shallow'
EXT_FUNCS.update({'builtins.enumerate': 'enum', 'builtins.zip': 'zip', 'builtins.reversed': 'iter', 'builtins.iter': 'iter',
                  'builtins.filter': 'iter1', 'builtins.next': 'elem', 'builtins.min': 'elem', 'builtins.max': 'elem',
                  'builtins.frozenset.union': 'shallow', 'builtins.set.union': 'shallow', 'builtins.getattr': 'elem',
                  'copy.deepcopy': 'deepcopy', 'copy.copy': 'shallow', 'collections.OrderedDict': 'shallow', 'collections.defaultdict': 'fresh',
                  'immutabledict.immutabledict': 'shallow', 'typing.cast': 'alias1', 'dataclasses.asdict': 'fresh', 'dataclasses.field': 'fresh',
                  'dataclasses.replace': 'shallow', 'dataclasses.dataclass': 'fresh', 'functools.partial': 'partial',
                  'json.dumps': 'fresh', 'json.loads': 'fresh', 'json.load': 'fresh', 'math.floor': 'fresh', 'math.ceil': 'fresh',
                  're.search': 'fresh', 're.match': 'fresh', 're.fullmatch': 'fresh', 're.compile': 'fresh',
                  'os.path.join': 'fresh', 'os.path.dirname': 'fresh', 'os.path.normpath': 'fresh', 'os.path.exists': 'fresh',
                  'absl.logging.warning': 'fresh', 'absl.logging.info': 'fresh', 'absl.logging.error': 'fresh',
                  'tensorflow.python.platform.gfile.GFile': 'fresh', 'tensorflow.python.platform.gfile.Open': 'fresh',
                  'tensorflow.python.platform.gfile.Exists': 'fresh',
                  # tensorflow.lite.tools.flatbuffer_utils: read_* unpack the bytes into NEW python objects (object API),
                  # convert_object_to_bytearray packs into a new builder; neither writes to its argument (source inspected)
                  'tensorflow.lite.tools.flatbuffer_utils.read_model': 'fresh', 'tensorflow.lite.tools.flatbuffer_utils.read_model_from_bytearray': 'fresh',
                  'tensorflow.lite.tools.flatbuffer_utils.convert_object_to_bytearray': 'fresh', 'tensorflow.lite.tools.flatbuffer_utils.type_to_name': 'fresh',
                  'ai_edge_litert.interpreter.Interpreter': 'fresh', 'numpy.random.default_rng': 'fresh'})
for _n in ('ValueError RuntimeError FileExistsError TypeError KeyError NotImplementedError IndexError AssertionError Exception '
           'StopIteration OSError IOError AttributeError').split(): EXT_FUNCS['builtins.' + _n] = 'fresh'
# numpy functions used as pure functions of their arguments (fresh result) ...
for _n in ('abs array array_equal bitwise_or clip issubdtype left_shift max maximum mean median min minimum multiply nan_to_num ones '
           'ones_like pad rint shape square subtract zeros zeros_like add divide sum round floor ceil sqrt amax amin allclose isnan '
           'isfinite concatenate stack where argmax argmin prod float32 float16 int8 int16 int32 int64 uint8 dtype finfo iinfo '
           'full full_like arange linspace result_type any all').split(): EXT_FUNCS['numpy.' + _n] = 'fresh'
# ... and the ones that may return a VIEW of argument 0 (an in-place write to the result would write to the argument)
for _n in ('reshape transpose squeeze expand_dims asarray frombuffer ravel atleast_1d ascontiguousarray').split(): EXT_FUNCS['numpy.' + _n] = 'alias0'
# numpy functions writing to argument 0 in place
EXT_INPLACE0 = {'numpy.copyto', 'numpy.put', 'numpy.place', 'numpy.putmask', 'numpy.fill_diagonal', 'numpy.random.shuffle', 'random.shuffle',
                'builtins.setattr', 'builtins.delattr'}
# methods on receivers of unknown (external / builtin) type, by name: (mutates receiver, result kind).  Arguments are never mutated.
EXT_METHODS = {m: (True, 'recv_elem' if m in ('pop', 'setdefault', 'popitem') else 'fresh') for m in MUTATORS}
for _m in ('items',): EXT_METHODS[_m] = (False, 'items')
for _m in ('values',): EXT_METHODS[_m] = (False, 'values')
for _m in ('get',): EXT_METHODS[_m] = (False, 'get')
for _m in ('copy', 'union', 'intersection', 'difference', 'symmetric_difference'): EXT_METHODS[_m] = (False, 'shallow')
for _m in ('reshape', 'view', 'ravel', 'squeeze', 'transpose', 'swapaxes'): EXT_METHODS[_m] = (False, 'alias')
for _m in ('keys astype flatten tobytes tolist item mean min max sum any all lower upper decode encode startswith endswith format join split '
           'strip lstrip rstrip replace index count isdigit find read readline readlines normal standard_normal uniform integers '
           'get_input_details get_output_details get_signature_list get_tensor_details get_tensor tensor Pack Output __len__ '
           'group groups is_integer hex total_seconds issubset issuperset isdisjoint').split(): EXT_METHODS[_m] = (False, 'fresh')
EXT_METHODS['get_signature_runner'] = (False, 'ext:SignatureRunner')
# receiver-mutating methods of trusted external objects (TFLite interpreter copies what it is given: set_tensor memcpy's)
for _m in ('set_tensor', 'invoke', 'allocate_tensors', 'reset_all_variables', 'write', 'close', 'flush', 'seed', 'Finish', 'mark_as_parsed',
           'resize_tensor_input'): EXT_METHODS[_m] = (True, 'fresh')
# flatbuffers object-API classes (plain generated python classes; constructors take no caller data)
EXT_FRESH_PREFIXES = ('ai_edge_litert.schema_py_generated.',)
EXT_CALLABLE_TAGS = {'SignatureRunner'}      # calling an object carrying this tag: trusted pure on its arguments, fresh result
REFLECTION = {'setattr', 'getattr', 'delattr', 'exec', 'eval', 'globals', 'locals', 'vars', '__import__', 'compile'}
IMMUTABLE_ANN = {'int', 'float', 'str', 'bool', 'bytes', 'complex'}
ROLE_PATTERNS = [('materialize', lambda q: q.split('.')[-1].startswith('materialize_')), ('calibrat', lambda q: 'calibrate' in q.split('.')[-1]),
                 ('init', lambda q: q.split('.')[-1].startswith('init_qsv')), ('update', lambda q: q.split('.')[-1].endswith('_update')),
                 ('check', lambda q: q.split('.')[-1].startswith('check_'))]

# ------------------------------------------------------------------------------------------------ abstract values
WILD, ANYF, ELEM = '…', '?', '*'
MAXP, MAXD = 5, 6

class AV:
    __slots__ = ('refs', 'fields', 'funcs', 'classes', 'ext', 'depth')
    def __init__(self, refs=frozenset(), fields=None, funcs=None, classes=frozenset(), ext=frozenset()):
        self.refs, self.fields, self.funcs, self.classes, self.ext = refs, fields or {}, funcs or {}, classes, ext
        self.depth = 1 + max((v.depth for v in self.fields.values()), default=0) if self.fields else 0
    def __bool__(self): return bool(self.refs or self.fields or self.funcs or self.classes or self.ext)
    def __repr__(self):
        return f'AV(refs={sorted(map(str, self.refs))}, fields={self.fields}, funcs={list(self.funcs)}, cls={list(self.classes)}, ext={list(self.ext)})'
BOT = AV()

def mk(refs=frozenset(), fields=None, funcs=None, classes=frozenset(), ext=frozenset()):
    if fields: fields = {k: v for k, v in fields.items() if v is not BOT and v is not None}
    if not (refs or fields or funcs or classes or ext): return BOT
    a = AV(refs if isinstance(refs, frozenset) else frozenset(refs), fields, funcs, classes, ext)
    return limit(a, MAXD) if a.depth > MAXD else a

def join(a, b):
    if b is BOT or b is None or a is b: return a
    if a is BOT or a is None: return b
    refs = a.refs if b.refs <= a.refs else a.refs | b.refs
    classes = a.classes if b.classes <= a.classes else a.classes | b.classes
    ext = a.ext if b.ext <= a.ext else a.ext | b.ext
    fields = a.fields
    if b.fields:
        nf = None
        for k, v in b.fields.items():
            o = a.fields.get(k); j = v if o is None else join(o, v)
            if j is not o:
                if nf is None: nf = dict(a.fields)
                nf[k] = j
        if nf is not None: fields = nf
    funcs = a.funcs
    if b.funcs:
        nf = None
        for k, v in b.funcs.items():
            if k in a.funcs:
                o = a.funcs[k]; j = o if v is None else (v if o is None else join(o, v))
                if j is o: continue
            else: j = v
            if nf is None: nf = dict(a.funcs)
            nf[k] = j
        if nf is not None: funcs = nf
    if refs is a.refs and classes is a.classes and ext is a.ext and fields is a.fields and funcs is a.funcs: return a
    r = AV(refs, fields, funcs, classes, ext)
    return limit(r, MAXD) if r.depth > MAXD else r

def joinall(xs):
    r = BOT
    for x in xs: r = join(r, x)
    return r

def wildp(p): return p if (p and p[-1] == WILD) else p + (WILD,)
def extp(p, f):
    if p and p[-1] == WILD: return p
    if len(p) >= MAXP: return p + (WILD,)
    return p + (f,)

def deep_parts(a, acc_refs, acc_funcs, acc_cls, top=True, seen=None):
    """collects every ref (wildified below the top), function and class anywhere in the tree"""
    if seen is None: seen = set()
    if id(a) in seen: return
    seen.add(id(a))
    for (r, p) in a.refs: acc_refs.add((r, p if top else wildp(p)))
    for k, v in a.funcs.items(): acc_funcs.setdefault(k, v)
    acc_cls.update(a.classes)
    for v in a.fields.values(): deep_parts(v, acc_refs, acc_funcs, acc_cls, False, seen)

def deep_wild(a):
    """everything reachable from `a` (including a itself) as one flat value"""
    if a is BOT: return BOT
    rs, fs, cs = set(), {}, set(); deep_parts(a, rs, fs, cs, False)
    return mk(frozenset((r, wildp(p)) for r, p in rs), None, fs, frozenset(cs), a.ext)

def limit(a, d):
    if a is BOT or a.depth <= d: return a
    if d <= 1:
        rs, fs, cs = set(), {}, set()
        for v in a.fields.values(): deep_parts(v, rs, fs, cs, False)
        inner = AV(frozenset((r, wildp(p)) for r, p in rs), None, fs, frozenset(cs))
        return AV(a.refs, {ANYF: inner} if inner else None, a.funcs, a.classes, a.ext)
    return AV(a.refs, {k: limit(v, d - 1) for k, v in a.fields.items()}, a.funcs, a.classes, a.ext)

def wrap(f, v):
    return mk(fields={f: v}) if v is not BOT else BOT
def fresh_container(v):
    """a new container whose elements are v (an empty AV still denotes a fresh object: BOT)"""
    return wrap(ELEM, v)
def inject(path, v):
    for f in reversed(path): v = wrap(ANYF if f == WILD else f, v)
    return v

def strip_refs(a, memo=None):
    if a is BOT or a is None: return BOT
    if memo is None: memo = {}
    if id(a) in memo: return memo[id(a)]
    memo[id(a)] = BOT
    r = mk(frozenset(), {k: strip_refs(v, memo) for k, v in a.fields.items()}, a.funcs, a.classes, a.ext)
    memo[id(a)] = r; return r

def all_refs(a):
    rs, fs, cs = set(), {}, set(); deep_parts(a, rs, fs, cs, True); return rs

def dotted(e):
    parts = []
    while isinstance(e, ast.Attribute): parts.append(e.attr); e = e.value
    if isinstance(e, ast.Name): parts.append(e.id); return '.'.join(reversed(parts))
    return None

def access_path(e):
    """(base Name id, [fields]) of an lvalue-like expression, or (None, None)"""
    path = []
    while True:
        if isinstance(e, ast.Attribute): path.append(e.attr); e = e.value
        elif isinstance(e, ast.Subscript): path.append(ELEM); e = e.value
        elif isinstance(e, ast.Name): return e.id, list(reversed(path))
        else: return None, None

# ------------------------------------------------------------------------------------------------ program model
class FnInfo:
    def __init__(self, rel, qual, node, cls, parent, kind):
        self.rel, self.qual, self.node, self.cls, self.parent, self.kind = rel, qual, node, cls, parent, kind   # kind: func|method|classmethod|staticmethod|property|module
        self.key = (rel, qual)
        a = node.args if kind != 'module' else None
        self.params = [x.arg for x in (a.posonlyargs + a.args)] if a else []
        self.kwonly = [x.arg for x in a.kwonlyargs] if a else []
        self.vararg = a.vararg.arg if a and a.vararg else None
        self.kwarg = a.kwarg.arg if a and a.kwarg else None
        self.ann = {x.arg: x.annotation for x in (a.posonlyargs + a.args + a.kwonlyargs)} if a else {}
        self.defaults = {}
        if a:
            pos = a.posonlyargs + a.args
            for p, d in zip(pos[len(pos) - len(a.defaults):], a.defaults): self.defaults[p.arg] = d
            for p, d in zip(a.kwonlyargs, a.kw_defaults):
                if d is not None: self.defaults[p.arg] = d
        self.all_params = self.params + self.kwonly + ([self.vararg] if self.vararg else []) + ([self.kwarg] if self.kwarg else [])
        self.locals = set(self.all_params); self.globals_decl = set(); self.is_gen = False
        self.body = node.body
        self.stmts = []          # own statements (nested defs excluded)
        # the one flow-sensitive rule: a top-level statement that rebinds a parameter name on EVERY path through it (a plain
        # `p = <expr>`, or an if/elif/else all of whose branches rebind p or leave the function) ends the parameter's scope:
        # statements after it (source order; the top level cannot jump backwards) see only the assigned values.  Nothing is
        # assumed about those values: a shallow copy still carries refs to the parameter's elements, `p = p` still is p, and
        # every use up to the END of the rebinding statement (its right-hand sides, earlier mutations) still sees p itself.
        self.rebind_line = {}
        if kind != 'module':
            for s in node.body:
                for p in self.all_params:
                    if p not in self.rebind_line and stmt_rebinds(s, p): self.rebind_line[p] = s.end_lineno
    @property
    def name(self): return f'{self.rel}:{self.qual}'

def stmt_rebinds(s, name):
    """statement s assigns `name` (as a plain Name target) on every path that falls through it"""
    if isinstance(s, ast.Assign): return any(isinstance(t, ast.Name) and t.id == name for t in s.targets)
    if isinstance(s, ast.AnnAssign): return s.value is not None and isinstance(s.target, ast.Name) and s.target.id == name
    if isinstance(s, ast.If): return bool(s.orelse) and block_rebinds(s.body, name) and block_rebinds(s.orelse, name)
    if isinstance(s, (ast.With, ast.AsyncWith)): return block_rebinds(s.body, name)
    return False
def block_rebinds(stmts, name):
    """every path through the block rebinds `name` or leaves the function (return / raise)"""
    for s in stmts:
        if stmt_rebinds(s, name): return True
        if isinstance(s, (ast.Return, ast.Raise)): return True
    return False

class ClsInfo:
    def __init__(self, rel, qual, node):
        self.rel, self.qual, self.node, self.key = rel, qual, node, (rel, qual)
        self.methods = {}; self.fields = []; self.bases = []; self.nested = {}
        self.is_dataclass = any('dataclass' in (ast.unparse(d)) for d in node.decorator_list)
        self.is_enum = any('Enum' in ast.unparse(b) for b in node.bases)
        for s in node.body:
            if isinstance(s, ast.AnnAssign) and isinstance(s.target, ast.Name): self.fields.append(s.target.id)

class ModInfo:
    def __init__(self, rel, src):
        self.rel, self.src = rel, src; self.tree = ast.parse(src); self.lines = src.splitlines()
        self.functions, self.classes, self.imports, self.vars = {}, {}, {}, set()

_parse_cache = {}
def _parse(rel, src):
    k = (rel, hash(src))
    if k not in _parse_cache: _parse_cache[k] = ModInfo(rel, src)
    return _parse_cache[k]

def list_modules(pkg):
    out = []
    for dp, dns, fs in os.walk(pkg):
        dns[:] = sorted(d for d in dns if d not in ('tests', 'examples', '__pycache__') and not d.endswith('_op_tests'))
        for f in sorted(fs):
            if f.endswith('.py') and not f.endswith('_test.py') and f != 'conftest.py':
                out.append(os.path.relpath(os.path.join(dp, f), pkg))
    return out

class Program:
    def __init__(self, pkg, overrides=None):
        self.pkg = pkg; self.mods = {}; self.fns = {}; self.classes = {}
        overrides = overrides or {}
        for rel in list_modules(pkg):
            if rel in overrides: src = overrides[rel]
            else:
                with open(os.path.join(pkg, rel)) as f: src = f.read()
            m = _parse(rel, src); self.mods[rel] = m
        for rel, src in sorted(overrides.items()):          # override-only entries are additional (synthetic) modules
            if rel not in self.mods: self.mods[rel] = _parse(rel, src)
        for rel, m in self.mods.items(): self._index(m)
        self.methods_by_name = collections.defaultdict(list)
        for c in self.classes.values():
            for mn, fk in c.methods.items(): self.methods_by_name[mn].append(fk)

    def modrel(self, dotted_mod):
        """'ai_edge_quantizer.utils.x' -> 'utils/x.py' if that is a module of the package"""
        if not dotted_mod.startswith('ai_edge_quantizer'): return None
        rest = dotted_mod[len('ai_edge_quantizer'):].lstrip('.')
        if not rest: return '__init__.py'
        for cand in (rest.replace('.', '/') + '.py', rest.replace('.', '/') + '/__init__.py'):
            if os.path.exists(os.path.join(self.pkg, cand)) or cand in self.mods: return cand
        return None

    def _index(self, m):
        m.functions, m.classes, m.imports, m.vars = {}, {}, {}, set()
        modfn = FnInfo(m.rel, '<module>', m.tree, None, None, 'module'); self.fns[modfn.key] = modfn; m.modfn = modfn
        def imports(stmts):
            for n in stmts:
                if isinstance(n, ast.Import):
                    for a in n.names:
                        if a.asname: m.imports[a.asname] = ('mod', a.name)
                        else: m.imports[a.name.split('.')[0]] = ('mod', a.name.split('.')[0])
                elif isinstance(n, ast.ImportFrom) and n.module:
                    for a in n.names: m.imports[a.asname or a.name] = ('from', n.module, a.name)
                elif isinstance(n, (ast.If, ast.Try)):
                    for blk in (getattr(n, 'body', []), getattr(n, 'orelse', []), getattr(n, 'finalbody', [])): imports(blk)
        imports(m.tree.body)
        def walk_fn(fi):
            """collect own statements, local names, nested defs"""
            def visit(stmts):
                for s in stmts:
                    if isinstance(s, (ast.FunctionDef, ast.AsyncFunctionDef)):
                        fi.locals.add(s.name)
                        if fi.kind == 'module': continue           # indexed separately
                        sub = FnInfo(m.rel, fi.qual + '.' + s.name, s, None, fi.key, 'func'); self.fns[sub.key] = sub; walk_fn(sub); continue
                    if isinstance(s, ast.ClassDef):
                        fi.locals.add(s.name); continue
                    fi.stmts.append(s)
                    for sub in ast.iter_child_nodes(s):
                        pass
                    for fld in ('body', 'orelse', 'finalbody'):
                        blk = getattr(s, fld, None)
                        if isinstance(blk, list) and blk and isinstance(blk[0], ast.stmt): visit(blk)
                    for h in getattr(s, 'handlers', []) or []:
                        if h.name: fi.locals.add(h.name)
                        visit(h.body)
                    for c in getattr(s, 'cases', []) or []: visit(c.body)
            visit(fi.body)
            for s in fi.stmts:
                for n in self._own_nodes(s):
                    if isinstance(n, ast.Name) and isinstance(n.ctx, (ast.Store, ast.Del)): fi.locals.add(n.id)
                    elif isinstance(n, (ast.Global, ast.Nonlocal)): fi.globals_decl.update(n.names)
                    elif isinstance(n, (ast.Yield, ast.YieldFrom)): fi.is_gen = True
                    elif isinstance(n, ast.Lambda):
                        for x in n.args.args: fi.locals.add(x.arg)
            fi.locals -= fi.globals_decl
        def index_class(node, prefix):
            qual = prefix + node.name; c = ClsInfo(m.rel, qual, node); self.classes[c.key] = c
            if not prefix: m.classes[node.name] = c.key
            for s in node.body:
                if isinstance(s, (ast.FunctionDef, ast.AsyncFunctionDef)):
                    decos = [ast.unparse(d) for d in s.decorator_list]
                    kind = 'classmethod' if 'classmethod' in decos else 'staticmethod' if 'staticmethod' in decos else 'property' if 'property' in decos else 'method'
                    fi = FnInfo(m.rel, qual + '.' + s.name, s, c.key, None, kind); self.fns[fi.key] = fi; c.methods[s.name] = fi.key; walk_fn(fi)
                elif isinstance(s, ast.ClassDef):
                    c.nested[s.name] = (m.rel, qual + '.' + s.name); index_class(s, qual + '.')
            return c
        for s in m.tree.body:
            if isinstance(s, (ast.FunctionDef, ast.AsyncFunctionDef)):
                fi = FnInfo(m.rel, s.name, s, None, None, 'func'); self.fns[fi.key] = fi; m.functions[s.name] = fi.key; walk_fn(fi)
            elif isinstance(s, ast.ClassDef): index_class(s, '')
        walk_fn(modfn)
        m.vars = set(modfn.locals) - set(m.functions) - set(m.classes)
        m.imports = {k: v for k, v in m.imports.items()}

    @staticmethod
    def _own_nodes(stmt):
        """all AST nodes of a statement except nested statements blocks / defs (those are visited as own statements)"""
        stack = [stmt]; first = True
        while stack:
            n = stack.pop()
            if not first and isinstance(n, (ast.FunctionDef, ast.AsyncFunctionDef, ast.ClassDef)): continue
            yield n
            for fld, val in ast.iter_fields(n):
                if first and fld in ('body', 'orelse', 'finalbody', 'handlers', 'cases') and isinstance(val, list) and val and isinstance(val[0], (ast.stmt, ast.ExceptHandler, getattr(ast, 'match_case', ast.stmt))): continue
                if isinstance(val, ast.AST): stack.append(val)
                elif isinstance(val, list): stack.extend(v for v in val if isinstance(v, ast.AST))
            first = False

    def class_bases(self, ckey):
        """repository base classes (resolved through the module's names)"""
        c = self.classes[ckey]; out = []
        m = self.mods[c.rel]
        for b in c.node.bases:
            d = dotted(b)
            if d is None: continue
            if d in m.classes: out.append(m.classes[d])
            elif '.' in d:
                head, nm = d.rsplit('.', 1); imp = m.imports.get(head)
                rel = self._imp_rel(imp)
                if rel and nm in self.mods[rel].classes: out.append(self.mods[rel].classes[nm])
        return out
    def _imp_rel(self, imp):
        if not imp: return None
        if imp[0] == 'mod': return self.modrel(imp[1])
        r = self.modrel(imp[1] + '.' + imp[2])
        return r
    def find_method(self, ckey, name, seen=None):
        seen = seen or set()
        if ckey in seen or ckey not in self.classes: return None
        seen.add(ckey); c = self.classes[ckey]
        if name in c.methods: return c.methods[name]
        for b in self.class_bases(ckey):
            r = self.find_method(b, name, seen)
            if r: return r
        return None
    def class_fields(self, ckey, seen=None):
        seen = seen or set()
        if ckey in seen or ckey not in self.classes: return []
        seen.add(ckey); out = []
        for b in self.class_bases(ckey): out += self.class_fields(b, seen)
        return out + [f for f in self.classes[ckey].fields if f not in out]

# ------------------------------------------------------------------------------------------------ the analysis
import builtins as _builtins
_BUILTIN_NAMES = set(dir(_builtins))

def strip_funcs(a):
    """bound-self values do not carry callables of their own (keeps the value finite)"""
    if a is BOT or not a.funcs: return a
    return mk(a.refs, a.fields, None, a.classes, a.ext)

class Event:
    __slots__ = ('root', 'path', 'leaf', 'via', 'unknown', 'site')
    def __init__(self, root, path, leaf, via, unknown, site): self.root, self.path, self.leaf, self.via, self.unknown, self.site = root, path, leaf, via, unknown, site
    def key(self): return (self.path, self.leaf['file'], self.leaf['line'], self.leaf['col'], self.leaf['kind'], self.unknown)
    def chain(self):
        steps = [f"{v}" for v in self.via]
        l = self.leaf
        steps.append(f"{'UNRESOLVED CALL' if self.unknown else 'STORE'} {l['file']}:{l['line']} in {l['fn']}: `{l['text']}`")
        return ' -> '.join(steps)
    def leaf_id(self): return (self.leaf['file'], self.leaf['fn'], self.leaf['text'])

def proot(fnkey, p): return ('p', fnkey[0], fnkey[1], p)
def root_str(r): return f'{r[1]}:{r[2]}({r[3]})' if r[0] == 'p' else f'{r[1]}:<global {r[2]}>'

class Analysis:
    """run() computes all summaries; then query with events_for / unknowns_for / reach / global_writes / set_sites ..."""
    def __init__(self, pkg, overrides=None, exclude_leaves=None, max_rounds=60):
        self.prog = Program(pkg, overrides); self.max_rounds = max_rounds
        self.exclude = set(tuple(x) for x in (exclude_leaves or ()))   # (file, function qualname, normalised statement text)
        self.excluded_hits = []
        self.events = collections.defaultdict(dict)        # root -> {key: Event}
        self.heap = {}                                      # root -> AV (what callees / the function stored below the root)
        self.classheap = {}                                 # class key -> AV whose fields are the self attributes
        self.ret = {}; self.env = collections.defaultdict(dict); self.param_in = {}
        self.calls = collections.defaultdict(set); self.callsites = collections.defaultdict(list)
        self.unresolved = {}; self.fallbacks = {}; self.reflection = {}; self.trusted_used = set(); self.dynamic = {}
        self.changed = False; self.phase = 'A'; self.rounds = 0
        self._defaults = {}; self.cur_stmt = None
    # ---- table updates (monotone; set self.changed)
    def _upd(self, table, key, v):
        o = table.get(key, BOT); j = join(o, v)
        if j is not o: table[key] = j; self.changed = True
    def setvar(self, fi, name, v):
        if v is BOT: return
        f = fi
        while f is not None:
            if name in f.locals or f.kind == 'module': self._upd(self.env[f.key], name, v); return
            f = self.prog.fns[f.parent] if f.parent else None
        if name in fi.globals_decl or True:                 # assignment to a module-level name from inside a function
            self._upd(self.env[(fi.rel, '<module>')], name, v)
    def leaf(self, fi, node, kind):
        st = self.cur_stmt if self.cur_stmt is not None else node
        try: text = ast.unparse(st)
        except Exception: text = '?'
        if isinstance(st, (ast.For, ast.While, ast.If, ast.With, ast.Try)): text = ast.unparse(node)
        text = ' '.join(text.split())[:200]
        return dict(file=fi.rel, line=getattr(node, 'lineno', getattr(st, 'lineno', 0)), col=getattr(node, 'col_offset', 0), fn=fi.qual, text=text, kind=kind)
    def add_event(self, root, path, leaf, via, unknown, site):
        if not unknown and (leaf['file'], leaf['fn'], leaf['text']) in self.exclude:
            self.excluded_hits.append(leaf); return
        ev = Event(root, path, leaf, via, unknown, site); k = ev.key() + ((site,) if root[0] == 'g' else ()); d = self.events[root]
        if k not in d:
            if len(via) > 40: return
            d[k] = ev; self.changed = True
    def mutate(self, fi, target, node, kind, unknown=False, deep=False, field=None):
        """the object(s) denoted by `target` are written to at `node`"""
        if target is BOT: return
        refs = all_refs(target) if deep else target.refs
        if not refs: return
        lf = self.leaf(fi, node, kind); lf['field'] = field
        for (r, p) in refs: self.add_event(r, p, lf, (), unknown, fi.key)
    def heap_store(self, r, path, v):
        if v is BOT: return
        if r[0] == 'p' and r[3] in ('self',):
            fk = (r[1], r[2]); f = self.prog.fns.get(fk)
            if f is not None and f.cls is not None and f.kind in ('method', 'property'):
                self._upd(self.classheap, f.cls, inject(path, v)); return
        self._upd(self.heap, r, inject(path, v))
    def store(self, fi, base_expr, B, field, v):
        """v is stored into field `field` of the object(s) B denoted by base_expr"""
        if v is BOT: return
        for (r, p) in B.refs: self.heap_store(r, extp(p, field), v)
        for c in B.classes: self._upd(self.classheap, c, inject((field,), v))
        n, q = access_path(base_expr) if base_expr is not None else (None, None)
        if n is not None and n != 'self': self.setvar(fi, n, inject(tuple(q) + (field,), v))
    # ---- names
    def param_av(self, fi, p):
        r = proot(fi.key, p); v = mk(refs={(r, ())})
        v = join(v, self.param_in.get((fi.key, p), BOT)); v = join(v, self.heap.get(r, BOT))
        if fi.cls is not None and fi.params and p == fi.params[0]:
            if fi.kind in ('method', 'property'): v = join(v, mk(classes=frozenset([fi.cls])))
            elif fi.kind == 'classmethod': v = join(v, mk(funcs={('cls',) + fi.cls: None}))
        ann = fi.ann.get(p)
        if ann is not None: v = join(v, self.ann_av(fi, ann))
        return v
    def ann_av(self, fi, ann):
        """classes / external tags named by an annotation (Optional[X], Union[...] and string annotations unwrapped)"""
        out = BOT
        if isinstance(ann, ast.Constant) and isinstance(ann.value, str):
            try: ann = ast.parse(ann.value, mode='eval').body
            except SyntaxError: return BOT
        if isinstance(ann, ast.Subscript):
            d = dotted(ann.value) or ''
            if d.split('.')[-1] in ('Optional', 'Union'):
                els = ann.slice.elts if isinstance(ann.slice, ast.Tuple) else [ann.slice]
                return joinall(self.ann_av(fi, e) for e in els)
            return BOT
        if isinstance(ann, ast.BinOp) and isinstance(ann.op, ast.BitOr): return join(self.ann_av(fi, ann.left), self.ann_av(fi, ann.right))
        if isinstance(ann, (ast.Name, ast.Attribute)):
            modfi = self.prog.mods[fi.rel].modfn
            kind, val = self.static_ref(modfi, ann)
            if kind == 'av':
                cl = frozenset((k[1], k[2]) for k in val.funcs if k[0] == 'cls')
                if cl: out = mk(classes=cl)
            elif kind == 'ext' and val.endswith('.Interpreter'): out = mk(ext=frozenset(['Interpreter']))
        return out
    def is_immutable_param(self, fi, name):
        ann = fi.ann.get(name) if name in fi.ann else None
        return isinstance(ann, ast.Name) and ann.id in IMMUTABLE_ANN
    def lookup(self, fi, name):
        f = fi
        while f is not None and f.kind != 'module':
            if name in f.locals:
                v = self.env[f.key].get(name, BOT)
                if name in f.all_params:
                    L = f.rebind_line.get(name)
                    if not (f is fi and L is not None and self.cur_stmt is not None and getattr(self.cur_stmt, 'lineno', 0) > L): v = join(self.param_av(f, name), v)
                if (f.rel, f.qual + '.' + name) in self.prog.fns: v = join(v, mk(funcs={('fn', f.rel, f.qual + '.' + name, 0): None}))
                return v
            f = self.prog.fns[f.parent] if f.parent else None
        return self.module_name(fi.rel, name, fi.kind == 'module')
    def module_name(self, rel, name, inside_module=False, depth=0):
        m = self.prog.mods.get(rel)
        if m is None or depth > 6: return BOT
        if name in m.vars:
            v = self.env[(rel, '<module>')].get(name, BOT)
            g = ('g', rel, name)
            return joinall([mk(refs={(g, ())}), v, self.heap.get(g, BOT)])
        if name in m.functions: return mk(funcs={('fn',) + m.functions[name] + (0,): None})
        if name in m.classes: return mk(funcs={('cls',) + m.classes[name]: None})
        imp = m.imports.get(name)
        if imp and imp[0] == 'from':
            rel2 = self.prog.modrel(imp[1])
            if rel2 is not None and self.prog.modrel(imp[1] + '.' + imp[2]) is None: return self.module_name(rel2, imp[2], False, depth + 1)
        return BOT
    def static_ref(self, fi, e):
        """what a Name / dotted expression denotes statically: ('repo', rel) module, ('ext', canonical name), ('av', value) or (None, None)"""
        if isinstance(e, ast.Name):
            f = fi
            while f is not None and f.kind != 'module':
                if e.id in f.locals: return None, None
                f = self.prog.fns[f.parent] if f.parent else None
            m = self.prog.mods[fi.rel]
            if e.id in m.vars or e.id in m.functions or e.id in m.classes: return 'av', self.module_name(fi.rel, e.id, fi.kind == 'module')
            imp = m.imports.get(e.id)
            if imp:
                if imp[0] == 'mod':
                    r = self.prog.modrel(imp[1]); return ('repo', r) if r else ('ext', imp[1])
                sub = self.prog.modrel(imp[1] + '.' + imp[2])
                if sub: return 'repo', sub
                rel2 = self.prog.modrel(imp[1])
                if rel2 is not None: return 'av', self.module_name(rel2, imp[2], False)
                return 'ext', imp[1] + '.' + imp[2]
            if e.id in _BUILTIN_NAMES: return 'ext', 'builtins.' + e.id
            return None, None
        if isinstance(e, ast.Attribute):
            k, v = self.static_ref(fi, e.value)
            if k == 'repo':
                sub = self.prog.modrel('ai_edge_quantizer.' + v[:-3].replace('/', '.') + '.' + e.attr) if not v.endswith('__init__.py') else None
                if sub and e.attr not in self.prog.mods[v].vars: return 'repo', sub
                return 'av', self.module_name(v, e.attr, False)
            if k == 'ext': return 'ext', v + '.' + e.attr
        return None, None
    # ---- navigation
    def attr(self, a, f, fi=None, node=None):
        """value of field f ('*' = element) of the object(s) a"""
        if a is BOT: return BOT
        res = BOT
        if a.refs: res = mk(refs=frozenset((r, extp(p, f)) for (r, p) in a.refs))
        if a.fields:
            x = a.fields.get(f)
            if x is not None: res = join(res, x)
            y = a.fields.get(ANYF)
            if y is not None: res = join(res, y)
        for c in a.classes:
            h = self.classheap.get(c)
            if h is not None and h.fields:
                x = h.fields.get(f)
                if x is not None: res = join(res, x)
            if f not in (ELEM, ANYF):
                mk_ = self.prog.find_method(c, f)
                if mk_ is not None:
                    mf = self.prog.fns[mk_]
                    if mf.kind == 'property' and fi is not None:
                        res = join(res, self.apply_fn(fi, node, mk_, a, [], 0))
                    else: res = join(res, mk(funcs={('fn',) + mk_ + (0,): strip_funcs(a)}))
        for k in a.funcs:
            if k[0] == 'cls' and f not in (ELEM, ANYF):
                ck = (k[1], k[2]); c = self.prog.classes.get(ck)
                if c is None: continue
                if f in c.nested: res = join(res, mk(funcs={('cls',) + c.nested[f]: None}))
                mk_ = self.prog.find_method(ck, f)
                if mk_ is not None: res = join(res, mk(funcs={('fn',) + mk_ + (0,): None}))
        return res
    def elem(self, a): return self.attr(a, ELEM)
    def nav(self, a, path):
        for f in path:
            if a is BOT: return BOT
            if f == WILD: return deep_wild(a)
            a = self.attr(a, f)
        return a
    def subst(self, a, fk, binding, memo=None):
        """replace refs rooted at parameters of function fk by the argument values"""
        if a is BOT: return BOT
        if memo is None: memo = {}
        if id(a) in memo: return memo[id(a)]
        memo[id(a)] = BOT
        keep = set(); extra = BOT
        for (r, p) in a.refs:
            if r[0] == 'p' and r[1] == fk[0] and r[2] == fk[1]:
                extra = join(extra, self.nav(binding.get(r[3], BOT), p))
            else: keep.add((r, p))
        fields = {k: self.subst(v, fk, binding, memo) for k, v in a.fields.items()} if a.fields else None
        res = join(mk(frozenset(keep), fields, a.funcs, a.classes, a.ext), extra)
        memo[id(a)] = res; return res
    def shallow(self, a):
        """shallow copy: new top-level object, same children"""
        if a is BOT: return BOT
        fields = dict(a.fields)
        if a.refs:
            fields[ELEM] = join(fields.get(ELEM, BOT), mk(refs=frozenset((r, extp(p, ELEM)) for r, p in a.refs)))
            fields[ANYF] = join(fields.get(ANYF, BOT), mk(refs=frozenset((r, extp(p, ANYF)) for r, p in a.refs)))
        for c in a.classes:
            h = self.classheap.get(c)
            if h is not None:
                for k, v in h.fields.items(): fields[k] = join(fields.get(k, BOT), v)
        return mk(frozenset(), fields, None, a.classes, frozenset())
    # ---- expressions
    def eval(self, fi, e):
        if e is None: return BOT
        t = type(e)
        if t is ast.Constant: return BOT
        if t is ast.Name:
            k, v = self.static_ref(fi, e)
            if k == 'ext' and not v.startswith('builtins.'): return mk(ext=frozenset(['@' + v]))
            return self.lookup(fi, e.id)
        if t is ast.Attribute:
            k, v = self.static_ref(fi, e)
            if k == 'av': return v
            if k == 'ext': return mk(ext=frozenset(['@' + v]))
            if k == 'repo': return BOT
            return self.attr(self.eval(fi, e.value), e.attr, fi, e)
        if t is ast.Subscript:
            self.eval(fi, e.slice); b = self.eval(fi, e.value)
            al = frozenset(x for x in b.ext if x.startswith('@'))
            r = self.elem(b)
            return join(r, mk(ext=al)) if al else r          # generic alias of an external class: collections.OrderedDict[K, V]
        if t is ast.Call: return self.call(fi, e)
        if t is ast.IfExp:
            self.eval(fi, e.test); return join(self.eval(fi, e.body), self.eval(fi, e.orelse))
        if t is ast.BoolOp: return joinall([self.eval(fi, v) for v in e.values])
        if t is ast.BinOp:
            l, r = self.eval(fi, e.left), self.eval(fi, e.right)
            if isinstance(e.op, (ast.Add, ast.Mult, ast.BitOr, ast.BitAnd, ast.Sub, ast.BitXor)):
                return fresh_container(join(self.elem(l), self.elem(r)))
            return BOT
        if t in (ast.List, ast.Tuple, ast.Set): return fresh_container(joinall([self.eval(fi, x) for x in e.elts]))
        if t is ast.Dict:
            for k in e.keys:
                if k is not None: self.eval(fi, k)
            vs = [self.eval(fi, v) if k is not None else self.elem(self.eval(fi, v)) for k, v in zip(e.keys, e.values)]
            return fresh_container(joinall(vs))
        if t in (ast.ListComp, ast.SetComp, ast.GeneratorExp, ast.DictComp):
            for g in e.generators:
                self.assign(fi, g.target, self.elem(self.eval(fi, g.iter)), e)
                for c in g.ifs: self.eval(fi, c)
            if t is ast.DictComp:
                self.eval(fi, e.key); return fresh_container(self.eval(fi, e.value))
            return fresh_container(self.eval(fi, e.elt))
        if t is ast.Starred: return self.eval(fi, e.value)
        if t is ast.NamedExpr:
            v = self.eval(fi, e.value); self.assign(fi, e.target, v, e); return v
        if t is ast.Lambda:
            self.eval(fi, e.body); return BOT
        if t is ast.JoinedStr:
            for v in e.values: self.eval(fi, v)
            return BOT
        if t is ast.FormattedValue: self.eval(fi, e.value); return BOT
        if t is ast.Compare:
            self.eval(fi, e.left)
            for c in e.comparators: self.eval(fi, c)
            return BOT
        if t is ast.UnaryOp: self.eval(fi, e.operand); return BOT
        if t in (ast.Yield, ast.YieldFrom):
            v = self.eval(fi, e.value) if e.value is not None else BOT
            self._upd(self.ret, fi.key, fresh_container(v) if t is ast.Yield else v); return BOT
        if t is ast.Await: return self.eval(fi, e.value)
        if t is ast.Slice:
            for x in (e.lower, e.upper, e.step): self.eval(fi, x)
            return BOT
        return BOT
    def assign(self, fi, target, v, node, aug=False):
        t = type(target)
        if t is ast.Name:
            if target.id in fi.globals_decl and fi.kind != 'module':
                g = ('g', fi.rel, target.id)
                self.add_event(g, (), self.leaf(fi, target, 'global-assign'), (), False, fi.key)
                self._upd(self.env[(fi.rel, '<module>')], target.id, v)
            else: self.setvar(fi, target.id, v)
        elif t in (ast.Tuple, ast.List):
            ev = self.elem(v)
            for el in target.elts: self.assign(fi, el.value if isinstance(el, ast.Starred) else el, ev if not isinstance(el, ast.Starred) else fresh_container(ev), node)
        elif t is ast.Subscript:
            self.eval(fi, target.slice); B = self.eval(fi, target.value)
            self.mutate(fi, B, target, 'aug-store' if aug else 'store', field=ELEM); self.store(fi, target.value, B, ELEM, v)
        elif t is ast.Attribute:
            k, mv = self.static_ref(fi, target.value)
            if k == 'repo' and fi.kind != 'module':
                g = ('g', mv, target.attr); self.add_event(g, (), self.leaf(fi, target, 'module-attr-store'), (), False, fi.key)
                self._upd(self.env[(mv, '<module>')], target.attr, v); return
            B = self.eval(fi, target.value)
            self.mutate(fi, B, target, 'aug-attr-store' if aug else 'attr-store', field=target.attr); self.store(fi, target.value, B, target.attr, v)
        elif t is ast.Starred: self.assign(fi, target.value, v, node)

    # ---- calls
    def call(self, fi, node):
        f = node.func
        args = []                                   # (kind, AV, expr)   kind: pos | star | kw:<name> | dstar
        for a in node.args:
            if isinstance(a, ast.Starred): args.append(('star', self.eval(fi, a.value), a.value))
            else: args.append(('pos', self.eval(fi, a), a))
        for k in node.keywords:
            args.append((('kw:' + k.arg) if k.arg else 'dstar', self.eval(fi, k.value), k.value))
        targets, extname, recv, mname, how = self.callee(fi, f)
        res = BOT
        if isinstance(f, ast.Name) and f.id in REFLECTION or (extname or '').split('.')[-1] in REFLECTION:
            self.reflection[(fi.rel, node.lineno, node.col_offset)] = dict(file=fi.rel, line=node.lineno, fn=fi.qual, text=' '.join(ast.unparse(node).split())[:160])
        if not targets and extname is None and recv is not None:
            al = sorted(x[1:] for x in recv.ext if x.startswith('@'))
            if al and not (mname is not None): extname = al[0]
        if targets and (isinstance(f, (ast.Subscript, ast.Call)) or (isinstance(f, ast.Name) and self.static_ref(fi, f)[0] is None)):
            d = self.dynamic.setdefault((fi.rel, node.lineno, node.col_offset), dict(file=fi.rel, line=node.lineno, fn=fi.qual, callee=' '.join(ast.unparse(f).split())[:80], targets=set()))
            d['targets'] |= {f'{k[0]}:{k[1]}' for _, k, _, _ in targets}
        if targets:
            for (kind, key, selfav, npre) in targets:
                if kind == 'fn': res = join(res, self.apply_fn(fi, node, key, selfav, args, npre))
                else: res = join(res, self.apply_cls(fi, node, key, args))
            if how and self.phase == 'B':
                self.fallbacks[(fi.rel, node.lineno, node.col_offset)] = dict(file=fi.rel, line=node.lineno, fn=fi.qual, text=' '.join(ast.unparse(f).split())[:100], how=how, n=len(targets))
            return res
        if extname is not None: return self.apply_ext(fi, node, extname, args)
        if mname is not None and mname in EXT_METHODS: return self.apply_ext_method(fi, node, mname, recv, args)
        if how == 'ext-callable':
            self.trusted_used.add('calling a TFLite SignatureRunner copies its keyword arguments into interpreter tensors (set_tensor) and does not write to them')
            return BOT
        return self.unresolved_call(fi, node, recv, args, how or 'no target')
    def callee(self, fi, f):
        """-> (targets, external name, receiver AV, method name, how)"""
        P = self.prog
        def from_av(v, selfav=None):
            out = []
            for k, bs in v.funcs.items():
                if k[0] == 'fn': out.append(('fn', (k[1], k[2]), bs if bs is not None else None, k[3]))
                elif k[0] == 'cls': out.append(('cls', (k[1], k[2]), None, 0))
            return out
        if isinstance(f, ast.Name):
            k, v = self.static_ref(fi, f)
            if k == 'ext': return [], v, None, None, None
            if k == 'repo': return [], None, None, None, 'module called'
            val = v if k == 'av' else self.lookup(fi, f.id)
            t = from_av(val)
            if t:
                if self.phase == 'B' and k is None:
                    # a variable named after a registry role whose resolved values contain NO function of that role: the
                    # registration of that role was not resolvable from source -> add every function matching the role
                    for key, pred in ROLE_PATTERNS:
                        if key in f.id and not any(pred(x[1][1]) for x in t if x[0] == 'fn'):
                            fb = self.role_fallback(f.id)
                            if fb: return t + fb, None, None, None, f'role-pattern supplement for `{f.id}` (no resolved target has that role)'
                return t, None, None, None, None
            if val.ext & EXT_CALLABLE_TAGS: return [], None, None, None, 'ext-callable'
            al = sorted(x[1:] for x in val.ext if x.startswith('@'))
            if al: return [], al[0], None, None, None
            if self.phase == 'B':
                fb = self.role_fallback(f.id)
                if fb: return fb, None, None, None, f'role-pattern fallback for `{f.id}`'
            return [], None, val, None, f'call of variable `{f.id}` with no known function value'
        if isinstance(f, ast.Attribute):
            k, v = self.static_ref(fi, f)
            if k == 'ext': return [], v, None, None, None
            if k == 'av':
                t = from_av(v)
                if t: return t, None, None, None, None
                al = sorted(x[1:] for x in v.ext if x.startswith('@'))
                if al: return [], al[0], None, None, None
            R = self.eval(fi, f.value); name = f.attr; t = []
            for ck in R.classes:
                mk_ = P.find_method(ck, name)
                if mk_ is not None: t.append(('fn', mk_, strip_funcs(R), 0))
                elif name in P.classes[ck].nested: t.append(('cls', P.classes[ck].nested[name], None, 0))
            for k2 in R.funcs:
                if k2[0] == 'cls':
                    ck = (k2[1], k2[2]); c = P.classes.get(ck)
                    if c is None: continue
                    if name in c.nested: t.append(('cls', c.nested[name], None, 0))
                    mk_ = P.find_method(ck, name)
                    if mk_ is not None: t.append(('fn', mk_, None, 0))
            fv = BOT
            if R.fields:
                fv = join(R.fields.get(name, BOT), R.fields.get(ANYF, BOT))
            for ck in R.classes:
                h = self.classheap.get(ck)
                if h is not None and h.fields.get(name) is not None: fv = join(fv, h.fields[name])
            t += from_av(fv)
            if t: return t, None, R, name, None
            if name in EXT_METHODS: return [], None, R, name, None
            if self.phase == 'B':
                cands = P.methods_by_name.get(name, [])
                if cands: return [('fn', mk_, strip_funcs(R), 0) for mk_ in cands], None, R, name, f'class-hierarchy fallback: every repository method named `{name}`'
                fb = self.role_fallback(name)
                if fb: return fb, None, R, name, f'role-pattern fallback for `{name}`'
            return [], None, R, name, f'method `{name}` on a receiver of unknown type'
        v = self.eval(fi, f); t = from_av(v)
        if t: return t, None, None, None, None
        if v.ext & EXT_CALLABLE_TAGS: return [], None, None, None, 'ext-callable'
        return [], None, v, None, 'call of a computed expression with no known function value'
    def role_fallback(self, name):
        for key, pred in ROLE_PATTERNS:
            if key in name:
                c = [('fn', k, None, 0) for k, f in sorted(self.prog.fns.items()) if f.kind in ('func',) and f.parent is None and pred(f.qual)]
                if c: return c
        return []
    def default_av(self, fn, p):
        k = (fn.key, p)
        d = fn.defaults.get(p)
        if d is None: return BOT
        return self.eval(self.prog.mods[fn.rel].modfn, d) if not isinstance(d, ast.Constant) else BOT
    def bind(self, fn, selfav, args, npre):
        """parameter name -> (AV, argument expression or None)"""
        b = {}; params = list(fn.params)
        def put(p, v, e=None):
            o = b.get(p)
            b[p] = (join(o[0], v), o[1] if o[1] is not None else e) if o else (v, e)
        if fn.kind in ('method', 'property') and params and selfav is not None: put(params.pop(0), selfav)
        elif fn.kind == 'classmethod' and params: put(params.pop(0), mk(funcs={('cls',) + fn.cls: None}))
        for _ in range(npre):
            if params: put(params.pop(0), BOT)
        for kind, v, e in args:
            if kind == 'pos':
                if params: put(params.pop(0), v, e)
                elif fn.vararg: put(fn.vararg, fresh_container(v))
            elif kind == 'star':
                ev = self.elem(v)
                for p in params: put(p, ev)
                if fn.vararg: put(fn.vararg, fresh_container(ev))
            elif kind == 'dstar':
                ev = self.elem(v)
                for p in params + fn.kwonly:
                    if p not in b or True: put(p, ev)
                if fn.kwarg: put(fn.kwarg, fresh_container(ev))
            else:
                name = kind[3:]
                if name in params: params.remove(name); put(name, v, e)
                elif name in fn.kwonly or name in fn.params: put(name, v, e)
                elif fn.kwarg: put(fn.kwarg, fresh_container(v))
        for p in fn.params + fn.kwonly:
            if p not in b: b[p] = (self.default_av(fn, p), None)
        return b
    def apply_fn(self, fi, node, key, selfav, args, npre):
        fn = self.prog.fns.get(key)
        if fn is None: return BOT
        if key not in self.calls[fi.key]: self.calls[fi.key].add(key); self.changed = True
        b = self.bind(fn, selfav, args, npre)
        line = getattr(node, 'lineno', 0)
        site = f'{fi.rel}:{line} {fi.qual} calls {fn.qual}'
        vals = {p: v for p, (v, e) in b.items()}
        for p, (v, e) in b.items():
            if v is BOT: continue
            self._upd(self.param_in, (key, p), strip_refs(v))
            r = proot(key, p)
            evs = self.events.get(r)
            if evs:
                for ev in list(evs.values()):
                    tgt = self.nav(v, ev.path)
                    if not tgt.refs: continue
                    via = (f'{site}({p})',) + ev.via
                    for (r2, p2) in tgt.refs:
                        if r2 == r and p2 == ev.path: continue
                        self.add_event(r2, p2, ev.leaf, via, ev.unknown, fi.key)
            is_self = fn.cls is not None and fn.kind in ('method', 'property') and fn.params and p == fn.params[0]
            h = self.heap.get(r)
            if h is not None and not is_self:
                hv = self.subst(h, key, vals)
                # what the callee stored below its parameter is now below the argument
                for (r2, p2) in v.refs:
                    for fld, sub in hv.fields.items(): self.heap_store(r2, extp(p2, fld), sub)
                n, q = access_path(e) if e is not None else (None, None)
                if n is not None and n != 'self':
                    for fld, sub in hv.fields.items(): self.setvar(fi, n, inject(tuple(q) + (fld,), sub))
        r = self.ret.get(key, BOT)
        return self.subst(r, key, vals) if r is not BOT else BOT
    def apply_cls(self, fi, node, ckey, args):
        c = self.prog.classes.get(ckey)
        if c is None: return BOT
        if c.is_enum: return BOT
        obj = mk(classes=frozenset([ckey]))
        init = self.prog.find_method(ckey, '__init__')
        if init is not None:
            self.apply_fn(fi, node, init, obj, args, 0); return obj
        names = self.prog.class_fields(ckey); fields = {}; idx = 0
        for kind, v, e in args:
            if kind == 'pos':
                if idx < len(names): fields[names[idx]] = join(fields.get(names[idx], BOT), v); idx += 1
            elif kind.startswith('kw:'): fields[kind[3:]] = join(fields.get(kind[3:], BOT), v)
            else:
                ev = self.elem(v)
                for n in names: fields[n] = join(fields.get(n, BOT), ev)
        obj = join(obj, mk(fields=fields))
        post = self.prog.find_method(ckey, '__post_init__')
        if post is not None: self.apply_fn(fi, node, post, obj, [], 0)
        return obj
    def apply_ext(self, fi, node, name, args):
        pos = [v for k, v, e in args if k == 'pos']; allv = [v for k, v, e in args]
        for k, v, e in args:
            if k == 'kw:out': self.mutate(fi, v, node, 'numpy out=')
        if name in EXT_INPLACE0:
            if pos: self.mutate(fi, pos[0], node, f'in-place {name}')
            return BOT
        kind = EXT_FUNCS.get(name)
        if kind is None and name.startswith(EXT_FRESH_PREFIXES): kind = 'fresh'
        if kind is None:
            return self.unresolved_call(fi, node, None, args, f'external callable `{name}` not in the explicit table')
        if kind == 'fresh':
            return mk(ext=frozenset(['Interpreter'])) if name.endswith('interpreter.Interpreter') else BOT
        if kind == 'shallow':
            r = BOT
            for k, v, e in args: r = join(r, self.shallow(v) if k in ('pos', 'star', 'dstar') else fresh_container(v))
            return r if r is not BOT else BOT
        if kind == 'alias0': return pos[0] if pos else BOT
        if kind == 'alias1': return pos[1] if len(pos) > 1 else BOT
        if kind == 'elem':
            if name == 'builtins.getattr': return deep_wild(pos[0]) if pos else BOT
            r = self.elem(pos[0]) if pos else BOT
            if len(pos) > 1: r = join(r, joinall(pos))
            for k, v, e in args:
                if k.startswith('kw:') and k != 'kw:key': r = join(r, v)
            return r
        if kind == 'enum': return fresh_container(fresh_container(self.elem(pos[0]))) if pos else BOT
        if kind == 'zip': return fresh_container(fresh_container(joinall([self.elem(v) for v in pos])))
        if kind == 'iter': return fresh_container(self.elem(pos[0])) if pos else BOT
        if kind == 'iter1': return fresh_container(self.elem(pos[1])) if len(pos) > 1 else BOT
        if kind == 'deepcopy': return strip_refs(pos[0]) if pos else BOT
        if kind == 'partial':
            if not pos: return BOT
            fs = {}
            for k, bs in pos[0].funcs.items():
                fs[(k[0], k[1], k[2], k[3] + len(pos) - 1) if k[0] == 'fn' else k] = bs
            return mk(funcs=fs)
        return BOT
    def apply_ext_method(self, fi, node, mname, R, args):
        mut, kind = EXT_METHODS[mname]
        pos = [v for k, v, e in args if k in ('pos', 'star')]; allv = [v for k, v, e in args]
        recv_expr = node.func.value
        if mut:
            self.mutate(fi, R, node, f'.{mname}()')
            if mname in ('append', 'add', 'insert', 'appendleft', 'setdefault', '__setitem__'):
                self.store(fi, recv_expr, R, ELEM, joinall(allv))
            elif mname in ('extend', 'update'):
                self.store(fi, recv_expr, R, ELEM, joinall([self.elem(v) for k, v, e in args if not k.startswith('kw:')] + [v for k, v, e in args if k.startswith('kw:')]))
        if kind == 'fresh': return BOT
        if kind == 'recv_elem': return join(self.elem(R), joinall(pos[1:]) if mname == 'setdefault' else BOT)
        if kind == 'items': return fresh_container(fresh_container(self.elem(R)))
        if kind == 'values': return fresh_container(self.elem(R))
        if kind == 'get': return join(self.elem(R), joinall(pos[1:]))
        if kind == 'shallow': return join(self.shallow(R), joinall([self.shallow(v) for v in pos]))
        if kind == 'alias': return R
        if kind.startswith('ext:'): return mk(ext=frozenset([kind[4:]]))
        return BOT
    def unresolved_call(self, fi, node, recv, args, why):
        if self.phase != 'B': return BOT
        k = (fi.rel, node.lineno, node.col_offset)
        tainted = set()
        for v in ([recv] if recv is not None else []) + [v for _, v, _ in args]:
            for (r, p) in all_refs(v): tainted.add((r, p))
        rec = self.unresolved.setdefault(k, dict(file=fi.rel, line=node.lineno, fn=fi.qual, text=' '.join(ast.unparse(node).split())[:140], why=why, receives=set()))
        rec['receives'] |= {root_str(r) for r, p in tainted}
        if tainted:
            save = self.cur_stmt; lf = self.leaf(fi, node, 'unresolved-call'); lf['text'] = rec['text']
            for (r, p) in tainted: self.add_event(r, p, lf, (), True, fi.key)
        return BOT
    # ---- statements
    def stmt(self, fi, s):
        self.cur_stmt = s; t = type(s)
        if t is ast.Assign:
            v = self.eval(fi, s.value)
            for tg in s.targets: self.assign(fi, tg, v, s)
            # plain copies between names are aliases in both directions (flow-insensitive stores through either name)
            if isinstance(s.value, ast.Name) and s.value.id != 'self':
                for tg in s.targets:
                    if isinstance(tg, ast.Name):
                        back = self.env[fi.key].get(tg.id, BOT) if tg.id in fi.locals else BOT
                        if back is not BOT and s.value.id in fi.locals: self.setvar(fi, s.value.id, mk(fields=back.fields) if back.fields else BOT)
        elif t is ast.AnnAssign:
            if s.value is not None:
                v = self.eval(fi, s.value); v = join(v, self.ann_av(fi, s.annotation)); self.assign(fi, s.target, v, s)
        elif t is ast.AugAssign:
            v = self.eval(fi, s.value)
            if isinstance(s.target, ast.Name):
                cur = self.lookup(fi, s.target.id)
                if not (s.target.id in fi.all_params and self.is_immutable_param(fi, s.target.id)):
                    self.mutate(fi, cur, s, 'aug-assign')
                add = fresh_container(self.elem(v))
                for (r, p) in cur.refs: self.heap_store(r, extp(p, ELEM), self.elem(v))
                self.assign(fi, s.target, add, s)
            else: self.assign(fi, s.target, v, s, aug=True)
        elif t in (ast.For, ast.AsyncFor): self.assign(fi, s.target, self.elem(self.eval(fi, s.iter)), s)
        elif t in (ast.While, ast.If): self.eval(fi, s.test)
        elif t in (ast.With, ast.AsyncWith):
            for it in s.items:
                v = self.eval(fi, it.context_expr)
                if it.optional_vars is not None: self.assign(fi, it.optional_vars, v, s)
        elif t is ast.Return:
            if s.value is not None: self._upd(self.ret, fi.key, self.eval(fi, s.value))
        elif t is ast.Expr: self.eval(fi, s.value)
        elif t is ast.Delete:
            for tg in s.targets:
                if isinstance(tg, (ast.Subscript, ast.Attribute)): self.mutate(fi, self.eval(fi, tg.value), tg, 'del')
        elif t is ast.Raise:
            self.eval(fi, s.exc); self.eval(fi, s.cause)
        elif t is ast.Assert: self.eval(fi, s.test)
        self.cur_stmt = None
    def analyse_fn(self, fi):
        for s in fi.stmts: self.stmt(fi, s)
    def run(self):
        fns = [f for k, f in sorted(self.prog.fns.items())]
        # module-level code first (registrations), then everything else, to a global fixpoint; phase B adds fallbacks/unknowns
        order = [f for f in fns if f.kind == 'module'] + [f for f in fns if f.kind != 'module']
        for phase in ('A', 'B'):
            self.phase = phase
            for _ in range(self.max_rounds):
                self.changed = False; self.rounds += 1
                for f in order: self.analyse_fn(f)
                if not self.changed: break
            else: raise RuntimeError('effects analysis did not reach a fixpoint')
        return self
    # ---- queries
    def reach(self, key):
        seen = {key}; st = [key]
        while st:
            k = st.pop()
            for c in self.calls.get(k, ()):
                if c not in seen: seen.add(c); st.append(c)
        return seen
    def events_for(self, key, param, unknown=False):
        return sorted((e for e in self.events.get(proot(key, param), {}).values() if e.unknown == unknown), key=lambda e: (e.leaf['file'], e.leaf['line'], len(e.via)))
    def leaf_stores(self, evs):
        out = {}
        for e in evs: out.setdefault((e.leaf['file'], e.leaf['line'], e.leaf['text']), e)
        return [out[k] for k in sorted(out)]
    def global_events(self, keys):
        """events on module-level roots generated in (sited at) one of the functions `keys` (import-time module code excluded)"""
        out = []
        for r, d in self.events.items():
            if r[0] != 'g': continue
            for e in d.values():
                if e.site in keys and self.prog.fns[e.site].kind != 'module': out.append(e)
        return sorted(out, key=lambda e: (e.leaf['file'], e.leaf['line'], e.site))
    def reflection_in(self, keys):
        out = [v for k, v in sorted(self.reflection.items()) if any(v['file'] == fk[0] and v['fn'] == fk[1] for fk in keys)]
        for fk in sorted(keys):                       # attribute-level reflection (not calls)
            fi = self.prog.fns[fk]
            for s in fi.stmts:
                for n in Program._own_nodes(s):
                    if isinstance(n, ast.Attribute) and n.attr in ('__dict__', '__setattr__', '__class__', '__globals__'):
                        if not (n.attr == '__class__' and fi.qual.endswith('__eq__')):
                            out.append(dict(file=fi.rel, line=n.lineno, fn=fi.qual, text=' '.join(ast.unparse(n).split())[:120]))
        return out
    def dynamic_in(self, keys):
        return [dict(v, targets=sorted(v['targets'])) for k, v in sorted(self.dynamic.items()) if (v['file'], v['fn']) in keys]
    def self_events(self, key, unknown=False):
        """events on the receiver (`self`) of a method, by first path component"""
        fi = self.prog.fns[key]
        if not fi.params: return {}
        out = collections.defaultdict(list)
        for e in self.events.get(proot(key, fi.params[0]), {}).values():
            if e.unknown == unknown: out[e.path[0] if e.path else (e.leaf.get('field') or '<self>')].append(e)
        return out
    def unresolved_in(self, keys):
        return [dict(v, receives=sorted(v['receives'])) for k, v in sorted(self.unresolved.items()) if (v['file'], v['fn']) in keys]
    def fallbacks_in(self, keys):
        return [v for k, v in sorted(self.fallbacks.items()) if (v['file'], v['fn']) in keys]

# ------------------------------------------------------------------------------------------------ syntactic checks on one function
def constructed_locally(prog, fnkey, class_name):
    """the method constructs `class_name` into a local variable (never cached on self, never taken from self).
    -> (ok, detail)"""
    fi = prog.fns[fnkey]; made = []; bad = []
    cls = prog.classes.get(fi.cls)
    for s in fi.stmts:
        for n in Program._own_nodes(s):
            if isinstance(n, ast.Call) and (dotted(n.func) or '').split('.')[-1] == class_name:
                if isinstance(s, ast.Assign) and s.value is n and all(isinstance(t, ast.Name) for t in s.targets): made.append((s.targets[0].id, s.lineno))
                else: bad.append(f'line {s.lineno}: constructed but not bound to a local name: {ast.unparse(s)[:80]}')
    names = {m for m, _ in made}
    for s in fi.stmts:
        if isinstance(s, (ast.Assign, ast.AnnAssign)):
            tg = s.targets if isinstance(s, ast.Assign) else [s.target]
            for t in tg:
                if isinstance(t, ast.Attribute) and s.value is not None and any(isinstance(n, ast.Name) and n.id in names for n in ast.walk(s.value)):
                    bad.append(f'line {s.lineno}: instance stored outside the call: {ast.unparse(s)[:80]}')
    if cls is not None:                       # no method of the class keeps an instance of class_name on self
        for mk_ in cls.methods.values():
            for s in prog.fns[mk_].stmts:
                if isinstance(s, (ast.Assign, ast.AnnAssign)) and s.value is not None:
                    tg = s.targets if isinstance(s, ast.Assign) else [s.target]
                    if any(isinstance(t, ast.Attribute) and isinstance(t.value, ast.Name) and t.value.id == 'self' for t in tg):
                        for n in ast.walk(s.value):
                            if isinstance(n, ast.Call) and (dotted(n.func) or '').split('.')[-1] == class_name:
                                bad.append(f'{prog.fns[mk_].qual} line {s.lineno}: instance cached on self: {ast.unparse(s)[:80]}')
    if not made: bad.append(f'no local construction of {class_name} found in {fi.qual}')
    return (not bad), ('; '.join(bad) if bad else f'{class_name} constructed at line(s) {[l for _, l in made]} into local(s) {sorted(names)}, not stored on self')

def deepcopy_handoff(prog, fnkey, callee_attr, argpos):
    """every call `<...>.callee_attr(...)` in the function passes at position argpos a local name ALL of whose definitions in
    the function are `copy.deepcopy(...)` calls.  -> (ok, detail)"""
    fi = prog.fns[fnkey]; defs = collections.defaultdict(list); calls = []
    for s in fi.stmts:
        if isinstance(s, ast.Assign):
            for t in s.targets:
                for n in ast.walk(t):
                    if isinstance(n, ast.Name): defs[n.id].append(s.value if isinstance(t, ast.Name) else None)
        elif isinstance(s, (ast.AugAssign, ast.AnnAssign)) and isinstance(s.target, ast.Name): defs[s.target.id].append(None if isinstance(s, ast.AugAssign) else s.value)
        elif isinstance(s, (ast.For, ast.With)):
            for n in ast.walk(s.target if isinstance(s, ast.For) else ast.Tuple(elts=[i.optional_vars for i in s.items if i.optional_vars is not None])):
                if isinstance(n, ast.Name): defs[n.id].append(None)
        for n in Program._own_nodes(s):
            if isinstance(n, ast.Call) and isinstance(n.func, ast.Attribute) and n.func.attr == callee_attr: calls.append(n)
    if not calls: return False, f'no call to .{callee_attr}() found in {fi.qual}'
    msgs = []
    for c in calls:
        if len(c.args) <= argpos: msgs.append(f'line {c.lineno}: argument {argpos} not passed positionally'); continue
        a = c.args[argpos]
        if not isinstance(a, ast.Name): msgs.append(f'line {c.lineno}: argument is not a local name: {ast.unparse(a)[:60]}'); continue
        if a.id in fi.all_params: msgs.append(f'line {c.lineno}: `{a.id}` is a parameter, not a fresh copy'); continue
        ds = defs.get(a.id, [])
        if not ds: msgs.append(f'line {c.lineno}: `{a.id}` has no definition in the function'); continue
        for d in ds:
            if not (isinstance(d, ast.Call) and dotted(d.func) in ('copy.deepcopy', 'deepcopy')):
                msgs.append(f'line {c.lineno}: `{a.id}` is defined by `{ast.unparse(d)[:70] if d is not None else "a non-copy binding"}`, not by copy.deepcopy')
    return (not msgs), ('; '.join(msgs) if msgs else f'object handed to .{callee_attr}() is a local bound only to copy.deepcopy(...) results')

# ------------------------------------------------------------------------------------------------ set iteration sites
# tiny type domain: 'int' | 'str' | ('set', E) | ('list', T) | ('dict', V) | None (no information) | '?' (unknown / mixed)
def tjoin(a, b):
    if a is None: return b
    if b is None: return a
    if a == b: return a
    if isinstance(a, tuple) and isinstance(b, tuple) and a[0] == b[0]: return (a[0], tjoin(a[1], b[1]))
    return '?'
def telem(t):
    if isinstance(t, tuple) and t[0] in ('set', 'list'): return t[1]
    return None if t is None else '?'          # None = bottom (no definition seen yet / cycle), '?' = unknown
def tstr(t):
    if isinstance(t, tuple): return f'{t[0]}[{tstr(t[1])}]'
    return 'unknown' if t in (None, '?') else t

class SetSites:
    ORDER_FREE = {'sorted', 'min', 'max', 'sum', 'len', 'any', 'all', 'set', 'frozenset', 'bool', 'isinstance'}
    def __init__(self, prog): self.prog = prog; self._busy = set()
    def parse_ann(self, a):
        if a is None: return None
        if isinstance(a, ast.Constant) and isinstance(a.value, str):
            try: a = ast.parse(a.value, mode='eval').body
            except SyntaxError: return None
        if isinstance(a, ast.Name): return {'int': 'int', 'str': 'str', 'set': ('set', None), 'frozenset': ('set', None), 'list': ('list', None)}.get(a.id)
        if isinstance(a, ast.Subscript):
            h = (dotted(a.value) or '').split('.')[-1]; sl = a.slice
            els = sl.elts if isinstance(sl, ast.Tuple) else [sl]
            if h in ('set', 'Set', 'frozenset', 'FrozenSet', 'AbstractSet', 'MutableSet'): return ('set', self.parse_ann(els[0]) or '?')
            if h == 'Union': return '?'
            if h in ('list', 'List', 'Sequence', 'Iterable', 'Iterator', 'tuple', 'Tuple', 'Collection'): return ('list', self.parse_ann(els[0]))
            if h in ('dict', 'Dict', 'Mapping', 'MutableMapping', 'OrderedDict'): return ('dict', self.parse_ann(els[-1]))
            if h == 'Optional': return self.parse_ann(els[0])
        return None
    def var_type(self, fi, name):
        k = (fi.key, name)
        if k in self._busy: return None
        self._busy.add(k); t = None
        try:
            if name in fi.ann: t = tjoin(t, self.parse_ann(fi.ann[name]))
            for s in fi.stmts:
                if isinstance(s, ast.Assign):
                    for tg in s.targets:
                        if isinstance(tg, ast.Name) and tg.id == name: t = tjoin(t, self.infer(fi, s.value))
                elif isinstance(s, ast.AnnAssign) and isinstance(s.target, ast.Name) and s.target.id == name:
                    t = tjoin(t, self.parse_ann(s.annotation))
                elif isinstance(s, ast.AugAssign) and isinstance(s.target, ast.Name) and s.target.id == name: t = tjoin(t, self.infer(fi, s.value)) if isinstance(self.infer(fi, s.value), tuple) else t
                elif isinstance(s, ast.For): t = tjoin(t, self.target_type(fi, s.target, s.iter, name))
                for n in Program._own_nodes(s):
                    if isinstance(n, (ast.ListComp, ast.SetComp, ast.GeneratorExp, ast.DictComp)):
                        for g in n.generators: t = tjoin(t, self.target_type(fi, g.target, g.iter, name))
                    if isinstance(n, ast.Call) and isinstance(n.func, ast.Attribute) and isinstance(n.func.value, ast.Name) and n.func.value.id == name and n.args:
                        if n.func.attr == 'add': t = tjoin(t, ('set', self.infer(fi, n.args[0])))
                        elif n.func.attr == 'append': t = tjoin(t, ('list', self.infer(fi, n.args[0])))
                        elif n.func.attr == 'update' and isinstance(t, tuple) and t[0] == 'set': t = tjoin(t, ('set', telem(self.infer(fi, n.args[0]))))
            if t is None and name not in fi.locals:
                m = self.prog.mods[fi.rel]
                if name in m.vars and fi.kind != 'module': t = self.var_type(m.modfn, name)
            if t is None and fi.parent: t = self.var_type(self.prog.fns[fi.parent], name)
            if t is None: t = '?'                      # no definition gives any information (a cycle returns None = bottom instead)
        finally: self._busy.discard(k)
        return t
    def target_type(self, fi, target, it, name):
        """type the for-target gives to `name`"""
        et = None
        if isinstance(it, ast.Call) and isinstance(it.func, ast.Name) and it.func.id == 'enumerate' and it.args:
            if isinstance(target, ast.Tuple) and len(target.elts) == 2:
                if isinstance(target.elts[0], ast.Name) and target.elts[0].id == name: return 'int'
                if isinstance(target.elts[1], ast.Name) and target.elts[1].id == name: return telem(self.infer(fi, it.args[0]))
            return None
        if isinstance(target, ast.Name) and target.id == name: return telem(self.infer(fi, it))
        return None
    def infer(self, fi, e):
        if isinstance(e, ast.Constant): return 'int' if isinstance(e.value, int) and not isinstance(e.value, bool) else 'str' if isinstance(e.value, str) else None if e.value is None else '?'
        if isinstance(e, ast.Name): return self.var_type(fi, e.id)
        if isinstance(e, ast.Set):
            t = None
            for x in e.elts: t = tjoin(t, self.infer(fi, x))
            return ('set', t)
        if isinstance(e, ast.SetComp): return ('set', self.infer(fi, e.elt))
        if isinstance(e, (ast.List, ast.Tuple)):
            t = None
            for x in e.elts: t = tjoin(t, self.infer(fi, x))
            return ('list', t)
        if isinstance(e, ast.ListComp): return ('list', self.infer(fi, e.elt))
        if isinstance(e, ast.Call):
            d = dotted(e.func) or ''
            if d in ('set', 'frozenset'): return ('set', telem(self.infer(fi, e.args[0])) if e.args else None)
            if d in ('list', 'sorted', 'tuple'): return ('list', telem(self.infer(fi, e.args[0])) if e.args else None)
            if d == 'range': return ('list', 'int')
            if d in ('len', 'int'): return 'int'
            if d in ('str',): return 'str'
            if d in ('frozenset.union', 'set.union'):
                t = None
                for x in e.args: t = tjoin(t, self.infer(fi, x))
                return t if isinstance(t, tuple) else ('set', '?')
            if isinstance(e.func, ast.Attribute) and e.func.attr in ('union', 'intersection', 'difference', 'symmetric_difference', 'copy'):
                bt = self.infer(fi, e.func.value)
                if isinstance(bt, tuple) and bt[0] == 'set':
                    for x in e.args: bt = tjoin(bt, ('set', telem(self.infer(fi, x))))
                    return bt
            r = self.ret_ann(fi, e.func)
            if r is not None: return r
            return '?'
        if isinstance(e, ast.BinOp):
            # dict views support the set operators and then yield a SET (hash order): `a.keys() & b.keys()`, `d.keys() - seen`, `d.items() ^ e.items()`
            if isinstance(e.op, (ast.BitAnd, ast.BitOr, ast.Sub, ast.BitXor)):
                view = lambda x: isinstance(x, ast.Call) and isinstance(x.func, ast.Attribute) and x.func.attr in ('keys', 'items') and not x.args
                if view(e.left) or view(e.right): return ('set', '?')
            l, r = self.infer(fi, e.left), self.infer(fi, e.right)
            if (isinstance(l, tuple) and l[0] == 'set') or (isinstance(r, tuple) and r[0] == 'set'):
                return tjoin(l if isinstance(l, tuple) else ('set', None if l is None else '?'), r if isinstance(r, tuple) else ('set', None if r is None else '?'))
            if l == 'int' and r == 'int': return 'int'
            if isinstance(l, tuple) and l[0] == 'list': return tjoin(l, r)
            return '?'
        if isinstance(e, ast.Subscript):
            bt = self.infer(fi, e.value)
            if isinstance(e.slice, ast.Slice): return bt
            if isinstance(bt, tuple) and bt[0] in ('list', 'dict'): return bt[1] if bt[1] is not None else '?'
            return '?'
        if isinstance(e, ast.Attribute):
            if isinstance(e.value, ast.Name) and e.value.id == 'self' and fi.cls is not None:
                t = None
                for mk_ in self.prog.classes[fi.cls].methods.values():
                    f2 = self.prog.fns[mk_]
                    for s in f2.stmts:
                        if isinstance(s, ast.Assign):
                            for tg in s.targets:
                                if isinstance(tg, ast.Attribute) and isinstance(tg.value, ast.Name) and tg.value.id == 'self' and tg.attr == e.attr: t = tjoin(t, self.infer(f2, s.value))
                        elif isinstance(s, ast.AnnAssign) and isinstance(s.target, ast.Attribute) and s.target.attr == e.attr and isinstance(s.target.value, ast.Name) and s.target.value.id == 'self':
                            t = tjoin(t, self.parse_ann(s.annotation))
                return t if t is not None else '?'
            return '?'
        if isinstance(e, ast.IfExp): return tjoin(self.infer(fi, e.body), self.infer(fi, e.orelse))
        if isinstance(e, ast.BoolOp):
            t = None
            for v in e.values: t = tjoin(t, self.infer(fi, v))
            return t
        return '?'
    def ret_ann(self, fi, f):
        """declared return type of a repository function called by simple name / self.method / module.func"""
        m = self.prog.mods[fi.rel]; key = None
        if isinstance(f, ast.Name) and f.id in m.functions: key = m.functions[f.id]
        elif isinstance(f, ast.Attribute) and isinstance(f.value, ast.Name):
            if f.value.id == 'self' and fi.cls is not None: key = self.prog.find_method(fi.cls, f.attr)
            else:
                imp = m.imports.get(f.value.id)
                if imp and imp[0] == 'from':
                    rel = self.prog.modrel(imp[1] + '.' + imp[2])
                    if rel and f.attr in self.prog.mods[rel].functions: key = self.prog.mods[rel].functions[f.attr]
        if key is None: return None
        return self.parse_ann(self.prog.fns[key].node.returns)
    def is_set(self, fi, e):
        t = self.infer(fi, e)
        return t if isinstance(t, tuple) and t[0] == 'set' else None
    # ---- order-insensitive loop bodies (stated criterion): every statement of the body is one of
    #   S.add(x) / S.update(x) / S.discard(x) on a set-typed S;   `continue` / `pass` / `raise`;
    #   `if <test without calls other than len/isinstance/membership>:` whose branches again satisfy the criterion;
    #   `return <constant>` (search loops: the result does not depend on which witness is found first)
    def body_order_free(self, fi, body):
        for s in body:
            if isinstance(s, (ast.Continue, ast.Pass, ast.Raise)): continue
            if isinstance(s, ast.Return) and (s.value is None or isinstance(s.value, ast.Constant)): continue
            if isinstance(s, ast.Expr) and isinstance(s.value, ast.Call) and isinstance(s.value.func, ast.Attribute) and s.value.func.attr in ('add', 'update', 'discard') \
               and self.is_set(fi, s.value.func.value) is not None: continue
            if isinstance(s, ast.If):
                if any(isinstance(n, ast.Call) and (dotted(n.func) not in ('len', 'isinstance')) for n in ast.walk(s.test)): return False
                if self.body_order_free(fi, s.body) and self.body_order_free(fi, s.orelse): continue
            return False
        return True
    def sites(self, keys):
        out = []
        for fk in sorted(keys):
            fi = self.prog.fns[fk]
            def rec(node, kind, setexpr, t, free=False, why=''):
                out.append(dict(file=fi.rel, line=node.lineno, col=node.col_offset, fn=fi.qual, kind=kind, expr=' '.join(ast.unparse(setexpr).split())[:80],
                                text=' '.join(ast.unparse(node).split())[:100] if not isinstance(node, (ast.For,)) else f'for {ast.unparse(node.target)} in {ast.unparse(node.iter)}'[:100],
                                elem=tstr(t[1]), body_order_free=free))
            def unwrap(it):
                """set expression iterated by `it` (through enumerate / zip / iter / reversed / list / tuple)"""
                if isinstance(it, ast.Call) and isinstance(it.func, ast.Name) and it.func.id in ('enumerate', 'zip', 'iter', 'list', 'tuple', 'map', 'filter'):
                    for a in it.args:
                        r = unwrap(a)
                        if r is not None: return r
                    return None
                return it if self.is_set(fi, it) is not None else None
            handled = set()
            for s in fi.stmts:
                if isinstance(s, ast.For):
                    se = unwrap(s.iter)
                    if se is not None:
                        rec(s, 'for', se, self.is_set(fi, se), self.body_order_free(fi, s.body)); 
                        for n in ast.walk(s.iter): handled.add(id(n))
                for n in Program._own_nodes(s):
                    if id(n) in handled: continue
                    if isinstance(n, (ast.ListComp, ast.SetComp, ast.GeneratorExp, ast.DictComp)):
                        for g in n.generators:
                            se = unwrap(g.iter)
                            if se is not None:
                                rec(n, 'comprehension', se, self.is_set(fi, se), isinstance(n, ast.SetComp))
                                for x in ast.walk(g.iter): handled.add(id(x))
                    elif isinstance(n, ast.Call):
                        d = dotted(n.func) or ''
                        if d in ('list', 'tuple', 'enumerate', 'zip', 'iter', 'map', 'filter', 'next'):
                            for a in n.args:
                                se = unwrap(a)
                                if se is not None:
                                    rec(n, f'{d}()', se, self.is_set(fi, se))
                                    for x in ast.walk(n): handled.add(id(x))
                                    break
                        elif isinstance(n.func, ast.Attribute) and n.func.attr == 'pop' and not n.args and self.is_set(fi, n.func.value) is not None:
                            rec(n, '.pop()', n.func.value, self.is_set(fi, n.func.value))
                        elif isinstance(n.func, ast.Attribute) and n.func.attr == 'join' and n.args and self.is_set(fi, n.args[0]) is not None:
                            rec(n, 'str.join', n.args[0], self.is_set(fi, n.args[0]))
                    elif isinstance(n, ast.Starred) and self.is_set(fi, n.value) is not None:
                        rec(n, '*unpack', n.value, self.is_set(fi, n.value))
        return out
