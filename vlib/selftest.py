"""Engine self-test (soundness regression suite of vlib/pyvc.py), run by every check that relies on pyvc.

Micro-programs with contracts whose truth is known: the TRUE clauses must be proved, the FALSE clauses must NOT be proved (refuted or
undecided) -- and for every false clause a concrete native input on which CPython violates it is executed first, so an expectation
cannot itself be wrong.  The suite pins down the rules an unsound engine gets wrong silently: loop hypotheses must talk about the
loop-head state (a non-inductive invariant that happens to hold for the state AFTER the body must fail -- the defect repaired in
`Engine._assume_inv`), aliasing of parameters, Python's floor division, negative indices, `break` exits, frames, dict membership,
while loops, objects allocated inside loops, forbidden raises.  A failing self-test makes the calling check exit 3 (checker broken):
nothing it would report could be believed."""
import time, z3
from vlib import core, pyvc
from vlib.pyvc import *

def items_i(h, r): return h.load(r, '$items:int')
def items_r(h, r): return h.load(r, '$items:ref')
def ln(h, r): return h.load(r, '$len')

class _ListSpec(Spec):
    """one list[int] parameter `xs` (+ int parameters named in `ints`), entry heap snapshot in self.h0"""
    fields = {}; ints = ()
    def bind(self, E, p):
        h = p.heap
        for nme in ('$len', '$items:int', '$items:ref'): h.arr(nme)
        self.h0 = h.copy(); self.xs = z3.Const('xs', Ref); p.env['xs'] = V('list[int]', self.xs)
        self.n0 = ln(self.h0, self.xs); self.it0 = items_i(self.h0, self.xs)
        p.pc += [self.xs != NULL, self.h0.alloc[self.xs], self.n0 >= 0]
        for nme in self.ints:
            setattr(self, nme, z3.Int(nme)); p.env[nme] = vint(getattr(self, nme))
        self.pre(E, p)
    def pre(self, E, p): pass
    def may_write(self, E, p, ref, field): return ref == self.xs if field in ('$items:int', '$len') else z3.BoolVal(False)
    def bounds(self, E): return [self.n0]

# ---------------------------------------------------------------------------------------------------------------- cases
SRC_ZERO = '''
def zero_fill(xs, n):
    for i in range(n):
        xs[i] = 0
    return xs
'''
class ZeroFill(_ListSpec):
    ints = ('n',)
    def pre(self, E, p): p.pc += [0 <= self.n, self.n <= self.n0]
    def inv(self, E, ctx, p, pre, i):
        h = p.heap
        return [('range', And(0 <= i, i <= self.n)), ('len', ln(h, self.xs) == self.n0), ('prefix', ctx.forall(1, lambda j: Implies(And(0 <= j, j < i), items_i(h, self.xs)[j] == 0)))]
    invariants = property(lambda self: {0: self.inv})
    def ensures(self, E, ctx, p, ret):
        h = p.heap
        return [('T:all-zero', ctx.forall(1, lambda j: Implies(And(0 <= j, j < self.n), items_i(h, self.xs)[j] == 0))),
                ('T:rest-kept', ctx.forall(1, lambda j: Implies(And(self.n <= j, j < self.n0), items_i(h, self.xs)[j] == self.it0[j]))) if False else ('T:len-kept', ln(h, self.xs) == self.n0)]

SRC_CLOBBER = '''
def clobber(xs, n):
    for i in range(n):
        xs[i] = i
        if i > 0:
            xs[0] = 7
    return xs
'''
class Clobber(ZeroFill):
    """the invariant `xs[j] == j for j < i` is NOT inductive (xs[0] is overwritten in later iterations); evaluated on the state after the
    body -- the repaired engine defect -- the hypothesis contradicts the store xs[0] = 7 and everything is 'proved'"""
    def inv(self, E, ctx, p, pre, i):
        h = p.heap
        return [('range', And(0 <= i, i <= self.n)), ('len', ln(h, self.xs) == self.n0), ('F:prefix', ctx.forall(1, lambda j: Implies(And(0 <= j, j < i), items_i(h, self.xs)[j] == j)))]
    def ensures(self, E, ctx, p, ret): return [('T:len-kept', ln(p.heap, self.xs) == self.n0)]
def _native_clobber():
    xs = [5, 5]; ns = {}; exec(SRC_CLOBBER, ns); ns['clobber'](xs, 2); return xs[0] != 0

SRC_CLOBBER_W = '''
def clobber_w(xs, n):
    i = 0
    while i < n:
        xs[i] = i
        if i > 0:
            xs[0] = 7
        i += 1
    return xs
'''
class ClobberW(_ListSpec):
    ints = ('n',)
    def pre(self, E, p): p.pc += [0 <= self.n, self.n <= self.n0]
    def winv(self, E, ctx, p, pre):
        h = p.heap; i = p.env['i'].term
        return [('range', And(0 <= i, i <= self.n)), ('len', ln(h, self.xs) == self.n0), ('F:prefix', ctx.forall(1, lambda j: Implies(And(0 <= j, j < i), items_i(h, self.xs)[j] == j)))]
    while_invariants = property(lambda self: {0: self.winv})
    def ensures(self, E, ctx, p, ret): return [('T:len-kept', ln(p.heap, self.xs) == self.n0)]
def _native_clobber_w():
    xs = [5, 5]; ns = {}; exec(SRC_CLOBBER_W, ns); ns['clobber_w'](xs, 2); return xs[0] != 0

SRC_ALIAS = '''
def alias(xs, ys):
    xs[0] = 1
    ys[0] = 2
    return xs[0]
'''
class Alias(_ListSpec):
    def pre(self, E, p):
        self.ys = z3.Const('ys', Ref); p.env['ys'] = V('list[int]', self.ys)
        p.pc += [self.ys != NULL, self.h0.alloc[self.ys], self.n0 >= 1, ln(self.h0, self.ys) >= 1]
    def may_write(self, E, p, ref, field): return Or(ref == self.xs, ref == self.ys)
    def bounds(self, E): return [self.n0, ln(self.h0, self.ys)]
    def ensures(self, E, ctx, p, ret):
        return [('F:returns-1', ret.term == 1), ('T:returns-1-unless-aliased', Implies(self.xs != self.ys, ret.term == 1)), ('T:returns-2-when-aliased', Implies(self.xs == self.ys, ret.term == 2))]
def _native_alias():
    ns = {}; exec(SRC_ALIAS, ns); a = [0]; return ns['alias'](a, a) != 1

SRC_FDIV = '''
def fdiv(x):
    return x // 2
'''
class FDiv(Spec):
    def bind(self, E, p): self.x = z3.Int('x'); p.env['x'] = vint(self.x)
    def ensures(self, E, ctx, p, ret):
        r = ret.term; x = self.x
        return [('T:floor', And(2 * r <= x, x < 2 * r + 2)), ('F:truncates-toward-zero', r == If(x >= 0, x / 2, -((-x) / 2)))]
def _native_fdiv():
    ns = {}; exec(SRC_FDIV, ns); return ns['fdiv'](-3) != -(3 // 2)

SRC_MOD = '''
def pmod(x):
    return x % 3
'''
class PMod(Spec):
    def bind(self, E, p): self.x = z3.Int('x'); p.env['x'] = vint(self.x)
    def ensures(self, E, ctx, p, ret):
        r = ret.term; x = self.x
        return [('T:range', And(0 <= r, r < 3)), ('F:sign-follows-dividend', Implies(x < 0, r <= 0))]
def _native_mod():
    ns = {}; exec(SRC_MOD, ns); return ns['pmod'](-1) > 0

SRC_LAST = '''
def last(xs):
    return xs[-1]
'''
class Last(_ListSpec):
    def pre(self, E, p): p.pc.append(self.n0 >= 1)
    def ensures(self, E, ctx, p, ret): return [('T:last', ret.term == self.it0[self.n0 - 1]), ('F:first', ret.term == self.it0[0])]
def _native_last():
    ns = {}; exec(SRC_LAST, ns); return ns['last']([1, 2]) != 1

class LastEmpty(_ListSpec):
    """no precondition on the length: the implicit IndexError must be reported"""
    def ensures(self, E, ctx, p, ret): return [('T:last', ret.term == self.it0[self.n0 - 1])]
def _native_last_empty():
    ns = {}; exec(SRC_LAST, ns)
    try: ns['last']([]); return False
    except IndexError: return True

SRC_FIND = '''
def find(xs, v):
    r = -1
    for i in range(len(xs)):
        if xs[i] == v:
            r = i
            break
    return r
'''
class Find(_ListSpec):
    ints = ('v',)
    def inv(self, E, ctx, p, pre, i):
        h = p.heap
        return [('range', And(0 <= i, i <= self.n0)), ('kept', And(ln(h, self.xs) == self.n0, items_i(h, self.xs) == self.it0)), ('r', p.env['r'].term == -1),
                ('none-before', ctx.forall(1, lambda j: Implies(And(0 <= j, j < i), self.it0[j] != self.v)))]
    invariants = property(lambda self: {0: self.inv})
    def ensures(self, E, ctx, p, ret):
        r = ret.term
        return [('T:found', Implies(r >= 0, And(r < self.n0, self.it0[r] == self.v))), ('T:first', ctx.forall(1, lambda j: Implies(And(0 <= j, j < r), self.it0[j] != self.v))),
                ('T:absent', Implies(r == -1, ctx.forall(1, lambda j: Implies(And(0 <= j, j < self.n0), self.it0[j] != self.v)))),
                ('F:last', ctx.forall(1, lambda j: Implies(And(r < j, j < self.n0), self.it0[j] != self.v)))]
def _native_find():
    ns = {}; exec(SRC_FIND, ns); return ns['find']([1, 1], 1) != 1

SRC_SETX = '''
def setx(o, q):
    o.x = 1
    return q.x
'''
class SetX(Spec):
    fields = {'x': 'int'}
    def bind(self, E, p):
        h = p.heap; h.arr('x'); self.h0 = h.copy(); self.o, self.q = z3.Consts('o q', Ref); p.env.update(o=V('ref', self.o), q=V('ref', self.q))
        p.pc += [self.o != NULL, self.q != NULL, self.h0.alloc[self.o], self.h0.alloc[self.q]]
    def may_write(self, E, p, ref, field): return ref == self.q            # the store goes to o: the frame obligation is false unless o is q
    def ensures(self, E, ctx, p, ret): return [('F:q-unchanged', ret.term == self.h0.load(self.q, 'x')), ('T:q-unchanged-unless-aliased', Implies(self.o != self.q, ret.term == self.h0.load(self.q, 'x')))]
def _native_setx():
    class O: pass
    ns = {}; exec(SRC_SETX, ns); o = O(); o.x = 5; return ns['setx'](o, o) != 5

SRC_PUT = '''
def put(d, k):
    if k not in d:
        d[k] = 0
    return d[k]
'''
class Put(Spec):
    def bind(self, E, p):
        h = p.heap
        for nme in ('$len', '$dkeys:int', '$dhas:int', '$dmap:int:int'): h.arr(nme)
        self.h0 = h.copy(); self.d = z3.Const('d', Ref); self.k = z3.Int('k'); p.env.update(d=V('dict[int,int]', self.d), k=vint(self.k))
        self.n0 = ln(self.h0, self.d); self.has0 = self.h0.load(self.d, '$dhas:int')
        p.pc += [self.d != NULL, self.h0.alloc[self.d], self.n0 >= 0]
    def may_write(self, E, p, ref, field): return ref == self.d
    def ensures(self, E, ctx, p, ret):
        h = p.heap; m0 = self.h0.load(self.d, '$dmap:int:int')
        return [('T:len', ln(h, self.d) == self.n0 + If(self.has0[self.k], 0, 1)), ('T:has', h.load(self.d, '$dhas:int')[self.k]), ('T:value', ret.term == If(self.has0[self.k], m0[self.k], 0)),
                ('F:always-grows', ln(h, self.d) == self.n0 + 1), ('F:always-zero', ret.term == 0)]
def _native_put():
    ns = {}; exec(SRC_PUT, ns); d = {1: 1}; return ns['put'](d, 1) != 0 and len(d) != 2

SRC_COUNT = '''
def count(n):
    i = 0
    while i < n:
        i += 2
    return i
'''
class Count(Spec):
    def bind(self, E, p): self.n = z3.Int('n'); p.env['n'] = vint(self.n); p.pc.append(self.n >= 0)
    def winv(self, E, ctx, p, pre):
        i = p.env['i'].term; return [('even', And(i >= 0, i % 2 == 0)), ('bound', i <= self.n + 1)]
    while_invariants = property(lambda self: {0: self.winv})
    def ensures(self, E, ctx, p, ret): return [('T:reaches', And(ret.term >= self.n, ret.term <= self.n + 1)), ('F:exact', ret.term == self.n)]
def _native_count():
    ns = {}; exec(SRC_COUNT, ns); return ns['count'](1) != 1

SRC_ROWS = '''
def rows(n):
    out = []
    row = [0]
    for i in range(n):
        row[0] = i
        out.append(row)
    return out
'''
class Rows(Spec):
    """every entry of `out` is the SAME list object: `out[j][0] == j` is not inductive"""
    def empty_list_kind(self, line): return 'ref'
    def bind(self, E, p):
        h = p.heap
        for nme in ('$len', '$items:int', '$items:ref'): h.arr(nme)
        self.h0 = h.copy(); self.n = z3.Int('n'); p.env['n'] = vint(self.n); p.pc.append(self.n >= 0)
    def bounds(self, E): return [self.n]
    def inv(self, E, ctx, p, pre, i):
        h = p.heap; out = p.env['out'].term; row = p.env['row'].term
        return [('range', And(0 <= i, i <= self.n)), ('len', And(ln(h, out) == i, ln(h, row) == 1, out != row)), ('T:same-object', ctx.forall(1, lambda j: Implies(And(0 <= j, j < i), items_r(h, out)[j] == row))),
                ('F:entry-j-holds-j', ctx.forall(1, lambda j: Implies(And(0 <= j, j < i), items_i(h, items_r(h, out)[j])[0] == j)))]
    invariants = property(lambda self: {0: self.inv})
    def ensures(self, E, ctx, p, ret): return [('T:len', ln(p.heap, ret.term) == self.n)]
def _native_rows():
    ns = {}; exec(SRC_ROWS, ns); return ns['rows'](2)[0][0] != 0

SRC_FRESHROWS = '''
def fresh_rows(n):
    out = []
    for i in range(n):
        out.append([i])
    return out
'''
class FreshRows(Rows):
    """a new list per iteration: `out[j][0] == j` IS inductive, but only if objects allocated in earlier iterations are known to differ from the one allocated now"""
    def inv(self, E, ctx, p, pre, i):
        h = p.heap; out = p.env['out'].term
        return [('range', And(0 <= i, i <= self.n)), ('len', ln(h, out) == i), ('alloc', And(h.alloc[out], ctx.forall(1, lambda j: Implies(And(0 <= j, j < i), And(h.alloc[items_r(h, out)[j]], items_r(h, out)[j] != out))))),
                ('T:entry-j-holds-j', ctx.forall(1, lambda j: Implies(And(0 <= j, j < i), And(ln(h, items_r(h, out)[j]) == 1, items_i(h, items_r(h, out)[j])[0] == j))))]
    def ensures(self, E, ctx, p, ret):
        h = p.heap; r = ret.term
        return [('T:len', ln(h, r) == self.n), ('T:content', ctx.forall(1, lambda j: Implies(And(0 <= j, j < self.n), items_i(h, items_r(h, r)[j])[0] == j))),
                ('F:rows-are-one-object', ctx.forall(2, lambda j, k: Implies(And(0 <= j, j < k, k < self.n), items_r(h, r)[j] == items_r(h, r)[k])))]
def _native_fresh_rows():
    ns = {}; exec(SRC_FRESHROWS, ns); r = ns['fresh_rows'](2); return r[0] is not r[1]

SRC_CHK = '''
def chk(x):
    if x < 0:
        raise ValueError('negative')
    return x
'''
class Chk(Spec):
    def bind(self, E, p): self.x = z3.Int('x'); p.env['x'] = vint(self.x); p.pc.append(self.x >= -1)
    def raises(self, E, ctx, p, exc): return [('F:never-raises', z3.BoolVal(False))]
    def ensures(self, E, ctx, p, ret): return [('T:identity', ret.term == self.x)]
def _native_chk():
    ns = {}; exec(SRC_CHK, ns)
    try: ns['chk'](-1); return False
    except ValueError: return True

SRC_SUMTO = '''
def sum_to(xs):
    s = 0
    for x in xs:
        s += x
        xs[0] = 0
    return s
'''
SUMF = z3.Function('st_prefix_sum', z3.IntSort(), z3.IntSort())
class SumTo(_ListSpec):
    """prefix-sum spec over the ENTRY items; the body also writes xs[0]: the claim 'list untouched' must fail, and 's == prefix sum of the entry items' with it
    (iteration reads the live list)"""
    def pre(self, E, p):
        p.pc.append(SUMF(0) == 0); p.facts.append(Schematic(1, lambda j: Implies(And(0 <= j, j < self.n0), SUMF(j + 1) == SUMF(j) + self.it0[j]), 'sum-step'))
    def inv(self, E, ctx, p, pre, i):
        h = p.heap
        return [('range', And(0 <= i, i <= self.n0)), ('len', ln(h, self.xs) == self.n0), ('F:items-kept', items_i(h, self.xs) == self.it0), ('s', p.env['s'].term == SUMF(i))]
    invariants = property(lambda self: {0: self.inv})
    def ensures(self, E, ctx, p, ret): return [('T:sum-given-invariant', ret.term == SUMF(self.n0))]
def _native_sumto():
    ns = {}; exec(SRC_SUMTO, ns); xs = [3, 4]; ns['sum_to'](xs); return xs != [3, 4]

SRC_PUT2 = '''
def put2(d, k, v):
    d[k] = v
    return len(d)
'''
class Put2(Spec):
    def bind(self, E, p):
        h = p.heap
        for nme in ('$len', '$dkeys:int', '$dhas:int', '$dmap:int:int'): h.arr(nme)
        self.h0 = h.copy(); self.d = z3.Const('d', Ref); self.k, self.v = z3.Ints('k v'); p.env.update(d=V('dict[int,int]', self.d), k=vint(self.k), v=vint(self.v))
        self.n0 = ln(self.h0, self.d); self.has0 = self.h0.load(self.d, '$dhas:int'); self.map0 = self.h0.load(self.d, '$dmap:int:int'); self.keys0 = self.h0.load(self.d, '$dkeys:int')
        p.pc += [self.d != NULL, self.h0.alloc[self.d], self.n0 >= 0]
    def may_write(self, E, p, ref, field): return ref == self.d
    def ensures(self, E, ctx, p, ret):
        h = p.heap; has1 = h.load(self.d, '$dhas:int'); map1 = h.load(self.d, '$dmap:int:int'); keys1 = h.load(self.d, '$dkeys:int'); o = fresh('sk', I)
        return [('T:stored', And(has1[self.k], map1[self.k] == self.v)), ('T:others-kept', Implies(o != self.k, And(has1[o] == self.has0[o], map1[o] == self.map0[o]))),
                ('T:len', ret.term == self.n0 + If(self.has0[self.k], 0, 1)), ('T:new-key-appended-last', Implies(Not(self.has0[self.k]), keys1[self.n0] == self.k)),
                ('T:order-of-old-keys-kept', ctx.forall(1, lambda i: Implies(And(0 <= i, i < self.n0), keys1[i] == self.keys0[i]))), ('F:len-never-changes', ret.term == self.n0)]
def _native_put2():
    ns = {}; exec(SRC_PUT2, ns); return ns['put2']({}, 1, 1) != 0

SRC_GETK = '''
def getk(d, k):
    return d[k]
'''
class GetK(Put2):
    def ensures(self, E, ctx, p, ret): return [('T:value', ret.term == self.map0[self.k])]
def _native_getk():
    ns = {}; exec(SRC_GETK, ns)
    try: ns['getk']({}, 1); return False
    except KeyError: return True

SRC_SEEN = '''
def seen(s, x):
    r = x in s
    s.add(x)
    return r
'''
class Seen(Spec):
    def bind(self, E, p):
        h = p.heap; h.arr('$dhas:int'); self.h0 = h.copy(); self.s = z3.Const('s', Ref); self.x = z3.Int('x'); p.env.update(s=V('set[int]', self.s), x=vint(self.x))
        self.has0 = self.h0.load(self.s, '$dhas:int'); p.pc += [self.s != NULL, self.h0.alloc[self.s]]
    def may_write(self, E, p, ref, field): return ref == self.s
    def ensures(self, E, ctx, p, ret):
        has1 = p.heap.load(self.s, '$dhas:int'); o = fresh('sk', I)
        return [('T:was-member', ret.term == self.has0[self.x]), ('T:member-now', has1[self.x]), ('T:others-kept', Implies(o != self.x, has1[o] == self.has0[o])), ('F:never-seen', Not(ret.term))]
def _native_seen():
    ns = {}; exec(SRC_SEEN, ns); return ns['seen']({3}, 3) is True

SRC_SAFE = '''
def safe_get(xs, i):
    try:
        return xs[i]
    except IndexError:
        return -1
'''
class SafeGet(_ListSpec):
    ints = ('i',)
    def ensures(self, E, ctx, p, ret):
        i, n, r = self.i, self.n0, ret.term
        return [('T:in-range-nonneg', Implies(And(0 <= i, i < n), r == self.it0[i])), ('T:in-range-negative', Implies(And(-n <= i, i < 0), r == self.it0[n + i])), ('T:out-of-range', Implies(Or(i >= n, i < -n), r == -1)),
                ('F:negative-indices-are-out-of-range', Implies(i < 0, r == -1))]
    unsupported = True          # an implicit IndexError caught by the enclosing try: the engine must refuse (it models implicit raises as obligations, not as control flow)
def _native_safe():
    ns = {}; exec(SRC_SAFE, ns); return ns['safe_get']([4, 5], -1) != -1

SRC_USE = '''
def use(x):
    y = helper(x)
    return y + 1
'''
class Use(Spec):
    """calls by contract: the callee's precondition is an obligation at the call site (here false: nothing is known about x), its postcondition is all the caller learns"""
    def __init__(self): self.callees = {'helper': self.k_helper}
    def bind(self, E, p): self.x = z3.Int('x'); p.env['x'] = vint(self.x)
    def k_helper(self, E, p, args, kw, node):
        E.emit(p, 'callsite:F:helper-requires-nonnegative', args[0].term >= 0, node.lineno); y = fresh('y', I); p.pc.append(y > args[0].term); return vint(y)
    def ensures(self, E, ctx, p, ret): return [('T:greater', ret.term > self.x + 1), ('F:exactly-plus-two', ret.term == self.x + 2)]
def _native_use():
    ns = {'helper': lambda x: x + 5}; exec(SRC_USE, ns); return ns['use'](-1) != 1        # a helper satisfying the contract for which the false clauses fail

SRC_INNER = '''
def inner_bad(xs, n):
    for i in range(n):
        for j in range(n):
            xs[j] = i
            if j > 0:
                xs[0] = -1
    return xs
'''
class InnerBad(_ListSpec):
    """nested loops: the INNER invariant `xs[k] == i for k < j` is not inductive"""
    ints = ('n',)
    def pre(self, E, p): p.pc += [0 <= self.n, self.n <= self.n0]
    def inv_outer(self, E, ctx, p, pre, i): return [('range', And(0 <= i, i <= self.n)), ('len', ln(p.heap, self.xs) == self.n0)]
    def inv_inner(self, E, ctx, p, pre, j):
        h = p.heap; i = pre.env['$i0'].term
        return [('range', And(0 <= j, j <= self.n)), ('len', ln(h, self.xs) == self.n0), ('F:prefix-holds-i', ctx.forall(1, lambda k: Implies(And(0 <= k, k < j), items_i(h, self.xs)[k] == i)))]
    invariants = property(lambda self: {0: self.inv_outer, 1: self.inv_inner})
    def ensures(self, E, ctx, p, ret): return [('T:len-kept', ln(p.heap, self.xs) == self.n0)]
def _native_inner():
    ns = {}; exec(SRC_INNER, ns); return ns['inner_bad']([9, 9], 2)[0] == -1

SRC_INDEXOF = '''
def index_of(xs, v):
    for i, x in enumerate(xs):
        if x == v:
            return i
    return -1
'''
class IndexOf(Find):
    def inv(self, E, ctx, p, pre, i):
        h = p.heap
        return [('range', And(0 <= i, i <= self.n0)), ('kept', And(ln(h, self.xs) == self.n0, items_i(h, self.xs) == self.it0)), ('none-before', ctx.forall(1, lambda j: Implies(And(0 <= j, j < i), self.it0[j] != self.v)))]
def _native_indexof():
    ns = {}; exec(SRC_INDEXOF, ns); return ns['index_of']([1, 1], 1) != 1

SRC_EVENS = '''
def evens(xs):
    return [x for x in xs if x % 2 == 0]
'''
class Evens(_ListSpec):
    def ensures(self, E, ctx, p, ret):
        h = p.heap; r = ret.term
        return [('T:all-even', ctx.forall(1, lambda k: Implies(And(0 <= k, k < ln(h, r)), items_i(h, r)[k] % 2 == 0))), ('T:not-longer', ln(h, r) <= self.n0), ('T:source-kept', And(ln(h, self.xs) == self.n0, items_i(h, self.xs) == self.it0)),
                ('F:keeps-everything', ln(h, r) == self.n0)]
def _native_evens():
    ns = {}; exec(SRC_EVENS, ns); return len(ns['evens']([1, 2])) != 2

SRC_GUARD = '''
def guarded(xs, i):
    return xs[i] if 0 <= i and i < len(xs) else 0
'''
class Guarded(_ListSpec):
    ints = ('i',)
    def ensures(self, E, ctx, p, ret): return [('T:value', ret.term == If(And(0 <= self.i, self.i < self.n0), self.it0[self.i], 0))]
SRC_HALFGUARD = '''
def half_guarded(xs, i):
    return xs[i] if i < len(xs) else 0
'''
class HalfGuarded(_ListSpec):
    """only the upper bound is tested: i < -len(xs) raises IndexError, which the engine must report"""
    ints = ('i',)
    def ensures(self, E, ctx, p, ret): return [('T:upper', Implies(self.i >= self.n0, ret.term == 0))]
def _native_halfguard():
    ns = {}; exec(SRC_HALFGUARD, ns)
    try: ns['half_guarded']([1], -2); return False
    except IndexError: return True

SRC_REMOVE = '''
def drop(xs, v):
    if v in xs:
        xs.remove(v)
    return xs
'''
class Drop(_ListSpec):
    """list.remove removes the FIRST occurrence only and shifts the rest"""
    ints = ('v',)
    def ensures(self, E, ctx, p, ret):
        h = p.heap; n1 = ln(h, self.xs); it1 = items_i(h, self.xs); w = fresh('sk', I)
        return [('T:length', Or(n1 == self.n0, n1 == self.n0 - 1)), ('T:elements-come-from-the-old-list', ctx.forall(1, lambda j: Implies(And(0 <= j, j < n1), Or(it1[j] == self.it0[j], it1[j] == self.it0[j + 1])))),
                ('T:absent-means-unchanged', Implies(n1 == self.n0, it1 == self.it0)), ('T:prefix-before-a-non-v-run-is-kept', Implies(And(self.n0 >= 1, self.it0[0] != self.v), it1[0] == self.it0[0])),
                ('F:no-occurrence-left', ctx.forall(1, lambda j: Implies(And(0 <= j, j < n1), it1[j] != self.v)))]
def _native_drop():
    ns = {}; exec(SRC_REMOVE, ns); return 1 in ns['drop']([1, 1], 1)
class DropUnguarded(_ListSpec):
    ints = ('v',)
    def ensures(self, E, ctx, p, ret): return [('T:length', ln(p.heap, self.xs) == self.n0 - 1)]
SRC_REMOVE_U = '''
def drop_unguarded(xs, v):
    xs.remove(v)
    return xs
'''
def _native_drop_u():
    ns = {}; exec(SRC_REMOVE_U, ns)
    try: ns['drop_unguarded']([1], 2); return False
    except ValueError: return True

SRC_SETLIST = '''
def first_member(s):
    xs = list(s)
    return xs[0]
'''
class SetList(Spec):
    """list(set) is SOME enumeration of the members: the first element is a member, but WHICH one is not determined (hash order)"""
    def bind(self, E, p):
        h = p.heap; h.arr('$dhas:int'); h.arr('$len'); h.arr('$items:int'); self.h0 = h.copy(); self.s = z3.Const('s', Ref); p.env['s'] = V('set[int]', self.s)
        self.has0 = self.h0.load(self.s, '$dhas:int'); self.w = z3.Int('some_member'); p.pc += [self.s != NULL, self.h0.alloc[self.s], self.has0[self.w]]          # the set is not empty
    def ensures(self, E, ctx, p, ret): return [('T:is-a-member', self.has0[ret.term]), ('F:is-the-smallest-member', ctx.forall(1, lambda x: Implies(self.has0[x], ret.term <= x)))]
def _native_setlist():
    ns = {}; exec(SRC_SETLIST, ns); return ns['first_member']({8, 1}) != 1        # CPython: list({8, 1}) == [8, 1]
class SetListEmpty(SetList):
    def bind(self, E, p):
        h = p.heap; h.arr('$dhas:int'); h.arr('$len'); h.arr('$items:int'); self.h0 = h.copy(); self.s = z3.Const('s', Ref); p.env['s'] = V('set[int]', self.s)
        self.has0 = self.h0.load(self.s, '$dhas:int'); p.pc += [self.s != NULL, self.h0.alloc[self.s]]
    def ensures(self, E, ctx, p, ret): return [('T:is-a-member', self.has0[ret.term])]
def _native_setlist_empty():
    ns = {}; exec(SRC_SETLIST, ns)
    try: ns['first_member'](set()); return False
    except IndexError: return True

SRC_NONE = '''
def first_or_zero(xs):
    if not xs:
        return 0
    return xs[0]
'''
class FirstOrZero(Spec):
    """a list-typed parameter may be None: `not xs` is true for None and for the empty list"""
    def bind(self, E, p):
        h = p.heap
        for nme in ('$len', '$items:int'): h.arr(nme)
        self.h0 = h.copy(); self.xs = z3.Const('xs', Ref); p.env['xs'] = V('list[int]', self.xs)
        p.pc += [Implies(self.xs != NULL, And(self.h0.alloc[self.xs], ln(self.h0, self.xs) >= 0))]
    def bounds(self, E): return [ln(self.h0, self.xs)]
    def ensures(self, E, ctx, p, ret):
        return [('T:none-gives-0', Implies(self.xs == NULL, ret.term == 0)), ('T:first', Implies(And(self.xs != NULL, ln(self.h0, self.xs) > 0), ret.term == items_i(self.h0, self.xs)[0])),
                ('F:always-first', Implies(self.xs != NULL, ret.term == items_i(self.h0, self.xs)[0]))]
def _native_none():
    ns = {}; exec(SRC_NONE, ns); return ns['first_or_zero'](None) == 0 and ns['first_or_zero']([]) == 0


SRC_POPEXT = '''
def pop_ext(xs, ys):
    ys.append(xs.pop())
    xs += ys
    return xs
'''
class PopExt(Spec):
    """xs.pop() returns the LAST element and shortens the list by one; a following `xs += ys` appends behind the shortened list"""
    def bind(self, E, p):
        h = p.heap
        for nme in ('$len', '$items:int'): h.arr(nme)
        self.h0 = h.copy(); self.xs = z3.Const('xs', Ref); self.ys = z3.Const('ys', Ref); p.env['xs'] = V('list[int]', self.xs); p.env['ys'] = V('list[int]', self.ys)
        self.n0 = ln(self.h0, self.xs); self.m0 = ln(self.h0, self.ys); self.it0 = items_i(self.h0, self.xs); self.jt0 = items_i(self.h0, self.ys)
        p.pc += [self.xs != NULL, self.ys != NULL, self.xs != self.ys, self.h0.alloc[self.xs], self.h0.alloc[self.ys], self.n0 >= 1, self.m0 >= 0]
    def bounds(self, E): return [self.n0, self.m0]
    def may_write(self, E, p, ref, field): return Or(ref == self.xs, ref == self.ys)
    def ensures(self, E, ctx, p, ret):
        h = p.heap; n1 = ln(h, self.xs); it1 = items_i(h, self.xs)
        return [('T:length', n1 == self.n0 - 1 + self.m0 + 1), ('T:kept-prefix', ctx.forall(1, lambda j: Implies(And(0 <= j, j < self.n0 - 1), it1[j] == self.it0[j]))),
                ('T:then-ys', ctx.forall(1, lambda j: Implies(And(0 <= j, j < self.m0), it1[self.n0 - 1 + j] == self.jt0[j]))), ('T:popped-element-last', it1[n1 - 1] == self.it0[self.n0 - 1]),
                ('F:popped-element-still-at-its-place', it1[self.n0 - 1] == self.it0[self.n0 - 1])]
def _native_popext():
    ns = {}; exec(SRC_POPEXT, ns); return ns['pop_ext']([1, 2], [7])[1] != 2
class PopEmpty(PopExt):
    """pop() on a possibly empty list: the implicit IndexError obligation must fail"""
    def bind(self, E, p):
        PopExt.bind(self, E, p); p.pc[:] = [c for c in p.pc if not c.eq(self.n0 >= 1)] + [self.n0 >= 0]
    def ensures(self, E, ctx, p, ret): return [('T:length', ln(p.heap, self.xs) >= 0)]
def _native_popempty():
    ns = {}; exec(SRC_POPEXT, ns)
    try: ns['pop_ext']([], [1]); return False
    except IndexError: return True


SRC_NESTROWS = '''
def nested_rows(n, m):
    out = []
    for i in range(n):
        for j in range(m):
            if j == 0:
                out.append([i])
    return out
'''
class NestedRows(Rows):
    """objects allocated inside a NESTED loop (on paths that end at the inner loop's preserve branch) are new in every outer iteration as well: `out[k][0] == k` is inductive,
    `all rows are one object` and `the first row holds the last index` are false"""
    def bind(self, E, p):
        Rows.bind(self, E, p); self.m = z3.Int('m'); p.env['m'] = vint(self.m); p.pc.append(self.m >= 1)
    def rows(self, ctx, h, out, upto, tag):
        return ctx.forall(1, lambda k: Implies(And(0 <= k, k < upto), And(h.alloc[items_r(h, out)[k]], items_r(h, out)[k] != out, ln(h, items_r(h, out)[k]) == 1, items_i(h, items_r(h, out)[k])[0] == k)), tag)
    def inv(self, E, ctx, p, pre, i):
        h = p.heap; out = p.env['out'].term
        return [('range', And(0 <= i, i <= self.n)), ('len', And(ln(h, out) == i, h.alloc[out], out == pre.env['out'].term)), ('T:entry-k-holds-k', self.rows(ctx, h, out, i, 'inv:rows'))]
    def inv_in(self, E, ctx, p, pre, j):
        h = p.heap; out = p.env['out'].term; i = pre.env['$i0'].term; cnt = i + If(j > 0, 1, 0)
        return [('range', And(0 <= j, j <= self.m, 0 <= i, i < self.n)), ('len', And(ln(h, out) == cnt, h.alloc[out], out == pre.env['out'].term)), ('T:entry-k-holds-k', self.rows(ctx, h, out, cnt, 'inv:rows'))]
    invariants = property(lambda self: {0: self.inv, 1: self.inv_in})
    def ensures(self, E, ctx, p, ret):
        h = p.heap; r = ret.term
        return [('T:len', ln(h, r) == self.n), ('T:content', ctx.forall(1, lambda k: Implies(And(0 <= k, k < self.n), items_i(h, items_r(h, r)[k])[0] == k))),
                ('F:rows-are-one-object', ctx.forall(2, lambda j, k: Implies(And(0 <= j, j < k, k < self.n), items_r(h, r)[j] == items_r(h, r)[k]))),
                ('F:first-row-holds-the-last-index', Implies(self.n >= 1, items_i(h, items_r(h, r)[0])[0] == self.n - 1))]
def _native_nested_rows():
    ns = {}; exec(SRC_NESTROWS, ns); r = ns['nested_rows'](2, 1); return r[0] is not r[1] and r[0][0] != 1

CASES = [('nested_rows', SRC_NESTROWS, NestedRows, _native_nested_rows), ('pop_ext', SRC_POPEXT, PopExt, _native_popext), ('pop_ext', SRC_POPEXT, PopEmpty, _native_popempty), ('first_member', SRC_SETLIST, SetList, _native_setlist), ('first_member', SRC_SETLIST, SetListEmpty, _native_setlist_empty), ('drop', SRC_REMOVE, Drop, _native_drop), ('drop_unguarded', SRC_REMOVE_U, DropUnguarded, _native_drop_u), ('put2', SRC_PUT2, Put2, _native_put2), ('getk', SRC_GETK, GetK, _native_getk), ('seen', SRC_SEEN, Seen, _native_seen), ('safe_get', SRC_SAFE, SafeGet, _native_safe), ('use', SRC_USE, Use, _native_use),
         ('inner_bad', SRC_INNER, InnerBad, _native_inner), ('index_of', SRC_INDEXOF, IndexOf, _native_indexof), ('evens', SRC_EVENS, Evens, _native_evens), ('guarded', SRC_GUARD, Guarded, None),
         ('half_guarded', SRC_HALFGUARD, HalfGuarded, _native_halfguard),
         ('first_or_zero', SRC_NONE, FirstOrZero, _native_none), ('zero_fill', SRC_ZERO, ZeroFill, None), ('clobber', SRC_CLOBBER, Clobber, _native_clobber), ('clobber_w', SRC_CLOBBER_W, ClobberW, _native_clobber_w),
         ('alias', SRC_ALIAS, Alias, _native_alias), ('fdiv', SRC_FDIV, FDiv, _native_fdiv), ('pmod', SRC_MOD, PMod, _native_mod), ('last', SRC_LAST, Last, _native_last),
         ('last', SRC_LAST, LastEmpty, _native_last_empty), ('find', SRC_FIND, Find, _native_find), ('setx', SRC_SETX, SetX, _native_setx), ('put', SRC_PUT, Put, _native_put),
         ('count', SRC_COUNT, Count, _native_count), ('rows', SRC_ROWS, Rows, _native_rows), ('fresh_rows', SRC_FRESHROWS, FreshRows, _native_fresh_rows), ('chk', SRC_CHK, Chk, _native_chk),
         ('sum_to', SRC_SUMTO, SumTo, _native_sumto)]
# obligations that must fail although their label carries no F: marker (implicit obligations of the engine)
EXPECT_FAIL_IMPLICIT = {'PopEmpty': ('no-IndexError-pop',), 'LastEmpty': ('no-IndexError',), 'SetX': ('frame@',), 'GetK': ('no-KeyError',), 'HalfGuarded': ('no-IndexError',), 'DropUnguarded': ('no-ValueError',), 'SetListEmpty': ('no-IndexError',)}

def run(timeout=20000, verbose=False):
    """-> (ok, n_cases, n_obligations, problems[list of str], seconds)"""
    t0 = time.time(); problems = []; nobs = 0
    for name, src, cls, native in CASES:
        tag = f'{cls.__name__}'
        if native is not None:
            try:
                if not native(): problems.append(f'{tag}: the native witness does NOT violate the false clause (the self-test expectation is wrong)'); continue
            except Exception as e: problems.append(f'{tag}: native witness crashed: {e!r}'); continue
        try:
            spec = cls(); fn = core.Fn('selftest', name, src_override=src); E = pyvc.run_function(fn, spec)
        except pyvc.Unsupported as e:
            if not getattr(cls, 'unsupported', False): problems.append(f'{tag}: engine failed: Unsupported: {e}')
            continue
        except Exception as e:
            problems.append(f'{tag}: engine failed: {type(e).__name__}: {e}'); continue
        if getattr(cls, 'unsupported', False): problems.append(f'UNSOUND: {tag}: the engine followed code it must refuse'); continue
        pyvc._POOL['args'] = (E, spec, timeout, 2, []); groups = {}
        for i, ob in enumerate(E.obs):
            nobs += 1; _, st, dt, det, mv = pyvc._decide_one(i)
            must_fail = 'F:' in ob.label or any(ob.label.startswith(pfx) for pfx in EXPECT_FAIL_IMPLICIT.get(tag, ()))
            if '-entry:' in ob.label and 'F:' in ob.label: must_fail = None        # a false invariant may well hold on entry (i = 0)
            if verbose: print(f'   {tag:10s} {ob.label:60s} {st:8s} {"(false clause)" if must_fail else ""}')
            if st == 'error': problems.append(f'{tag}/{ob.label}: engine error: {det[-200:]}')
            elif must_fail: groups.setdefault(ob.label, []).append(st)
            elif must_fail is False and st != 'proved': problems.append(f'INCOMPLETE: {tag}/{ob.label} is true but was not proved ({st}: {det})')
        # a false clause is violated on SOME path: at least one of its obligations must fail (the others are paths on which it happens to hold)
        for label, sts in groups.items():
            if all(st == 'proved' for st in sts): problems.append(f'UNSOUND: {tag}/{label} was PROVED on every path although CPython violates it')
        if native is not None and not groups: problems.append(f'{tag}: no false clause was generated (vacuous self-test)')
    return (not problems), len(CASES), nobs, problems, time.time() - t0

if __name__ == '__main__':
    ok, nc, no, probs, dt = run(verbose=True)
    print(f'engine self-test: {nc} programs, {no} obligations, {"OK" if ok else "FAILED"} in {dt:.1f}s')
    for p_ in probs: print('  ', p_)
    raise SystemExit(0 if ok else 3)
