"""Cross-check of the symbolic numpy front end (vlib/symnp.py) against numpy itself, run by every check that uses it.

Each supported operation is executed twice on the same concrete operands: by numpy, and by the SymArray lifting with constant z3
terms (which then fold to a constant).  Integer dtypes must agree exactly (wrap-around, promotion, weak python scalars, casts);
float operands are dyadic rationals with few bits, for which binary32/64 arithmetic is exact, so the 'mathematical reals' encoding
must agree exactly as well.  np.rint is an uninterpreted function in the encoding: its three axioms (|rint(x)-x| <= 1/2, fixes
integers, monotone) are checked against np.rint on random and half-way values.  A disagreement makes the calling check exit 3."""
import fractions, itertools, random, time
import numpy as np, z3
from vlib import symnp
from vlib.symnp import SymArray

INTS = ['int8', 'uint8', 'int16', 'int32', 'int64']; FLOATS = ['float32', 'float64']

_SUBST = []; _N = [0]
def _const(v, dt):
    """a SYMBOLIC element (so that the symbolic code paths are exercised, not constant folding) whose value is substituted afterwards"""
    del _SUBST[:-3]                  # a comparison uses at most two operands (a dropped operand could not fold and would be reported, never ignored)
    _N[0] += 1; dt = np.dtype(dt); x = z3.Real(f'x{_N[0]}') if dt.kind == 'f' else z3.Int(f'x{_N[0]}')
    _SUBST.append((x, symnp._rv(v) if dt.kind == 'f' else z3.IntVal(int(v))))
    return SymArray(x, dt, (1,))
def _fold(t): return z3.simplify(z3.substitute(t, *_SUBST)) if _SUBST else z3.simplify(t)
def _val(s):
    t = _fold(s.term)
    if z3.is_int_value(t): return fractions.Fraction(t.as_long())
    if z3.is_rational_value(t): return fractions.Fraction(t.numerator_as_long(), t.denominator_as_long())
    raise ValueError(f'did not fold to a constant: {t}')
def _rand(rng, dt):
    dt = np.dtype(dt)
    if dt.kind == 'f': return rng.randint(-64, 64) / 4.0
    info = np.iinfo(dt); pick = rng.random()
    if pick < 0.3: return rng.choice([info.min, info.max, info.min + 1, info.max - 1, 0, 1] + ([-1] if dt.kind == 'i' else []))
    if dt.itemsize >= 4: return rng.randint(-1000, 1000) if dt.kind == 'i' else rng.randint(0, 1000)
    return rng.randint(int(info.min), int(info.max))

def run(seed=0, rounds=6):
    rng = random.Random(seed); problems = []; n = 0; t0 = time.time(); del _SUBST[:]
    ops = {'add': np.add, 'subtract': np.subtract, 'multiply': np.multiply, 'maximum': np.maximum, 'minimum': np.minimum, 'true_divide': np.true_divide}
    old = np.seterr(all='ignore')
    try:
        with symnp.session():
            for da, db in itertools.product(INTS + FLOATS, repeat=2):
                for name, uf in ops.items():
                    for _ in range(rounds):
                        a, b = _rand(rng, da), _rand(rng, db)
                        if name == 'true_divide' and (b == 0 or np.dtype(da).kind != 'f' or np.dtype(db).kind != 'f'): continue
                        if name == 'true_divide': b = rng.choice([0.25, 0.5, 1.0, 2.0, 4.0, -2.0])
                        if name == 'multiply' and 'f' in (np.dtype(da).kind + np.dtype(db).kind) and max(abs(a), abs(b)) > 2 ** 20: continue      # keep float products exact
                        try: exp = uf(np.array([a], dtype=da), np.array([b], dtype=db))
                        except Exception: continue                                   # numpy itself refuses the pair (e.g. uint64 mixes): nothing to compare
                        if exp.dtype.kind == 'f' and max(abs(a), abs(b)) > 2 ** 40: continue       # an int64 extreme converted to float is not exact
                        n += 1
                        try:
                            # (a symbolic divisor is the uninterpreted DIV(x, y) with the defining fact DIV(x, y) * y == x; the constant-divisor path is compared)
                            got = symnp.binop(name, _const(a, da), np.array([b], dtype=db) if name == 'true_divide' else _const(b, db))
                            if got.dtype != exp.dtype: problems.append(f'{name}({da},{db}): dtype {got.dtype} != numpy {exp.dtype}'); continue
                            if _val(got) != fractions.Fraction(exp.reshape(-1)[0].item()): problems.append(f'{name}({da}={a},{db}={b}): {_val(got)} != numpy {exp[0]}')
                        except symnp.Undecided: n -= 1
                        except Exception as e: problems.append(f'{name}({da}={a},{db}={b}): {type(e).__name__}: {e}')
                # weak python scalars
                for name in ('add', 'subtract', 'multiply'):
                    a = _rand(rng, da); k = rng.choice([2, 3, 7] + ([-1] if np.dtype(da).kind != 'u' else [])); exp = ops[name](np.array([a], dtype=da), k); n += 1
                    got = symnp.binop(name, _const(a, da), k)
                    if got.dtype != exp.dtype or _val(got) != fractions.Fraction(exp[0].item()): problems.append(f'{name}({da}={a}, python int {k}): {got.dtype} {_val(got)} != numpy {exp.dtype} {exp[0]}')
            # casts int -> int, int -> float, abs / negative, clip
            for da, db in itertools.product(INTS, INTS + FLOATS):
                for _ in range(rounds):
                    a = _rand(rng, da); exp = np.array([a], dtype=da).astype(db); n += 1
                    if np.dtype(db).kind == 'f' and abs(a) > 2 ** 24: n -= 1; continue
                    got = _const(a, da).astype(db)
                    if _val(got) != fractions.Fraction(exp[0].item()): problems.append(f'astype({da}={a} -> {db}): {_val(got)} != numpy {exp[0]}')
            for da in INTS + FLOATS:
                for _ in range(rounds):
                    a = _rand(rng, da); x = np.array([a], dtype=da)
                    for nm, f in (('abs', np.abs), ('negative', np.negative)):
                        if np.dtype(da).kind == 'u' and nm == 'abs': continue
                        exp = f(x); got = f(_const(a, da)); n += 1
                        if _val(got) != fractions.Fraction(exp[0].item()): problems.append(f'{nm}({da}={a}): {_val(got)} != numpy {exp[0]}')
                    lo, hi = sorted((rng.randint(-100, 100), rng.randint(-100, 100)))
                    if np.dtype(da).kind == 'u': lo, hi = abs(lo), abs(lo) + abs(hi)
                    try: exp = np.clip(x, lo, hi)
                    except Exception: continue
                    got = np.clip(_const(a, da), lo, hi); n += 1
                    if got.dtype != exp.dtype or _val(got) != fractions.Fraction(exp[0].item()): problems.append(f'clip({da}={a},{lo},{hi}): {got.dtype} {_val(got)} != numpy {exp.dtype} {exp[0]}')
            for da in FLOATS:
                for a in (0.25, 0.5, 1.0, 2.0, -4.0, 8.0):
                    exp = np.reciprocal(np.array([a], dtype=da)); got = np.reciprocal(_const(a, da)); n += 1
                    # a symbolic divisor is the uninterpreted DIV(x, y) with the recorded defining fact: the numpy value must be the only one the facts allow
                    sv = z3.Solver(); sv.add(*[_fold(f) for f in symnp.ctx().defs[-3:]]); sv.add(_fold(got.term) != symnp._rv(exp[0].item()))
                    if got.dtype != exp.dtype or sv.check() != z3.unsat: problems.append(f'reciprocal({da}={a}): the defining facts do not force numpy\'s value {exp[0]}')
            # float -> int cast: exact whenever the side obligation (integral, in range) holds
            for db in INTS:
                info = np.iinfo(db)
                for _ in range(rounds):
                    a = float(rng.randint(max(int(info.min), -2 ** 20), min(int(info.max), 2 ** 20))); c = symnp.ctx(); k = len(c.side)
                    got = _const(a, 'float32').astype(db); n += 1
                    if _val(got) != int(np.array([a], dtype='float32').astype(db)[0]): problems.append(f'astype(float32={a} -> {db})')
                    if len(c.side) != k + 1 or not z3.is_true(_fold(c.side[-1][1])): problems.append(f'astype(float32={a} -> {db}): side obligation missing or false on an exact value')
                    _const(a + 0.5, 'float32').astype(db)
                    if not z3.is_false(_fold(c.side[-1][1])): problems.append(f'astype(float32={a + 0.5} -> {db}): side obligation not false on a fractional value')
                    _const(float(info.max) * 2 + 2, 'float64').astype(db)
                    if not z3.is_false(_fold(c.side[-1][1])): problems.append(f'astype(float64 out of range -> {db}): side obligation not false')
        # the axioms of the uninterpreted np.rint
        xs = [rng.randint(-4000, 4000) / 8.0 for _ in range(300)] + [k + 0.5 for k in range(-6, 7)] + [float(k) for k in range(-3, 4)]
        for x in xs:
            r = float(np.rint(np.float64(x))); n += 1
            if abs(r - x) > 0.5: problems.append(f'rint axiom |rint(x)-x|<=1/2 fails at {x}')
            if x == int(x) and r != x: problems.append(f'rint axiom rint(n)=n fails at {x}')
        for x, y in zip(xs, xs[1:]):
            lo, hi = min(x, y), max(x, y); n += 1
            if np.rint(lo) > np.rint(hi): problems.append(f'rint monotonicity fails at {lo},{hi}')
    finally: np.seterr(**old)
    return (not problems), n, problems, time.time() - t0

if __name__ == '__main__':
    ok, n, probs, dt = run()
    print(f'symnp cross-check: {n} comparisons with numpy, {"OK" if ok else "FAILED"} in {dt:.1f}s')
    for p in probs[:30]: print('  ', p)
    raise SystemExit(0 if ok else 3)
