#!/bin/sh
# Builds the overlay interpreter used by every check: python 3.12 (= /venv's, so the repository's own
# dependencies import) + z3-solver/jsonschema from the offline wheelhouse.  Nothing is fetched.
set -e
cd "$(dirname "$0")"
if [ ! -x .venv/bin/python ] || ! .venv/bin/python -c "import z3, jsonschema" 2>/dev/null; then
  rm -rf .venv
  /venv/bin/python -m venv .venv
  PIP_NO_INDEX=1 .venv/bin/python -m pip install -q --no-index --find-links /opt/veriftools/wheels z3-solver jsonschema >/dev/null
  echo "import site; site.addsitedir('/venv/lib/python3.12/site-packages')" > .venv/lib/python3.12/site-packages/zz_repo_deps.pth
fi
.venv/bin/python -c "import z3, numpy; print('overlay venv ok: z3', z3.get_version_string(), 'numpy', numpy.__version__)"
