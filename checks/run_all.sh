#!/bin/sh
# runs every registered quick check on the current /repo working tree, one after the other; prints one line per check
cd "$(dirname "$0")/.."
for c in $(python3 -c "import json; print(' '.join(c['property_id'] for c in json.load(open('MANIFEST.json'))['checks']))"); do
  ./vrun checks/run.py $c --tier ${1:-quick} 2>&1 | grep "^\[$c\]\|^VIOLATION\|^UNDECIDED\|^ENGINE-ERROR\|^KNOWN-FINDING" | cut -c1-200
  echo "   exit=$? ($c)"
done
