#!/bin/sh
# Runs the repository's pinned test suite with the verification guard OFF and compares the set of passing tests with
# /root/.vp/BASELINE.json (stable_pass).  Exit 0 iff every baseline-passing test still passes.
unset AI_EDGE_QUANTIZER_VERIF AI_EDGE_QUANTIZER_VERIF_LARGE_MODEL_THRESHOLD
OUT=$(mktemp /tmp/baseline.XXXXXX.xml)
(cd /repo && /venv/bin/python -m pytest -ra -q -p no:cacheprovider --timeout=900 --continue-on-collection-errors --junitxml="$OUT" >/dev/null 2>&1)
/venv/bin/python - "$OUT" <<'PY'
import json, sys, xml.etree.ElementTree as ET
base = set(json.load(open('/root/.vp/BASELINE.json'))['stable_pass'])
ok = set()
for tc in ET.parse(sys.argv[1]).getroot().iter('testcase'):
    if not any(ch.tag in ('failure', 'error', 'skipped') for ch in tc):
        ok.add(f"{tc.get('classname')}::{tc.get('name')}")
missing = sorted(base - ok)
print(f'baseline tests: {len(base)}  passing now: {len(base & ok)}  missing: {len(missing)}')
for m in missing[:20]: print('  MISSING', m)
sys.exit(1 if missing else 0)
PY
rc=$?; rm -f "$OUT"; exit $rc
