"""Entry point of every registered check:  ./vrun checks/run.py <Cxx> [--tier quick|thorough] [--replay FILE] [--update-lock]

Imports props/<Cxx>.py, which generates the verification conditions for that property from /repo's current working tree,
discharges them, replays counterexamples on the real code and fills a Report; this script writes the evidence file and maps
the verdict to the exit code (0 held / 1 VIOLATION / 2 undecided / 3 engine failure)."""
import argparse, importlib, os, sys, traceback, json
sys.path.insert(0, os.path.dirname(os.path.dirname(os.path.abspath(__file__))))
from vlib import core

def selftests(rep, seed, done):
    """soundness regression suite of the symbolic executor / cross-check of the symbolic numpy lifting (whichever front end the property module uses)"""
    if 'vlib.pyvc' in sys.modules and 'pyvc' not in done:
        done.add('pyvc')
        from vlib import selftest
        try: ok, nc, no, probs, dt = selftest.run()
        except Exception as e: ok, nc, no, probs, dt = False, 0, 0, [f'self-test crashed: {type(e).__name__}: {e}'], 0.0
        rep.extra['engine_selftest'] = dict(programs=nc, obligations=no, ok=ok, seconds=round(dt, 2), problems=probs[:5])
        if not ok: rep.errors.append('engine self-test failed (vlib/selftest.py): ' + '; '.join(probs[:3]))
    if 'vlib.symnp' in sys.modules and 'symnp' not in done:
        done.add('symnp')
        from vlib import symnp_selftest
        try: ok, n, probs, dt = symnp_selftest.run(seed)
        except Exception as e: ok, n, probs, dt = False, 0, [f'cross-check crashed: {type(e).__name__}: {e}'], 0.0
        rep.extra['symnp_crosscheck'] = dict(comparisons=n, ok=ok, seconds=round(dt, 2), problems=probs[:5])
        if not ok: rep.errors.append('symbolic-numpy cross-check failed (vlib/symnp_selftest.py): ' + '; '.join(probs[:3]))

def main():
    ap = argparse.ArgumentParser()
    ap.add_argument('prop'); ap.add_argument('--tier', default=os.environ.get('VERIF_TIER', 'quick'), choices=['quick', 'thorough'])
    ap.add_argument('--replay'); ap.add_argument('--update-lock', action='store_true')
    a = ap.parse_args()
    seed = int(os.environ.get('VERIF_SEED', '0') or 0)
    mod = importlib.import_module(f'props.{a.prop}')
    if a.replay:
        with open(a.replay) as f: payload = json.load(f)
        sys.exit(mod.replay(payload))
    if a.update_lock: os.environ['VERIF_UPDATE_LOCK'] = '1'
    rep = core.Report(a.prop, a.tier, seed, level=getattr(mod, 'LEVEL', 'proof'))
    try:
        done = set(); selftests(rep, seed, done)
        mod.run(rep)
        selftests(rep, seed, done)          # front ends imported lazily by the property module
    except LookupError as e:
        # a function under contract was renamed or removed: the contracts no longer apply to the tree -- undecided (exit 2), not a checker crash and not a violation
        if ' not found in ' in str(e):
            rep.add(core.Ob(f'{a.prop}/{str(e).split(" not found in ")[0]}/engine-subset', None, 'extraction', core.UNKNOWN, 0.0, detail=f'function under contract not found: {e}', clause='the functions under contract exist under their names'))
        else:
            traceback.print_exc(); rep.errors.append('engine crash: ' + traceback.format_exc().strip().splitlines()[-1])
    except Exception:
        traceback.print_exc()
        rep.errors.append('engine crash: ' + traceback.format_exc().strip().splitlines()[-1])
    code = rep.finish()
    if a.update_lock:
        if code == 0:
            core.update_lock(a.prop, rep.obs); print(f'lock updated for {a.prop}: {len(rep.obs)} obligations')
        else: print('lock NOT updated (run did not exit 0)')
    sys.exit(code)

if __name__ == '__main__':
    main()
