"""Regenerates /verif/MANIFEST.json from the table below (kept in one place so the manifest is valid at every commit)."""
import json, os, sys
V = os.path.dirname(os.path.dirname(os.path.abspath(__file__)))

CLAIMED = {
 'C15': dict(
   technique='contract-based deductive verification: AST symbolic executor (pyvc) over the real buffer_to_tensors / parse_op_tensors / _compatible_* / _check_buffer_sharing / instruction validity code with loop invariants; compatibility lemma over an uninterpreted parameter equality; exhaustive native tables for quantize_tensor idempotence',
   level='proof',
   text='buffer_to_tensors maps every buffer to exactly the operand uses on it (all subgraphs, with multiplicity); _compatible_tensor_params => same source class and, for quantized sources, equal parameters; _check_buffer_sharing returning normally => the pairwise conclusion for every listed buffer (pivot argument checked by the solver, for any number of sharers); a tensor cannot be both quantized and unquantized; quantize_tensor writes a function of the parameters only (applying it twice / for two sharers with equal parameters gives the same bytes).',
   note='Known finding (class-excluded, witness replayed every run): a tensor on a data-bearing buffer that is not an operand of any operator is invisible to the check. Which consumer entry actually quantizes the buffer (generator/performer composition) and the one-step numeric bound (C05/C17) only through the bounded end-to-end stand-in; dataclass equality of parameters trusted to be an equivalence.',
   design='§4 C15'),
 'C16': dict(
   technique='contract-based deductive verification: AST symbolic executor (pyvc) over the real _serialize_large_model / _process_constant_map (bytes as integer lists, while loops cut by invariants, ghost layout function with induction lemmas), typed quantifier instantiation -> QF VCs (z3)',
   level='proof',
   text='For any number of buffers and any data lengths: the constant map is index-aligned with the buffers; after the two passes every buffer with at least one byte of data has a 16-byte aligned offset, size = data length, its region is in bounds, regions are increasing and disjoint, the region holds exactly the constant, buffers without data and zero-length constants are untouched (the latter stay embedded: repository fix 45a6991), the total length is a multiple of 16; pass 2 reproduces the lengths of pass 1 (ghost layout function L). The size threshold selects the path on the same model object.',
   note='ASSUMED contract of the external serializer (length independent of the values of non-zero offset/size fields; its applicability - fields non-zero at both calls - is a discharged call-site obligation, for every externalised buffer; the former precondition "constants are non-empty" is gone). Partial correctness (termination of the padding loops not verified). Interpreter load / identical outputs only by the bounded stand-in through the AI_EDGE_QUANTIZER_VERIF hook.',
   design='§4 C16'),
 'C17': dict(
   technique='contract-based deductive verification: CPython-executed symbolic arrays over the real numpy code -> QF nonlinear real/integer VCs (z3, cvc5), IEEE binary32 VCs for finiteness; spec-level lemma chains',
   level='proof',
   text='Every function of uniform_quantize_tensor.py on the quantize/dequantize/params path is verified against a reference contract written from the property text '
        '(reference scale/zero-point formulas, clip(rint(x/s+zp)), (q-zp)*s with machine-integer dtypes), for bit widths 4/8/16 x both symmetries and arbitrary real inputs; '
        'the laws of the property (range, zero point, coverage, monotonicity, half-step round trip, code identity) are then lemmas over the reference functions for an arbitrary integer range. '
        'All inputs, no bound; counter-models are replayed on the real code with real numpy arrays.',
   note='Trusted: numpy elementwise = pointwise lifting, np.rint axioms (within 1/2, monotone, identity on integers), np.clip, numpy shape rules (taken from numpy itself). '
        'float32 arithmetic is treated as real arithmetic for the metric laws; finiteness/sign of the scale is re-checked in z3 binary32. Rank-0 tensors only through a bounded stand-in. '
        'Known finding: asymmetric range overflow in binary32.',
   design='§4 C17'),
}

CLAIMED.update({
 'C01': dict(
   technique='contract-based deductive verification: AST symbolic executor over the real functions with sidecar contracts (Boogie-style heap, loop invariants, calls by contract), typed quantifier instantiation -> QF VCs (z3); bounded-scope refutation + native replay',
   level='proof',
   text='Well-formedness (indices in range, single producer, execution order, graph outputs in range, inserted op placed after the producer and before the first consumer) is proved as a postcondition of the real insert_quant / insert_dequant / add_op_code / add_new_activation_tensor for every graph size, operand count and consumer list (ghost producer map; all loops by invariant). '
        'The performer bookkeeping (_create_op_id_map, _update_op_id_map, _apply_single_transformation, _update_instructions), the graph facts every instruction is built from (_tensor_info_generator: one record per tensor, producer = first operator that outputs it, consumers = marker first then every reader once, ascending), model-wide tensor-name uniqueness (_check_tensor_names_are_unique) uniqueness of inserted names (get_unique_tensor_name) and the signature remapping (_remap_signature_outputs: signature entries keep naming existing tensors) are under contract as well. The vertical optimisation of the instruction generator (_apply_vertical_optimization: which instruction(s) replace each consumer rule, producer rule kept iff it still has consumers, list.remove never raises) and _produce_transformation_for_vertical_opt (one instruction per consumer group, every member named once, for an arbitrary enumeration of the group set) are under contract, and so is the COMPOSITION _quant_params_to_transformation_insts (modular, callees by contract: layout of the instruction list = producer rules but the last ++ vertical result ++ remaining consumer instructions, every callee called with the arguments and under the whole precondition its contract states, validity check on the returned record; 74 obligations); its two callees without a functional contract (_group_consumer_transformations, the second _produce_* builder) have their frames discharged by the may-mutate analysis and their return value by an AST pattern; what they COMPUTE (grouping, laminarity) is covered only by labelled bounded stand-ins.',
   note='Unchecked: LiteRT allocate/invoke (external runtime); flatbuffer serializer fidelity; object-API classes modelled as attribute bags; numpy int32 index arrays as int lists. _apply_transformations / transform_graph are dataflow patterns on the real AST. Known finding: LiteRT aborts the process for a 16-bit ADD with a degenerate calibrated output range (replayed in a child process).',
   design='§4 C01'),
 'C11': dict(
   technique='contract-based deductive verification: AST symbolic executor over the real RecipeManager code (ordered-map heap model, nested loop invariants, try/except, calls by contract), typed quantifier instantiation -> QF VCs (z3)',
   level='proof',
   text='add_quantization_config is proved against the abstract ordered view (star resets the scope in place, same operator replaced in place, otherwise appended, new regex appended in first-insertion order, other scopes untouched, state unchanged when the support check raises, raises only then) and get_quantization_configs against the recursive "last applicable rule" spec transcribed from the property, for any number of scopes and rules; resolution performs no heap store (purity). search(regex, scope) and supported(alg, op, cfg) are uninterpreted, exactly as in the property.',
   note='re.search / support check uninterpreted pure functions (ValueError-only: C13); configs compared by abstract identity; load = clear + fold(add) is a syntactic dataflow obligation; histories additionally compared with a Python transcription of the spec in a bounded stand-in.',
   design='§4 C11'),
 'C12': dict(
   technique='contract-based verification by exhaustive native execution of the real to_dict/from_dict/__post_init__/RecipeManager code over the finite config skeleton with opaque integers (parametricity => all integers)',
   level='proof',
   text='from_dict(json(to_dict(c))) == c for every constructible config skeleton (920 shapes x opaque integers, enum- and string-valued), rule-level round trip for the three algorithms, every shipped recipe file loads and the default recipes re-export to themselves; complete by parametricity because no integer is ever inspected (an inspection raises).',
   note='JSON modelled as identity on opaque ints (real json module otherwise). "Same model bytes" follows from C11 (resolution is a function of the rule list) and C14; not re-executed. Histories of update/load calls only as a bounded stand-in.',
   design='§4 C12'),
 'C13': dict(
   technique='contract-based verification by exhaustive native execution of the real acceptance / resolution / materialisation-guard functions over the full finite (op, config, algorithm) lattice of the property',
   level='proof',
   text='accept <=> policy membership, ValueError-only refusal, silent fallback under *, and no late Python-side failure for every accepted pair, over all 47,040 lattice points (24 selectors x 980 configs x 2 algorithms): the lattice is finite, so the enumeration is a complete decision of these clauses.',
   note='Not decided: the interpreter prepares the model and its outputs track the float model (external LiteRT runtime).',
   design='§4 C13'),
 'C02': dict(
   technique='contract-based deductive verification: AST symbolic executor over the real insert_quant/insert_dequant and TransformationPerformer code with sidecar contracts (whole-view postconditions, frames, ghost op-id invariant), typed quantifier instantiation -> QF VCs (z3)',
   level='proof',
   text='Skeleton clauses as whole-view postconditions of the real insert_quant/insert_dequant (original operators keep object, order, opcode, outputs; ONLY the listed consumers are rewired, every other operand of every operator unchanged; graph outputs rewired iff the graph-output marker is listed; graph inputs, tensor names/shapes/buffers unchanged) and the op-id bookkeeping of _apply_single_transformation/_update_op_id_map (arguments handed to the transformation are the current positions of exactly the listed operators; map re-established) for all graph sizes. Signature remapping (_remap_signature_outputs: every signature output that named an old graph output names the corresponding new one, for any signature/subgraph arrangement) and _tensor_info_generator are under contract, as are _apply_vertical_optimization, _produce_transformation_for_vertical_opt and the composition _quant_params_to_transformation_insts (callees by contract, call-site obligations = their whole preconditions); the orchestration of the performer (_apply_transformations, transform_graph) as dataflow patterns; what consumer grouping computes only by the labelled bounded end-to-end stand-in.',
   note='Unchecked: serializer fidelity; object-API attribute-bag model; _apply_transformations / transform_graph are dataflow patterns on the real AST; _group_consumer_transformations and the second _produce_* builder have frames (may-mutate analysis) and return-value patterns only; their results are covered by the bounded stand-in. ASSUMED in the composition proof: a Python list object is never a TransformationInst record (typing).',
   design='§4 C02'),
 'C18': dict(
   technique='contract-based deductive verification: CPython-executed symbolic arrays (metrics, dequantisation) -> QF VCs (z3); AST symbolic executor (pyvc, ordered-map model with pop) for ComparisonResult.add_new_signature_results, compare_model, validate wiring',
   level='proof',
   text='Metric laws (MSE >= 0, 0 on equal arguments, symmetric; median ratio >= 0, 0 on equal; ValueError iff sizes differ; sanitising identity on finite data) for all sizes and values; partition-by-pop bookkeeping (every name in exactly one of inputs/outputs/constants/intermediates, values preserved, KeyError only outside the precondition); compare_model pairs tensors by name, one compare_fn(target, reference) per sample, mean over samples, one add per signature; dequantisation (q - zp) * scale and dtype->bits table.',
   note='Interpreter reads / name lists / details are uninterpreted (assumed sample-independent); real arithmetic for floats; np.mean/np.median axiomatised; self-comparison = 0 stated over the flatbuffer tensors (kernel temporaries such as BatchMatMul_scratch_buffer are reported by the library with run-dependent values: recorded as an observation); generated-models quantifier only through a bounded stand-in.',
   design='§4 C18'),
 'C19': dict(
   technique='contract-based deductive verification: frame (modifies) clauses and subgraph-local postconditions of the real transformation and performer functions, discharged by z3 via the AST symbolic executor',
   level='proof',
   text='Every heap store of insert_quant/insert_dequant/add_op_code/add_new_activation_tensor is checked against a frame that admits only objects of the instruction\'s own subgraph, the shared op-code table (extended, existing entries fixed) and fresh objects; _update_op_id_map/_apply_single_transformation leave the op-id maps of every other subgraph untouched. Hence the final state of subgraph i is a function of its own instructions.',
   note='Assumes object graphs of different subgraphs are disjoint. Name-keyed plan generation and shared constants (C15) are not re-proved here; the end-to-end comparison (subgraph i of a two-subgraph model vs the stand-alone subgraph, by tensor name) is a labelled bounded stand-in.',
   design='§4 C19'),
 'C03': dict(
   technique='contract-based deductive verification: exhaustive native execution of the real mode-selection function over the finite config skeleton with opaque integers; AST symbolic executor (pyvc) for the list helpers of materialize_standard_op, _get_params_for_no_quant_op, insert_quant/insert_dequant dtype postconditions and the bit-width->dtype tables',
   level='proof',
   text='Mode table (SRQ / DRQ / weight-only / blockwise rows x inbound x constant) of get_tensor_transformations for every constructible config (integers opaque => all widths); alignment / ignored-operand bookkeeping helpers of materialize_standard_op and the no-quantize path proved for all operand counts; inserted QUANTIZE/DEQUANTIZE convert between the dtypes their neighbours require; width->dtype tables. The instruction generator: _apply_vertical_optimization, _produce_transformation_for_vertical_opt and the composition _quant_params_to_transformation_insts (layout of the instruction list, every callee under its whole precondition) are under contract. The composition of the helpers inside materialize_standard_op, and what consumer grouping and the second _produce_* builder compute (hence the dtype algebra of the whole instruction list), are covered by labelled bounded stand-ins only.',
   note='Bounded (not proved): materialize_standard_op as a whole (251,944 synthetic ops), instruction-list dtype algebra (<= 4 consumers, 2 parameter classes), bias / fp16 materialisation clauses. Serializer fidelity trusted for byte identity of untouched constants. A counting identity used as precondition of _merge_materialized_tensors is not machine checked.',
   design='§4 C03'),
 'C04': dict(
   technique='contract-based deductive verification: CPython-executed symbolic arrays over the real parameter/statistics/bias code -> QF VCs (z3 LIA/NRA); exhaustive native execution of the real materialize functions over the finite (op, bits, granularity, rank) tables',
   level='proof',
   text='_get_tensor_quant_params / tensor_zp_scale_from_min_max equal the reference min/max formulas for 4/8/16 bit x symmetry x granularity for all statistics; bias scale = input scale x weight scale per channel, zero point 0, 32/64 bit; fixed softmax/logistic/tanh ranges; same-scale ops share (scale, zero point, bits, symmetry, dimension) of their input (concatenation: of the output); quantized-dimension table and its agreement with the reduce-dims of the statistics for every (op, rank, granularity); activation configs of the policy are all tensor-wise. Reference values are written in the check from the TFLite spec, not read from the code.',
   note='float arithmetic treated as real arithmetic; numpy reductions (min/max) trusted (attainment only via a bounded stand-in); statistics being the true ones is C09; BLOCKWISE / emulated sub-channel not under contract; rank <= 5.',
   design='§4 C04'),
 'C05': dict(
   technique='contract-based deductive verification: spec-level lemma chain (z3 NRA) for the decode bound, bit-vector VCs from the real _pack_data executed on a symbolic byte array, CPython-executed symbolic arrays for bias/params, exhaustive native tables for quantize_tensor and every registered materialize path',
   level='proof',
   text='|dequant(quant(x)) - x| <= s/2 (symmetric) / s (asymmetric) for every x in the statistics range and every integer range (lemma chain over the reference functions, linked to the code by C17/C04); int4 nibble packing for arbitrary length and index; quantize_tensor writes exactly pack(bytes(quantized_data)), dtype table, scale/zeroPoint/dimension fields, under the precondition "stored data <=> quantized_data present", which every registered materialize path and every call site is shown to establish; fp16 constants are astype(float16) of the originals; bias = clip(rint(bias/scale)).',
   note='float32 arithmetic treated as real arithmetic (binary32 decode only sampled in a bounded stand-in); numpy astype(float16) = round-to-nearest-even trusted; tobytes/frombuffer trusted; int64 bias saturation at +2^63 noted as an observation outside the property (saturation exempted).',
   design='§4 C05'),
 'C08': dict(
   technique='contract-based verification of totality: census of every raise site (and list.remove) on the call trees of load/calibrate/quantize from the real ASTs (call graph of vlib/effects.py), each site discharged as unreachable under the shipped-recipe precondition by call-graph gates + exhaustive native evaluation of the real guards over the finite (recipe rule x operator x tensor role) space, pyvc/z3 for the dtype tables, or a stated precondition',
   level='proof',
   text='58 raise sites on 164 functions; every site that can be reached only through recipe loading / resolution, registry look-ups, the mode table, dtype tables or operator-signature guards is shown unreachable for the shipped recipes (enumerated from the recipes directory and recipe.py on every run); a new raise site, or a site that loses its proof, fails a named obligation. The one genuinely reachable site (buffer-sharing rejection of one tensor whose consumers need different parameters) is a listed known finding with a class predicate; a second one (list.remove in the requantize branch) was repaired.',
   note='Pre8 = shipped recipe unchanged, converter normal form (one buffer per tensor, unique names, float32), single-subgraph models; 9 sites hold by these preconditions (guard text re-matched every run). 5 numeric-kernel / validity sites are not obligations (unreached in 50,000 bounded pipeline runs, listed). Implicit raises other than list.remove only through the bounded public-API stand-in. The class-exclusion argument for the known finding is bounded in the number of consumers. History dependence (one Quantizer re-used for several shipped recipes) only through a bounded stand-in: every ordered pair of shipped recipe files x 3 models, second run vs a fresh Quantizer.',
   design='§4 C08'),
 'C09': dict(
   technique='contract-based deductive verification: AST symbolic executor (pyvc) over the real Calibrator code (whole calibrate loop with callee contracts, _update_qsvs, load_model_qsvs, _initialize_model_qsvs); CPython-executed symbolic arrays for the moving average and min/max collection; spec-level induction lemmas for fold/resume',
   level='proof',
   text='Moving-average step = 0.95*old + 0.05*new (first sample initialises) for both statistics; _update_qsvs updates exactly the reported, non-ignored names once and returns them; the per-sample loop of calibrate folds every selected tensor exactly once per sample with that sample\'s content-map statistic, in dataset order, resetting the interpreter after each sample; load_model_qsvs stores a deep copy (previous result untouched); fold(fold(s,D1),D2) = fold(s,D1++D2) by induction given that the step reads only (state, sample); min_max_calibrate records min/max of exactly the runtime operands; constants: init_tensor_min_max (C04).',
   note='Interpreter assumed to return the true per-sample tensors and to be stateless after reset_all_variables; binary32 arithmetic treated as real; np.min/np.max attainment trusted; QSVs abstract values in the bookkeeping proofs; end-to-end agreement with own interpreter runs only in a bounded stand-in.',
   design='§4 C09'),
 'C10': dict(
   technique='contract-based deductive verification: both _get_op_scope copies verified against one spec function (AST symbolic executor, loop invariant, string theory as uninterpreted concat+length, z3); call-site/dataflow obligations on the real ASTs of the three selection loops',
   level='proof',
   text='Calibrator._get_op_scope and ParamsGenerator._get_op_scope are each proved equal to join(output names != -1, each followed by ";") for every operator and output count, so the two phases interpret a regex against the same string; the three loops that resolve a rule (calibrate, _initialize_model_qsvs, generate_quantization_parameters) are checked to pass (op key, scope) of the same operator with the same skip conditions, and calibrate to read the tensor contents of the subgraph it walks.',
   note='Assumes the interpreter wrapper returns the tensor names of the requested subgraph; regex search and rule resolution are pure (C11). The call-site obligations are syntactic patterns on the real AST (a refactoring that keeps the semantics may need the contract updated: reported as a failed obligation with no-failing-input-found). "never fails for missing statistics" end to end: bounded stand-in only.',
   design='§4 C10'),
 'C14': dict(
   technique='contract-based verification of frame (modifies) / reads clauses by a conservative interprocedural may-mutate-a-parameter analysis over the real ASTs (callee summaries to a fixpoint, registry dispatch resolved from source), with native before/after replay',
   level='proof',
   text='For every public entry point and every caller-owned parameter the modifies clause "not this parameter" is decided over the whole call tree (240 functions, dynamic dispatch resolved from algorithm_manager source); history independence = no write to module globals / no run-time registration on the call trees, fresh worker objects per API call; set-iteration sites on the quantize call tree typed as int sets. A reported may-mutation is replayed natively (deep comparison of the argument before/after the real API call).',
   note='Flow-insensitive syntactic analysis (no reflection/exec on the call trees, scanned); effects of C extensions (numpy, flatbuffers, LiteRT interpreter) come from an explicit trusted table; CPython small-int set iteration order is deterministic; TensorFlow serializer determinism assumed.',
   design='§4 C14'),
})

NOT_APPLICABLE = {
 'C06': 'equivalence of two executions inside the LiteRT C++ interpreter; no function of /repo computes or constrains those outputs, so no contract on /repo can express it (DESIGN §7); its structural preconditions are decided under C03-C05',
 'C07': 'numerical closeness of the LiteRT integer kernels to the float kernels; the deciding code is the external runtime, outside any contract on /repo (DESIGN §7)',
}
PENDING = 'contracts for this property are not built yet in this revision (work in progress; see DESIGN §8 order of work)'

def main():
    props = [json.loads(l)['id'] for l in open(os.path.join(V, 'properties.jsonl'))]
    checks = []
    for pid in props:
        if pid not in CLAIMED: continue
        c = CLAIMED[pid]
        checks.append(dict(property_id=pid, quick_cmd=f'./vrun checks/run.py {pid} --tier quick', thorough_cmd=f'./vrun checks/run.py {pid} --tier thorough',
                           evidence_file=f'evidence/{pid}.json', replay_cmd_template=f'./vrun checks/run.py {pid} --replay {{path}}', engine='pyvc',
                           level_claimed=dict(category=c['level'], text=c['text'], design_ref=c['design']), level_note=c['note'], technique=c['technique']))
    na = [dict(property_id=p, reason=NOT_APPLICABLE.get(p, PENDING)) for p in props if p not in CLAIMED]
    m = dict(version=1, setup_cmd='sh setup.sh',
             hooks=dict(guard='AI_EDGE_QUANTIZER_VERIF', enable='checks export AI_EDGE_QUANTIZER_VERIF=1 (set by ./vrun); python package, nothing to rebuild',
                        baseline_off_cmd='sh checks/baseline.sh', source_commits=['00a53e7'], add_only=True),
             engines=[dict(name='pyvc', path='vlib/', serves_properties=sorted(CLAIMED), kind_free_text='VC generation from the real Python source (AST symbolic executor with sidecar contracts; CPython-executed symbolic numpy arrays; opaque-integer exhaustive execution of finite skeletons; frame analysis) discharged by z3 / cvc5')],
             checks=checks, not_applicable=na,
             notes='Contract-based deductive verification of the real code; see DESIGN.md. Replay files are written under out/. Known findings: known_findings.json.')
    with open(os.path.join(V, 'MANIFEST.json'), 'w') as f: json.dump(m, f, indent=1)
    import jsonschema
    jsonschema.validate(m, json.load(open('/root/.vp/MANIFEST.schema.json')))
    for c in checks:
        p = os.path.join(V, c['evidence_file'])
        if os.path.exists(p): jsonschema.validate(json.load(open(p)), json.load(open('/root/.vp/EVIDENCE.schema.json')))
    print('MANIFEST ok:', [c['property_id'] for c in checks], 'not_applicable:', [n['property_id'] for n in na])

if __name__ == '__main__': main()
