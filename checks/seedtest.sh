#!/bin/sh
# usage: sh checks/seedtest.sh <patch.diff> <Cxx> [<Cyy> ...]
# Runs the quick checks against a seeded change WITHOUT touching /repo: a scratch worktree of /repo's HEAD (plus /repo's uncommitted changes, if any)
# gets the patch, the checks read it through VERIF_REPO, evidence and replay files go to a scratch directory, everything is removed afterwards.
# (The equivalent in-place procedure: git -C /repo apply <patch>; ./vrun checks/run.py Cxx; git -C /repo checkout -- .)
P="$(cd "$(dirname "$1")" && pwd)/$(basename "$1")"; shift
V="$(cd "$(dirname "$0")/.." && pwd)"; WT=$(mktemp -d /tmp/seedwt.XXXXXX); rmdir $WT
git -C /repo worktree add -q --detach $WT HEAD || exit 9
git -C /repo diff | (cd $WT && git apply --allow-empty 2>/dev/null)
(cd $WT && git apply "$P") || { echo "patch does not apply"; git -C /repo worktree remove --force $WT; exit 9; }
for c in "$@"; do
  (cd $V && VERIF_REPO=$WT VERIF_EVIDENCE_DIR=$WT/.verif_evidence VERIF_OUT_DIR=$WT/.verif_out ./vrun checks/run.py $c 2>&1 | grep -v "^I0000\|^WARNING\|^W0000" | grep "^\[$c\]\|^VIOLATION\|^UNDECIDED\|^ENGINE\|failed obligation" | cut -c1-260 | head -12; )
done
git -C /repo worktree remove --force $WT
