#!/bin/sh
# usage: sh checks/seedtest.sh <patch.diff> <Cxx> [<Cyy> ...]  — applies a seeded change to /repo, runs the quick checks, reverts.
P="$(cd "$(dirname "$1")" && pwd)/$(basename "$1")"; shift
cd /repo && git diff --quiet || { echo "/repo not clean"; exit 9; }
git -C /repo apply "$P" || exit 9
for c in "$@"; do
  (cd /verif && ./vrun checks/run.py $c 2>&1 | grep -v "^I0000\|^WARNING\|^W0000" | grep "^\[$c\]\|^VIOLATION\|^UNDECIDED\|^ENGINE\|failed obligation" | cut -c1-260 | head -12; )
done
git -C /repo checkout -- . ; git -C /repo status --short | grep -v egg-info
