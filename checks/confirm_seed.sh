#!/bin/sh
# usage: sh checks/confirm_seed.sh <dir with patch.diff + demo.py> ; confirms in a scratch worktree: tests unchanged, demo fails with the change, passes without
D="$1"; WT=/tmp/confirm_wt_$$
git -C /repo worktree add -q --detach $WT HEAD || exit 9
cd $WT
PYTHONPATH=$WT /venv/bin/python "$D/demo.py" >/dev/null 2>&1; clean=$?
git apply "$D/patch.diff" || { echo "patch does not apply"; git -C /repo worktree remove --force $WT; exit 9; }
OUT=$(mktemp /tmp/seedjunit.XXXXXX.xml)
/venv/bin/python -m pytest -q -p no:cacheprovider --timeout=900 --continue-on-collection-errors --junitxml="$OUT" >/dev/null 2>&1
tests=$(/venv/bin/python - "$OUT" <<'PY'
import json, sys, xml.etree.ElementTree as ET
base = set(json.load(open('/root/.vp/BASELINE.json'))['stable_pass']); ok = set()
for tc in ET.parse(sys.argv[1]).getroot().iter('testcase'):
    if not any(ch.tag in ('failure', 'error', 'skipped') for ch in tc): ok.add(f"{tc.get('classname')}::{tc.get('name')}")
print(len(base - ok))
PY
)
PYTHONPATH=$WT /venv/bin/python "$D/demo.py" >/dev/null 2>&1; changed=$?
rm -f "$OUT"; cd /; git -C /repo worktree remove --force $WT
echo "$D: baseline-tests-missing=$tests demo-on-clean-exit=$clean demo-on-changed-exit=$changed"
[ "$tests" = "0" ] && [ "$clean" = "0" ] && [ "$changed" = "1" ]
