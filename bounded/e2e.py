"""Bounded stand-in (labelled bounded, never counted as proved): small graphs x per-op modes through the REAL public pipeline
(Quantizer.update_quantization_recipe / calibrate / quantize), native check of the structural clauses of C01 / C02 / C03 on the
returned bytes, plus LiteRT allocate+invoke.  Also the replay vehicle for end-to-end counterexamples.
Scope: see enumerate_cases()."""
import sys, os, itertools, random, collections, traceback, json
os.environ.setdefault('TF_CPP_MIN_LOG_LEVEL', '3')
import numpy as np
from bounded.mk import *
from ai_edge_quantizer import quantizer, qtyping
from ai_edge_quantizer.utils import tfl_interpreter_utils as tiu
from tensorflow.lite.tools import flatbuffer_utils as fu
import absl.logging; absl.logging.set_verbosity('error')
N = qtyping.TFLOperationName
FLOAT, INT8, INT16, INT32 = 0, 9, 7, 2
UN = {'TANH': B.TANH, 'LOGISTIC': B.LOGISTIC, 'ABS': B.ABS}
BI = {'ADD': (B.ADD, S.BuiltinOptions.AddOptions, S.AddOptionsT), 'MUL': (B.MUL, S.BuiltinOptions.MulOptions, S.MulOptionsT)}
OPNAME = {'TANH': N.TANH, 'LOGISTIC': N.LOGISTIC, 'ADD': N.ADD, 'MUL': N.MUL, 'FC': N.FULLY_CONNECTED, 'ADDC': N.ADD, 'MULC': N.MUL}
BIC = {'ADDC': 'ADD', 'MULC': 'MUL'}            # binary op whose second operand is ONE constant tensor 'c' shared by every such op of the graph
W = (np.arange(16, dtype=np.float32).reshape(4, 4) - 7.5) / 9.0

def cfg(mode):
    T = qtyping.TensorQuantizationConfig; O = qtyping.OpQuantizationConfig; CP = qtyping.ComputePrecision
    if mode == 'srq8': return O(activation_tensor_config=T(8, False), weight_tensor_config=T(8, True), compute_precision=CP.INTEGER)
    if mode == 'srq16': return O(activation_tensor_config=T(16, True), weight_tensor_config=T(8, True), compute_precision=CP.INTEGER)
    if mode == 'drq8': return O(weight_tensor_config=T(8, True), compute_precision=CP.INTEGER)
    if mode == 'wo8': return O(weight_tensor_config=T(8, False), compute_precision=CP.FLOAT, explicit_dequantize=True)
    raise ValueError(mode)

def build(spec):
    """spec: dict(ops=[(kind, in_a, in_b)], outs=[tensor ids]) ; tensor 0 = x, op i output = tensor 1+i ; FC weights appended"""
    tensors = [('x', [1, 4], FLOAT, None)] + [(f't{i}', [1, 4], FLOAT, None) for i in range(len(spec['ops']))]
    ops = []
    for i, (kind, a, b) in enumerate(spec['ops']):
        o = 1 + i
        if kind in UN: ops.append((UN[kind], [a], [o], None))
        elif kind in BI:
            code, ot, oc = BI[kind]; ops.append((code, [a, b], [o], (ot, oc())))
        elif kind in BIC:
            if not any(t[0] == 'c' for t in tensors): tensors.append(('c', [1, 4], FLOAT, np.array([[0.5, -1.25, 2.0, 0.75]], dtype=np.float32)))
            cid = next(k_ for k_, t in enumerate(tensors) if t[0] == 'c'); code, ot, oc = BI[BIC[kind]]; ops.append((code, [a, cid], [o], (ot, oc())))
        elif kind == 'FC':
            tensors.append((f'w{i}', [4, 4], FLOAT, W + i)); wid = len(tensors) - 1
            ops.append((B.FULLY_CONNECTED, [a, wid, -1], [o], (S.BuiltinOptions.FullyConnectedOptions, S.FullyConnectedOptionsT())))
    return model(tensors, ops, [0], spec['outs'])

def parse(mb): return fu.read_model_from_bytearray(bytearray(mb))

def check(spec, modes, mb, qb):
    """returns list of failure tags"""
    fails = []
    m0, m1 = parse(mb), parse(qb)
    g0, g1 = m0.subgraphs[0], m1.subgraphs[0]
    nt = len(g1.tensors)
    codes = [c.builtinCode for c in m1.operatorCodes]
    # ---- C01 structural
    names = [t.name for t in g1.tensors]
    if len(set(names)) != len(names): fails.append('C01:dup-names')
    prod = {}
    for j, op in enumerate(g1.operators):
        if not (0 <= op.opcodeIndex < len(codes)): fails.append('C01:opcode-range')
        for t in list(op.inputs) + list(op.outputs):
            if not (-1 <= t < nt): fails.append('C01:tensor-range')
        for t in op.outputs:
            if t in prod: fails.append('C01:two-producers')
            prod[t] = j
    for j, op in enumerate(g1.operators):
        for t in op.inputs:
            if t >= 0 and t in prod and prod[t] >= j: fails.append('C01:exec-order')
            if t >= 0 and t not in prod and t not in list(g1.inputs) and (m1.buffers[g1.tensors[t].buffer].data is None): fails.append('C01:dangling-operand')
    for t in list(g1.inputs) + list(g1.outputs):
        if not (0 <= t < nt): fails.append('C01:io-range')
    # ---- C02 skeleton
    QDQ = (B.QUANTIZE, B.DEQUANTIZE)
    alias = {}
    for op in g1.operators:
        if codes[op.opcodeIndex] in QDQ: alias[op.outputs[0]] = op.inputs[0]
    def root(t):
        while t in alias: t = alias[t]
        return t
    orig_ops = [op for op in g1.operators if codes[op.opcodeIndex] not in QDQ]
    if len(orig_ops) != len(g0.operators): fails.append('C02:op-count')
    else:
        c0 = [c.builtinCode for c in m0.operatorCodes]
        for a, b in zip(g0.operators, orig_ops):
            if c0[a.opcodeIndex] != codes[b.opcodeIndex]: fails.append('C02:op-code')
            if [root(t) for t in b.inputs] != list(a.inputs): fails.append('C02:operand-wiring')
            if [root(t) for t in b.outputs] != list(a.outputs): fails.append('C02:output-wiring')
    for i, t in enumerate(g0.tensors):
        u = g1.tensors[i]
        if u.name != t.name or list(u.shape) != list(t.shape): fails.append('C02:tensor-renamed')
    if [root(t) for t in g1.outputs] != list(g0.outputs): fails.append('C02:graph-outputs')
    if list(g1.inputs) != list(g0.inputs): fails.append('C02:graph-inputs')
    s0, s1 = m0.signatureDefs[0], m1.signatureDefs[0]
    if [(x.name) for x in s1.outputs] != [(x.name) for x in s0.outputs]: fails.append('C02:sig-names')
    if [x.tensorIndex for x in s1.outputs] != list(g1.outputs): fails.append('C02:sig-out!=graph-out')
    if [x.tensorIndex for x in s1.inputs] != list(g1.inputs): fails.append('C02:sig-in!=graph-in')
    for t in list(g1.outputs) + list(g1.inputs) + [x.tensorIndex for x in s1.outputs]:
        if g1.tensors[t].type != FLOAT: fails.append('C02:io-not-float32')
    # ---- C03 per operand dtype
    if len(orig_ops) == len(g0.operators):
        for (kind, a, b), mode, op in zip(spec['ops'], modes, orig_ops):
            ins = [t for t in op.inputs if t >= 0]; outs = list(op.outputs)
            ty = lambda t: g1.tensors[t].type
            if mode == 'none' or kind == 'ABS':
                if any(ty(t) != FLOAT for t in ins + outs): fails.append('C03:noquant-op-sees-nonfloat')
                if any(root(t) != t and False for t in ins): pass
            elif mode in ('srq8', 'srq16'):
                want = INT8 if mode == 'srq8' else INT16
                acts = [ins[0]] + ([ins[1]] if kind in BI else []) + outs
                if any(ty(t) != want for t in acts): fails.append(f'C03:{mode}-operand-wrong-dtype')
                if kind == 'FC' and ty(ins[1]) != INT8: fails.append('C03:srq-weight-dtype')
            elif mode == 'drq8':
                if ty(ins[0]) != FLOAT or ty(outs[0]) != FLOAT or ty(ins[1]) != INT8: fails.append('C03:drq-dtypes')
            elif mode == 'wo8':
                w = ins[1]
                if ty(ins[0]) != FLOAT or ty(outs[0]) != FLOAT or ty(w) != FLOAT or w not in alias or ty(alias[w]) != INT8: fails.append('C03:wo-dtypes')
    return fails

def run_one(spec, modes, data):
    mb = build(spec)
    qt = quantizer.Quantizer(bytearray(mb))
    for i, ((kind, a, b), mode) in enumerate(zip(spec['ops'], modes)):
        if mode != 'none' and kind in OPNAME:
            qt.update_quantization_recipe(f'^t{i}', OPNAME[kind], cfg(mode))
    try:
        cal = qt.calibrate(data) if qt.need_calibration else None
        q = qt.quantize(cal).quantized_model
    except Exception as e:
        return ['RAISE:' + type(e).__name__ + ':' + str(e)[:60]]
    fails = check(spec, modes, mb, q)
    try:
        it = tiu.create_tfl_interpreter(bytes(q)); tiu.invoke_interpreter_signature(it, data[0])
    except Exception as e:
        fails.append('C01:interp:' + str(e)[:70].replace('\n', ' '))
    return fails

def gen_specs(nops, rng, samples):
    kinds = ['TANH', 'LOGISTIC', 'ABS', 'ADD', 'MUL', 'FC']
    out = []
    for _ in range(samples):
        ops = []
        for i in range(nops):
            k = rng.choice(kinds); a = rng.randrange(0, 1 + i); b = rng.randrange(0, 1 + i)
            ops.append((k, a, b if k in BI else -1))
        consumed = {t for (k, a, b) in ops for t in (a, b) if t >= 1}
        sinks = [1 + i for i in range(nops) if (1 + i) not in consumed]
        extra = [t for t in range(1, 1 + nops) if t in consumed and rng.random() < 0.35]
        outs = sorted(set(sinks + extra)); rng.shuffle(outs)
        modes = []
        for (k, a, b) in ops:
            if k == 'ABS': modes.append('none')
            elif k == 'FC': modes.append(rng.choice(['none', 'srq8', 'drq8', 'wo8', 'srq16']))
            else: modes.append(rng.choice(['none', 'srq8', 'srq8', 'srq16']))
        out.append((dict(ops=ops, outs=outs), modes))
    return out


KINDS = ['TANH', 'LOGISTIC', 'ABS', 'ADD', 'MUL', 'FC']
def modes_for(k):
    if k == 'ABS': return ['none']
    if k == 'FC': return ['none', 'srq8', 'drq8', 'wo8', 'srq16']
    return ['none', 'srq8', 'srq16']
def enumerate_cases(max_exhaustive_ops=2, sampled3=0, seed=0):
    """all 1-op graphs; all 2-op graphs over kinds {TANH, ADD, ABS, FC} with every operand wiring, every mode assignment and every
    non-empty output set containing the sinks; plus `sampled3` seeded random 3-op graphs over all kinds"""
    out = []
    for k in KINDS:
        for a in (0,):
            for m in modes_for(k): out.append((dict(ops=[(k, 0, 0 if k in BI else -1)], outs=[1]), [m]))
    if max_exhaustive_ops >= 2:
        K2 = ['TANH', 'ADD', 'ABS', 'FC']
        for k1 in K2:
            for k2 in K2:
                for a2 in (0, 1):
                    for b2 in ((0, 1) if k2 in BI else (-1,)):
                        ops = [(k1, 0, 0 if k1 in BI else -1), (k2, a2, b2)]
                        consumed = {t for (_, a, b) in ops for t in (a, b) if t >= 1}
                        sinks = [t for t in (1, 2) if t not in consumed]
                        for extra in ([], [t for t in (1, 2) if t in consumed]):
                            outs = sorted(set(sinks + extra))
                            if not outs or (extra == [] and False): continue
                            for m1 in modes_for(k1):
                                for m2 in modes_for(k2):
                                    out.append((dict(ops=ops, outs=outs), [m1, m2]))
    rng = random.Random(seed)
    out += gen_specs(3, rng, sampled3)
    # de-duplicate
    seen = set(); res = []
    for spec, modes in out:
        key = json.dumps([spec, modes], sort_keys=True, default=str)
        if key not in seen: seen.add(key); res.append((spec, modes))
    return res
DATA = [{'in0': np.random.RandomState(1).randn(1, 4).astype(np.float32)}]
def special_cases():
    """topologies outside the exhaustive family: ONE constant tensor read by two (static-range) ops in every combination of modes -- quantize() must refuse or return a loadable model"""
    out = []
    for k1, k2 in (('ADDC', 'MULC'), ('ADDC', 'ADDC'), ('MULC', 'ADDC')):
        for m1 in ('none', 'srq8', 'srq16'):
            for m2 in ('none', 'srq8', 'srq16'): out.append((dict(ops=[(k1, 0, -1), (k2, 1, -1)], outs=[2]), [m1, m2]))
    return out

def run_case(case):
    spec, modes = case
    spec = dict(ops=[tuple(o) for o in spec['ops']], outs=list(spec['outs']))
    try: return run_one(spec, list(modes), DATA)
    except Exception as e: return ['CHECKER-CRASH:' + type(e).__name__ + str(e)[:80]]
