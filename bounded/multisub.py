"""Bounded stand-in for C19 (labelled bounded): models with two subgraphs/signatures (different op structure, different tensor numbering)
are quantized through the REAL public API and every subgraph of the result is compared, by tensor name, with the result of
quantizing the single-subgraph model made of that subgraph with the same recipe and the same statistics."""
import itertools, os
os.environ.setdefault('TF_CPP_MIN_LOG_LEVEL', '3')
import numpy as np
from ai_edge_litert import schema_py_generated as S
from tensorflow.lite.tools import flatbuffer_utils as fu
from ai_edge_quantizer import quantizer, qtyping
from ai_edge_quantizer.utils import tfl_interpreter_utils as tiu
import absl.logging; absl.logging.set_verbosity('error')
B = S.BuiltinOperator; N = qtyping.TFLOperationName
W = (np.arange(16, dtype=np.float32).reshape(4, 4) - 7.5) / 9.0

def cfg(mode):
    T = qtyping.TensorQuantizationConfig; O = qtyping.OpQuantizationConfig; CP = qtyping.ComputePrecision
    if mode == 'srq8': return O(activation_tensor_config=T(8, False), weight_tensor_config=T(8, True), compute_precision=CP.INTEGER)
    if mode == 'drq8': return O(weight_tensor_config=T(8, True), compute_precision=CP.INTEGER)
    if mode == 'wo8': return O(weight_tensor_config=T(8, False), compute_precision=CP.FLOAT, explicit_dequantize=True)
    raise ValueError(mode)

def sub_spec(prefix, ops, order):
    """ops: list of (kind, a, b) over activation ids (0 = graph input, 1+i = output of op i). order: 'act-first' | 'weights-first' | 'interleaved'.
    returns dict(tensors=[(name, shape, data)], ops=[(builtin, ins, outs, opts)], inputs, outputs) with LOCAL tensor indices"""
    acts = [f'{prefix}x'] + [f'{prefix}t{i}' for i in range(len(ops))]
    weights = [(f'{prefix}w{i}', W + i) for i, (k, a, b) in enumerate(ops) if k == 'FC']
    if order == 'act-first': names = [(n, None) for n in acts] + weights
    elif order == 'weights-first': names = weights + [(n, None) for n in acts]
    else:
        names = []; wq = list(weights)
        for n in acts:
            names.append((n, None))
            if wq: names.append(wq.pop(0))
        names += wq
    idx = {n: i for i, (n, d) in enumerate(names)}
    olist = []
    for i, (k, a, b) in enumerate(ops):
        o = idx[acts[1 + i]]
        if k == 'TANH': olist.append((B.TANH, [idx[acts[a]]], [o], None))
        elif k == 'ADD': olist.append((B.ADD, [idx[acts[a]], idx[acts[b]]], [o], (S.BuiltinOptions.AddOptions, S.AddOptionsT())))
        elif k == 'FC': olist.append((B.FULLY_CONNECTED, [idx[acts[a]], idx[f'{prefix}w{i}'], -1], [o], (S.BuiltinOptions.FullyConnectedOptions, S.FullyConnectedOptionsT())))
    consumed = {t for (k, a, b) in ops for t in (a, b) if t >= 1}
    outs = [idx[acts[1 + i]] for i in range(len(ops)) if (1 + i) not in consumed]
    return dict(tensors=[(n, [1, 4] if d is None else [4, 4], d) for n, d in names], ops=olist, inputs=[idx[acts[0]]], outputs=outs, key=prefix.rstrip('/'))

def build(subs):
    m = S.ModelT(); m.version = 3; m.description = 'c19'; m.buffers = [S.BufferT()]; m.operatorCodes = []; m.subgraphs = []; m.signatureDefs = []
    for gi, sp in enumerate(subs):
        sg = S.SubGraphT(); sg.name = sp['key'].encode(); sg.tensors = []; sg.operators = []
        for (name, shape, data) in sp['tensors']:
            bb = S.BufferT()
            if data is not None: bb.data = np.frombuffer(np.asarray(data, dtype=np.float32).tobytes(), dtype=np.uint8)
            m.buffers.append(bb); t = S.TensorT(); t.name = name.encode(); t.shape = list(shape); t.buffer = len(m.buffers) - 1; t.type = 0; sg.tensors.append(t)
        for (code, ins, outs, opts) in sp['ops']:
            ci = next((i for i, oc in enumerate(m.operatorCodes) if oc.builtinCode == code), None)
            if ci is None:
                oc = S.OperatorCodeT(); oc.builtinCode = code; oc.deprecatedBuiltinCode = min(code, 127); oc.version = 1; m.operatorCodes.append(oc); ci = len(m.operatorCodes) - 1
            o = S.OperatorT(); o.opcodeIndex = ci; o.inputs = list(ins); o.outputs = list(outs)
            if opts is not None: o.builtinOptionsType, o.builtinOptions = opts
            sg.operators.append(o)
        sg.inputs = list(sp['inputs']); sg.outputs = list(sp['outputs']); m.subgraphs.append(sg)
        sd = S.SignatureDefT(); sd.signatureKey = sp['key'].encode(); sd.subgraphIndex = gi; sd.inputs = []; sd.outputs = []
        for i, t in enumerate(sp['inputs']):
            tm = S.TensorMapT(); tm.name = b'in%d' % i; tm.tensorIndex = t; sd.inputs.append(tm)
        for i, t in enumerate(sp['outputs']):
            tm = S.TensorMapT(); tm.name = b'out%d' % i; tm.tensorIndex = t; sd.outputs.append(tm)
        m.signatureDefs.append(sd)
    return bytes(fu.convert_object_to_bytearray(m))

def quantize(model_bytes, mode, keys):
    qt = quantizer.Quantizer(bytearray(model_bytes))
    qt.update_quantization_recipe('.*', N.FULLY_CONNECTED, cfg(mode))
    if mode == 'srq8': qt.update_quantization_recipe('.*', N.TANH, cfg(mode))
    res = None
    if qt.need_calibration:
        data = [{'in0': np.random.RandomState(7).randn(1, 4).astype(np.float32)}]
        for k in keys: res = qt.calibrate(data, signature_key=k, previous_calibration_result=res)
    return bytes(qt.quantize(res).quantized_model)

def canon(model_bytes, gi):
    """name-keyed canonical form of subgraph gi"""
    m = fu.read_model_from_bytearray(bytearray(model_bytes)); sg = m.subgraphs[gi]
    def tdesc(t):
        if t < 0: return None
        T = sg.tensors[t]; q = T.quantization; d = m.buffers[T.buffer].data
        return (T.name.decode(), int(T.type), tuple(int(x) for x in T.shape), None if q is None or q.scale is None else (tuple(np.round(np.asarray(q.scale, np.float64), 9)), tuple(int(z) for z in q.zeroPoint), int(q.quantizedDimension)),
                None if d is None else bytes(np.asarray(d).tobytes()))
    ops = [(int(m.operatorCodes[op.opcodeIndex].builtinCode), tuple(tdesc(int(t)) for t in op.inputs), tuple(tdesc(int(t)) for t in op.outputs)) for op in sg.operators]
    return dict(ops=ops, inputs=[tdesc(int(t)) for t in sg.inputs], outputs=[tdesc(int(t)) for t in sg.outputs])

def cases():
    structs = {'fc-fc': [('FC', 0, -1), ('FC', 1, -1)], 'fc-tanh': [('FC', 0, -1), ('TANH', 1, -1)], 'tanh-fc-add': [('TANH', 0, -1), ('FC', 1, -1), ('ADD', 1, 2)]}
    out = []
    for (na, nb) in itertools.product(structs, repeat=2):
        for (oa, ob) in (('act-first', 'weights-first'), ('weights-first', 'interleaved'), ('act-first', 'act-first')):
            for mode in ('wo8', 'drq8', 'srq8'): out.append(dict(a=na, b=nb, order_a=oa, order_b=ob, mode=mode))
    return structs, out

def run_case(c, structs=None):
    structs = structs or cases()[0]
    subs = [sub_spec('s0/', structs[c['a']], c['order_a']), sub_spec('s1/', structs[c['b']], c['order_b'])]
    try: qm = quantize(build(subs), c['mode'], [s['key'] for s in subs])
    except Exception as e: return [f'RAISE-multi:{type(e).__name__}:{str(e)[:80]}']
    bad = []
    for gi, sp in enumerate(subs):
        try: qs = quantize(build([sp]), c['mode'], [sp['key']])
        except Exception as e: bad.append(f'RAISE-single{gi}:{type(e).__name__}:{str(e)[:80]}'); continue
        a, b = canon(qm, gi), canon(qs, 0)
        if a != b:
            what = 'operators/wiring' if [(o[0], tuple(t and t[0] for t in o[1]), tuple(t and t[0] for t in o[2])) for o in a['ops']] != [(o[0], tuple(t and t[0] for t in o[1]), tuple(t and t[0] for t in o[2])) for o in b['ops']] else 'dtypes/params/constants'
            bad.append(f'C19:subgraph {gi} of the multi-subgraph result differs from the stand-alone result ({what})')
    return bad
