import numpy as np
from ai_edge_litert import schema_py_generated as S
from tensorflow.lite.tools import flatbuffer_utils as fu
B=S.BuiltinOperator
def tensor(name, shape, buf=0, ttype=0):
    t=S.TensorT(); t.name=name.encode(); t.shape=list(shape); t.buffer=buf; t.type=ttype; return t
def model(tensors, ops, inputs, outputs, consts=None, sig=True):
    """tensors: list[(name,shape,ttype,data|None)], ops: list[(builtin, inputs, outputs, opts)]"""
    m=S.ModelT(); m.version=3; m.description='x'
    m.buffers=[S.BufferT()]
    sg=S.SubGraphT(); sg.name=b'main'; sg.tensors=[]
    for (name,shape,ttype,data) in tensors:
        bb=S.BufferT()
        if data is not None:
            bb.data=np.frombuffer(np.asarray(data).tobytes(),dtype=np.uint8)
        m.buffers.append(bb); b=len(m.buffers)-1
        sg.tensors.append(tensor(name,shape,b,ttype))
    m.operatorCodes=[]; sg.operators=[]
    for (code, ins, outs, opts) in ops:
        idx=None
        for i,oc in enumerate(m.operatorCodes):
            if oc.builtinCode==code: idx=i
        if idx is None:
            oc=S.OperatorCodeT(); oc.builtinCode=code; oc.deprecatedBuiltinCode=min(code,127); oc.version=1; m.operatorCodes.append(oc); idx=len(m.operatorCodes)-1
        o=S.OperatorT(); o.opcodeIndex=idx; o.inputs=list(ins); o.outputs=list(outs)
        if opts is not None:
            o.builtinOptionsType, o.builtinOptions = opts
        sg.operators.append(o)
    sg.inputs=list(inputs); sg.outputs=list(outputs)
    m.subgraphs=[sg]
    if sig:
        sd=S.SignatureDefT(); sd.signatureKey=b'serving_default'; sd.subgraphIndex=0; sd.inputs=[]; sd.outputs=[]
        for i,t in enumerate(inputs):
            tm=S.TensorMapT(); tm.name=('in%d'%i).encode(); tm.tensorIndex=t; sd.inputs.append(tm)
        for i,t in enumerate(outputs):
            tm=S.TensorMapT(); tm.name=('out%d'%i).encode(); tm.tensorIndex=t; sd.outputs.append(tm)
        m.signatureDefs=[sd]
    return bytes(fu.convert_object_to_bytearray(m))
def dump(mb):
    m=fu.read_model_from_bytearray(bytearray(mb)) if not hasattr(mb,'subgraphs') else mb
    for si,sg in enumerate(m.subgraphs):
        print('subgraph',si,'inputs',list(sg.inputs),'outputs',list(sg.outputs))
        for i,t in enumerate(sg.tensors):
            q=t.quantization
            print('  T%d %s type=%d buf=%d shape=%s q=%s'%(i,t.name.decode(),t.type,t.buffer,list(t.shape) if t.shape is not None else None, (list(q.scale)[:3],list(q.zeroPoint)[:3]) if q is not None and q.scale is not None else None))
        for i,o in enumerate(sg.operators):
            print('  OP%d code=%d in=%s out=%s'%(i,m.operatorCodes[o.opcodeIndex].builtinCode,list(o.inputs),list(o.outputs)))
