"""Sidecar contract for ParamsGenerator._check_tensor_names_are_unique (C01, C19): returning normally establishes that tensor names
are pairwise distinct across ALL subgraphs of the model — the precondition of every name-keyed table of the pipeline."""
import z3
from vlib.pyvc import *
from contracts.graph import items_r, ln
FIELDS = {'flatbuffer_model': 'ref', 'subgraphs': 'list[ref]', 'tensors': 'list[ref]'}
NAME = z3.Function('tensor_name', Ref, Str)

class NamesUnique(Spec):
    fields = FIELDS; consts = {}
    def __init__(self):
        self.callees = {'tfl_flatbuffer_utils.get_tensor_name': lambda E, p, a, kw, node: V('str', NAME(a[0].term))}
        self.invariants = {0: self.inv_outer, 1: self.inv_inner}
    def bind(self, E, p):
        h = p.heap; S = self
        for nme in list(FIELDS) + ['$len', '$items:ref', '$dhas:str']: h.arr(nme)
        h0 = h.copy(); S.h0 = h0
        S.self_ = z3.Const('self', Ref); p.env['self'] = V('ref', S.self_)
        S.model = h0.load(S.self_, 'flatbuffer_model'); S.sgs = h0.load(S.model, 'subgraphs'); S.ns = ln(h0, S.sgs)
        S.tl = lambda s: h0.load(items_r(h0, S.sgs)[s], 'tensors'); S.nt = lambda s: ln(h0, S.tl(s)); S.ten = lambda s, t: items_r(h0, S.tl(s))[t]
        p.pc += [S.self_ != NULL, S.model != NULL, S.sgs != NULL, S.ns >= 0, h0.alloc[S.sgs]]
        p.facts.append(Schematic(1, lambda s: Implies(And(0 <= s, s < S.ns), And(items_r(h0, S.sgs)[s] != NULL, S.tl(s) != NULL, S.nt(s) >= 0, h0.alloc[S.tl(s)])), 'wf:subgraphs'))
    def bounds(self, E): return [self.ns] + [self.nt(z3.IntVal(k)) for k in range(3)]
    def may_write(self, E, p, ref, field): return z3.BoolVal(False)
    def model_values(self, E, m):
        S = self; ev = lambda t: m.eval(t, model_completion=True)
        ns = ev(S.ns).as_long(); names = {}
        out = []
        for s in range(ns):
            row = []
            for t in range(ev(S.nt(z3.IntVal(s))).as_long()):
                key = str(ev(NAME(S.ten(z3.IntVal(s), z3.IntVal(t))))); row.append(names.setdefault(key, f'n{len(names)}'))
            out.append(row)
        return dict(subgraph_tensor_names=out)
    def processed(self, s, t, s2, t2): return Or(s2 < s, And(s2 == s, t2 < t))
    def inv(self, ctx, p, s, t):
        S = self; has = p.heap.load(p.env['global_tensor_names'].term, '$dhas:str')
        inr = lambda s2, t2: And(0 <= s2, s2 < S.ns, 0 <= t2, t2 < S.nt(s2))
        return [('seen-names-are-in-the-set', ctx.forall(2, lambda s2, t2: Implies(And(inr(s2, t2), S.processed(s, t, s2, t2)), has[NAME(S.ten(s2, t2))]))),
                ('seen-names-pairwise-distinct', ctx.forall(4, lambda s1, t1, s2, t2: Implies(And(inr(s1, t1), inr(s2, t2), S.processed(s, t, s1, t1), S.processed(s, t, s2, t2), Or(s1 != s2, t1 != t2)),
                                                                                             NAME(S.ten(s1, t1)) != NAME(S.ten(s2, t2)))))]
    def inv_outer(self, E, ctx, p, pre, s): return [('s-range', And(0 <= s, s <= self.ns))] + self.inv(ctx, p, s, z3.IntVal(0))
    def inv_inner(self, E, ctx, p, pre, t):
        S = self; s = pre.env['$i0'].term                 # index of the subgraph being scanned (outer loop index)
        return [('t-range', And(0 <= t, t <= S.nt(s)))] + self.inv(ctx, p, s, t)
    def ensures(self, E, ctx, p, ret):
        S = self; inr = lambda s2, t2: And(0 <= s2, s2 < S.ns, 0 <= t2, t2 < S.nt(s2))
        return [('returns-normally-only-if-tensor-names-are-unique-across-all-subgraphs',
                 ctx.forall(4, lambda s1, t1, s2, t2: Implies(And(inr(s1, t1), inr(s2, t2), Or(s1 != s2, t1 != t2)), NAME(S.ten(s1, t1)) != NAME(S.ten(s2, t2)))))]
    def raises(self, E, ctx, p, exc): return [('raises-only-ValueError', z3.BoolVal(exc == 'ValueError'))]
