"""Sidecar contracts for the buffer-sharing check of ParamsGenerator (C15, DESIGN A.14) and for the per-tensor instruction check.

Abstraction made by the property: transformations are a finite enum (ints 0..4), quantization parameters an uninterpreted sort with an
EQUIVALENCE `==` (dataclass __eq__ of UniformQuantParams / NonLinearQuantParams: field-wise equality; None == None; None != object):
    EQP(a, b)  :=  pclass(a) == pclass(b)          pclass : object -> equivalence class, pclass(None) = 0, pclass(object) != 0
    class(t)   :=  FLOAT_SRC if t in {ADD_QUANTIZE, NO_QUANTIZE} ; QUANT_SRC if t in {QUANTIZE_TENSOR, ADD_DEQUANTIZE} ; OTHER otherwise
    R(a, b)    :=  class(a.transformations[0]) == class(b.transformations[0])  and  (class == QUANT_SRC  =>  EQP(a.parameters, b.parameters))
R is what the property asks of two entries that concern one buffer ("a float consumer never reads integer bytes and an integer consumer never reads
float bytes"; "dtype and parameters agree with the stored bytes": integer bytes are written from ONE parameter object).

COMPATIBILITY LEMMA      _compatible_tensor_params(a, b) returns True  =>  R(a, b)
TENSOR PAIR              _compatible_tensor_transformation_params(x, y) returns True  =>  producers both absent or R ; consumer lists both absent or
                         EVERY pair of consumer entries of x and y (within x, within y, across) is in R   (the pivot argument through consumers[0])
BUFFER                   _check_buffer_sharing returns normally  =>  for every listed buffer with >= 2 uses, every two tensors listed under it and every
                         two of their consumer entries are in R, producers both absent or in R             (the pivot argument through tensors[0])"""
import z3
from vlib.pyvc import *
from contracts.graph import items_i, items_r, ln

QT = dict(NO_QUANTIZE=0, ADD_QUANTIZE=1, ADD_DEQUANTIZE=2, QUANTIZE_TENSOR=3, EMULATED_SUBCHANNEL=4)      # qtyping.QuantTransformation (checked natively against the enum)
CONSTS = {f'_QuantTrans.{k}': v for k, v in QT.items()}
CONSTS.update({f'qtyping.QuantTransformation.{k}': v for k, v in QT.items()})
FIELDS = {'subgraph_op_id': 'int', 'transformations': 'list[int]', 'parameters': 'ref', 'tensor_name': 'str', 'producer': 'ref', 'consumers': 'list[ref]',
          'buffer_to_tensors': 'dict[int,list[ref]]', 'model_quant_results': 'dict[str,ref]', 'name': 'str', 'instructions': 'list[ref]', 'transformation': 'int'}

PCLASS = z3.Function('param_eq_class', Ref, I)
OPEQ = z3.Function('dataclass_eq', Ref, Ref, Bo)          # __eq__ of two non-None objects whose value is irrelevant here
NAME = z3.Function('tensor_name', Ref, Str)               # tfl_flatbuffer_utils.get_tensor_name: a pure function of the tensor
FLOAT_SRC, QUANT_SRC, OTHER = 0, 1, 2
def klass(t): return If(Or(t == QT['ADD_QUANTIZE'], t == QT['NO_QUANTIZE']), FLOAT_SRC, If(Or(t == QT['QUANTIZE_TENSOR'], t == QT['ADD_DEQUANTIZE']), QUANT_SRC, OTHER))
def eqp(a, b): return PCLASS(a) == PCLASS(b)
def pclass_facts(*ts): return [PCLASS(NULL) == 0] + [Implies(t != NULL, PCLASS(t) != 0) for t in ts]
def tr0(h, a): return items_i(h, h.load(a, 'transformations'))[0]
def par(h, a): return h.load(a, 'parameters')
def R(h, a, b): return And(klass(tr0(h, a)) == klass(tr0(h, b)), Implies(klass(tr0(h, a)) == QUANT_SRC, eqp(par(h, a), par(h, b))))
def entry_wf(h, a):
    """an OpToTensorParams object as every algorithm builds it: a non-empty transformation list"""
    t = h.load(a, 'transformations'); return And(a != NULL, t != NULL, ln(h, t) >= 1)

class Common(Spec):
    fields = FIELDS; consts = CONSTS; zero_instances = True
    def ref_eq(self, E, p, a, b, node):
        """`==` between two objects, by the attribute compared: parameters -> EQP ; producer / consumers (dataclass / list equality) -> identity when one side is
        None (the only case the code evaluates it in), an uninterpreted relation otherwise"""
        import ast
        attr = node.left.attr if isinstance(node.left, ast.Attribute) else None
        if attr == 'parameters':
            p.pc += pclass_facts(a.term, b.term); return eqp(a.term, b.term)
        if attr in ('producer', 'consumers'): return If(Or(a.term == NULL, b.term == NULL), a.term == b.term, OPEQ(a.term, b.term))
        raise Unsupported(f'== on attribute {attr}')
    def words_equal(self, p, h, a, b, tag):
        """ghost: the two transformation lists are equal as sequences (both directions)"""
        ta, tb = h.load(a, 'transformations'), h.load(b, 'transformations'); na, nb = ln(h, ta), ln(h, tb); ia, ib = items_i(h, ta), items_i(h, tb)
        w = z3.Bool('words_equal_' + tag); d = z3.Int('words_differ_at_' + tag)
        p.pc.append(Implies(w, na == nb)); p.facts.append(Schematic(1, lambda k: Implies(And(w, 0 <= k, k < na), ia[k] == ib[k]), 'ghost:words-equal'))
        p.pc.append(Implies(Not(w), Or(na != nb, And(0 <= d, d < na, ia[d] != ib[d]))))
        return w
    def bind_entries(self, E, p, names):
        h = p.heap
        for nme in ('transformations', 'parameters', '$len', '$items:int', '$items:ref'): h.arr(nme)
        h0 = h.copy(); self.h0 = h0; out = []
        for nme in names:
            r = z3.Const(nme, Ref); p.env[nme] = V('ref', r); out.append(r)
            p.pc += [entry_wf(h0, r), h0.alloc[r], h0.alloc[h0.load(r, 'transformations')]] + pclass_facts(par(h0, r))
        return out
    def may_write(self, E, p, ref, field): return z3.BoolVal(False)              # all four functions are pure

class SameExceptId(Common):
    """_same_tensor_params_except_id(a, b)  <=>  equal transformation words and EQP(parameters)   (subgraph_op_id is ignored)"""
    def bind(self, E, p):
        S = self; S.a, S.b = self.bind_entries(E, p, ['params1', 'params2']); S.w = self.words_equal(p, S.h0, S.a, S.b, 'spec')
    def bounds(self, E): h = self.h0; return [ln(h, h.load(self.a, 'transformations')), ln(h, h.load(self.b, 'transformations'))]
    def ensures(self, E, ctx, p, ret):
        S = self; h = S.h0
        return [('true-iff-equal-words-and-equal-parameters', ret.term == And(S.w, eqp(par(h, S.a), par(h, S.b))))]

class CompatParams(Common):
    """COMPATIBILITY LEMMA"""
    def __init__(self): self.callees = {'_same_tensor_params_except_id': self.k_same}
    def bind(self, E, p):
        S = self; S.a, S.b = self.bind_entries(E, p, ['params1', 'params2']); S.w = self.words_equal(p, S.h0, S.a, S.b, 'spec')
    def bounds(self, E): h = self.h0; return [ln(h, h.load(self.a, 'transformations')), ln(h, h.load(self.b, 'transformations'))]
    def k_same(self, E, p, args, kw, node):
        a, b = args[0].term, args[1].term; h = self.h0
        E.emit(p, 'callsite:_same_tensor_params_except_id(the two entries)', And(a == self.a, b == self.b), node.lineno)
        r = fresh('same', Bo); p.pc.append(r == And(self.w, eqp(par(h, self.a), par(h, self.b)))); return vbool(r)
    def ensures(self, E, ctx, p, ret):
        S = self; h = S.h0; a, b = S.a, S.b; ka, kb = klass(tr0(h, a)), klass(tr0(h, b)); same_params = eqp(par(h, a), par(h, b))
        return [('LEMMA: True => same class of source bytes, and equal parameters when the bytes are integers', Implies(ret.term, R(h, a, b))),
                ('identical entries (up to the op id) are compatible', Implies(And(S.w, same_params), ret.term)),
                ('same class (float / integer source) and equal parameters are compatible', Implies(And(ka == kb, ka != OTHER, same_params), ret.term)),
                ('two float-source entries one of which is NO_QUANTIZE are compatible', Implies(And(ka == FLOAT_SRC, kb == FLOAT_SRC, Or(tr0(h, a) == 0, tr0(h, b) == 0)), ret.term))]

# ------------------------------------------------------------------------------------------------ tensor pair
def cons(h, x): return h.load(x, 'consumers')
def prod(h, x): return h.load(x, 'producer')
def tensor_wf(h, x, forall):
    """a TensorTransformationParams object: producer None or a well-formed entry; consumers None or a NON-EMPTY list of well-formed entries"""
    c = cons(h, x)
    return [x != NULL, Implies(prod(h, x) != NULL, entry_wf(h, prod(h, x))), Implies(c != NULL, ln(h, c) >= 1),
            forall(1, lambda k: Implies(And(c != NULL, 0 <= k, k < ln(h, c)), entry_wf(h, items_r(h, c)[k])))]
def pair_post(h, x, y, forall):
    """conclusion for two tensors on one buffer (pairwise form)"""
    cx, cy = cons(h, x), cons(h, y); ix, iy = items_r(h, cx), items_r(h, cy); nx, ny = ln(h, cx), ln(h, cy); px, py = prod(h, x), prod(h, y)
    return [('producers both absent or compatible', And((px == NULL) == (py == NULL), Implies(px != NULL, R(h, px, py)))),
            ('consumer lists both absent or both present', (cx == NULL) == (cy == NULL)),
            ('consumer entries of the first tensor pairwise compatible', forall(2, lambda k, k2: Implies(And(cx != NULL, cy != NULL, 0 <= k, k < nx, 0 <= k2, k2 < nx), R(h, ix[k], ix[k2])))),
            ('consumer entries of the second tensor pairwise compatible', forall(2, lambda k, k2: Implies(And(cx != NULL, cy != NULL, 0 <= k, k < ny, 0 <= k2, k2 < ny), R(h, iy[k], iy[k2])))),
            ('consumer entries across the two tensors pairwise compatible', forall(2, lambda k, k2: Implies(And(cx != NULL, cy != NULL, 0 <= k, k < nx, 0 <= k2, k2 < ny), R(h, ix[k], iy[k2]))))]

class CompatTensorParams(Common):
    """TENSOR PAIR"""
    loops_may_allocate = False
    def __init__(self):
        self.callees = {'_compatible_tensor_params': self.k_compat}; self.invariants = {0: self.inv0, 1: self.inv1}
    def bind(self, E, p):
        h = p.heap; S = self
        for nme in ('transformations', 'parameters', 'producer', 'consumers', '$len', '$items:int', '$items:ref'): h.arr(nme)
        h0 = h.copy(); S.h0 = h0; S.x, S.y = z3.Const('params1', Ref), z3.Const('params2', Ref); p.env.update(params1=V('ref', S.x), params2=V('ref', S.y))
        hyp = Ctx('hyp')
        p.pc += tensor_wf(h0, S.x, hyp.forall) + tensor_wf(h0, S.y, hyp.forall) + pclass_facts(); p.facts += hyp.schem
        S.cx, S.cy = cons(h0, S.x), cons(h0, S.y); S.nx, S.ny = ln(h0, S.cx), ln(h0, S.cy); S.ix, S.iy = items_r(h0, S.cx), items_r(h0, S.cy)
    def bounds(self, E): return [self.nx, self.ny]
    def k_compat(self, E, p, args, kw, node):
        a, b = args[0].term, args[1].term; h = self.h0
        E.emit(p, f'callsite:_compatible_tensor_params.requires-well-formed-entries@{node.lineno}', And(entry_wf(h, a), entry_wf(h, b)), node.lineno)
        r = fresh('compatible', Bo); p.pc += [Implies(r, R(h, a, b))] + pclass_facts(par(h, a), par(h, b)); return vbool(r)          # its verified LEMMA
    def inv0(self, E, ctx, p, pre, i):
        S = self; h = S.h0
        return [('i-range', And(0 <= i, i <= S.nx)), ('prefix-compatible-with-the-pivot', ctx.forall(1, lambda k: Implies(And(0 <= k, k < i), R(h, S.ix[k], S.ix[0]))))]
    def inv1(self, E, ctx, p, pre, i):
        S = self; h = S.h0
        return [('i-range', And(0 <= i, i <= S.ny)), ('prefix-compatible-with-the-pivot', ctx.forall(1, lambda k: Implies(And(0 <= k, k < i), R(h, S.iy[k], S.iy[0])))),
                ('first-list-compatible-with-its-pivot', ctx.forall(1, lambda k: Implies(And(0 <= k, k < S.nx), R(h, S.ix[k], S.ix[0]))))]
    def ensures(self, E, ctx, p, ret):
        S = self
        return [(f'True => {label}', Implies(ret.term, g)) for label, g in pair_post(S.h0, S.x, S.y, ctx.forall)]

# ------------------------------------------------------------------------------------------------ buffer
BK, BH, BM = '$dkeys:int', '$dhas:int', '$dmap:int:ref'
MH, MM = '$dhas:str', '$dmap:str:ref'
class CheckBufferSharing(Common):
    """BUFFER"""
    loops_may_allocate = True
    def __init__(self):
        self.callees = {'_compatible_tensor_transformation_params': self.k_pair, 'tfl_flatbuffer_utils.get_tensor_name': lambda E, p, a, kw, node: V('str', NAME(a[0].term))}
        self.invariants = {0: self.inv_buffers, 1: self.inv_tensors}
    def bind(self, E, p):
        h = p.heap; S = self
        for nme in list(FIELDS) + ['$len', '$items:int', '$items:ref', BK, BH, BM, '$dkeys:str', MH, MM]: h.arr(nme)
        h0 = h.copy(); S.h0 = h0; S.self_ = z3.Const('self', Ref); p.env['self'] = V('ref', S.self_)
        S.d = h0.load(S.self_, 'buffer_to_tensors'); S.mq = h0.load(S.self_, 'model_quant_results')
        S.keys, S.has, S.map, S.n = h0.load(S.d, BK), h0.load(S.d, BH), h0.load(S.d, BM), h0.load(S.d, '$len')
        S.mhas, S.mmap = h0.load(S.mq, MH), h0.load(S.mq, MM)
        S.L = lambda q: S.map[S.keys[q]]; S.nL = lambda q: ln(h0, S.L(q)); S.T = lambda q, m: items_r(h0, S.L(q))[m]
        S.tp = lambda q, m: S.mmap[NAME(S.T(q, m))]                                 # the tensor's entry in model_quant_results
        p.pc += [S.self_ != NULL, S.d != NULL, S.mq != NULL, S.d != S.mq, h0.alloc[S.self_], h0.alloc[S.d], h0.alloc[S.mq], S.n >= 0] + pclass_facts()
        F = p.facts.append
        # dict model: listed keys are present; their value lists are allocated lists
        F(Schematic(1, lambda q: Implies(And(0 <= q, q < S.n), And(S.has[S.keys[q]], S.L(q) != NULL, h0.alloc[S.L(q)], S.nL(q) >= 0)), 'wf:buffer-map'))
        # requires (established by generate_quantization_parameters, which visits every operator): every tensor use has an entry, and the entries are well formed
        F(Schematic(2, lambda q, m: Implies(And(0 <= q, q < S.n, 0 <= m, m < S.nL(q)), And(S.mhas[NAME(S.T(q, m))], *tensor_wf(h0, S.tp(q, m), lambda n_, f: z3.BoolVal(True)))), 'req:every-listed-tensor-has-well-formed-params'))
        F(Schematic(3, lambda q, m, k: Implies(And(0 <= q, q < S.n, 0 <= m, m < S.nL(q), cons(h0, S.tp(q, m)) != NULL, 0 <= k, k < ln(h0, cons(h0, S.tp(q, m)))),
                                                 entry_wf(h0, items_r(h0, cons(h0, S.tp(q, m)))[k])), 'req:consumer-entries-well-formed'))
    def bounds(self, E):
        S = self; h = S.h0; out = [S.n]
        for q in range(3):
            out.append(S.nL(z3.IntVal(q)))
            for m in range(3): out.append(ln(h, cons(h, S.tp(z3.IntVal(q), z3.IntVal(m)))))
        return out
    # ---- callee: the tensor-pair check by its contract
    def k_pair(self, E, p, args, kw, node):
        S = self; x, y = args[0].term, args[1].term; h = S.h0; q = E.idx[0]; m = E.idx[1] + 1
        E.emit(p, f'callsite:_compatible_tensor_transformation_params(params of tensors[0], params of tensors[m])', And(x == S.tp(q, 0), y == S.tp(q, m)), node.lineno)
        p.pc += [x == S.tp(q, 0), y == S.tp(q, m)]
        sk = fresh('sk', I)
        for who, t in (('first', S.tp(q, 0)), ('second', S.tp(q, m))):
            g = tensor_wf(h, t, lambda n_, f: f(sk))
            E.emit(p, f'callsite:_compatible_tensor_transformation_params.requires-well-formed-{who}-argument', And(*g), node.lineno)
        r = fresh('tensors_compatible', Bo); hyp = Ctx('hyp')
        p.pc += [Implies(r, g) for label, g in pair_post(h, S.tp(q, 0), S.tp(q, m), hyp.forall)]
        p.facts += [Schematic(sc.n, (lambda *a, f=sc.fn: Implies(r, f(*a))), 'post:tensor-pair') for sc in hyp.schem]
        return vbool(r)
    # ---- the conclusion: pivot form (through consumers(tensors[0])[0]) in the invariants, pairwise form in the postcondition
    def agree_scalar(self, q, m):
        S = self; h = S.h0; t0, tm = S.tp(q, 0), S.tp(q, m)
        return And((prod(h, t0) == NULL) == (prod(h, tm) == NULL), Implies(prod(h, t0) != NULL, R(h, prod(h, t0), prod(h, tm))), (cons(h, t0) == NULL) == (cons(h, tm) == NULL))
    def agree_entry(self, q, m, k):
        S = self; h = S.h0; c0, cm = cons(h, S.tp(q, 0)), cons(h, S.tp(q, m))
        return Implies(And(c0 != NULL, 0 <= k, k < ln(h, cm)), R(h, items_r(h, cm)[k], items_r(h, c0)[0]))
    def inv_buffers(self, E, ctx, p, pre, q):
        S = self; h = p.heap.copy(); h0 = S.h0
        return [('q-range', And(0 <= q, q <= S.n)), ('dict-untouched', And(h.load(S.d, '$len') == S.n, h.load(S.d, BM) == S.map, h.load(S.d, BK) == S.keys)),
                ('map-lists-untouched (the body only creates the slice tensors[1:])', ctx.forall(1, lambda q2: Implies(And(0 <= q2, q2 < S.n), And(ln(h, S.L(q2)) == S.nL(q2), items_r(h, S.L(q2)) == items_r(h0, S.L(q2)))))),
                ('checked-buffers: producers and presence of consumers agree with the first tensor', ctx.forall(2, lambda q2, m: Implies(And(0 <= q2, q2 < q, S.nL(q2) >= 2, 0 <= m, m < S.nL(q2)), self.agree_scalar(q2, m)))),
                ('checked-buffers: every consumer entry agrees with the pivot entry', ctx.forall(3, lambda q2, m, k: Implies(And(0 <= q2, q2 < q, S.nL(q2) >= 2, 0 <= m, m < S.nL(q2)), self.agree_entry(q2, m, k))))]
    def inv_tensors(self, E, ctx, p, pre, i):
        S = self; q = E.idx[0]
        return [('i-range', And(0 <= i, i <= S.nL(q) - 1)),
                ('compared-tensors: producers and presence of consumers agree with the first tensor', ctx.forall(1, lambda m: Implies(And(1 <= m, m <= i), self.agree_scalar(q, m)))),
                ('compared-tensors: every consumer entry agrees with the pivot entry', ctx.forall(2, lambda m, k: Implies(And(1 <= m, m <= i), self.agree_entry(q, m, k)))),
                ('first-tensor: its own consumer entries agree with the pivot entry', ctx.forall(1, lambda k: Implies(i >= 1, self.agree_entry(q, 0, k))))]
    def ensures(self, E, ctx, p, ret):
        S = self; h = S.h0
        rng = lambda q, m, m2: And(0 <= q, q < S.n, S.nL(q) >= 2, 0 <= m, m < S.nL(q), 0 <= m2, m2 < S.nL(q))
        P = lambda q, m: prod(h, S.tp(q, m)); Cn = lambda q, m: cons(h, S.tp(q, m))
        return [('producers of two tensors on one buffer: both absent or compatible', ctx.forall(3, lambda q, m, m2: Implies(rng(q, m, m2), And((P(q, m) == NULL) == (P(q, m2) == NULL), Implies(P(q, m) != NULL, R(h, P(q, m), P(q, m2))))))),
                ('consumer lists of two tensors on one buffer: both absent or both present', ctx.forall(3, lambda q, m, m2: Implies(rng(q, m, m2), (Cn(q, m) == NULL) == (Cn(q, m2) == NULL)))),
                ('every two consumer entries of tensors on one buffer are compatible (same class of source bytes; integer bytes => equal parameters)',
                 ctx.forall(5, lambda q, m, m2, k, k2: Implies(And(rng(q, m, m2), Cn(q, m) != NULL, Cn(q, m2) != NULL, 0 <= k, k < ln(h, Cn(q, m)), 0 <= k2, k2 < ln(h, Cn(q, m2))),
                                                               R(h, items_r(h, Cn(q, m))[k], items_r(h, Cn(q, m2))[k2])))),
                ('nothing-is-written', And(h.load(S.self_, 'buffer_to_tensors') == p.heap.load(S.self_, 'buffer_to_tensors'), p.heap.load(S.d, BM) == S.map, p.heap.load(S.d, '$len') == S.n,
                                           ctx.forall(1, lambda q: Implies(And(0 <= q, q < S.n), And(ln(p.heap, S.L(q)) == S.nL(q), items_r(p.heap, S.L(q)) == items_r(h, S.L(q)))))))]
    def raises(self, E, ctx, p, exc): return [('only-RuntimeError', z3.BoolVal(exc == 'RuntimeError'))]

# ------------------------------------------------------------------------------------------------ a tensor cannot be both quantized and unquantized
class InstructionsValid(Common):
    """_check_tensor_transformation_instructions_valid(instructions): over the whole instruction list of ONE tensor
       returns normally  =>  no NO_QUANTIZE together with a QUANTIZE_TENSOR / ADD_DEQUANTIZE (the tensor's bytes are float XOR integer), and an
                             EMULATED_SUBCHANNEL instruction is the only instruction
       raises ValueError =>  one of the two conflicts is present (witness positions: ghost functions first-seen-at)"""
    def __init__(self): self.invariants = {0: self.inv0}
    def bind(self, E, p):
        h = p.heap; S = self
        for nme in ('instructions', 'transformation', '$len', '$items:ref'): h.arr(nme)
        h0 = h.copy(); S.h0 = h0; S.self_ = z3.Const('self', Ref); S.ins = z3.Const('instructions', Ref); p.env.update(self=V('ref', S.self_), instructions=V('ref', S.ins))
        S.lst = h0.load(S.ins, 'instructions'); S.n = ln(h0, S.lst); S.t = lambda k: h0.load(items_r(h0, S.lst)[k], 'transformation')
        p.pc += [S.ins != NULL, S.lst != NULL, S.n >= 0]
        S.isU = lambda k: S.t(k) == QT['NO_QUANTIZE']; S.isQ = lambda k: Or(S.t(k) == QT['QUANTIZE_TENSOR'], S.t(k) == QT['ADD_DEQUANTIZE']); S.isE = lambda k: S.t(k) == QT['EMULATED_SUBCHANNEL']
        # ghost: seen_X(i) <=> some instruction before position i is of kind X ; at_X(i) a position where it was seen
        S.seen = {}; S.at = {}
        for tag, pred in (('U', S.isU), ('Q', S.isQ), ('E', S.isE)):
            sn = z3.Function('seen_' + tag, I, Bo); at = z3.Function('at_' + tag, I, I); S.seen[tag], S.at[tag] = sn, at
            p.pc.append(Not(sn(0)))
            p.facts.append(Schematic(1, lambda i, sn=sn, at=at, pred=pred: Implies(And(0 <= i, i < S.n), And(sn(i + 1) == Or(sn(i), pred(i)), at(i + 1) == If(pred(i), i, at(i)))), 'ghost:seen-step-' + tag))
        S.preds = dict(U=S.isU, Q=S.isQ, E=S.isE)
    def bounds(self, E): return [self.n]
    def model_values(self, E, m):
        ev = lambda t: m.eval(t, model_completion=True).as_long(); return dict(word=[ev(self.t(z3.IntVal(k))) for k in range(ev(self.n))])
    def inv0(self, E, ctx, p, pre, i):
        S = self; out = [('i-range', And(0 <= i, i <= S.n))]
        for tag, var in (('U', 'is_tensor_unquantized'), ('Q', 'is_tensor_quantized'), ('E', 'is_operator_emulated')):
            sn, at, pred = S.seen[tag], S.at[tag], S.preds[tag]
            out += [(f'flag-{tag}-is-seen', p.env[var].term == sn(i)), (f'seen-{tag}-has-a-witness', Implies(sn(i), And(0 <= at(i), at(i) < i, pred(at(i))))),
                    (f'every-{tag}-before-i-is-seen', ctx.forall(1, lambda k, sn=sn, pred=pred: Implies(And(0 <= k, k < i, pred(k)), sn(i))))]
        return out
    def ensures(self, E, ctx, p, ret):
        S = self
        return [('accepted => never NO_QUANTIZE together with QUANTIZE_TENSOR / ADD_DEQUANTIZE', ctx.forall(2, lambda k, k2: Implies(And(0 <= k, k < S.n, 0 <= k2, k2 < S.n), Not(And(S.isU(k), S.isQ(k2)))))),
                ('accepted => EMULATED_SUBCHANNEL is the only instruction', ctx.forall(1, lambda k: Implies(And(0 <= k, k < S.n, S.isE(k)), S.n <= 1)))]
    def raises(self, E, ctx, p, exc):
        S = self; n = S.n; aU, aQ, aE = S.at['U'](n), S.at['Q'](n), S.at['E'](n)
        return [('raises ValueError only on a real conflict', And(z3.BoolVal(exc == 'ValueError'),
                 Or(And(0 <= aU, aU < n, S.isU(aU), 0 <= aQ, aQ < n, S.isQ(aQ)), And(0 <= aE, aE < n, S.isE(aE), n > 1))))]
