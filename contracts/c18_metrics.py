"""C18, part 1: contracts of the metric functions of utils/validation_utils.py (mean_squared_difference, median_diff_ratio,
_preprocess_same_size_arrays), discharged on the REAL functions executed by CPython on symbolic arrays (contracts/c18_symnp.py).

Contract (from the property text: "the metrics are non-negative, zero on equal arguments and, for MSE, symmetric"; the value
clauses from the functions' documentation: MSE = mean((d1-d2)^2), mdr = median(|d1-d2| / (|d2| + tol)), d2 = second argument):
  for ALL sizes n1, n2 >= 0, all element values and all element classes (finite / NaN / +inf / -inf):
    raises ValueError            <=>  n1 != n2                                  (and nothing else is raised)
    returns 0.0                  if   n1 == n2 == 0
    returns r = RED(t) over all n1 elements, RED = mean (mse) / median (mdr), otherwise, with
        t == (x - y)^2   resp.   t == |x - y| / (|y| + 1e-6)                    on elements free of NaN/inf
        r >= 0 ;  r == 0 when the arguments are equal ;  mse(a, b) == mse(b, a)
  _preprocess_same_size_arrays: identity on finite elements, NaN / +inf / -inf replaced by finite constants (sign preserved for
  the infinities), both outputs 1-D with the number of elements of the inputs.
"""
import fractions, itertools, time
import numpy as np, z3
from vlib import core, symnp
from contracts import c18_symnp as X
from contracts.c18_symnp import SymVec, SymSize, OPAQUE

REL = 'utils/validation_utils.py'
FNS = ['mean_squared_difference', 'median_diff_ratio', '_preprocess_same_size_arrays']
DTYPES = [('float32', 'float32'), ('float64', 'float32'), ('int32', 'int32')]
TOL = symnp._rv(1e-6)                 # documented default of tolerance_threshold (binary64 literal)
def ab(t): return z3.If(t >= 0, t, -t)

class G:
    def __init__(self, gid, fn, hyps=None, goal=None, ok=None, clause='', law=None, cfg=None, observed=None):
        self.id, self.fn, self.hyps, self.goal, self.ok, self.clause, self.law, self.cfg, self.observed = gid, fn, list(hyps or []), goal, ok, clause, law, cfg or {}, observed

class Inputs:
    """two symbolic input arrays of unknown shape with n1 / n2 elements"""
    def __init__(self, d1, d2):
        self.d1, self.d2 = np.dtype(d1), np.dtype(d2)
        mk = lambda nme, dt: z3.Real(nme) if dt.kind == 'f' else z3.Int(nme)
        self.x, self.y = mk('x', self.d1), mk('y', self.d2); self.cx, self.cy = z3.Ints('cx cy'); self.n1, self.n2 = z3.Ints('n1 n2')
        self.a = SymVec(self.x, self.d1, shape=OPAQUE, total=SymSize(self.n1), cls=self.cx if self.d1.kind == 'f' else None)
        self.b = SymVec(self.y, self.d2, shape=OPAQUE, total=SymSize(self.n2), cls=self.cy if self.d2.kind == 'f' else None)
        self.elem_vars = [self.x, self.y, self.cx, self.cy]
        self.elem_hyps = [self.cx >= 0, self.cx <= 3, self.cy >= 0, self.cy <= 3]
        if self.d1.kind != 'f': self.elem_hyps.append(self.cx == 0)
        if self.d2.kind != 'f': self.elem_hyps.append(self.cy == 0)
        if self.d1.kind == 'i': self.elem_hyps += [self.x >= int(np.iinfo(self.d1).min), self.x <= int(np.iinfo(self.d1).max)]
        if self.d2.kind == 'i': self.elem_hyps += [self.y >= int(np.iinfo(self.d2).min), self.y <= int(np.iinfo(self.d2).max)]
        self.size_hyps = [self.n1 >= 0, self.n2 >= 0]
        self.rx = self.x if self.d1.kind == 'f' else z3.ToReal(self.x); self.ry = self.y if self.d2.kind == 'f' else z3.ToReal(self.y)
    def finite(self): return [self.cx == 0, self.cy == 0]
    def equal_args(self): return [self.rx == self.ry, self.cx == self.cy]

def ref_term(name, I):
    """element term of the documented metric on NaN/inf-free data (written here, not read from the code)"""
    if name == 'mean_squared_difference': return 'mean', (I.rx - I.ry) * (I.rx - I.ry)
    return 'median', symnp.DIV(ab(I.rx - I.ry), ab(I.ry) + TOL)

def is_zero_float(v): return type(v) is float and v == 0.0
def ret_term(v):
    if isinstance(v, SymVec) and v._shape == (): return v.term
    if isinstance(v, (float, np.floating)): return symnp._rv(float(v))
    return None

def metric_goals(mod, name, dts):
    I = Inputs(*dts); f = getattr(mod, name); tag = f'{name}.{dts[0]}-{dts[1]}'; goals = []; cfg = dict(fn=name, dtypes=dts)
    kind_ref, t_ref = ref_term(name, I)
    def side(p, pre, H):
        for k, (lab, g) in enumerate(p.cx.side): goals.append(G(f'{pre}.side{k}.{lab}', name, H, g, clause=f'{lab}: {g}'[:300], law='returns', cfg=cfg))
    # ---- A. arbitrary arguments
    paths = X.explore(lambda: f(I.a, I.b), I.size_hyps)
    goals.append(G(f'{tag}.paths-cover-all-sizes', name, I.size_hyps, z3.Or(*[z3.And(*p.pc) for p in paths]), clause='the explored paths cover every pair of sizes', law='returns', cfg=cfg))
    n_raise = n_zero = n_red = 0
    for k, p in enumerate(paths):
        pre = f'{tag}.path{k}'
        if p.kind == 'raise':
            n_raise += 1
            goals.append(G(f'{pre}.raises-ValueError', name, ok=isinstance(p.value, ValueError), clause='the only exception raised is ValueError', observed=repr(p.value), law='raises', cfg=cfg))
            goals.append(G(f'{pre}.raises-only-on-size-mismatch', name, p.pc, I.n1 != I.n2, clause='raise => n1 != n2', law='raises', cfg=cfg))
            continue
        H = p.pc + I.elem_hyps + p.cx.hyps()
        goals.append(G(f'{pre}.returns-only-on-equal-sizes', name, p.pc, I.n1 == I.n2, clause='normal return => n1 == n2', law='raises', cfg=cfg))
        side(p, pre, H)
        reds = p.cx.reductions
        if not reds:
            n_zero += 1
            goals.append(G(f'{pre}.no-reduction-only-for-empty-arrays', name, p.pc, I.n1 == 0, clause='a result not computed from the data is returned only for empty arrays', law='returns', cfg=cfg))
            goals.append(G(f'{pre}.empty-arrays-give-0.0', name, ok=is_zero_float(p.value), clause='returns float 0.0', observed=repr(p.value), law='returns', cfg=cfg))
            continue
        n_red += 1; r = reds[-1]; rt = ret_term(p.value)
        ok_shape = len(reds) == 1 and r['kind'] == kind_ref and rt is not None and rt.eq(r['result'])
        goals.append(G(f'{pre}.value-is-the-{kind_ref}-of-one-elementwise-term', name, ok=bool(ok_shape), clause=f'the returned value is the result of exactly one {kind_ref} reduction', observed=f'{[q["kind"] for q in reds]} {p.value!r}', law='value', cfg=cfg))
        goals.append(G(f'{pre}.reduction-is-over-all-elements', name, H, r['size'] == I.n1, clause='the reduction runs over all n1 elements', law='value', cfg=cfg))
        hy = H + I.finite() + ([symnp.div_fact(ab(I.rx - I.ry), ab(I.ry) + TOL)] if kind_ref == 'median' else [])
        goals.append(G(f'{pre}.element-term-equals-the-documented-metric', name, hy, r['term'] == t_ref, clause=f'on NaN/inf-free data the element term is {t_ref}'[:300], law='value', cfg=cfg))
        ax = X.reduction_axioms(reds, I.elem_vars, I.elem_hyps + p.cx.hyps())
        if rt is not None: goals.append(G(f'{pre}.non-negative', name, H + ax, rt >= 0, clause='metric >= 0 (all sizes, all element classes)', law='nonneg', cfg=cfg))
    goals.append(G(f'{tag}.path-census', name, ok=(n_raise >= 1 and n_zero == 1 and n_red == 1), clause='one path per outcome: ValueError / 0.0 for empty arrays / reduction', observed=f'raise={n_raise} zero={n_zero} reduction={n_red}', law='returns', cfg=cfg))
    # ---- B. equal arguments (distinct objects with elementwise equal contents, and the same object twice)
    eq_el = I.elem_hyps + I.equal_args()
    for variant, run, base, el in (('equal-contents', lambda: f(I.a, I.b), I.size_hyps + [I.n1 == I.n2], eq_el), ('same-object', lambda: f(I.a, I.a), I.size_hyps, I.elem_hyps)):
        paths = X.explore(run, base)
        goals.append(G(f'{tag}.{variant}.never-raises', name, ok=all(p.kind == 'return' for p in paths), clause='equal arguments never raise', observed=str([(p.kind, repr(p.value)) for p in paths]), law='zero', cfg=cfg))
        for k, p in enumerate(paths):
            if p.kind != 'return': continue
            rt = ret_term(p.value)
            if rt is None: goals.append(G(f'{tag}.{variant}.path{k}.zero-on-equal-arguments', name, ok=False, observed=repr(p.value), law='zero', cfg=cfg)); continue
            ax = X.reduction_axioms(p.cx.reductions, I.elem_vars, el + p.cx.hyps())
            goals.append(G(f'{tag}.{variant}.path{k}.zero-on-equal-arguments', name, p.pc + el + p.cx.hyps() + ax, rt == 0, clause='metric(x, x) == 0', law='zero', cfg=cfg))
    # ---- C. symmetry (MSE only)
    if name == 'mean_squared_difference':
        paths = X.explore(lambda: (f(I.a, I.b), f(I.b, I.a)), I.size_hyps + [I.n1 == I.n2])
        goals.append(G(f'{tag}.symmetric.never-raises-on-equal-sizes', name, ok=all(p.kind == 'return' for p in paths), observed=str([(p.kind, repr(p.value)) for p in paths]), law='symmetric', cfg=cfg))
        for k, p in enumerate(paths):
            if p.kind != 'return': continue
            r1, r2 = ret_term(p.value[0]), ret_term(p.value[1])
            ax = X.reduction_axioms(p.cx.reductions, I.elem_vars, I.elem_hyps + p.cx.hyps())
            goals.append(G(f'{tag}.symmetric.path{k}.mse(a,b)==mse(b,a)', name, p.pc + I.elem_hyps + p.cx.hyps() + ax, r1 == r2, clause='MSE symmetric', law='symmetric', cfg=cfg))
    return goals

def preprocess_goals(mod, dts):
    I = Inputs(*dts); name = '_preprocess_same_size_arrays'; f = getattr(mod, name); tag = f'{name}.{dts[0]}-{dts[1]}'; goals = []; cfg = dict(fn=name, dtypes=dts)
    paths = X.explore(lambda: f(I.a, I.b), I.size_hyps)
    goals.append(G(f'{tag}.paths-cover-all-sizes', name, I.size_hyps, z3.Or(*[z3.And(*p.pc) for p in paths]), law='returns', cfg=cfg))
    for k, p in enumerate(paths):
        pre = f'{tag}.path{k}'
        if p.kind == 'raise':
            goals.append(G(f'{pre}.raises-ValueError', name, ok=isinstance(p.value, ValueError), observed=repr(p.value), law='raises', cfg=cfg))
            goals.append(G(f'{pre}.raises-only-on-size-mismatch', name, p.pc, I.n1 != I.n2, law='raises', cfg=cfg)); continue
        goals.append(G(f'{pre}.returns-only-on-equal-sizes', name, p.pc, I.n1 == I.n2, law='raises', cfg=cfg))
        o = p.value
        ok = isinstance(o, tuple) and len(o) == 2 and all(isinstance(v, SymVec) and v._shape is not OPAQUE and len(v._shape) == 1 and v.dtype == np.dtype('float32') and v.cls is None for v in o)
        goals.append(G(f'{pre}.outputs-are-flat-float32-and-sanitised', name, ok=bool(ok), clause='both outputs: 1-D, float32, no NaN/inf class left', observed=repr(o), law='returns', cfg=cfg))
        if not ok: continue
        H = p.pc + I.elem_hyps
        for v, src, c, n, nm, dt in ((o[0], I.rx, I.cx, I.n1, 'data1', I.d1), (o[1], I.ry, I.cy, I.n2, 'data2', I.d2)):
            goals.append(G(f'{pre}.{nm}.keeps-number-of-elements', name, H, v._total.term == n, law='returns', cfg=cfg))
            goals.append(G(f'{pre}.{nm}.identity-on-finite-elements', name, H + [c == 0], v.term == src, clause='sanitising is the identity on finite elements', law='returns', cfg=cfg))
            for code, lab, sign in ((X.NAN, 'nan', None), (X.PINF, 'posinf', 1), (X.NINF, 'neginf', -1)) if dt.kind == 'f' else ():
                val = z3.simplify(z3.substitute(v.term, (c, z3.IntVal(code))))
                okc = z3.is_rational_value(val) and (sign is None or (val.as_fraction() > 0) == (sign > 0) and val.as_fraction() != 0)
                goals.append(G(f'{pre}.{nm}.{lab}-replaced-by-a-finite-constant', name, ok=bool(okc), clause='replacement is a finite constant independent of the data (infinities keep their sign)', observed=str(val), law='returns', cfg=cfg))
    return goals

def generate(mod):
    goals = []
    for name in ('mean_squared_difference', 'median_diff_ratio'):
        for dts in DTYPES: goals += metric_goals(mod, name, dts)
    for dts in DTYPES[:2] + [('int32', 'float32')]: goals += preprocess_goals(mod, dts)
    return goals

# ------------------------------------------------------------------------------------------------ discharge
GOALS = []
def _discharge(i):
    g = GOALS[i]
    try:
        if g.ok is not None: return ('proved' if g.ok else 'refuted', 0.0, 'cpython-exec', None)
        return symnp.prove(g.hyps, g.goal, timeout_ms=20000, cvc5_s=30)
    except Exception as e:
        return ('error', 0.0, 'engine', repr(e))
def discharge(goals):
    global GOALS
    GOALS = goals; return core.run_pool(_discharge, len(goals))

# ------------------------------------------------------------------------------------------------ native replay
def _elem(v, c, dt):
    dt = np.dtype(dt)
    if dt.kind != 'f': return dt.type(int(v))
    return {0: dt.type(float(v)), 1: dt.type('nan'), 2: dt.type('inf'), 3: dt.type('-inf')}[int(c)]
def native_law(mod_native, law, cfg, model):
    """replays a counter-model on the real (concrete numpy) functions: arrays of the model's sizes filled with the model's element"""
    mv = lambda k, d=0: (symnp.model_value(model or {}, k) if model and symnp.model_value(model, k) is not None else fractions.Fraction(d))
    f = getattr(mod_native, cfg['fn']); d1, d2 = cfg['dtypes']
    n1 = max(0, min(int(mv('n1', 2)), 6)); n2 = max(0, min(int(mv('n2', 2)), 6))
    if law in ('nonneg', 'value', 'zero', 'symmetric'): n2 = n1 = max(n1, 1)
    a = np.full((n1,), _elem(mv('x'), mv('cx'), d1), dtype=d1); b = np.full((n2,), _elem(mv('y'), mv('cy'), d2), dtype=d2)
    if law == 'zero': b = a.astype(d2) if np.dtype(d2).kind == 'f' else a.copy()
    inputs = dict(fn=cfg['fn'], data1=[str(v) for v in a], data2=[str(v) for v in b], dtypes=[d1, d2], law=law, cfg=dict(fn=cfg['fn'], dtypes=[d1, d2]), model=model)
    def call(u, v):
        try:
            with np.errstate(all='ignore'): return ('return', f(u, v))
        except Exception as e: return ('raise', e)
    k, r = call(a, b); bad = False; obs = f'{k}: {r!r}'
    if law in ('raises', 'returns'):
        bad = (k == 'raise') != (n1 != n2) or (k == 'raise' and not isinstance(r, ValueError)) or (k == 'return' and n1 == 0 and cfg['fn'] != '_preprocess_same_size_arrays' and not (type(r) is float and r == 0.0))
    elif k == 'raise': bad = True
    elif law == 'nonneg': bad = not (r >= 0)
    elif law == 'zero': bad = not (r == 0)
    elif law == 'symmetric':
        k2, r2 = call(b, a); bad = k2 != 'return' or not (r == r2); obs += f' / swapped: {r2!r}'
    elif law == 'value':
        sa = np.nan_to_num(a.astype(np.float64), nan=1e-9, posinf=1e9, neginf=-1e9); sb = np.nan_to_num(b.astype(np.float64), nan=1e-9, posinf=1e9, neginf=-1e9)
        want = float(np.mean((sa - sb) ** 2)) if cfg['fn'] == 'mean_squared_difference' else float(np.median(np.abs(sa - sb) / (np.abs(sb) + 1e-6)))
        bad = not np.isclose(float(r), want, rtol=1e-4, atol=1e-12); obs += f' expected {want!r}'
    return dict(confirmed=bool(bad), inputs=inputs, observed=obs)

CANARIES = [
    ('mean_squared_difference without the square', 'np.square(np.subtract(data1, data2))', 'np.subtract(data1, data2)', ('mean_squared_difference.float32-float32',), ('non-negative', 'element-term-equals', 'mse(a,b)==mse(b,a)')),
    ('median_diff_ratio divides by the wrong array', 'demoninator = abs(data2) + tolerance_threshold', 'demoninator = abs(data1) + tolerance_threshold', ('median_diff_ratio.float32-float32',), ('element-term-equals',)),
    ('size check removed from _preprocess_same_size_arrays', 'if np.shape(data1) != np.shape(data2):', 'if False:', ('mean_squared_difference.float32-float32', '_preprocess_same_size_arrays.float32-float32'), ('returns-only-on-equal-sizes', 'same-size-at-arithmetic', 'path-census')),
    ('empty-array special case removed from mean_squared_difference', '  if data1.size == 0:\n    return float(0)\n  return float(np.square', '  if False:\n    return float(0)\n  return float(np.square', ('mean_squared_difference.float32-float32',), ('mean-of-nonempty-array', 'path-census')),
    ('median_diff_ratio: abs() of the difference dropped', 'diff = abs(data1 - data2)', 'diff = data1 - data2', ('median_diff_ratio.float32-float32',), ('non-negative', 'element-term-equals')),
]
