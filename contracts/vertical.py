"""Sidecar contract for TransformationInstructionsGenerator._apply_vertical_optimization (C01, C02, C03) — the producer-side / consumer-side
fusion step of the instruction generator (DESIGN S6: first piece of the generator's instruction algebra under a discharged contract).

  P = producer rule, R_0 .. R_{n-1} = consumer rules (in order).  With the three predicates of the module (contracts below, checked natively over their
  finite domain in props/graphcommon.py):
      E(i)  = P is ADD_DEQUANTIZE and R_i is ADD_QUANTIZE and same parameters        (DQ/Q eliminated)
      RQ(i) = P is ADD_DEQUANTIZE and R_i is ADD_QUANTIZE and different parameters   (DQ/Q replaced by a requantize)
      DN(i) = P is ADD_DEQUANTIZE and R_i is NO_QUANTIZE                              (DQ feeds an unquantized reader)
  the result is, per consumer rule and in order (pos = ghost position function, 2 entries for a requantize, else 1):
      E(i):            a NEW QUANTIZE_TENSOR(R_i.tensor, R_i.producer, R_i.consumers, R_i.parameters)
      RQ(i):           a NEW QUANTIZE_TENSOR(.., R_i.consumers, P.parameters) followed by a NEW ADD_QUANTIZE(.., R_i.consumers, R_i.parameters)
      DN(i):           a NEW ADD_DEQUANTIZE(.., R_i.consumers, P.parameters)
      otherwise:       R_i itself
  preceded by P iff P still has consumers.  P.consumers only shrinks (every remaining element was in it before: the instruction still names readers of the
  tensor only), `list.remove` never raises (the repaired defect 77c51ba), no consumer rule and none of their consumer lists is written."""
import z3
from vlib.pyvc import *
from contracts.graph import items_i, items_r, ln

TR = {'NO_QUANTIZE': 0, 'ADD_QUANTIZE': 1, 'ADD_DEQUANTIZE': 2, 'QUANTIZE_TENSOR': 3, 'EMULATED_SUBCHANNEL': 4}         # qtyping.QuantTransformation (values compared natively in the check)
FIELDS = {'transformation': 'int', 'tensor_id': 'int', 'producer': 'int', 'consumers': 'list[int]', 'parameters': 'ref'}
CONSTS = {f'qtyping.QuantTransformation.{k}': v for k, v in TR.items()}
PEQ = z3.Function('parameters_equal', Ref, Ref, Bo)           # dataclass equality of two parameter objects (uninterpreted; only used through the three predicates)
RULE_FIELDS = ('transformation', 'tensor_id', 'producer', 'consumers', 'parameters')

def pred_E(h, a, b): return And(h.load(a, 'transformation') == TR['ADD_DEQUANTIZE'], h.load(b, 'transformation') == TR['ADD_QUANTIZE'], PEQ(h.load(a, 'parameters'), h.load(b, 'parameters')))
def pred_RQ(h, a, b): return And(h.load(a, 'transformation') == TR['ADD_DEQUANTIZE'], h.load(b, 'transformation') == TR['ADD_QUANTIZE'], Not(PEQ(h.load(a, 'parameters'), h.load(b, 'parameters'))))
def pred_DN(h, a, b): return And(h.load(a, 'transformation') == TR['ADD_DEQUANTIZE'], h.load(b, 'transformation') == TR['NO_QUANTIZE'])

class VerticalOptimization(Spec):
    fields = FIELDS; consts = CONSTS; relaxed_first = True
    constructors = {'qtyping.TransformationInst': ['transformation', 'tensor_id', 'producer', 'consumers', 'parameters']}
    def __init__(self):
        self.callees = {'check_dq_q_elimination': lambda E, p, a, kw, node: vbool(pred_E(p.heap, a[0].term, a[1].term)),
                        'check_replace_dq_q_with_rq': lambda E, p, a, kw, node: vbool(pred_RQ(p.heap, a[0].term, a[1].term)),
                        'check_dq_no_quant_elimination': lambda E, p, a, kw, node: vbool(pred_DN(p.heap, a[0].term, a[1].term))}
        self.invariants = {0: self.inv_outer, 1: self.inv_inner, 2: self.inv_inner, 3: self.inv_inner}
    def empty_list_kind(self, line): return 'ref'
    def bind(self, E, p):
        h = p.heap; S = self
        for nme in list(FIELDS) + ['$len', '$items:int', '$items:ref']: h.arr(nme)
        h0 = h.copy(); S.h0 = h0
        S.self_ = z3.Const('self', Ref); S.P = z3.Const('producer_trans_rule', Ref); S.RL = z3.Const('consumer_trans_rules', Ref)
        p.env.update(self=V('ref', S.self_), producer_trans_rule=V('ref', S.P), consumer_trans_rules=V('list[ref]', S.RL))
        S.n = ln(h0, S.RL); S.R = lambda i: items_r(h0, S.RL)[i]; S.RC = lambda i: h0.load(S.R(i), 'consumers')
        S.PC = h0.load(S.P, 'consumers'); S.m0 = ln(h0, S.PC); S.pc0 = items_i(h0, S.PC)
        S.E = lambda i: pred_E(h0, S.P, S.R(i)); S.RQ = lambda i: And(Not(S.E(i)), pred_RQ(h0, S.P, S.R(i))); S.DN = lambda i: And(Not(S.E(i)), Not(S.RQ(i)), pred_DN(h0, S.P, S.R(i)))
        S.pos = z3.Function('entries_before_rule', I, I); S.MEM0 = z3.Function('in_producer_consumers_at_entry', I, Bo)
        objs = [S.P, S.RL, S.PC]
        p.pc += [z3.Distinct(*objs)] + [x != NULL for x in objs] + [h0.alloc[x] for x in objs] + [S.n >= 0, S.m0 >= 0, S.pos(0) == 0]
        F = p.facts.append
        F(Schematic(1, lambda i: Implies(And(0 <= i, i < S.n), And(S.R(i) != NULL, h0.alloc[S.R(i)], S.R(i) != S.P, S.R(i) != S.RL, S.R(i) != S.PC, S.RC(i) != NULL, h0.alloc[S.RC(i)], S.RC(i) != S.PC, S.RC(i) != S.RL,
                                                                  ln(h0, S.RC(i)) >= 0, S.RC(i) != S.P, S.RC(i) != S.R(i))), 'wf:rules'))
        F(Schematic(2, lambda i, j: Implies(And(0 <= i, i < S.n, 0 <= j, j < S.n), S.RC(i) != S.R(j)), 'wf:lists-are-not-rules'))
        F(Schematic(1, lambda i: Implies(And(0 <= i, i < S.n), And(S.pos(i + 1) == S.pos(i) + If(S.RQ(i), 2, 1), S.pos(i) >= 0)), 'spec:pos-step'))
        # entries of different rules do not overlap: pos(j) + width(j) <= pos(i) for j < i  (proved separately by induction: base and step are spec-lemma obligations of the check)
        F(Schematic(2, lambda j, i: Implies(And(0 <= j, j < i, i <= S.n), S.pos(j) + If(S.RQ(j), 2, 1) <= S.pos(i)), 'lemma:pos-monotone'))
        F(Schematic(1, lambda k: Implies(And(0 <= k, k < S.m0), S.MEM0(S.pc0[k])), 'ghost:entry-members'))
    def bounds(self, E): return [self.n, self.m0] + [ln(self.h0, self.RC(z3.IntVal(k))) for k in range(2)]
    def may_write(self, E, p, ref, field): return ref == self.PC if field in ('$items:int', '$len') else z3.BoolVal(False)       # the producer rule's consumer list only (plus fresh objects)
    def relevant(self, label):
        common = ['wf:', 'inv:alloc', 'inv:frames', 'list.', 'in-def', 'ghost:', 'lemma:']
        if 'entries' in label or 'entry' in label: return ['inv:entries', 'spec:'] + common
        if 'producer-consumers' in label: return ['inv:members'] + common
        return None
    # ---- state descriptions
    def entry_ok(self, h, T, j, off):
        """what the result list T holds for consumer rule j (at T[off + pos(j)], and the next slot for a requantize)"""
        S = self; a = items_r(h, T)[off + S.pos(j)]; b = items_r(h, T)[off + S.pos(j) + 1]; r = S.R(j); h0 = S.h0
        def fresh_inst(o, tr, params): return And(o != NULL, Not(h0.alloc[o]), h.alloc[o], h.load(o, 'transformation') == TR[tr], h.load(o, 'tensor_id') == h0.load(r, 'tensor_id'), h.load(o, 'producer') == h0.load(r, 'producer'),
                                                  h.load(o, 'consumers') == S.RC(j), h.load(o, 'parameters') == params)
        pr, pp = h0.load(r, 'parameters'), h0.load(S.P, 'parameters')
        return If(S.E(j), fresh_inst(a, 'QUANTIZE_TENSOR', pr), If(S.RQ(j), And(fresh_inst(a, 'QUANTIZE_TENSOR', pp), fresh_inst(b, 'ADD_QUANTIZE', pr), a != b), If(S.DN(j), fresh_inst(a, 'ADD_DEQUANTIZE', pp), a == r)))
    def frames(self, ctx, h):
        S = self; h0 = S.h0
        return [('consumer-rules-and-their-lists-not-written', And(ln(h, S.RL) == S.n, items_r(h, S.RL) == items_r(h0, S.RL),
                    ctx.forall(1, lambda j: Implies(And(0 <= j, j < S.n), And(*[h.load(S.R(j), f) == h0.load(S.R(j), f) for f in RULE_FIELDS], ln(h, S.RC(j)) == ln(h0, S.RC(j)), items_i(h, S.RC(j)) == items_i(h0, S.RC(j)))), 'inv:frames'))),
                ('producer-rule-fields-kept', And(*[h.load(S.P, f) == h0.load(S.P, f) for f in RULE_FIELDS]))]
    def producer_consumers(self, ctx, h):
        S = self
        return ('producer-consumers-only-shrink', And(ln(h, S.PC) >= 0, ln(h, S.PC) <= S.m0, ctx.forall(1, lambda k: Implies(And(0 <= k, k < ln(h, S.PC)), S.MEM0(items_i(h, S.PC)[k])), 'inv:members')))
    def result_so_far(self, ctx, p, i):
        S = self; h = p.heap; T = p.env['transformations'].term
        return [('result-length', And(T != NULL, h.alloc[T], Not(S.h0.alloc[T]), ln(h, T) == S.pos(i))),
                ('entries-per-consumer-rule', ctx.forall(1, lambda j: Implies(And(0 <= j, j < i), S.entry_ok(h, T, j, 0)), 'inv:entries')),
                ('result-entries-allocated', ctx.forall(1, lambda k: Implies(And(0 <= k, k < ln(h, T)), And(h.alloc[items_r(h, T)[k]], items_r(h, T)[k] != T)), 'inv:alloc'))]
    def inv_outer(self, E, ctx, p, pre, i):
        return [('i-range', And(0 <= i, i <= self.n))] + self.result_so_far(ctx, p, i) + [self.producer_consumers(ctx, p.heap)] + self.frames(ctx, p.heap)
    def inv_inner(self, E, ctx, p, pre, k):
        S = self; i = pre.env['$i0'].term
        return [('k-range', And(0 <= k, k <= ln(S.h0, S.RC(i))))] + self.result_so_far(ctx, p, i) + [self.producer_consumers(ctx, p.heap)] + self.frames(ctx, p.heap)
    def ensures(self, E, ctx, p, ret):
        S = self; h = p.heap; T = ret.term; off = If(ln(h, S.PC) > 0, 1, 0)
        return [('result-length-is-one-entry-per-rule-(two-for-a-requantize)-plus-the-producer-rule', ln(h, T) == S.pos(S.n) + off),
                ('producer-rule-first-iff-it-still-has-consumers', Implies(off == 1, items_r(h, T)[0] == S.P)),
                ('entries-per-consumer-rule-in-order', ctx.forall(1, lambda j: Implies(And(0 <= j, j < S.n), S.entry_ok(h, T, j, off)))),
                self.producer_consumers(ctx, h),
                ('result-is-a-new-list', And(T != NULL, Not(S.h0.alloc[T]), h.alloc[T]))] + self.frames(ctx, h)             # used by the composition contract (contracts/compose.py)

def pos_lemmas():
    """pos(0) = 0, pos(i+1) = pos(i) + w(i), w(i) in {1, 2}   =>   pos(j) + w(j) <= pos(i) for j < i   (induction on i; base i = j + 1, step i -> i + 1)"""
    pos = z3.Function('pos', I, I); w = z3.Function('w', I, I); j, i = z3.Ints('j i')
    step = lambda k: pos(k + 1) == pos(k) + w(k); wr = lambda k: And(w(k) >= 1, w(k) <= 2)
    return [('pos-monotone.base: pos(j) + w(j) <= pos(j + 1)', [step(j), wr(j)], pos(j) + w(j) <= pos(j + 1)),
            ('pos-monotone.step: j < i and pos(j) + w(j) <= pos(i)  =>  pos(j) + w(j) <= pos(i + 1)', [j < i, pos(j) + w(j) <= pos(i), step(i), wr(i)], pos(j) + w(j) <= pos(i + 1))]


# ================================================================================================= _produce_transformation_for_vertical_opt
PFIELDS = {'_tensor_name_to_graph_info': 'dict[str,ref]', 'tensor_name': 'str', 'consumers': 'list[int]', 'subgraph_op_id': 'int', 'transformations': 'list[int]', 'parameters': 'ref',
           'tensor_id': 'int', 'producer': 'int', 'transformation': 'int'}
class ProduceForVerticalOpt(Spec):
    """_produce_transformation_for_vertical_opt(consumer_group, param): one instruction per consumer group of depth 1 (none when the grouping has no depth 1), in group order:
         (first transformation and parameters of ONE member of the group, the tensor's id and producer from the graph-info table, the operator ids of ALL members of the group)
       `list(group)` enumerates a set: the contract is stated for an arbitrary enumeration (ghost list per group) -- the instruction names every member's operator exactly once, in that order,
       and its transformation / parameters are those of the member enumerated first.  Preconditions from the call site (`_group_consumer_transformations`): groups are non-empty sets of positions
       of param.consumers, every member has at least one transformation, the tensor is in the graph-info table."""
    fields = PFIELDS; consts = CONSTS
    constructors = {'qtyping.TransformationInst': ['transformation', 'tensor_id', 'producer', 'consumers', 'parameters']}
    def __init__(self): self.invariants = {0: self.inv_groups, 1: self.inv_members}
    def empty_list_kind(self, line): return 'ref' if getattr(self, '_first_list', True) and not setattr(self, '_first_list', False) else 'int'     # transformations_... = [] (refs), then op_idx_list = [] (ints)
    def field_kind(self, node, kind):
        import ast
        if node.attr == 'consumers' and isinstance(node.value, ast.Name) and node.value.id == 'param': return 'list[ref]'
        return None
    def on_list_of_set(self, E, p, src, out):
        # ghost: remember the enumeration chosen for this group (LSTOF is only ever defined here, once per group object)
        p.pc.append(self.LSTOF(src.term) == out.term)
    def bind(self, E, p):
        h = p.heap; S = self; S._first_list = True
        for nme in list(PFIELDS) + ['$len', '$items:int', '$items:ref', '$dkeys:str', '$dhas:str', '$dmap:str:ref', '$dhas:int']: h.arr(nme)
        h0 = h.copy(); S.h0 = h0
        S.self_ = z3.Const('self', Ref); S.CG = z3.Const('consumer_group', Ref); S.param = z3.Const('param', Ref)
        p.env.update(self=V('ref', S.self_), consumer_group=V('list[list[set[int]]]', S.CG), param=V('ref', S.param))
        S.table = h0.load(S.self_, '_tensor_name_to_graph_info'); S.name = h0.load(S.param, 'tensor_name'); S.info = h0.load(S.table, '$dmap:str:ref')[S.name]
        S.PCs = h0.load(S.param, 'consumers'); S.npc = ln(h0, S.PCs); S.cons = lambda i: items_r(h0, S.PCs)[i]
        S.depth = ln(h0, S.CG); S.G1 = items_r(h0, S.CG)[1]; S.ng = ln(h0, S.G1); S.grp = lambda g: items_r(h0, S.G1)[g]; S.has = lambda g: h0.load(S.grp(g), '$dhas:int')
        S.LSTOF = z3.Function('enumeration_of_group', Ref, Ref); S.W = z3.Function('some_member_of_group', I, I)
        objs = [S.self_, S.CG, S.param, S.table, S.PCs]
        p.pc += [z3.Distinct(*objs)] + [x != NULL for x in objs] + [h0.alloc[x] for x in objs] + [S.depth >= 0, S.npc >= 0, h0.load(S.table, '$dhas:str')[S.name], S.info != NULL, h0.alloc[S.info],
                 Implies(S.depth > 1, And(S.G1 != NULL, h0.alloc[S.G1], S.ng >= 0, S.G1 != S.CG, S.G1 != S.PCs))]
        F = p.facts.append
        F(Schematic(1, lambda g: Implies(And(S.depth > 1, 0 <= g, g < S.ng), And(S.grp(g) != NULL, h0.alloc[S.grp(g)], S.has(g)[S.W(g)])), 'req:groups-are-non-empty-sets'))
        F(Schematic(2, lambda g, x: Implies(And(S.depth > 1, 0 <= g, g < S.ng, S.has(g)[x]), And(0 <= x, x < S.npc)), 'req:members-are-positions-of-param.consumers'))
        F(Schematic(1, lambda i: Implies(And(0 <= i, i < S.npc), And(S.cons(i) != NULL, h0.alloc[S.cons(i)], h0.load(S.cons(i), 'transformations') != NULL, h0.alloc[h0.load(S.cons(i), 'transformations')],
                                                                  ln(h0, h0.load(S.cons(i), 'transformations')) >= 1)), 'req:every-consumer-has-a-transformation'))
    def bounds(self, E): return [self.ng, self.npc]
    def may_write(self, E, p, ref, field): return z3.BoolVal(False)            # fresh objects only
    relaxed_first = True            # the enumeration of a group is reached through the ghost LSTOF(group) in the contract and through the local `op_list` in the code: owner-relaxed matching
    def relevant(self, label): return ['req:', 'inv:', 'list', 'in-def']
    def bounds_note(self): return 'lengths of the enumerations are not bounded in the refutation scope: bounded-scope models are candidates only'
    refutable = False
    # ---- what the instruction built for group g looks like (enumeration L = LSTOF(group g))
    def inst_ok(self, h, T, g):
        S = self; h0 = S.h0; o = items_r(h, T)[g]; L = S.LSTOF(S.grp(g)); first = items_i(h, L)[0]; oc = h.load(o, 'consumers')
        return And(o != NULL, Not(h0.alloc[o]), h.alloc[o], L != NULL, ln(h, L) >= 1, S.has(g)[first],
                   h.load(o, 'transformation') == items_i(h0, h0.load(S.cons(first), 'transformations'))[0], h.load(o, 'parameters') == h0.load(S.cons(first), 'parameters'),
                   h.load(o, 'tensor_id') == h0.load(S.info, 'tensor_id'), h.load(o, 'producer') == h0.load(S.info, 'producer'), oc != NULL, ln(h, oc) == ln(h, L))
    def ops_ok(self, ctx, h, T, upto):
        S = self; h0 = S.h0
        return ctx.forall(2, lambda g, k: Implies(And(0 <= g, g < upto, 0 <= k, k < ln(h, S.LSTOF(S.grp(g)))),
                                                  And(S.has(g)[items_i(h, S.LSTOF(S.grp(g)))[k]], items_i(h, h.load(items_r(h, T)[g], 'consumers'))[k] == h0.load(S.cons(items_i(h, S.LSTOF(S.grp(g)))[k]), 'subgraph_op_id'))), 'inv:ops')
    def state(self, ctx, p, g_upto):
        S = self; h = p.heap; T = p.env['transformations_available_for_vertical_optimization'].term
        return [('result-length', And(T != NULL, h.alloc[T], Not(S.h0.alloc[T]), ln(h, T) == g_upto)),
                ('one-instruction-per-group', ctx.forall(1, lambda g: Implies(And(0 <= g, g < g_upto), S.inst_ok(h, T, g)), 'inv:insts')),
                ('instruction-names-the-operator-of-every-member-in-enumeration-order', S.ops_ok(ctx, h, T, g_upto)),
                ('allocated', ctx.forall(1, lambda g: Implies(And(0 <= g, g < g_upto), And(h.alloc[items_r(h, T)[g]], h.alloc[h.load(items_r(h, T)[g], 'consumers')], h.alloc[S.LSTOF(S.grp(g))],
                                                                                         Not(S.h0.alloc[h.load(items_r(h, T)[g], 'consumers')]), Not(S.h0.alloc[S.LSTOF(S.grp(g))]), items_r(h, T)[g] != T, h.load(items_r(h, T)[g], 'consumers') != T, S.LSTOF(S.grp(g)) != T)), 'inv:alloc')),
                ('inputs-not-written', And(ln(h, S.G1) == S.ng, items_r(h, S.G1) == items_r(S.h0, S.G1), ln(h, S.PCs) == S.npc, items_r(h, S.PCs) == items_r(S.h0, S.PCs)))]
    def inv_groups(self, E, ctx, p, pre, g): return [('g-range', And(0 <= g, g <= self.ng))] + self.state(ctx, p, g)
    def inv_members(self, E, ctx, p, pre, k):
        S = self; h = p.heap; g = pre.env['$i0'].term; L = p.env['op_list'].term; ol = p.env['op_idx_list'].term
        return [('k-range', And(0 <= k, k <= ln(h, L))), ('enumeration-kept', And(L == S.LSTOF(S.grp(g)), ln(h, L) == ln(pre.heap, L), items_i(h, L) == items_i(pre.heap, L), ln(h, L) >= 1)),
                ('ops-so-far', And(ol != NULL, ol != L, h.alloc[ol], Not(S.h0.alloc[ol]), ln(h, ol) == k, ctx.forall(1, lambda j: Implies(And(0 <= j, j < k), items_i(h, ol)[j] == S.h0.load(S.cons(items_i(h, L)[j]), 'subgraph_op_id')), 'inv:ops-prefix')))] + self.state(ctx, p, g)
    def ensures(self, E, ctx, p, ret):
        S = self; h = p.heap; T = ret.term; n = If(S.depth > 1, S.ng, 0)
        return [('one-instruction-per-depth-1-group-(none-without-depth-1)', ln(h, T) == n),
                ('each-instruction: transformation and parameters of the first enumerated member, tensor id and producer from the graph-info table', ctx.forall(1, lambda g: Implies(And(0 <= g, g < n), S.inst_ok(h, T, g)))),
                ('each-instruction names the operator of every member of its group once, in enumeration order', S.ops_ok(ctx, h, T, n)),
                # used by the composition contract (contracts/compose.py): what the caller may assume about identity and allocation of the result
                ('result-list-instructions-and-their-consumer-lists-are-new-objects', And(T != NULL, Not(S.h0.alloc[T]), h.alloc[T], ctx.forall(1, lambda g: Implies(And(0 <= g, g < n),
                    And(Not(S.h0.alloc[items_r(h, T)[g]]), h.alloc[items_r(h, T)[g]], h.load(items_r(h, T)[g], 'consumers') != NULL, Not(S.h0.alloc[h.load(items_r(h, T)[g], 'consumers')]), h.alloc[h.load(items_r(h, T)[g], 'consumers')],
                        items_r(h, T)[g] != T, h.load(items_r(h, T)[g], 'consumers') != T)))))]


# ================================================================================================= _produce_consumer_transformations_unavailable_for_vertical_opt
class ProduceOther(Spec):
    """_produce_consumer_transformations_unavailable_for_vertical_opt(consumer_group, param): SOUNDNESS of every emitted instruction (which groups are skipped is not stated):
       every instruction of the result was built for ONE group G = consumer_group[d][g] with 2 <= d < len(consumer_group) from ONE enumeration L of G (ghost attribute `$enum` of the
       instruction, set where the real code constructs it; ghost functions depth_of / group_of / index_of of the enumeration, set where the real code evaluates list(group)):
         transformation = transformations[d - 1] of the member enumerated first (which HAS more than d - 1 transformations), parameters = that member's, tensor id / producer from the graph-info table,
         consumers = a new list naming the operator of every member of G exactly once, in enumeration order.
       The result and every instruction / consumer list in it are new objects; nothing that exists at entry is written.
       Preconditions (from `_group_consumer_transformations`): every group at every depth >= 2 is a non-empty set of positions of param.consumers; the tensor is in the graph-info table."""
    fields = dict(PFIELDS, **{'$enum': 'ref'}); consts = CONSTS
    relaxed_first = True; refutable = False
    def __init__(self):
        self.invariants = {0: self.inv_depths, 1: self.inv_groups, 2: self.inv_members}
        self.callees = {'qtyping.TransformationInst': self.construct}
    def empty_list_kind(self, line): return 'ref' if getattr(self, '_first_list', True) and not setattr(self, '_first_list', False) else 'int'
    def field_kind(self, node, kind):
        import ast
        if node.attr == 'consumers' and isinstance(node.value, ast.Name) and node.value.id == 'param': return 'list[ref]'
        return None
    def construct(self, E, p, a, kw, node):
        """the constructor, plus the ghost attribute: which enumeration this instruction was built from"""
        r = p.heap.new(p, 'TransformationInst')
        for nme, v in zip(RULE_FIELDS, a): p.heap.store(r, nme, v.term)
        p.heap.store(r, '$enum', p.env['op_list'].term); return V('ref', r)
    def on_list_of_set(self, E, p, src, out):
        S = self; p.pc += [S.GOF(out.term) == src.term, S.DOF(out.term) == p.env['transformation_idx'].term, S.GIX(out.term) == p.env['$i1'].term]
    def bind(self, E, p):
        h = p.heap; S = self; S._first_list = True
        for nme in list(S.fields) + ['$len', '$items:int', '$items:ref', '$dkeys:str', '$dhas:str', '$dmap:str:ref', '$dhas:int']: h.arr(nme)
        h0 = h.copy(); S.h0 = h0
        S.self_ = z3.Const('self', Ref); S.CG = z3.Const('consumer_group', Ref); S.param = z3.Const('param', Ref)
        p.env.update(self=V('ref', S.self_), consumer_group=V('list[list[set[int]]]', S.CG), param=V('ref', S.param))
        S.table = h0.load(S.self_, '_tensor_name_to_graph_info'); S.name = h0.load(S.param, 'tensor_name'); S.info = h0.load(S.table, '$dmap:str:ref')[S.name]
        S.PCs = h0.load(S.param, 'consumers'); S.npc = ln(h0, S.PCs); S.cons = lambda i: items_r(h0, S.PCs)[i]; S.ctr = lambda i: h0.load(S.cons(i), 'transformations')
        S.depth = ln(h0, S.CG); S.GD = lambda d: items_r(h0, S.CG)[d]; S.ng = lambda d: ln(h0, S.GD(d)); S.grp = lambda d, g: items_r(h0, S.GD(d))[g]; S.hasG = lambda G: h0.load(G, '$dhas:int')
        S.GOF = z3.Function('group_of_enumeration', Ref, Ref); S.DOF = z3.Function('depth_of_enumeration', Ref, I); S.GIX = z3.Function('index_of_enumeration', Ref, I); S.W = z3.Function('some_member_of_group', I, I, I)
        objs = [S.self_, S.CG, S.param, S.table, S.PCs]
        p.pc += [z3.Distinct(*objs)] + [x != NULL for x in objs] + [h0.alloc[x] for x in objs] + [S.depth >= 0, S.npc >= 0, h0.load(S.table, '$dhas:str')[S.name], S.info != NULL, h0.alloc[S.info]]
        F = p.facts.append
        F(Schematic(1, lambda d: Implies(And(2 <= d, d < S.depth), And(S.GD(d) != NULL, h0.alloc[S.GD(d)], S.ng(d) >= 0, S.GD(d) != S.CG, S.GD(d) != S.PCs)), 'req:depth-lists'))
        F(Schematic(2, lambda d, g: Implies(And(2 <= d, d < S.depth, 0 <= g, g < S.ng(d)), And(S.grp(d, g) != NULL, h0.alloc[S.grp(d, g)], S.hasG(S.grp(d, g))[S.W(d, g)])), 'req:groups-are-non-empty-sets'))
        F(Schematic(3, lambda d, g, x: Implies(And(2 <= d, d < S.depth, 0 <= g, g < S.ng(d), S.hasG(S.grp(d, g))[x]), And(0 <= x, x < S.npc)), 'req:members-are-positions-of-param.consumers'))
        F(Schematic(1, lambda i: Implies(And(0 <= i, i < S.npc), And(S.cons(i) != NULL, h0.alloc[S.cons(i)], S.ctr(i) != NULL, h0.alloc[S.ctr(i)], ln(h0, S.ctr(i)) >= 0)), 'req:consumer-records'))
    def bounds(self, E): return [self.depth, self.npc]
    def may_write(self, E, p, ref, field): return z3.BoolVal(False)
    def relevant(self, label): return ['req:', 'inv:', 'list', 'in-def']
    def bounds_note(self): return 'lengths of the enumerations are not bounded in the refutation scope: bounded-scope models are candidates only'
    # ---- what an emitted instruction looks like
    def enum_ok(self, h, L):
        S = self; d = S.DOF(L); g = S.GIX(L)
        return And(L != NULL, Not(S.h0.alloc[L]), h.alloc[L], 2 <= d, d < S.depth, 0 <= g, g < S.ng(d), S.GOF(L) == S.grp(d, g), ln(h, L) >= 1, S.hasG(S.GOF(L))[items_i(h, L)[0]])
    def inst_ok(self, h, o):
        S = self; h0 = S.h0; L = h.load(o, '$enum'); d = S.DOF(L); first = items_i(h, L)[0]; oc = h.load(o, 'consumers')
        return And(o != NULL, Not(h0.alloc[o]), h.alloc[o], S.enum_ok(h, L), d - 1 < ln(h0, S.ctr(first)), h.load(o, 'transformation') == items_i(h0, S.ctr(first))[d - 1], h.load(o, 'parameters') == h0.load(S.cons(first), 'parameters'),
                   h.load(o, 'tensor_id') == h0.load(S.info, 'tensor_id'), h.load(o, 'producer') == h0.load(S.info, 'producer'), oc != NULL, Not(h0.alloc[oc]), h.alloc[oc], ln(h, oc) == ln(h, L), oc != L)
    def ops_ok(self, ctx, h, T, upto, name):
        S = self; h0 = S.h0
        def body(k, j):
            o = items_r(h, T)[k]; L = h.load(o, '$enum'); x = items_i(h, L)[j]
            return Implies(And(0 <= k, k < upto, 0 <= j, j < ln(h, L)), And(S.hasG(S.GOF(L))[x], items_i(h, h.load(o, 'consumers'))[j] == h0.load(S.cons(x), 'subgraph_op_id')))
        return ctx.forall(2, body, name)
    def state(self, ctx, p):
        S = self; h = p.heap; T = p.env['other_consumer_transformations'].term; n = ln(h, T)
        return [('result-is-a-new-list', And(T != NULL, h.alloc[T], Not(S.h0.alloc[T]), n >= 0)),
                ('every-instruction-was-built-for-one-group-from-one-enumeration', ctx.forall(1, lambda k: Implies(And(0 <= k, k < n), And(S.inst_ok(h, items_r(h, T)[k]), items_r(h, T)[k] != T, h.load(items_r(h, T)[k], 'consumers') != T, h.load(items_r(h, T)[k], '$enum') != T)), 'inv:insts')),
                ('instruction-names-the-operator-of-every-member-in-enumeration-order', S.ops_ok(ctx, h, T, n, 'inv:ops')),
                ('inputs-not-written', And(ln(h, S.CG) == S.depth, items_r(h, S.CG) == items_r(S.h0, S.CG), ln(h, S.PCs) == S.npc, items_r(h, S.PCs) == items_r(S.h0, S.PCs),
                                           ctx.forall(1, lambda d: Implies(And(2 <= d, d < S.depth), And(ln(h, S.GD(d)) == S.ng(d), items_r(h, S.GD(d)) == items_r(S.h0, S.GD(d)), S.GD(d) != T)), 'inv:depth-lists-kept')))]
    def inv_depths(self, E, ctx, p, pre, i): return [('depth-range', And(0 <= i, Implies(self.depth > 2, i <= self.depth - 2)))] + self.state(ctx, p)
    def inv_groups(self, E, ctx, p, pre, g):
        S = self; d = p.env['transformation_idx'].term
        return [('group-range', And(0 <= g, g <= S.ng(d), 2 <= d, d < S.depth, d == pre.env['transformation_idx'].term)), self.at_depth(ctx, d)] + self.state(ctx, p)
    def at_depth(self, ctx, d):
        S = self; h0 = S.h0
        return ('groups-of-this-depth-are-non-empty-sets-of-positions', And(ctx.forall(1, lambda g: Implies(And(0 <= g, g < S.ng(d)), And(S.grp(d, g) != NULL, h0.alloc[S.grp(d, g)], S.hasG(S.grp(d, g))[S.W(d, g)])), 'inv:groups-non-empty-at-this-depth'),
                                                                             ctx.forall(2, lambda g, x: Implies(And(0 <= g, g < S.ng(d), S.hasG(S.grp(d, g))[x]), And(0 <= x, x < S.npc)), 'inv:members-in-range-at-this-depth')))
    def inv_members(self, E, ctx, p, pre, k):
        S = self; h = p.heap; L = p.env['op_list'].term; ol = p.env['op_idx_list'].term; d = p.env['transformation_idx'].term
        return [('k-range', And(0 <= k, k <= ln(h, L), 2 <= d, d < S.depth, d == pre.env['transformation_idx'].term)),
                self.at_depth(ctx, d), ('members-of-this-group-are-positions', ctx.forall(1, lambda x: Implies(S.hasG(S.GOF(L))[x], And(0 <= x, x < S.npc)), 'inv:members-of-this-group-in-range')),
                ('enumeration-kept', And(L == pre.env['op_list'].term, ln(h, L) == ln(pre.heap, L), items_i(h, L) == items_i(pre.heap, L), S.enum_ok(h, L), S.DOF(L) == d)),
                ('ops-so-far', And(ol == pre.env['op_idx_list'].term, ol != NULL, ol != L, h.alloc[ol], Not(S.h0.alloc[ol]), ln(h, ol) == k, ctx.forall(1, lambda j: Implies(And(0 <= j, j < k), items_i(h, ol)[j] == S.h0.load(S.cons(items_i(h, L)[j]), 'subgraph_op_id')), 'inv:ops-prefix')))] + self.state(ctx, p)
    def ensures(self, E, ctx, p, ret):
        S = self; h = p.heap; T = ret.term; n = ln(h, T)
        return [('result-is-a-new-list', And(T != NULL, Not(S.h0.alloc[T]), h.alloc[T], n >= 0)),
                ('every-instruction: one group of depth >= 2, transformation [depth - 1] and parameters of the member enumerated first, tensor id and producer from the graph-info table, new consumer list', ctx.forall(1, lambda k: Implies(And(0 <= k, k < n), S.inst_ok(h, items_r(h, T)[k])))),
                ('every-instruction names the operator of every member of its group once, in enumeration order', S.ops_ok(ctx, h, T, n, None))]
