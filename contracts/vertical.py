"""Sidecar contract for TransformationInstructionsGenerator._apply_vertical_optimization (C01, C02, C03) — the producer-side / consumer-side
fusion step of the instruction generator (DESIGN S6: first piece of the generator's instruction algebra under a discharged contract).

  P = producer rule, R_0 .. R_{n-1} = consumer rules (in order).  With the three predicates of the module (contracts below, checked natively over their
  finite domain in props/graphcommon.py):
      E(i)  = P is ADD_DEQUANTIZE and R_i is ADD_QUANTIZE and same parameters        (DQ/Q eliminated)
      RQ(i) = P is ADD_DEQUANTIZE and R_i is ADD_QUANTIZE and different parameters   (DQ/Q replaced by a requantize)
      DN(i) = P is ADD_DEQUANTIZE and R_i is NO_QUANTIZE                              (DQ feeds an unquantized reader)
  the result is, per consumer rule and in order (pos = ghost position function, 2 entries for a requantize, else 1):
      E(i):            a NEW QUANTIZE_TENSOR(R_i.tensor, R_i.producer, R_i.consumers, R_i.parameters)
      RQ(i):           a NEW QUANTIZE_TENSOR(.., R_i.consumers, P.parameters) followed by a NEW ADD_QUANTIZE(.., R_i.consumers, R_i.parameters)
      DN(i):           a NEW ADD_DEQUANTIZE(.., R_i.consumers, P.parameters)
      otherwise:       R_i itself
  preceded by P iff P still has consumers.  P.consumers only shrinks (every remaining element was in it before: the instruction still names readers of the
  tensor only), `list.remove` never raises (the repaired defect 77c51ba), no consumer rule and none of their consumer lists is written."""
import z3
from vlib.pyvc import *
from contracts.graph import items_i, items_r, ln

TR = {'NO_QUANTIZE': 0, 'ADD_QUANTIZE': 1, 'ADD_DEQUANTIZE': 2, 'QUANTIZE_TENSOR': 3, 'EMULATED_SUBCHANNEL': 4}         # qtyping.QuantTransformation (values compared natively in the check)
FIELDS = {'transformation': 'int', 'tensor_id': 'int', 'producer': 'int', 'consumers': 'list[int]', 'parameters': 'ref'}
CONSTS = {f'qtyping.QuantTransformation.{k}': v for k, v in TR.items()}
PEQ = z3.Function('parameters_equal', Ref, Ref, Bo)           # dataclass equality of two parameter objects (uninterpreted; only used through the three predicates)
RULE_FIELDS = ('transformation', 'tensor_id', 'producer', 'consumers', 'parameters')

def pred_E(h, a, b): return And(h.load(a, 'transformation') == TR['ADD_DEQUANTIZE'], h.load(b, 'transformation') == TR['ADD_QUANTIZE'], PEQ(h.load(a, 'parameters'), h.load(b, 'parameters')))
def pred_RQ(h, a, b): return And(h.load(a, 'transformation') == TR['ADD_DEQUANTIZE'], h.load(b, 'transformation') == TR['ADD_QUANTIZE'], Not(PEQ(h.load(a, 'parameters'), h.load(b, 'parameters'))))
def pred_DN(h, a, b): return And(h.load(a, 'transformation') == TR['ADD_DEQUANTIZE'], h.load(b, 'transformation') == TR['NO_QUANTIZE'])

class VerticalOptimization(Spec):
    fields = FIELDS; consts = CONSTS; relaxed_first = True
    constructors = {'qtyping.TransformationInst': ['transformation', 'tensor_id', 'producer', 'consumers', 'parameters']}
    def __init__(self):
        self.callees = {'check_dq_q_elimination': lambda E, p, a, kw, node: vbool(pred_E(p.heap, a[0].term, a[1].term)),
                        'check_replace_dq_q_with_rq': lambda E, p, a, kw, node: vbool(pred_RQ(p.heap, a[0].term, a[1].term)),
                        'check_dq_no_quant_elimination': lambda E, p, a, kw, node: vbool(pred_DN(p.heap, a[0].term, a[1].term))}
        self.invariants = {0: self.inv_outer, 1: self.inv_inner, 2: self.inv_inner, 3: self.inv_inner}
    def empty_list_kind(self, line): return 'ref'
    def bind(self, E, p):
        h = p.heap; S = self
        for nme in list(FIELDS) + ['$len', '$items:int', '$items:ref']: h.arr(nme)
        h0 = h.copy(); S.h0 = h0
        S.self_ = z3.Const('self', Ref); S.P = z3.Const('producer_trans_rule', Ref); S.RL = z3.Const('consumer_trans_rules', Ref)
        p.env.update(self=V('ref', S.self_), producer_trans_rule=V('ref', S.P), consumer_trans_rules=V('list[ref]', S.RL))
        S.n = ln(h0, S.RL); S.R = lambda i: items_r(h0, S.RL)[i]; S.RC = lambda i: h0.load(S.R(i), 'consumers')
        S.PC = h0.load(S.P, 'consumers'); S.m0 = ln(h0, S.PC); S.pc0 = items_i(h0, S.PC)
        S.E = lambda i: pred_E(h0, S.P, S.R(i)); S.RQ = lambda i: And(Not(S.E(i)), pred_RQ(h0, S.P, S.R(i))); S.DN = lambda i: And(Not(S.E(i)), Not(S.RQ(i)), pred_DN(h0, S.P, S.R(i)))
        S.pos = z3.Function('entries_before_rule', I, I); S.MEM0 = z3.Function('in_producer_consumers_at_entry', I, Bo)
        objs = [S.P, S.RL, S.PC]
        p.pc += [z3.Distinct(*objs)] + [x != NULL for x in objs] + [h0.alloc[x] for x in objs] + [S.n >= 0, S.m0 >= 0, S.pos(0) == 0]
        F = p.facts.append
        F(Schematic(1, lambda i: Implies(And(0 <= i, i < S.n), And(S.R(i) != NULL, h0.alloc[S.R(i)], S.R(i) != S.P, S.R(i) != S.RL, S.R(i) != S.PC, S.RC(i) != NULL, h0.alloc[S.RC(i)], S.RC(i) != S.PC, S.RC(i) != S.RL,
                                                                  ln(h0, S.RC(i)) >= 0, S.RC(i) != S.P, S.RC(i) != S.R(i))), 'wf:rules'))
        F(Schematic(2, lambda i, j: Implies(And(0 <= i, i < S.n, 0 <= j, j < S.n), S.RC(i) != S.R(j)), 'wf:lists-are-not-rules'))
        F(Schematic(1, lambda i: Implies(And(0 <= i, i < S.n), And(S.pos(i + 1) == S.pos(i) + If(S.RQ(i), 2, 1), S.pos(i) >= 0)), 'spec:pos-step'))
        # entries of different rules do not overlap: pos(j) + width(j) <= pos(i) for j < i  (proved separately by induction: base and step are spec-lemma obligations of the check)
        F(Schematic(2, lambda j, i: Implies(And(0 <= j, j < i, i <= S.n), S.pos(j) + If(S.RQ(j), 2, 1) <= S.pos(i)), 'lemma:pos-monotone'))
        F(Schematic(1, lambda k: Implies(And(0 <= k, k < S.m0), S.MEM0(S.pc0[k])), 'ghost:entry-members'))
    def bounds(self, E): return [self.n, self.m0] + [ln(self.h0, self.RC(z3.IntVal(k))) for k in range(2)]
    def may_write(self, E, p, ref, field): return ref == self.PC if field in ('$items:int', '$len') else z3.BoolVal(False)       # the producer rule's consumer list only (plus fresh objects)
    def relevant(self, label):
        common = ['wf:', 'inv:alloc', 'inv:frames', 'list.', 'in-def', 'ghost:', 'lemma:']
        if 'entries' in label or 'entry' in label: return ['inv:entries', 'spec:'] + common
        if 'producer-consumers' in label: return ['inv:members'] + common
        return None
    # ---- state descriptions
    def entry_ok(self, h, T, j, off):
        """what the result list T holds for consumer rule j (at T[off + pos(j)], and the next slot for a requantize)"""
        S = self; a = items_r(h, T)[off + S.pos(j)]; b = items_r(h, T)[off + S.pos(j) + 1]; r = S.R(j); h0 = S.h0
        def fresh_inst(o, tr, params): return And(o != NULL, Not(h0.alloc[o]), h.alloc[o], h.load(o, 'transformation') == TR[tr], h.load(o, 'tensor_id') == h0.load(r, 'tensor_id'), h.load(o, 'producer') == h0.load(r, 'producer'),
                                                  h.load(o, 'consumers') == S.RC(j), h.load(o, 'parameters') == params)
        pr, pp = h0.load(r, 'parameters'), h0.load(S.P, 'parameters')
        return If(S.E(j), fresh_inst(a, 'QUANTIZE_TENSOR', pr), If(S.RQ(j), And(fresh_inst(a, 'QUANTIZE_TENSOR', pp), fresh_inst(b, 'ADD_QUANTIZE', pr), a != b), If(S.DN(j), fresh_inst(a, 'ADD_DEQUANTIZE', pp), a == r)))
    def frames(self, ctx, h):
        S = self; h0 = S.h0
        return [('consumer-rules-and-their-lists-not-written', And(ln(h, S.RL) == S.n, items_r(h, S.RL) == items_r(h0, S.RL),
                    ctx.forall(1, lambda j: Implies(And(0 <= j, j < S.n), And(*[h.load(S.R(j), f) == h0.load(S.R(j), f) for f in RULE_FIELDS], ln(h, S.RC(j)) == ln(h0, S.RC(j)), items_i(h, S.RC(j)) == items_i(h0, S.RC(j)))), 'inv:frames'))),
                ('producer-rule-fields-kept', And(*[h.load(S.P, f) == h0.load(S.P, f) for f in RULE_FIELDS]))]
    def producer_consumers(self, ctx, h):
        S = self
        return ('producer-consumers-only-shrink', And(ln(h, S.PC) >= 0, ln(h, S.PC) <= S.m0, ctx.forall(1, lambda k: Implies(And(0 <= k, k < ln(h, S.PC)), S.MEM0(items_i(h, S.PC)[k])), 'inv:members')))
    def result_so_far(self, ctx, p, i):
        S = self; h = p.heap; T = p.env['transformations'].term
        return [('result-length', And(T != NULL, h.alloc[T], Not(S.h0.alloc[T]), ln(h, T) == S.pos(i))),
                ('entries-per-consumer-rule', ctx.forall(1, lambda j: Implies(And(0 <= j, j < i), S.entry_ok(h, T, j, 0)), 'inv:entries')),
                ('result-entries-allocated', ctx.forall(1, lambda k: Implies(And(0 <= k, k < ln(h, T)), And(h.alloc[items_r(h, T)[k]], items_r(h, T)[k] != T)), 'inv:alloc'))]
    def inv_outer(self, E, ctx, p, pre, i):
        return [('i-range', And(0 <= i, i <= self.n))] + self.result_so_far(ctx, p, i) + [self.producer_consumers(ctx, p.heap)] + self.frames(ctx, p.heap)
    def inv_inner(self, E, ctx, p, pre, k):
        S = self; i = pre.env['$i0'].term
        return [('k-range', And(0 <= k, k <= ln(S.h0, S.RC(i))))] + self.result_so_far(ctx, p, i) + [self.producer_consumers(ctx, p.heap)] + self.frames(ctx, p.heap)
    def ensures(self, E, ctx, p, ret):
        S = self; h = p.heap; T = ret.term; off = If(ln(h, S.PC) > 0, 1, 0)
        return [('result-length-is-one-entry-per-rule-(two-for-a-requantize)-plus-the-producer-rule', ln(h, T) == S.pos(S.n) + off),
                ('producer-rule-first-iff-it-still-has-consumers', Implies(off == 1, items_r(h, T)[0] == S.P)),
                ('entries-per-consumer-rule-in-order', ctx.forall(1, lambda j: Implies(And(0 <= j, j < S.n), S.entry_ok(h, T, j, off)))),
                self.producer_consumers(ctx, h)] + self.frames(ctx, h)

def pos_lemmas():
    """pos(0) = 0, pos(i+1) = pos(i) + w(i), w(i) in {1, 2}   =>   pos(j) + w(j) <= pos(i) for j < i   (induction on i; base i = j + 1, step i -> i + 1)"""
    pos = z3.Function('pos', I, I); w = z3.Function('w', I, I); j, i = z3.Ints('j i')
    step = lambda k: pos(k + 1) == pos(k) + w(k); wr = lambda k: And(w(k) >= 1, w(k) <= 2)
    return [('pos-monotone.base: pos(j) + w(j) <= pos(j + 1)', [step(j), wr(j)], pos(j) + w(j) <= pos(j + 1)),
            ('pos-monotone.step: j < i and pos(j) + w(j) <= pos(i)  =>  pos(j) + w(j) <= pos(i + 1)', [j < i, pos(j) + w(j) <= pos(i), step(i), wr(i)], pos(j) + w(j) <= pos(i + 1))]
