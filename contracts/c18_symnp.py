"""C18 extension of the CPython-executes-the-real-code front end (vlib/symnp.py is not modified).

What is added, and why:

1. `explore(run, base_pc)` -- a tiny path explorer.  A symbolic array SIZE (`SymSize`, a z3 Int term) compared with another
   size / an int gives a `SymBool`; when the real code branches on it (`if np.shape(a) != np.shape(b)`, `if a.size == 0`)
   `__bool__` asks the explorer, which takes the feasible branch, records the condition in the path condition and schedules the
   other branch for a re-execution.  The real function is therefore executed once per feasible path, for ALL sizes at once.

2. `SymVec(SymArray)` -- one ARBITRARY ELEMENT (z3 real / int term) of an array of symbolic size, plus an optional element
   CLASS term (0 finite, 1 NaN, 2 +inf, 3 -inf) for float inputs.  Arithmetic terms, dtype promotion and division side
   obligations are produced by symnp's own `binop` on rank-0 views; SymVec only adds the symbolic shape bookkeeping and
     np.square                      -> x*x
     np.nan_to_num(nan=, posinf=, neginf=)  -> If(class = NaN, nan, If(class = +inf, posinf, If(class = -inf, neginf, x))), class := finite
     .mean() / np.mean / np.median  -> a fresh real r; the reduction is LOGGED (kind, element term, size, result) and the
                                       contract instantiates the trusted reduction axioms on it (see `reduction_axioms`)
     .astype / .flatten / np.shape / np.size / .size
   Arithmetic on an array whose class is not known to be finite raises Undecided (IEEE NaN/inf arithmetic is not modelled):
   a successful run therefore also shows that the sanitising happens before any arithmetic.
   Operands of one elementwise operation must have the same size: emitted as side obligation `same-size-at-arithmetic`.

3. Two name-level proxies installed in the namespace of the module under test (its source text is executed unmodified):
     np    -> forwards every attribute to numpy, except `np.array(x, dtype=)` on a SymVec (= x.astype(dtype); numpy's
              C entry point np.array cannot be intercepted through __array_function__)
     float -> identity on a rank-0 SymVec (CPython's float() can only return a concrete float), builtins.float otherwise.

Trusted reduction axioms (each instance is skolemised here; E' are fresh copies of the element variables, H the per-element
hypotheses that hold for EVERY element of the operands):
   nonneg      (forall E. H(E) -> t(E) >= 0)  ->  r >= 0                for r = mean/median of a NON-EMPTY array with element term t
   zero        (forall E. H(E) -> t(E) == 0)  ->  r == 0
   congruence  n1 == n2 and (forall E. H(E) -> t1(E) == t2(E))  ->  r1 == r2      (same kind of reduction)
"""
import builtins, os, sys, types, fractions, time
import numpy as np, z3
from vlib import core, symnp
from vlib.symnp import SymArray, Undecided, ctx

# ------------------------------------------------------------------------------------------------ path explorer
EXP = None
class _Explorer:
    def __init__(self, prefix, base_pc):
        self.prefix, self.pc, self.taken, self.alt = list(prefix), list(base_pc), [], []
    def feasible(self, extra):
        s = z3.Solver(); s.set('timeout', 5000); s.add(*self.pc); s.add(extra); return s.check() != z3.unsat      # unknown counts as feasible (sound)
    def decide(self, term):
        k = len(self.taken)
        if k < len(self.prefix): c, alt = self.prefix[k], False
        else:
            ft, ff = self.feasible(term), self.feasible(z3.Not(term))
            if ft: c, alt = True, ff
            elif ff: c, alt = False, False
            else: raise Undecided('path condition became infeasible')
        self.taken.append(c); self.alt.append(alt); self.pc.append(term if c else z3.Not(term)); return c

class PathResult:
    def __init__(self, pc, kind, value, cx): self.pc, self.kind, self.value, self.cx = pc, kind, value, cx     # kind: 'return' | 'raise'

def explore(run, base_pc=()):
    """executes run() once per feasible path; returns [PathResult].  Undecided propagates (the front end could not follow)."""
    global EXP
    out, work = [], [[]]
    while work:
        prefix = work.pop(); ex = _Explorer(prefix, base_pc); prev = EXP; EXP = ex
        try:
            with symnp.session() as cx:
                cx.reductions = []
                try: kind, val = 'return', run()
                except Undecided: raise
                except Exception as e: kind, val = 'raise', e
        finally: EXP = prev
        out.append(PathResult(list(ex.pc), kind, val, cx))
        for k in range(len(prefix), len(ex.taken)):
            if ex.alt[k]: work.append(ex.taken[:k] + [not ex.taken[k]])
        if len(out) > 64: raise Undecided('more than 64 paths')
    return out

class SymBool:
    def __init__(self, term): self.term = term
    def __bool__(self):
        if EXP is None: raise Undecided('symbolic condition outside an exploration')
        return EXP.decide(self.term)

class SymSize:
    """number of elements: a z3 Int term; comparisons give SymBool, any use as a concrete integer is Undecided"""
    def __init__(self, term): self.term = term if z3.is_expr(term) else z3.IntVal(int(term))
    def _t(self, o):
        if isinstance(o, SymSize): return o.term
        if isinstance(o, (int, np.integer)) and not isinstance(o, (bool, np.bool_)): return z3.IntVal(int(o))
        return None
    def _cmp(self, o, f):
        t = self._t(o); return NotImplemented if t is None else SymBool(f(self.term, t))
    def __eq__(self, o): return self._cmp(o, lambda a, b: a == b)
    def __ne__(self, o): return self._cmp(o, lambda a, b: a != b)
    def __lt__(self, o): return self._cmp(o, lambda a, b: a < b)
    def __le__(self, o): return self._cmp(o, lambda a, b: a <= b)
    def __gt__(self, o): return self._cmp(o, lambda a, b: a > b)
    def __ge__(self, o): return self._cmp(o, lambda a, b: a >= b)
    __hash__ = None
    def __bool__(self): return bool(SymBool(self.term != 0))
    def __index__(self): raise Undecided('symbolic size used as a concrete integer')
    __int__ = __index__
    def __repr__(self): return f'SymSize({self.term})'

FINITE, NAN, PINF, NINF = 0, 1, 2, 3
OPAQUE = object()           # shape of an input: unknown rank and extents, only the total size is known

def _same(a, b): return z3.is_expr(a) and z3.is_expr(b) and a.eq(b)

class SymVec(SymArray):
    def __init__(self, term, dtype, size=None, cls=None, shape=None, total=None):
        """size: SymSize -> 1-D array of that length; shape=OPAQUE with total=SymSize -> input of unknown shape; size None and shape None -> rank 0"""
        self.term, self.dtype, self.cls = term, np.dtype(dtype), cls
        if shape is OPAQUE: self._shape, self._total = OPAQUE, total
        elif size is None: self._shape, self._total = (), SymSize(1)
        else: self._shape, self._total = (size,), size
    @property
    def shape(self):
        if self._shape is OPAQUE: raise Undecided('shape of an input array inspected before flatten()')
        return self._shape
    @property
    def ndim(self): return len(self.shape)
    @property
    def size(self): return self._total if self._shape != () else 1
    def __len__(self): raise Undecided('len() of a symbolic-size array')
    def _like(self, term, dtype, cls='keep'):
        v = SymVec.__new__(SymVec); v.term, v.dtype, v._shape, v._total = term, np.dtype(dtype), self._shape, self._total
        v.cls = self.cls if cls == 'keep' else cls; return v
    def _scalar_view(self):
        if self.cls is not None: raise Undecided('arithmetic on data not known to be free of NaN/inf (IEEE special values are not modelled)')
        return SymArray(self.term, self.dtype, ())
    # ---- shape preserving operations
    def flatten(self): return SymVec(self.term, self.dtype, size=self._total, cls=self.cls) if self._shape != () else SymVec(self.term, self.dtype, size=SymSize(1), cls=self.cls)
    def astype(self, dt):
        dt = np.dtype(dt)
        if self.dtype.kind == 'f' and dt.kind == 'f': return self._like(self.term, dt)              # real semantics (rounding not modelled; assumption)
        if self.cls is not None: raise Undecided('cast of possibly non-finite data to a non-float dtype')
        r = SymArray(self.term, self.dtype, ()).astype(dt); return self._like(r.term, r.dtype)
    # ---- arithmetic: terms from symnp.binop on rank-0 views, shape handled here
    @staticmethod
    def _merge(a, b):
        vs = [v for v in (a, b) if isinstance(v, SymVec)]
        if len(vs) == 2 and vs[0]._shape != () and vs[1]._shape != ():
            if vs[0]._shape is OPAQUE or vs[1]._shape is OPAQUE: raise Undecided('arithmetic on arrays of unknown shape')
            if not _same(vs[0]._total.term, vs[1]._total.term):
                ctx().side.append(('same-size-at-arithmetic', vs[0]._total.term == vs[1]._total.term))
        return next((v for v in vs if v._shape != ()), vs[0])
    @staticmethod
    def _bin(name, a, b):
        host = SymVec._merge(a, b)
        sa = a._scalar_view() if isinstance(a, SymVec) else a; sb = b._scalar_view() if isinstance(b, SymVec) else b
        if isinstance(sa, SymArray) and not isinstance(a, SymVec) or isinstance(sb, SymArray) and not isinstance(b, SymVec): raise Undecided('mixed SymArray / SymVec operands')
        r = symnp.binop(name, sa, sb); return host._like(r.term, r.dtype, cls=None)
    def __array_ufunc__(self, ufunc, method, *inputs, **kw):
        if method != '__call__' or kw.get('out') is not None: raise Undecided(f'ufunc {ufunc.__name__}.{method}')
        n = ufunc.__name__
        if n == 'square': return SymVec._bin('multiply', inputs[0], inputs[0])
        if len(inputs) == 1:
            x = inputs[0]; r = SymArray.__array_ufunc__(x._scalar_view(), ufunc, method, x._scalar_view()); return x._like(r.term, r.dtype, cls=None)
        return SymVec._bin(n, *inputs)
    def __add__(self, o): return SymVec._bin('add', self, o)
    def __radd__(self, o): return SymVec._bin('add', o, self)
    def __sub__(self, o): return SymVec._bin('subtract', self, o)
    def __rsub__(self, o): return SymVec._bin('subtract', o, self)
    def __mul__(self, o): return SymVec._bin('multiply', self, o)
    def __rmul__(self, o): return SymVec._bin('multiply', o, self)
    def __truediv__(self, o): return SymVec._bin('true_divide', self, o)
    def __rtruediv__(self, o): return SymVec._bin('true_divide', o, self)
    def __abs__(self):
        r = abs(self._scalar_view()); return self._like(r.term, r.dtype, cls=None)
    def __neg__(self):
        r = -self._scalar_view(); return self._like(r.term, r.dtype, cls=None)
    # ---- reductions
    def _reduce(self, kind, axis=None, **kw):
        extra = {k: v for k, v in kw.items() if v is not None and not (k == 'keepdims' and v is False)}
        if axis is not None or extra: raise Undecided(f'{kind} with axis/extra arguments {axis} {sorted(extra)}')
        if self._shape is OPAQUE: raise Undecided('reduction of an array of unknown shape')
        self._scalar_view()
        c = ctx(); r = c.fresh(kind, z3.RealSort() if self.dtype.kind == 'f' else z3.RealSort())
        c.side.append((f'{kind}-of-nonempty-array', self._total.term >= 1))
        dt = self.dtype if self.dtype.kind == 'f' else np.dtype('float64')
        out = SymVec(r, dt); c.reductions.append(dict(kind=kind, term=symnp.as_real(SymArray(self.term, self.dtype, ())), size=self._total.term, result=r))
        return out
    def mean(self, axis=None, **kw): return self._reduce('mean', axis, **kw)
    def __array_function__(self, func, types_, args, kwargs):
        n = func.__name__
        if n in ('mean', 'median'):
            kw = dict(kwargs); axis = kw.pop('axis', args[1] if len(args) > 1 else None); return args[0]._reduce(n, axis, **kw)
        if n == 'nan_to_num':
            x = args[0]; kw = dict(kwargs); kw.pop('copy', None)
            vals = {k: kw.pop(k, None) for k in ('nan', 'posinf', 'neginf')}
            if kw or len(args) > 1: raise Undecided('np.nan_to_num arguments')
            if x.dtype.kind != 'f' or x.cls is None: return x._like(x.term, x.dtype)
            if any(not isinstance(v, (int, float)) or isinstance(v, bool) for v in vals.values()): raise Undecided('np.nan_to_num with default (dtype dependent) replacement values')
            rv = {k: symnp._rv(float(v)) for k, v in vals.items()}
            t = z3.If(x.cls == NAN, rv['nan'], z3.If(x.cls == PINF, rv['posinf'], z3.If(x.cls == NINF, rv['neginf'], x.term)))
            return x._like(t, x.dtype, cls=None)
        if n == 'shape': return args[0].shape
        if n == 'ndim': return args[0].ndim
        if n == 'size': return args[0].size
        raise Undecided('np.' + n)
    def item(self): raise Undecided('.item()')
    def __bool__(self): raise Undecided('symbolic value used as a condition')
    def __eq__(self, o): raise Undecided('symbolic == in control flow')
    __hash__ = None
    def __repr__(self): return f'SymVec({self.dtype}, {self._shape if self._shape is not OPAQUE else "opaque"}, cls={"?" if self.cls is not None else "finite"})'

# ------------------------------------------------------------------------------------------------ name-level proxies
class _NP:
    """`np` as seen by the module under test"""
    def __getattr__(self, n): return getattr(np, n)
    @staticmethod
    def array(obj, dtype=None, **kw):
        if isinstance(obj, SymVec):
            if kw: raise Undecided('np.array keyword arguments')
            return obj._like(obj.term, obj.dtype) if dtype is None else obj.astype(dtype)
        return np.array(obj, dtype=dtype, **kw)
NP = _NP()
def sym_float(x=0.0):
    if isinstance(x, SymVec):
        if x._shape != (): raise TypeError('only length-1 arrays can be converted to Python scalars')
        if x.cls is not None: raise Undecided('float() of possibly non-finite data')
        return x._like(symnp.as_real(SymArray(x.term, x.dtype, ())), np.float64)
    return builtins.float(x)

_k = [0]
def load(rel, src_override=None, symbolic=True):
    """executes the REAL source text of a repository module in a fresh module object (so that its globals can be given the proxies
    without touching the imported module); `src_override` = mutated text for canaries."""
    core.stub_package(); _k[0] += 1
    name = f'c18_exec_{_k[0]}'; m = types.ModuleType(name); m.__file__ = os.path.join(core.PKG, rel); sys.modules[name] = m
    exec(compile(src_override if src_override is not None else core.read_source(rel), m.__file__, 'exec'), m.__dict__)
    if symbolic: m.np = NP; m.float = sym_float
    return m

# ------------------------------------------------------------------------------------------------ reduction axioms
def rename(fs, elem_vars, tag):
    sub = [(v, z3.Const(f'{v}!{tag}', v.sort())) for v in elem_vars]
    return [z3.substitute(f, *sub) for f in fs]

_ax = [0]
def reduction_axioms(reds, elem_vars, elem_hyps):
    """skolemised instances of the trusted axioms for the logged reductions (element hypotheses = facts true of EVERY element)"""
    out = []
    def inst(body_fn):
        _ax[0] += 1; tag = f'ax{_ax[0]}'
        return rename(list(elem_hyps), elem_vars, tag), (lambda t: rename([t], elem_vars, tag)[0])
    for r in reds:
        H, sk = inst(None); out.append(z3.Implies(z3.Implies(z3.And(*H), sk(r['term']) >= 0), r['result'] >= 0))
        H, sk = inst(None); out.append(z3.Implies(z3.Implies(z3.And(*H), sk(r['term']) == 0), r['result'] == 0))
    for i, a in enumerate(reds):
        for b in reds[i + 1:]:
            if a['kind'] != b['kind']: continue
            H, sk = inst(None)
            out.append(z3.Implies(z3.And(a['size'] == b['size'], z3.Implies(z3.And(*H), sk(a['term']) == sk(b['term']))), a['result'] == b['result']))
    return out

AXIOMS = ['np.mean / ndarray.mean / np.median of a NON-EMPTY array all of whose elements are >= 0 is >= 0',
          'np.mean / ndarray.mean / np.median of a NON-EMPTY array all of whose elements are 0 is 0',
          'np.mean (resp. np.median) is a function of the array contents: two arrays of the same size with elementwise equal contents have equal mean (median)',
          'np.nan_to_num(x, nan=a, posinf=b, neginf=c) replaces NaN by a, +inf by b, -inf by c and keeps every finite element',
          'np.array(x, dtype=float32) / .astype / .flatten keep the element values (float->float32 rounding treated as exact) and the number of elements; np.shape of a flattened array is (size,)',
          'np.square(x) = x*x elementwise; np.subtract / abs / "/" / "+" are the pointwise liftings (vlib/symnp.py)']
