"""Sidecar contract for TransformationPerformer._remap_signature_outputs (C02 I/O clause): after the transformations every signature
output denotes the tensor that now stands at the position(s) of `subgraph.outputs` where its old tensor stood; entries that name no
graph output are unchanged.  (Signature outputs are matched by tensor, NOT by position: converters order them by name.)"""
import z3
from vlib.pyvc import *
from contracts.graph import items_i, items_r, ln
FIELDS = {'signatureDefs': 'list[ref]', 'subgraphIndex': 'int', 'outputs': 'list[int]', 'subgraphs': 'list[ref]', 'tensorIndex': 'int'}

class RemapSignatureOutputs(Spec):
    fields = FIELDS; consts = {}
    def __init__(self): self.invariants = {0: self.inv0, 1: self.inv1, 2: self.inv2}
    def field_kind(self, node, kind):
        import ast
        if node.attr == 'outputs' and isinstance(node.value, ast.Name) and node.value.id == 'signature_def': return 'list[ref]'
        return None
    def bind(self, E, p):
        h = p.heap; S = self
        for nme in list(FIELDS) + ['$len', '$items:int', '$items:ref']: h.arr(nme)
        h0 = h.copy(); S.h0 = h0
        S.self_ = z3.Const('self', Ref); S.model = z3.Const('tflite_model', Ref); S.before = z3.Const('subgraph_outputs_before', Ref)
        p.env.update(self=V('ref', S.self_), tflite_model=V('ref', S.model), subgraph_outputs_before=V('list[list[int]]', S.before))
        S.sigs = h0.load(S.model, 'signatureDefs'); S.ns = ln(h0, S.sigs); S.sgs = h0.load(S.model, 'subgraphs')
        S.sig = lambda s: items_r(h0, S.sigs)[s]; S.so = lambda s: h0.load(S.sig(s), 'outputs'); S.nso = lambda s: ln(h0, S.so(s))
        S.tm = lambda s, k: items_r(h0, S.so(s))[k]; S.T0 = lambda s, k: h0.load(S.tm(s, k), 'tensorIndex'); S.sp = lambda s: h0.load(S.sig(s), 'subgraphIndex')
        S.oldl = lambda s: items_r(h0, S.before)[S.sp(s)]; S.old = lambda s: items_i(h0, S.oldl(s)); S.nold = lambda s: ln(h0, S.oldl(s))
        S.newl = lambda s: h0.load(items_r(h0, S.sgs)[S.sp(s)], 'outputs'); S.new = lambda s: items_i(h0, S.newl(s))
        S.valid = lambda s, k: And(S.sigs != NULL, 0 <= s, s < S.ns, S.so(s) != NULL, 0 <= k, k < S.nso(s))
        p.pc += [S.model != NULL, S.before != NULL, S.sgs != NULL, Implies(S.sigs != NULL, S.ns >= 0), ln(h0, S.before) == ln(h0, S.sgs), ln(h0, S.sgs) >= 0]
        F = p.facts.append
        F(Schematic(1, lambda s: Implies(And(S.sigs != NULL, 0 <= s, s < S.ns), And(S.sig(s) != NULL, 0 <= S.sp(s), S.sp(s) < ln(h0, S.sgs), Implies(S.so(s) != NULL, S.nso(s) >= 0),
                                                                                  S.oldl(s) != NULL, S.newl(s) != NULL, S.nold(s) >= 0, ln(h0, S.newl(s)) == S.nold(s), items_r(h0, S.sgs)[S.sp(s)] != NULL)), 'req:signature-wf'))
        S.own_s = z3.Function('owner_sig', Ref, I); S.own_k = z3.Function('owner_pos', Ref, I)
        F(Schematic(2, lambda s, k: Implies(S.valid(s, k), And(S.tm(s, k) != NULL, S.own_s(S.tm(s, k)) == s, S.own_k(S.tm(s, k)) == k)), 'req:tensor-maps-distinct'))
        # ghost from the property: the first position of the OLD graph outputs that holds the entry's tensor
        S.hasm = z3.Function('is_graph_output', I, I, Bo); S.fm = z3.Function('first_output_position', I, I, I)
        F(Schematic(2, lambda s, k: Implies(And(S.valid(s, k), S.hasm(s, k)), And(0 <= S.fm(s, k), S.fm(s, k) < S.nold(s), S.old(s)[S.fm(s, k)] == S.T0(s, k))), 'ghost:first-match-1'))
        F(Schematic(3, lambda s, k, i: Implies(And(S.valid(s, k), 0 <= i, i < S.nold(s), S.old(s)[i] == S.T0(s, k)), And(S.hasm(s, k), S.fm(s, k) <= i)), 'ghost:first-match-2'))
        S.FINAL = lambda s, k: If(S.hasm(s, k), S.new(s)[S.fm(s, k)], S.T0(s, k))
    def bounds(self, E): return [self.ns, ln(self.h0, self.sgs)] + [self.nso(z3.IntVal(k)) for k in range(2)] + [self.nold(z3.IntVal(k)) for k in range(2)]
    def may_write(self, E, p, ref, field): return z3.BoolVal(field == 'tensorIndex')
    def model_values(self, E, m):
        S = self; ev = lambda t: m.eval(t, model_completion=True); iv = lambda t: ev(t).as_long()
        if z3.is_true(ev(S.sigs == NULL)): return dict(signatures=None)
        nsg = iv(ln(S.h0, S.sgs)); out = dict(signatures=[], old_outputs=[], new_outputs=[])
        for g in range(nsg):
            ol = items_r(S.h0, S.before)[g]; nl = S.h0.load(items_r(S.h0, S.sgs)[g], 'outputs'); n = max(0, min(4, iv(ln(S.h0, ol))))
            out['old_outputs'].append([iv(items_i(S.h0, ol)[i]) for i in range(n)]); out['new_outputs'].append([iv(items_i(S.h0, nl)[i]) for i in range(n)])
        for s in range(iv(S.ns)):
            si = z3.IntVal(s)
            out['signatures'].append(dict(subgraphIndex=iv(S.sp(si)), outputs=None if z3.is_true(ev(S.so(si) == NULL)) else [iv(S.T0(si, z3.IntVal(k))) for k in range(max(0, min(4, iv(S.nso(si)))))]))
        return out
    def state(self, ctx, p, cs, ck):
        S = self; TI = p.heap.arr('tensorIndex')
        done = lambda s, k: Or(s < cs, And(s == cs, k < ck))
        return ('entries-before-are-final-others-untouched', ctx.forall(2, lambda s, k: Implies(S.valid(s, k), TI[S.tm(s, k)] == If(done(s, k), S.FINAL(s, k), S.T0(s, k)))))
    def inv0(self, E, ctx, p, pre, cs): return [('s-range', And(0 <= cs, cs <= self.ns)), self.state(ctx, p, cs, z3.IntVal(0))]
    def inv1(self, E, ctx, p, pre, ck):
        cs = pre.env['$i0'].term; return [('k-range', And(0 <= ck, ck <= self.nso(cs))), self.state(ctx, p, cs, ck)]
    def inv2(self, E, ctx, p, pre, ci):
        S = self; cs, ck = pre.env['$i0'].term, pre.env['$i1'].term
        return [('i-range', And(0 <= ci, ci <= S.nold(cs))), self.state(ctx, p, cs, ck),
                ('no-match-so-far', ctx.forall(1, lambda i: Implies(And(0 <= i, i < ci), S.old(cs)[i] != S.T0(cs, ck))))]
    def ensures(self, E, ctx, p, ret):
        S = self; TI = p.heap.arr('tensorIndex')
        return [('every-signature-output-follows-its-graph-output', ctx.forall(2, lambda s, k: Implies(S.valid(s, k), TI[S.tm(s, k)] == S.FINAL(s, k))))]
