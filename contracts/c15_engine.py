"""`Engine15` — small additions to pyvc.Engine needed by the C15 carriers (nothing of the base engine is changed; every addition is exact
Python semantics on the engine's heap model):

   {}                      a fresh empty dict of the kind the sidecar names (Spec.empty_dict_kind(line))
   xs + ys                 list concatenation: a fresh list, len = len xs + len ys, items pointwise
   xs[a:]                  slice with a constant non-negative lower bound: a fresh list, len = max(len xs - a, 0), items[k] = xs[k + a]
   a == b / a != b         on int lists: ghost Bool with its definition in both directions (equal length and pointwise equal / a witness position)
                           on objects (dataclass __eq__): Spec.ref_eq(E, p, a, b, node) -> Bool term (the sidecar says which equality the class has)
   allocating loop bodies  the loop rule of the base engine, with the allocation map of the arbitrary-iteration / exit state replaced by
                           `alloc_at_entry OR extra` (extra: a fresh map): objects allocated before the loop stay allocated, objects created by
                           earlier iterations may be allocated (the sidecar invariant says which), a new object is distinct from all of them
   E.idx[k]                the index term of the current iteration of (enclosing) loop k, for invariants of inner loops
Loop ordinals are the source order of the `for` statements."""
import ast
import z3
from vlib import pyvc
from vlib.pyvc import *

def _loops_in_source_order(node):
    out = []
    def visit(n):
        for c in ast.iter_child_nodes(n):
            if isinstance(c, ast.For): out.append(c)
            visit(c)
    visit(node); return out

class Engine15(pyvc.Engine):
    def __init__(self, fn, spec, mutate=None):
        super().__init__(fn, spec, mutate)
        self.loop_ids = {id(n): k for k, n in enumerate(_loops_in_source_order(self.node))}
        self.idx = {}
    # ---------------------------------------------------------------------------------------- loops
    def loop(self, s, p):
        k = self.loop_ids[id(s)]
        invs = self.spec.invariants
        if k not in invs: raise Unsupported(f'loop {k}@{s.lineno} has no invariant (stale or missing contract)')
        inv = invs[k]; may_alloc = getattr(self.spec, 'loops_may_allocate', False); E = self
        def wrapped(E_, ctx, q, pre, i):
            if ctx.mode == 'hyp':
                E.idx[k] = i
                if may_alloc:
                    extra = fresh(f'alloc_extra_L{k}', z3.ArraySort(Ref, Bo)); a_, b_ = z3.Bools('a b')
                    q.heap.alloc = z3.Map(z3.Or(a_, b_).decl(), pre.heap.alloc, extra)
            elif k not in E.idx: E.idx[k] = i
            return inv(E_, ctx, q, pre, i)
        invs[k] = wrapped
        try: return super().loop(s, p)
        finally: invs[k] = inv
    # ---------------------------------------------------------------------------------------- expressions
    @staticmethod
    def sig(arr, p, r, fld):
        """a fresh array constant standing for the content of heap slot fld[r] gets that slot's instantiation signature"""
        pyvc.ARR_SIG[arr.decl().name()] = pyvc._canon_arr(z3.Select(p.heap.arr(fld), r))
    @staticmethod
    def resolve(A, r, p):
        """value of heap field array A at object r when r is an object allocated on this path and every later store went to r itself or to ANOTHER
        object allocated on this path (two allocations are different objects); None when that cannot be told syntactically"""
        fresh_ids = {f.get_id() for f in p.fresh}
        if r.get_id() not in fresh_ids: return None
        while z3.is_app(A) and A.decl().kind() == z3.Z3_OP_STORE:
            idx = A.arg(1)
            if idx.eq(r): return A.arg(2)
            if idx.get_id() not in fresh_ids: return None
            A = A.arg(0)
        return None
    def contains(self, v, x, p):
        """`x in <list>`: a list built on this path whose length is a concrete small number (a list literal) is expanded element by element;
        otherwise the base engine's ghost-witness form"""
        n = self.resolve(p.heap.arr('$len'), v.term, p); it = self.resolve(p.heap.arr(items_field(elem_kind(v.kind))), v.term, p)
        if n is not None and it is not None and z3.is_int_value(z3.simplify(n)) and 0 <= z3.simplify(n).as_long() <= 8:
            m = z3.simplify(n).as_long(); return Or(*[z3.simplify(it[k]) == x for k in range(m)]) if m else z3.BoolVal(False)
        return super().contains(v, x, p)
    def list_eq(self, a, b, p):
        """a == b on two int lists (neither None): ghost Bool, both directions"""
        na, nb = self.llen(a, p), self.llen(b, p); ia, ib = self.litems(a, p), self.litems(b, p)
        e = fresh('list_eq', Bo); w = fresh('list_ne_w', I)
        p.pc.append(Implies(e, na == nb)); p.facts.append(Schematic(1, lambda k: Implies(And(e, 0 <= k, k < na), ia[k] == ib[k]), 'list-eq-def'))
        p.pc.append(Implies(Not(e), Or(na != nb, And(0 <= w, w < na, ia[w] != ib[w]))))
        return e
    def ev(self, e, p):
        if isinstance(e, ast.Dict) and not e.keys:
            return self.newdict(self.spec.empty_dict_kind(e.lineno), p)
        if isinstance(e, ast.BinOp) and isinstance(e.op, ast.Add):
            a = self.ev(e.left, p)
            if a.kind.startswith('list['):
                b = self.ev(e.right, p)
                if b.kind != a.kind: raise Unsupported(f'list + {b.kind}')
                ek = elem_kind(a.kind); fld = items_field(ek); na, nb = self.llen(a, p), self.llen(b, p); ia, ib = self.litems(a, p), self.litems(b, p)
                r = p.heap.new(p, 'cat'); arr = fresh('cat', p.heap.fsort(fld))
                p.facts.append(Schematic(1, lambda k: Implies(And(0 <= k, k < na + nb), arr[k] == If(k < na, ia[k], ib[k - na])), 'list-concat'))
                self.sig(arr, p, r, fld); p.heap.store(r, fld, arr); p.heap.store(r, '$len', na + nb); return V(a.kind, r)
            b = self.ev(e.right, p)
            if a.kind == 'int' and b.kind == 'int': return vint(a.term + b.term)
            if a.kind == 'str': return V('str', sconcat(a.term, b.term))
            raise Unsupported(f'binop Add on {a.kind},{b.kind}')
        if isinstance(e, ast.Subscript) and isinstance(e.slice, ast.Slice):
            sl = e.slice; b = self.ev(e.value, p)
            if not b.kind.startswith('list[') or sl.upper is not None or sl.step is not None or not (isinstance(sl.lower, ast.Constant) and isinstance(sl.lower.value, int) and sl.lower.value >= 0):
                raise Unsupported('slice form')
            a = sl.lower.value; ek = elem_kind(b.kind); fld = items_field(ek); n = self.llen(b, p); it = self.litems(b, p)
            r = p.heap.new(p, 'slice'); arr = fresh('slice', p.heap.fsort(fld)); m = If(n > a, n - a, 0)
            p.facts.append(Schematic(1, lambda k: Implies(And(0 <= k, k < m), arr[k] == it[k + a]), 'list-slice'))
            self.sig(arr, p, r, fld); p.heap.store(r, fld, arr); p.heap.store(r, '$len', m); return V(b.kind, r)
        if isinstance(e, ast.Compare) and len(e.ops) == 1 and isinstance(e.ops[0], (ast.Eq, ast.NotEq)):
            a = self.ev(e.left, p); b = self.ev(e.comparators[0], p); neg = isinstance(e.ops[0], ast.NotEq)
            if a.kind != 'none' and b.kind != 'none':
                t = None
                if a.kind == 'list[int]' and b.kind == 'list[int]' and not getattr(self.spec, 'lists_may_be_none', False): t = self.list_eq(a, b, p)
                elif sort_of(a.kind) == Ref and sort_of(b.kind) == Ref and hasattr(self.spec, 'ref_eq'): t = self.spec.ref_eq(self, p, a, b, e)
                if t is not None: return vbool(Not(t) if neg else t)
                if sort_of(a.kind) == Ref and sort_of(b.kind) == Ref: raise Unsupported(f'== on objects of kind {a.kind} (no equality declared by the sidecar)')
                f = (lambda x, y: x != y) if neg else (lambda x, y: x == y)
                return vbool(f(a.term, b.term))
        return super().ev(e, p)

def with_zero_instances(ob, max_arity=3):
    """the instantiation procedure of pyvc only proposes SYMBOLIC index terms; code that indexes with the literal 0 (`xs[0]`) needs the instance at 0 of
    the universally quantified hypotheses.  Every hypothesis of arity <= max_arity gets its instances with any subset of its variables fixed to 0
    (instances of hypotheses: sound)."""
    import itertools
    zero = z3.IntVal(0); extra = []; ground = []
    for sc in ob.schem:
        if sc.n > max_arity or getattr(sc, '_zero', False): continue
        for mask in itertools.product((False, True), repeat=sc.n):
            if not any(mask): continue
            free = [k for k in range(sc.n) if not mask[k]]
            if not free: ground.append(sc.fn(*([zero] * sc.n))); continue
            def f(*a, sc=sc, mask=mask):
                it = iter(a); return sc.fn(*[zero if mask[k] else next(it) for k in range(sc.n)])
            d = Schematic(len(free), f, sc.name + '@0'); d._zero = True; extra.append(d)
    ob.schem = list(ob.schem) + extra; ob.pc = list(ob.pc) + ground

def run_function(fn, spec):
    E = Engine15(fn, spec)
    try: E.run()
    except Unsupported: raise
    except (KeyError, AttributeError, IndexError, TypeError, z3.Z3Exception) as e:          # same discipline as pyvc.run_function: a changed function the sidecar no longer fits is 'outside the subset', not a crash
        raise Unsupported(f'stale contract or unsupported shape: {type(e).__name__}: {e}')
    if getattr(spec, 'zero_instances', False):             # sidecars of functions that index with the literal 0
        for ob in E.obs: with_zero_instances(ob)
    return E

import re as _re
def rel_label(fn, label):
    """line numbers relative to the `def` line: obligation ids survive edits elsewhere in the file"""
    return _re.sub(r'@(\d+)', lambda mo: f'@+{int(mo.group(1)) - fn.line}', label)

def verify(rep, prop, fn, spec, timeout=60000, B=2, backend='z3-qf(typed-instantiation)', fallback=None, keep=None):
    """pyvc.verify with Engine15 (same verdict discipline): every obligation of the function under its sidecar contract goes to the report"""
    from vlib import core
    rep.fn(fn)
    try: E = run_function(fn, spec)
    except Unsupported as e:
        ob = core.Ob(f'{prop}/{fn.name}/engine-subset', fn, 'pyvc', core.UNKNOWN, 0.0, detail=f'outside the engine subset: {e}', clause='function within the verified Python subset')
        fb = fallback('engine-subset') if fallback else None
        if fb and fb.get('confirmed'): ob.status = core.REFUTED; ob.replay = fb
        rep.add(ob); return []
    res = pyvc.decide_parallel(E, spec, timeout=timeout, B=B)
    counts = {}; out = []
    for ob, st, dt, det, mv in res:
        lab = rel_label(fn, ob.label); k = counts.get(lab, 0); counts[lab] = k + 1
        o = core.Ob(f'{prop}/{fn.name}/{lab}' + (f'#{k}' if k else ''), fn, backend, st, dt, detail=det if st != 'refuted' else f'{det}: {mv}', clause=ob.label)
        if st == 'refuted':
            fb = fallback(ob.label) if fallback else None
            if fb and fb.get('confirmed'): o.replay = fb
            else:
                # the counter-model lives in the vocabulary of the VC (heap snapshots, ghost functions, value-quantified hypotheses are only expanded
                # over a small domain): without a natively failing input it is not reported as a refutation
                o.status = core.UNKNOWN; o.detail = f'not proved; bounded-scope model of the VC {mv}; no natively failing input found'
        core.native_search_for_undischarged(o, fallback, counts, ob.label)
        out.append(o); rep.add(o)
    core.oracle_selfcheck(rep, fn, fallback, all(o.status == core.PROVED for o in out))
    return out

def mutant_fails(fn, spec, timeout=20000, only=None, canary=True):
    """labels of the obligations of a (mutated) function that are NOT proved under the sidecar contract"""
    E = run_function(fn, spec)
    if only is not None: E.obs = [ob for ob in E.obs if only(ob.label)]
    return [rel_label(fn, ob.label) for ob, st, dt, det, mv in pyvc.decide_parallel(E, spec, timeout=timeout, canary=canary) if st != 'proved']
