"""symnp / cpython-exec families of C09: the REAL functions are executed by CPython on symbolic arrays (vlib/symnp, vlib/symnp_ext).

  moving-average   calibration_utils._update_moving_average, moving_average_update            (z3 real arithmetic + structure)
  calibrate-func   naive_min_max_quantize.min_max_calibrate on one-operator flatbuffer graphs   (which names, which reductions)
  init-qsvs        naive_min_max_quantize.init_qsvs: every operand gets the result of init_tensor_min_max on ITS tensor (C04 proves
                   init_tensor_min_max / _get_reduce_dims on symbolic content -- cited, not redone)
  registry         the REAL registration table: which calibration / init function every (algorithm, op) gets  (exhaustive-native)

Reference values are written here from the property text: weight 0.95 on the old value (binary64 value of the literal, as C17 /
C04 do for 1e-4); "runtime tensors of the op" = operands != -1, not ignored, whose tensor has no constant data."""
import fractions, importlib, itertools, os, sys, types
import numpy as np, z3
from vlib import core, symnp
from vlib.symnp import SymArray, Undecided, ctx
from vlib.symnp_ext import SymArrayX, _axis_tuple
from contracts import c04_common as cc, c04_minigraph as mg
from contracts.c04_common import G, F32

CU = 'utils/calibration_utils.py'
ALPHA = fractions.Fraction(0.95)                 # "weight 0.95 on the old value": the binary64 value of the literal
A = z3.RealVal(str(ALPHA))

class SymArrayR(SymArrayX):
    """SymArrayX + np.min / np.max on integer content as well (runtime tensors may be int32 indices); same logging of the reduction"""
    def __array_function__(self, func, types_, args, kwargs):
        n = func.__name__
        if n in ('min', 'max', 'amin', 'amax') and args[0].dtype.kind in 'iu':
            a = args[0]; axis = kwargs.get('axis', args[1] if len(args) > 1 else None); keep = bool(kwargs.get('keepdims', False))
            if set(kwargs) - {'axis', 'keepdims'} or len(args) > 2 or not a.size: raise Undecided(f'np.{n} arguments')
            shp = getattr(np, n)(np.empty(a.shape, dtype=np.int8), axis=axis, keepdims=keep).shape
            c = ctx(); r = c.fresh('min' if 'min' in n else 'max', z3.IntSort()); c.defs.append(r <= a.term if 'min' in n else r >= a.term)
            out = SymArray(r, a.dtype, shp)
            if not hasattr(c, 'reductions'): c.reductions = []
            c.reductions.append(dict(name='min' if 'min' in n else 'max', operand=a, axis=_axis_tuple(axis, a.ndim), keepdims=keep, result=out)); return out
        return super().__array_function__(func, types_, args, kwargs)

def load_cu(src_override=None):
    core.stub_package()
    if src_override is None: return importlib.import_module('ai_edge_quantizer.utils.calibration_utils')
    m = types.ModuleType('c09_cu_mutant'); m.__file__ = os.path.join(core.PKG, CU); sys.modules['c09_cu_mutant'] = m
    exec(compile(src_override, m.__file__, 'exec'), m.__dict__); return m

# ------------------------------------------------------------------------------------------------ moving average
STAT_SHAPES = [(1,), (1, 1), (1, 1, 1, 1), (1, 1, 1, 1, 1)]
def fam_moving_average(cu):
    goals = []; Fm = 'calibration_utils.moving_average_update'; Fu = 'calibration_utils._update_moving_average'
    om, oM, nm, nM, s = z3.Reals('old_min old_max new_min new_max s')
    inp = dict(family='moving-average')
    import inspect
    d = inspect.signature(cu.moving_average_update).parameters['smoothing_factor'].default
    goals.append(G('default-weight-is-the-literal-0.95', Fm, ok=(isinstance(d, float) and fractions.Fraction(d) == ALPHA and fractions.Fraction(1.0 - d) == 1 - ALPHA), backend='cpython-exec', inputs=inp, observed=repr(d),
                   clause='smoothing_factor defaults to 0.95 and 1.0 - 0.95 is exact in binary64 (so the weight of the new value is exactly 1 - 0.95)'))
    for shape in STAT_SHAPES:
        tag = 'shape' + 'x'.join(map(str, shape))
        with cc.guarded(goals, tag, Fm, dict(inp, shape=shape)):
            with symnp.session() as cx:
                new = {'min': SymArray(nm, F32, shape), 'max': SymArray(nM, F32, shape)}; keep = dict(new); empty = {}
                r = cu.moving_average_update(empty, new)
                goals.append(G(f'{tag}.empty-old: result IS the new qsv', Fm, ok=(r is new and empty == {} and new.keys() == keep.keys() and all(new[k] is keep[k] for k in keep)), backend='cpython-exec', inputs=dict(inp, shape=shape),
                               clause='qsv == {} => moving_average_update(qsv, new) is new (first sample initialises); neither argument is written'))
            with symnp.session() as cx:
                old = {'min': SymArray(om, F32, shape), 'max': SymArray(oM, F32, shape)}; new = {'min': SymArray(nm, F32, shape), 'max': SymArray(nM, F32, shape)}
                ko, kn = dict(old), dict(new)
                r = cu.moving_average_update(old, new); H = cx.hyps()
                ok = (isinstance(r, dict) and set(r) == {'min', 'max'} and r is not old and r is not new and old.keys() == ko.keys() and new.keys() == kn.keys()
                      and all(old[k] is ko[k] for k in ko) and all(new[k] is kn[k] for k in kn) and all(isinstance(r[k], SymArray) and r[k].shape == shape and r[k].dtype == F32 for k in r) and not cx.side)
                goals.append(G(f'{tag}.nonempty-old: fresh {{min,max}} dict; arguments not written; shape/dtype kept', Fm, ok=bool(ok), backend='cpython-exec', inputs=dict(inp, shape=shape),
                               observed=str({k: (getattr(v, 'shape', None), str(getattr(v, 'dtype', None))) for k, v in r.items()}) if isinstance(r, dict) else repr(r),
                               clause=f'result is a new dict (is not old, is not new), keys == {{min,max}}, values float32 of shape {shape}, old/new dicts keep their entries'))
                if shape == STAT_SHAPES[1]:
                    for k, o_, n_ in (('min', om, nm), ('max', oM, nM)):
                        goals.append(G(f'{tag}.nonempty-old: {k} == 0.95*old.{k} + (1-0.95)*new.{k}', Fm, H, r[k].term == A * o_ + (1 - A) * n_, inputs=dict(inp, shape=shape, key=k),
                                       replay=lambda model, k=k: native_ma(cu, model), clause=f'result[{k}] == 0.95*old[{k}] + (1 - 0.95)*new[{k}] over the reals, 0.95 = binary64 value of the literal'))
                    goals.append(G(f'{tag}.nonempty-old: min<=max is preserved', Fm, H + [om <= oM, nm <= nM], r['min'].term <= r['max'].term, inputs=dict(inp, shape=shape), replay=lambda model: native_ma(cu, model),
                                   clause='old.min <= old.max and new.min <= new.max => result.min <= result.max (the precondition C04 puts on statistics)'))
    with cc.guarded(goals, 'symbolic-factor', Fu, inp):
        with symnp.session() as cx:
            r = cu._update_moving_average(SymArray(s, F32, ()), SymArray(om, F32, (1, 1)), SymArray(nm, F32, (1, 1)))
            goals.append(G('any-factor: result == s*w + (1-s)*update', Fu, cx.hyps(), z3.And(r.term == s * om + (1 - s) * nm, z3.BoolVal(r.shape == (1, 1) and r.dtype == F32 and not cx.side)), inputs=inp,
                           clause='_update_moving_average(s, w, u) == s*w + (1 - s)*u for every real s, w, u'))
    return goals

def native_ma(cu, model):
    """replay of a counter-model of the moving-average goals with real float32 arrays"""
    v = lambda k, d: np.float32(float(symnp.model_value(model or {}, k) if symnp.model_value(model or {}, k) is not None else d))
    cands = [(v('old_min', -1), v('old_max', 2), v('new_min', -3), v('new_max', 5)), (np.float32(-1.5), np.float32(2.25), np.float32(-4.0), np.float32(8.0))]
    for om, oM, nm, nM in cands:
        old = {'min': np.array([[om]], np.float32), 'max': np.array([[oM]], np.float32)}; new = {'min': np.array([[nm]], np.float32), 'max': np.array([[nM]], np.float32)}
        r = cu.moving_average_update(old, new); want = {k: 0.95 * float(old[k][0, 0]) + (1 - 0.95) * float(new[k][0, 0]) for k in ('min', 'max')}
        bad = [k for k in ('min', 'max') if k not in r or abs(float(np.ravel(r[k])[0]) - want[k]) > 1e-5 * max(1.0, abs(want[k]))]
        if om <= oM and nm <= nM and 'min' in r and 'max' in r and float(np.ravel(r['min'])[0]) > float(np.ravel(r['max'])[0]): bad.append('min>max')
        if bad or set(r) != {'min', 'max'}:
            return dict(confirmed=True, inputs=dict(family='moving-average', old={k: float(old[k][0, 0]) for k in old}, new={k: float(new[k][0, 0]) for k in new}), observed=dict(result={k: float(np.ravel(x)[0]) for k, x in r.items()}, expected=want))
    return dict(confirmed=False, inputs=dict(model=model), observed='the counter-model did not reproduce natively')

# ------------------------------------------------------------------------------------------------ min_max_calibrate
ALL_OPS = list(mg.UNARY) + list(mg.BINARY) + ['RESHAPE', 'TRANSPOSE', 'MEAN', 'STRIDED_SLICE', 'SPLIT', 'CONCATENATION', 'FULLY_CONNECTED', 'CONV_2D', 'DEPTHWISE_CONV_2D', 'CONV_2D_TRANSPOSE', 'EMBEDDING_LOOKUP', 'BATCH_MATMUL']
def layouts(qt):
    """(tag, Mini graph, operator object, inputs_to_ignore, outputs_to_ignore)"""
    out = []
    for opn in ALL_OPS:
        m = mg.build(opn); out.append((opn, m, m.op, None, None))
    m = mg.build('FULLY_CONNECTED', bias=False); out.append(('FULLY_CONNECTED.no-bias(-1 operand)', m, m.op, None, None))
    m = mg.build('ADD'); m.make_const(m.ins[1]); out.append(('ADD.second-input-constant', m, m.op, None, None))
    m = mg.build('MUL'); m.wire([m.ins[0], m.ins[0]], m.outs); out.append(('MUL.same-tensor-twice', m, m.op, None, None))
    m = mg.build('SPLIT'); out.append(('SPLIT.inputs_to_ignore=[0]', m, m.op, [0], None))
    m = mg.build('SPLIT'); out.append(('SPLIT.outputs_to_ignore=[1]', m, m.op, None, [1]))
    m = mg.build('CONCATENATION'); out.append(('CONCATENATION.inputs_to_ignore=[1]', m, m.op, [1], None))
    m = mg.build('ADD'); out.append(('pseudo-operator.INPUT', m, qt.IOOperator(inputs=[], outputs=np.array(m.ins, np.int32), op_key=qt.TFLOperationName.INPUT), None, None))
    m = mg.build('ADD'); out.append(('pseudo-operator.OUTPUT', m, qt.IOOperator(inputs=np.array(m.outs, np.int32), outputs=[], op_key=qt.TFLOperationName.OUTPUT), None, None))
    return out

def runtime_operands(m, op, ign_in, ign_out):
    """SPEC: names of the runtime tensors of the op = operands != -1, position not ignored, tensor without constant data"""
    names = []
    for pos, lst, ign in ((0, op.inputs, ign_in or []), (1, op.outputs, ign_out or [])):
        for i, t in enumerate(lst):
            if int(t) != -1 and i not in ign and not m.has_data(int(t)) and m.names[int(t)] not in names: names.append(m.names[int(t)])
    return names
def all_operands(m, op, ign_in, ign_out):
    return [(int(t)) for lst, ign in ((op.inputs, ign_in or []), (op.outputs, ign_out or [])) for i, t in enumerate(lst) if int(t) != -1 and i not in ign]

def fam_calibrate_func(M):
    goals = []; qt = M.qtyping; Fc = 'naive_min_max_quantize.min_max_calibrate'
    for tag, m, op, ign_in, ign_out in layouts(qt):
        inp = dict(family='calibrate-func', case=tag)
        gi = qt.GraphInfo(subgraph_tensors=m.tensors, buffers=m.buffers); want = runtime_operands(m, op, ign_in, ign_out)
        with cc.guarded(goals, tag, Fc, inp):
            with symnp.session() as cx:
                cmap = {}
                for i, t in enumerate(m.tensors):          # the interpreter's content map: every named tensor of the subgraph, constants included (+ one unrelated entry)
                    cmap[m.names[i]] = SymArrayR(z3.Real('c_' + m.names[i]) if t.type == mg.F32 else z3.Int('c_' + m.names[i]), np.float32 if t.type == mg.F32 else np.int32, tuple(int(d) for d in t.shape))
                cmap['unrelated/tensor'] = SymArrayR(z3.Real('c_unrelated'), np.float32, (2, 2)); keep = dict(cmap)
                kw = {}
                if ign_in is not None: kw['inputs_to_ignore'] = ign_in
                if ign_out is not None: kw['outputs_to_ignore'] = ign_out
                r = M.nmm.min_max_calibrate(op, gi, cmap, **kw); red = getattr(cx, 'reductions', [])
                goals.append(G(f'{tag}.names-are-exactly-the-runtime-operands', Fc, ok=(isinstance(r, dict) and sorted(r) == sorted(want) and len(want) > 0), backend='cpython-exec', inputs=inp, observed=sorted(r) if isinstance(r, dict) else repr(r),
                               clause=f'keys(result) == names of the operands != -1, not ignored, without constant data == {sorted(want)}'))
                ok = cmap.keys() == keep.keys() and all(cmap[k] is keep[k] for k in keep) and all(any(x['operand'] is cmap.get(nme) for nme in r) for x in red)
                for nme, q in r.items():          # an operand listed twice is reduced twice (same value): the stored object must be ONE of the reductions of that entry
                    mine = [x for x in red if x['operand'] is cmap.get(nme)]; rank = len(cmap[nme].shape) if nme in cmap else 0
                    ok = ok and isinstance(q, dict) and set(q) == {'min', 'max'} and all(x['axis'] is None and x['keepdims'] is True and x['result'].shape == (1,) * rank for x in mine) \
                         and all(any(x['name'] == k and q[k] is x['result'] for x in mine) for k in ('min', 'max'))
                goals.append(G(f'{tag}.values-are-min/max-of-the-content-map-entry-over-all-axes', Fc, ok=bool(ok), backend='cpython-exec', inputs=inp,
                               observed=[dict(name=x['name'], axis=x['axis'], keepdims=x['keepdims'], shape=x['result'].shape) for x in red],
                               clause='result[name] == {min: np.min(content_map[name], axis=None, keepdims=True), max: np.max(same)} of the UNMODIFIED content-map entry of that very name; no other entry is reduced; the content map is not written'))
                if r and all(set(q) == {'min', 'max'} for q in r.values()):
                    goals.append(G(f'{tag}.min<=max', Fc, cx.hyps(), z3.And(*[(q['min'].term if q['min'].dtype.kind == 'f' else z3.ToReal(q['min'].term)) <= (q['max'].term if q['max'].dtype.kind == 'f' else z3.ToReal(q['max'].term)) for q in r.values()]),
                                   inputs=inp, clause='recorded min <= recorded max for every name'))
    return goals

# ------------------------------------------------------------------------------------------------ init_qsvs wiring
class Sentinel:
    def __init__(self, tensor, gi, oi): self.tensor, self.gi, self.oi = tensor, gi, oi
def fam_init_qsvs(M):
    goals = []; qt = M.qtyping; Fi = 'naive_min_max_quantize.init_qsvs'; calls = []
    def rec(tensor, graph_info, op_info):
        s = Sentinel(tensor, graph_info, op_info); calls.append(s); return s
    Mx = cc.load_mods(M.mut, want=('uq', 'fbu', 'utils', 'nmm'), proxies={cc.UTILS: cc.proxy_of(M.utils, init_tensor_min_max=rec)})
    cfg = qt.OpQuantizationConfig(activation_tensor_config=qt.TensorQuantizationConfig(8, False), weight_tensor_config=qt.TensorQuantizationConfig(8, True, qt.QuantGranularity.CHANNELWISE), compute_precision=qt.ComputePrecision.INTEGER)
    for tag, m, op, ign_in, ign_out in layouts(qt):
        if tag.startswith('pseudo-operator'): continue                   # initialisation walks real operators only
        inp = dict(family='init-qsvs', case=tag); del calls[:]
        oi = qt.OpInfo(op=op, op_name=qt.TFLOperationName(m.op_name), subgraph_op_index=0, op_quant_config=cfg); gi = qt.GraphInfo(subgraph_tensors=m.tensors, buffers=m.buffers)
        kw = {}
        if ign_in is not None: kw['inputs_to_ignore'] = ign_in
        if ign_out is not None: kw['outputs_to_ignore'] = ign_out
        with cc.guarded(goals, tag, Fi, inp):
            r = Mx.nmm.init_qsvs(oi, gi, **kw); ids = all_operands(m, op, ign_in, ign_out); want = {m.names[t] for t in ids}
            ok = isinstance(r, dict) and set(r) == want and len(calls) == len(ids) and all(isinstance(v, Sentinel) and v.gi is gi and v.oi is oi and m.names[[id(t) for t in m.tensors].index(id(v.tensor))] == k for k, v in r.items())
            goals.append(G(f'{tag}.every-operand-gets-init_tensor_min_max-of-its-own-tensor', Fi, ok=bool(ok), backend='cpython-exec', inputs=inp, observed=sorted(r) if isinstance(r, dict) else repr(r),
                           clause=f'keys == names of the operands != -1 not ignored == {sorted(want)}; value == init_tensor_min_max(that tensor, graph_info, op_info) (the function C04 proves on symbolic content)'))
    return goals

# ------------------------------------------------------------------------------------------------ registration table
def fam_registry(M):
    goals = []; am = importlib.import_module('ai_edge_quantizer.algorithm_manager'); fcm = importlib.import_module('ai_edge_quantizer.algorithms.nonlinear_quantize.float_casting')
    nmm = importlib.import_module('ai_edge_quantizer.algorithms.uniform_quantize.naive_min_max_quantize'); rows = []
    for alg, info in am._alg_manager_instance._algorithm_registry.items():
        for op, q in info.quantized_ops.items(): rows.append((str(getattr(alg, 'value', alg)), str(getattr(op, 'value', op)), q.calibration_func, q.init_qsv_func))
    bad = [(a, o, getattr(c, '__name__', repr(c))) for a, o, c, i in rows if not ((c is nmm.min_max_calibrate and i is nmm.init_qsvs) or (c is fcm.calibrate and i is fcm.init_qsvs))]
    goals.append(G('every-registered-op-uses-min_max_calibrate-or-float_casting.calibrate', 'naive_min_max_quantize.min_max_calibrate', ok=(not bad and len(rows) > 0), backend='exhaustive-native', inputs=dict(family='registry'),
                   observed=dict(rows=len(rows), other=bad[:5]), clause='for every (algorithm, op) of the real registry: (calibration_func, init_qsv_func) is (min_max_calibrate, init_qsvs) unwrapped (no ignore lists bound) or float_casting (calibrate, init_qsvs)'))
    o = object(); r1 = fcm.calibrate(o, o, o); r2 = fcm.init_qsvs(o, o)
    goals.append(G('float_casting.calibrate-and-init_qsvs-record-nothing', 'naive_min_max_quantize.min_max_calibrate', ok=(r1 == {} and r2 == {}), backend='cpython-exec', inputs=dict(family='registry'), observed=(repr(r1), repr(r2)),
                   clause='float_casting.calibrate(*opaque) == {} and float_casting.init_qsvs(*opaque) == {} (arguments are never inspected)'))
    return goals
