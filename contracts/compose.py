"""Sidecar contract for TransformationInstructionsGenerator._quant_params_to_transformation_insts (C01, C02, C03) — the COMPOSITION of the instruction generator:
grouping -> the two builders -> producer rules -> vertical optimisation -> validity check.  Modular: every callee is seen through its contract only.

  info = graph-info record of param.tensor_name, G = _group_consumer_transformations(param), A = _produce_transformation_for_vertical_opt(G, param),
  O = _produce_consumer_transformations_unavailable_for_vertical_opt(G, param), np = number of producer transformations (0 when param.producer is None),
  PI(k) = NEW TransformationInst(param.producer.transformations[k], info.tensor_id, info.producer, info.consumers (the SAME list object), param.producer.parameters).
  Returned record (fresh): tensor_name = param.tensor_name, subgraph_id = info.subgraph_id, instructions = L with
      np >= 1:  L = [PI(0) .. PI(np-2)] ++ R ++ O     where R = _apply_vertical_optimization(PI(np-1), A)   (call-site obligations: exactly these arguments, and the callee's whole precondition)
      np == 0:  L = A ++ O
  and the validity check was called on exactly this record after `instructions` was set (call-site obligation); it may raise ValueError (allowed: "or raises").
  Nothing that existed at entry is written except, through the vertical optimisation, the graph-info record's consumer list (it only shrinks: callee contract).

Callee contracts used (handler = assume the callee's PROVED postcondition, emit its precondition as `callsite:` obligation):
  _produce_transformation_for_vertical_opt  -> contracts/vertical.py ProduceForVerticalOpt (proved): fresh list of fresh instructions with fresh non-null consumer lists, inputs not written
  _apply_vertical_optimization              -> contracts/vertical.py VerticalOptimization (proved): fresh result list, writes only P.consumers ($items/$len), which only shrinks
  _check_tensor_transformation_instructions_valid -> contracts/c15_compat.py (proved): pure; returns or raises ValueError
  _produce_consumer_transformations_unavailable_for_vertical_opt -> contracts/vertical.py ProduceOther (proved): a new list; nothing that exists is written
ASSUMED: `_group_consumer_transformations` returns a non-null list (AST pattern, props/graphcommon.generator_frame_obligations) and writes no object that exists at the call (discharged by the
  may-mutate analysis, same place); WHAT it computes is not under a contract -- the builders' preconditions on the grouping (non-empty sets of positions) are therefore assumptions of the chain.
  Typing: a Python list object is never a TransformationInst record."""
import ast
import z3
from vlib.pyvc import *
from contracts.graph import items_i, items_r, ln

TR = {'NO_QUANTIZE': 0, 'ADD_QUANTIZE': 1, 'ADD_DEQUANTIZE': 2, 'QUANTIZE_TENSOR': 3, 'EMULATED_SUBCHANNEL': 4}
FIELDS = {'_tensor_name_to_graph_info': 'dict[str,ref]', 'tensor_name': 'str', 'subgraph_id': 'int', 'instructions': 'list[ref]', 'consumers': 'list[int]', 'transformations': 'list[int]',
          'parameters': 'ref', 'tensor_id': 'int', 'producer': 'int', 'transformation': 'int', 'producer$of_param': 'ref'}
INST = ('transformation', 'tensor_id', 'producer', 'consumers', 'parameters')

class QuantParamsToInsts(Spec):
    fields = FIELDS; consts = {f'qtyping.QuantTransformation.{k}': v for k, v in TR.items()}; relaxed_first = True; refutable = False
    constructors = {'qtyping.TransformationInst': list(INST), 'qtyping.TensorTransformationInsts': ['tensor_name', 'subgraph_id', 'instructions']}
    def __init__(self):
        self.invariants = {0: self.inv_producer}
        self.callees = {'self._group_consumer_transformations': self.c_group, 'self._produce_transformation_for_vertical_opt': self.c_avail,
                        'self._produce_consumer_transformations_unavailable_for_vertical_opt': self.c_other, 'self._apply_vertical_optimization': self.c_vertical,
                        'self._check_tensor_transformation_instructions_valid': self.c_valid}
    def empty_list_kind(self, line): return 'ref'
    def field_alias(self, node):
        return 'producer$of_param' if node.attr == 'producer' and isinstance(node.value, ast.Name) and node.value.id == 'param' else None
    def bounds_note(self): return 'lists returned by callees are unbounded: bounded-scope models are candidates only'
    def relevant(self, label): return ['req:', 'inv:', 'list', 'post:', 'typing:']
    def bounds(self, E): return [self.np_]
    # ------------------------------------------------------------------------------------------------ parameters and preconditions
    def bind(self, E, p):
        h = p.heap; S = self
        for nme in list(FIELDS) + ['$len', '$items:int', '$items:ref', '$dkeys:str', '$dhas:str', '$dmap:str:ref']: h.arr(nme)
        h0 = h.copy(); S.h0 = h0
        S.self_ = z3.Const('self', Ref); S.param = z3.Const('param', Ref)
        p.env.update(self=V('ref', S.self_), param=V('ref', S.param))
        S.table = h0.load(S.self_, '_tensor_name_to_graph_info'); S.name = h0.load(S.param, 'tensor_name'); S.info = h0.load(S.table, '$dmap:str:ref')[S.name]
        S.PC = h0.load(S.info, 'consumers'); S.PP = h0.load(S.param, 'producer$of_param'); S.PT = h0.load(S.PP, 'transformations')
        S.np_ = If(S.PP == NULL, 0, ln(h0, S.PT)); S.pt = lambda k: items_i(h0, S.PT)[k]
        objs = [S.self_, S.param, S.table, S.info, S.PC]
        p.pc += [z3.Distinct(*objs)] + [x != NULL for x in objs] + [h0.alloc[x] for x in objs] + [h0.load(S.table, '$dhas:str')[S.name], ln(h0, S.PC) >= 0,
                 Implies(S.PP != NULL, And(h0.alloc[S.PP], S.PT != NULL, h0.alloc[S.PT], ln(h0, S.PT) >= 0, z3.Distinct(S.PP, S.PT, *objs)))]
    def may_write(self, E, p, ref, field): return z3.BoolVal(False)             # this function itself writes fresh objects only (the callee `_apply_vertical_optimization` writes info.consumers: its contract)
    # ------------------------------------------------------------------------------------------------ callee contracts
    # ghost state is kept PER PATH (p.env['$g']): what each callee returned, the heap right after it, the order of the calls
    def g(self, p): return p.env['$g'].kw['value'] if '$g' in p.env else {'calls': ()}
    def gset(self, p, **kw):
        d = dict(self.g(p)); d.update(kw); p.env['$g'] = V('pyconst', None, value=d)
    def _realloc(self, p, tag, extra=()):
        """objects allocated by a callee: a new allocation array, an arbitrary superset of the old one, that contains what the callee returns"""
        S = self; new = fresh('alloc_after_' + tag, z3.ArraySort(Ref, Bo)); a_, b_ = z3.Bools('a b')
        p.pc.append(z3.Map(z3.Implies(a_, b_).decl(), p.heap.alloc, new) == z3.K(Ref, z3.BoolVal(True)))            # whatever was allocated stays allocated (the form the loop rule uses)
        p.pc += [new[x] for x in extra]
        p.heap.alloc = new
    def c_group(self, E, p, a, kw, node):
        S = self; E.emit(p, 'callsite:_group_consumer_transformations(param)', a[0].term == S.param)
        G = fresh('consumer_group', Ref); S._realloc(p, 'group', extra=[G]); p.pc += [G != NULL]; S.gset(p, G=G, calls=S.g(p)['calls'] + ('group',))
        return V('list[list[set[int]]]', G)
    def c_avail(self, E, p, a, kw, node):
        S = self; h = p.heap; gs = S.g(p)
        E.emit(p, 'callsite:_produce_transformation_for_vertical_opt(the grouping of this param, param)', And(z3.BoolVal('G' in gs), a[0].term == gs.get('G', NULL), a[1].term == S.param))
        E.emit(p, 'callsite:_produce_transformation_for_vertical_opt.pre:tensor-is-in-the-graph-info-table', h.load(h.load(S.self_, '_tensor_name_to_graph_info'), '$dhas:str')[h.load(S.param, 'tensor_name')])
        # the callee's proved postcondition: a fresh list of fresh instruction records whose consumer lists are fresh and non-null; nothing that existed is written.  The fields of the new objects are
        # whatever the current heap says at references that were not allocated (nothing is known about those), so the postcondition is stated over the current heap.
        A = fresh('available_for_vertical', Ref); oldalloc = h.alloc; hA = h.copy()
        p.pc += [A != NULL, Not(oldalloc[A]), ln(hA, A) >= 0]
        p.facts.append(Schematic(1, lambda g: Implies(And(0 <= g, g < ln(hA, A)), And(items_r(hA, A)[g] != NULL, Not(oldalloc[items_r(hA, A)[g]]), hA.load(items_r(hA, A)[g], 'consumers') != NULL,
                                                                                     Not(oldalloc[hA.load(items_r(hA, A)[g], 'consumers')]), ln(hA, hA.load(items_r(hA, A)[g], 'consumers')) >= 0,
                                                                                     items_r(hA, A)[g] != A, hA.load(items_r(hA, A)[g], 'consumers') != A)), 'post:avail-fresh-instructions-with-fresh-consumer-lists'))
        p.facts.append(Schematic(2, lambda g, g2: Implies(And(0 <= g, g < ln(hA, A), 0 <= g2, g2 < ln(hA, A)), hA.load(items_r(hA, A)[g], 'consumers') != items_r(hA, A)[g2]), 'typing:a-list-is-not-an-instruction-record'))
        S.gset(p, A=A, hA=hA, calls=gs['calls'] + ('avail',)); S._realloc(p, 'avail', extra=[A])
        new = p.heap.alloc; p.facts.append(Schematic(1, lambda g: Implies(And(0 <= g, g < ln(hA, A)), And(new[items_r(hA, A)[g]], new[hA.load(items_r(hA, A)[g], 'consumers')])), 'post:avail-objects-are-allocated-on-return'))
        return V('list[ref]', A)
    def c_other(self, E, p, a, kw, node):
        S = self; gs = S.g(p)
        E.emit(p, 'callsite:_produce_consumer_transformations_unavailable_for_vertical_opt(the grouping of this param, param)', And(z3.BoolVal('G' in gs), a[0].term == gs.get('G', NULL), a[1].term == S.param))
        O = fresh('other_consumer_transformations', Ref); old = p.heap.alloc
        p.pc += [O != NULL, Not(old[O]), ln(p.heap, O) >= 0]; S._realloc(p, 'other', extra=[O]); S.gset(p, O=O, hO=p.heap.copy(), calls=gs['calls'] + ('other',))
        return V('list[ref]', O)
    def c_vertical(self, E, p, a, kw, node):
        """VerticalOptimization.bind (its whole precondition) as call-site obligations; its ensures + may_write as the effect"""
        S = self; h = p.heap; gs = S.g(p); P = a[0].term; RL = a[1].term; PCn = h.load(P, 'consumers'); n = ln(h, RL); Rr = lambda i: items_r(h, RL)[i]; RC = lambda i: h.load(Rr(i), 'consumers'); c = Ctx('goal')
        E.emit(p, 'callsite:_apply_vertical_optimization(rule of the LAST producer transformation, the instructions available for vertical optimisation)',
               And(z3.BoolVal('A' in gs), RL == gs.get('A', NULL), S.np_ >= 1, h.load(P, 'transformation') == S.pt(S.np_ - 1), h.load(P, 'tensor_id') == S.h0.load(S.info, 'tensor_id'), h.load(P, 'producer') == S.h0.load(S.info, 'producer'),
                   PCn == S.PC, h.load(P, 'parameters') == S.h0.load(S.PP, 'parameters'), Not(S.h0.alloc[P])))
        E.emit(p, 'callsite:_apply_vertical_optimization.pre:rule-list-and-producer-consumers-distinct-allocated', And(z3.Distinct(P, RL, PCn), P != NULL, RL != NULL, PCn != NULL, h.alloc[P], h.alloc[RL], h.alloc[PCn], n >= 0, ln(h, PCn) >= 0))
        E.emit(p, 'callsite:_apply_vertical_optimization.pre:wf-rules', c.forall(1, lambda i: Implies(And(0 <= i, i < n), And(Rr(i) != NULL, h.alloc[Rr(i)], Rr(i) != P, Rr(i) != RL, Rr(i) != PCn, RC(i) != NULL, h.alloc[RC(i)], RC(i) != PCn, RC(i) != RL,
                                                                                                                  ln(h, RC(i)) >= 0, RC(i) != P, RC(i) != Rr(i)))))
        E.emit(p, 'callsite:_apply_vertical_optimization.pre:lists-are-not-rules', c.forall(2, lambda i, j: Implies(And(0 <= i, i < n, 0 <= j, j < n), RC(i) != Rr(j))))
        m_before = ln(h, PCn); old = h.alloc
        R = fresh('vertical_result', Ref); p.pc += [R != NULL, Not(old[R])]
        h.havoc_at('$items:int', [PCn], 'vopt'); h.havoc_at('$len', [PCn], 'vopt'); p.pc += [ln(h, PCn) >= 0, ln(h, PCn) <= m_before, ln(h, R) >= 0]
        S._realloc(p, 'vertical', extra=[R]); S.gset(p, R=R, hR=h.copy(), calls=gs['calls'] + ('vertical',))
        return V('list[ref]', R)
    def c_valid(self, E, p, a, kw, node):
        S = self; h = p.heap; x = a[0].term; S.gset(p, valid_arg=x, valid_list=h.load(x, 'instructions'), calls=S.g(p)['calls'] + ('valid',))
        E.emit(p, 'callsite:_check_tensor_transformation_instructions_valid(the record that is returned, after its instruction list was set)', And(x == p.env['tensor_trans_insts'].term, h.load(x, 'instructions') == p.env['transformations'].term))
        ok = p.fork(); bad = p.fork(); return [Outcome('next', ok, NONE), Outcome('raise:ValueError', bad)]
    # ------------------------------------------------------------------------------------------------ the producer loop
    def pi_ok(self, h, o, k, alloc=True):
        S = self; h0 = S.h0
        return And(o != NULL, Not(h0.alloc[o]), h.alloc[o] if alloc else True, h.load(o, 'transformation') == S.pt(k), h.load(o, 'tensor_id') == h0.load(S.info, 'tensor_id'), h.load(o, 'producer') == h0.load(S.info, 'producer'),
                   h.load(o, 'consumers') == S.PC, h.load(o, 'parameters') == h0.load(S.PP, 'parameters'))
    def inv_producer(self, E, ctx, p, pre, i):
        S = self; h = p.heap; T = p.env['transformations'].term
        return [('i-range', And(0 <= i, i <= S.np_, S.PP != NULL)),
                ('one-rule-per-producer-transformation-so-far', And(T == pre.env['transformations'].term, ln(h, T) == i, ctx.forall(1, lambda k: Implies(And(0 <= k, k < i), S.pi_ok(h, items_r(h, T)[k], k)), 'inv:producer-rules'))),
                ('rules-are-new-objects', ctx.forall(1, lambda k: Implies(And(0 <= k, k < i), And(Not(pre.heap.alloc[items_r(h, T)[k]]), items_r(h, T)[k] != T)), 'inv:new'))]
    # ------------------------------------------------------------------------------------------------ postconditions
    def raises(self, E, ctx, p, exc):
        if exc == 'ValueError': return [('only-the-validity-check-raises', z3.BoolVal(self.g(p)['calls'][-1:] == ('valid',)))]
        return [(f'no-{exc}', z3.BoolVal(False))]
    def ensures(self, E, ctx, p, ret):
        S = self; h = p.heap; h0 = S.h0; x = ret.term; L = h.load(x, 'instructions'); it = items_r(h, L); np_ = S.np_
        gs = S.g(p); calls = gs['calls']
        if not ('A' in gs and 'O' in gs and 'valid_arg' in gs): return [('grouping-builders-and-validity-check-were-all-called', z3.BoolVal(False))]
        A, O, R = gs['A'], gs['O'], gs.get('R'); hA, hO, hR = gs['hA'], gs['hO'], gs.get('hR'); nA = ln(hA, A); nO = ln(hO, O)
        out = [('fresh-record-with-the-tensor-name-and-the-subgraph-of-the-graph-info-table', And(x != NULL, Not(h0.alloc[x]), h.load(x, 'tensor_name') == S.name, h.load(x, 'subgraph_id') == h0.load(S.info, 'subgraph_id'), L != NULL, Not(h0.alloc[L]))),
               ('validity-check-was-called-on-the-returned-record-with-the-final-list', And(z3.BoolVal(calls[-1:] == ('valid',)), gs['valid_arg'] == x, gs['valid_list'] == L))]
        if R is not None:
            nR = ln(hR, R); rit = items_r(hR, R)
            out += [('with-producer-rules: length = (np - 1) + |vertical result| + |other|', And(np_ >= 1, ln(h, L) == np_ - 1 + nR + nO)),
                    ('with-producer-rules: the first np-1 entries are the rules of the first np-1 producer transformations', ctx.forall(1, lambda k: Implies(And(0 <= k, k < np_ - 1), S.pi_ok(h, it[k], k, alloc=False)))),
                    ('with-producer-rules: then the result of the vertical optimisation, in order', ctx.forall(1, lambda j: Implies(And(0 <= j, j < nR), it[np_ - 1 + j] == rit[j]))),
                    ('with-producer-rules: then the instructions unavailable for vertical optimisation, in order', ctx.forall(1, lambda j: Implies(And(0 <= j, j < nO), it[np_ - 1 + nR + j] == items_r(hO, O)[j])))]
        else:
            out += [('without-producer-rules: length = |available| + |other|', And(np_ == 0, ln(h, L) == nA + nO)),
                    ('without-producer-rules: the instructions available for vertical optimisation first, in order', ctx.forall(1, lambda j: Implies(And(0 <= j, j < nA), it[j] == items_r(hA, A)[j]))),
                    ('without-producer-rules: then the instructions unavailable for vertical optimisation, in order', ctx.forall(1, lambda j: Implies(And(0 <= j, j < nO), it[nA + j] == items_r(hO, O)[j])))]
        out += [('graph-info-record-and-parameter-record-not-written', And(*[h.load(S.info, f) == h0.load(S.info, f) for f in ('tensor_id', 'producer', 'consumers', 'subgraph_id')], h.load(S.param, 'tensor_name') == S.name,
                                                                              h.load(S.param, 'producer$of_param') == S.PP, h.load(S.self_, '_tensor_name_to_graph_info') == S.table)),
                ('graph-info-consumer-list-only-shrinks', And(ln(h, S.PC) >= 0, ln(h, S.PC) <= ln(h0, S.PC)))]
        return out
