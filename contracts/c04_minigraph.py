"""Minimal REAL flatbuffer object-API graphs (one operator, its tensors, their buffers) for the op-level contracts of C04 / C05.

The objects are the generated `ai_edge_litert.schema_py_generated` classes the quantizer itself works on (OperatorT, TensorT,
BufferT, BatchMatMulOptionsT); nothing of /repo is copied.  Layouts (operand order, which operand is constant, operand ranks)
are written here from the TFLite operator definitions:
    FULLY_CONNECTED      in [x, W(out,in), bias(out)|-1]                 out [y]
    CONV_2D              in [x, W(out,kh,kw,in), bias(out)|-1]           out [y]
    DEPTHWISE_CONV_2D    in [x, W(1,kh,kw,out), bias(out)|-1]            out [y]
    CONV_2D_TRANSPOSE    in [shape:i32, W(out,kh,kw,in), x, bias(out)?]  out [y]
    EMBEDDING_LOOKUP     in [ids:i32, table(vocab,dim)]                  out [y]
    BATCH_MATMUL         in [x, W(...)]  options.adjY                    out [y]
    RESHAPE / TRANSPOSE / MEAN  in [x, aux:i32]     STRIDED_SLICE in [x, begin, end, strides : i32]
    SPLIT                in [axis:i32, x] out [y0, y1]      CONCATENATION in [x0, x1] out [y]
    unary (SOFTMAX, LOGISTIC, TANH, AVERAGE_POOL_2D, GELU, RSQRT)  in [x] out [y]; binary (ADD, SUB, MUL) in [x0, x1] out [y]
"""
import numpy as np

F32, I32 = 0, 2          # TensorType codes (TFLite schema): FLOAT32 = 0, INT32 = 2

def _schema():
    from ai_edge_litert import schema_py_generated as S
    return S

class Mini:
    """one operator with its tensors; `names[i]` is the decoded name of tensor i; role lists give tensor indices"""
    def __init__(self):
        S = _schema()
        self.S = S; self.tensors = []; self.buffers = [S.BufferT()]; self.names = []; self.op = S.OperatorT()
        self.data = {}                      # tensor index -> the numpy array stored in its buffer (constants only)
    def tensor(self, name, shape, ttype=F32, const=None, shared_buffer=None, buffer0=False):
        S = self.S; t = S.TensorT(); t.name = name.encode(); t.shape = np.array(shape, dtype=np.int32); t.type = ttype
        if buffer0: t.buffer = 0
        elif shared_buffer is not None: t.buffer = shared_buffer
        else:
            b = S.BufferT(); self.buffers.append(b); t.buffer = len(self.buffers) - 1
            if const is not None:
                arr = np.ascontiguousarray(const); b.data = np.frombuffer(arr.tobytes(), dtype=np.uint8)
        self.tensors.append(t); self.names.append(name)
        if const is not None: self.data[len(self.tensors) - 1] = np.asarray(const)
        return len(self.tensors) - 1
    def make_const(self, i, seed=3):
        """turn activation tensor i into a constant (its own buffer gets deterministic float32 content)"""
        t = self.tensors[i]; arr = _weights(tuple(int(d) for d in t.shape), seed)
        self.buffers[t.buffer].data = np.frombuffer(arr.tobytes(), dtype=np.uint8); self.data[i] = arr
        return arr
    def has_data(self, i): return self.buffers[self.tensors[i].buffer].data is not None
    def wire(self, inputs, outputs):
        self.op.inputs = np.array(inputs, dtype=np.int32); self.op.outputs = np.array(outputs, dtype=np.int32); self.op.opcodeIndex = 0
        return self

def _weights(shape, seed=1):
    """deterministic, non-degenerate float32 content (values are irrelevant to every obligation that uses these graphs except
    the labelled bounded stand-ins)"""
    n = int(np.prod(shape)); v = ((np.arange(n) * 37 + seed * 11) % 101).astype(np.float32) / 7.0 - 6.5
    return v.reshape(shape)

UNARY = ('SOFTMAX', 'LOGISTIC', 'TANH', 'AVERAGE_POOL_2D', 'GELU', 'RSQRT')
BINARY = ('ADD', 'SUB', 'MUL')

def build(op_name, channels=3, bias=True, adj_y=False, weight_shape=None):
    """returns Mini with attributes: ins (tensor ids of float activations in), outs, weight (id|None), bias (id|None), aux (ids of int32 operands),
    op_input_positions (dict role -> operand position)"""
    m = Mini(); n = channels; m.weight = m.bias = None; m.aux = []; m.pos = {}
    act = (1, 2, 2, 4)
    if op_name in UNARY:
        x = m.tensor('x', act); y = m.tensor('y', act); m.wire([x], [y]); m.ins, m.outs = [x], [y]
    elif op_name in BINARY:
        x0 = m.tensor('x0', act); x1 = m.tensor('x1', act); y = m.tensor('y', act); m.wire([x0, x1], [y]); m.ins, m.outs = [x0, x1], [y]
    elif op_name in ('RESHAPE', 'TRANSPOSE', 'MEAN'):
        x = m.tensor('x', act); a = m.tensor('aux', (4,), I32, const=np.array([0, 1, 2, 3], np.int32)); y = m.tensor('y', act)
        m.wire([x, a], [y]); m.ins, m.outs, m.aux = [x], [y], [a]
    elif op_name == 'STRIDED_SLICE':
        x = m.tensor('x', act); aux = [m.tensor(k, (4,), I32, const=np.array(v, np.int32)) for k, v in (('begin', [0] * 4), ('end', [1, 2, 2, 4]), ('strides', [1] * 4))]
        y = m.tensor('y', act); m.wire([x] + aux, [y]); m.ins, m.outs, m.aux = [x], [y], aux
    elif op_name == 'SPLIT':
        a = m.tensor('axis', (1,), I32, const=np.array([3], np.int32)); x = m.tensor('x', act); y0 = m.tensor('y0', (1, 2, 2, 2)); y1 = m.tensor('y1', (1, 2, 2, 2))
        m.wire([a, x], [y0, y1]); m.ins, m.outs, m.aux = [x], [y0, y1], [a]
    elif op_name == 'CONCATENATION':
        x0 = m.tensor('x0', act); x1 = m.tensor('x1', act); y = m.tensor('y', (1, 2, 2, 8)); m.wire([x0, x1], [y]); m.ins, m.outs = [x0, x1], [y]
    elif op_name in ('FULLY_CONNECTED', 'CONV_2D', 'DEPTHWISE_CONV_2D'):
        wshape = weight_shape or {'FULLY_CONNECTED': (n, 5), 'CONV_2D': (n, 2, 2, 4), 'DEPTHWISE_CONV_2D': (1, 2, 2, n)}[op_name]
        x = m.tensor('x', (1, 5) if op_name == 'FULLY_CONNECTED' else act); w = m.tensor('w', wshape, const=_weights(wshape))
        b = m.tensor('b', (n,), const=_weights((n,), 2)) if bias else -1
        y = m.tensor('y', (1, n) if op_name == 'FULLY_CONNECTED' else (1, 2, 2, n)); m.wire([x, w, b], [y])
        m.ins, m.outs, m.weight, m.bias = [x], [y], w, (b if bias else None); m.pos = dict(input=0, weight=1, bias=2)
    elif op_name == 'CONV_2D_TRANSPOSE':
        wshape = weight_shape or (n, 2, 2, 4)
        s = m.tensor('out_shape', (4,), I32, const=np.array([1, 4, 4, n], np.int32)); w = m.tensor('w', wshape, const=_weights(wshape)); x = m.tensor('x', act)
        ins = [s, w, x]
        if bias: b = m.tensor('b', (n,), const=_weights((n,), 2)); ins.append(b)
        y = m.tensor('y', (1, 4, 4, n)); m.wire(ins, [y])
        m.ins, m.outs, m.weight, m.bias, m.aux = [x], [y], w, (b if bias else None), [s]; m.pos = dict(input=2, weight=1, bias=3)
    elif op_name == 'EMBEDDING_LOOKUP':
        wshape = weight_shape or (n, 4)
        i = m.tensor('ids', (2,), I32); w = m.tensor('table', wshape, const=_weights(wshape)); y = m.tensor('y', (2, 4))
        m.wire([i, w], [y]); m.ins, m.outs, m.weight, m.aux = [], [y], w, [i]; m.pos = dict(weight=1)
    elif op_name == 'BATCH_MATMUL':
        wshape = weight_shape or ((n, 5) if adj_y else (5, n))
        x = m.tensor('x', (1, 5)); w = m.tensor('w', wshape, const=_weights(wshape)); y = m.tensor('y', (1, n))
        o = m.S.BatchMatMulOptionsT(); o.adjX = False; o.adjY = bool(adj_y); m.op.builtinOptions = o
        m.wire([x, w], [y]); m.ins, m.outs, m.weight = [x], [y], w; m.pos = dict(input=0, weight=1)
    else:
        raise KeyError(op_name)
    m.op_name = op_name
    return m

def infos(m, qtyping, op_quant_config, op_index=0):
    return (qtyping.OpInfo(op=m.op, op_name=qtyping.TFLOperationName(m.op_name), subgraph_op_index=op_index, op_quant_config=op_quant_config),
            qtyping.GraphInfo(subgraph_tensors=m.tensors, buffers=m.buffers))
