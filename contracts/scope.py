"""Sidecar contracts for the operator scope (C10): Calibrator._get_op_scope and ParamsGenerator._get_op_scope must both equal
join(names of the outputs != -1, each followed by the separator ';') — the relational obligation of the property is that the two
copies compute the SAME string for every operator; one spec function for both.  Strings are an uninterpreted sort with
concatenation and length (len(a++b) = len a + len b, literal lengths known), which is enough to separate "a" from "a;"."""
import z3
from vlib.pyvc import *
from contracts.graph import items_i, items_r, ln
FIELDS = {'outputs': 'list[int]', 'name': 'str'}
NAME = z3.Function('tensor_name', Ref, Str)            # tfl_flatbuffer_utils.get_tensor_name (its own tiny contract: decode of tensor.name)
SEP = ';'

class OpScope(Spec):
    fields = FIELDS; consts = {}
    def __init__(self, has_self=True):
        self.has_self = has_self
        self.callees = {'tfl_flatbuffer_utils.get_tensor_name': lambda E, p, a, kw, node: V('str', NAME(a[0].term))}
        self.invariants = {0: self.inv0}
    def bind(self, E, p):
        h = p.heap; S = self
        for nme in ('outputs', '$len', '$items:int', '$items:ref'): h.arr(nme)
        h0 = h.copy(); S.h0 = h0
        S.op = z3.Const('op', Ref); S.tens = z3.Const('subgraph_tensors', Ref); S.outs = h0.load(S.op, 'outputs'); S.n = ln(h0, S.outs); S.NT = ln(h0, S.tens)
        if S.has_self: p.env['self'] = V('ref', z3.Const('self', Ref))
        p.env.update(op=V('ref', S.op), subgraph_tensors=V('list[ref]', S.tens))
        p.pc += [S.op != NULL, S.tens != NULL, S.outs != NULL, S.n >= 0, S.NT >= 0]
        O = items_i(h0, S.outs); T = items_r(h0, S.tens); S.O, S.T = O, T
        p.facts.append(Schematic(1, lambda k: Implies(And(0 <= k, k < S.n), And(-1 <= O[k], O[k] < S.NT)), 'req:outputs-in-range'))
        # spec: J(0) = '' ; J(k+1) = J(k) ++ name(tensors[outs[k]]) ++ ';'  if outs[k] != -1 else J(k)
        S.J = z3.Function('scope_prefix', I, Str)
        p.pc.append(S.J(0) == strlit(''))
        p.facts.append(Schematic(1, lambda k: Implies(And(0 <= k, k < S.n), S.J(k + 1) == If(O[k] != -1, sconcat(sconcat(S.J(k), NAME(T[O[k]])), strlit(SEP)), S.J(k))), 'spec:scope-step'))
    def bounds(self, E): return [self.n, self.NT]
    def model_values(self, E, m):
        ev = lambda t: m.eval(t, model_completion=True).as_long()
        return dict(outputs=[ev(self.O[k]) for k in range(ev(self.n))], n_tensors=ev(self.NT))
    def inv0(self, E, ctx, p, pre, i):
        return [('i-range', And(0 <= i, i <= self.n)), ('scope-is-spec-prefix', p.env['scope'].term == self.J(i))]
    def ensures(self, E, ctx, p, ret): return [('scope-equals-join-of-output-names-with-separator', ret.term == self.J(self.n))]
