"""Sidecar contracts for the graph-rewriting carriers (C01, C02, C03, C19):
   transformation_utils.add_op_code, add_new_activation_tensor; dequant_insert.insert_dequant; quant_insert.insert_quant;
   quantize_tensor.quant_params_to_tflite_type / nonlinear_quant_params_to_tflite_type.
Top-level postconditions are written from the property statements (C01 well-formedness clauses, C02 skeleton / whole-view
rewiring / graph-output clause, C19 frame); preconditions and shapes from the call sites.  Repository files are not annotated.

Graph view (DESIGN §3): ops[j] = (opcodeIndex, inputs, outputs) ; ghost prod0 : tensor -> position of its producer or -1.
`-1` in `consumers` is the graph-output marker (transformation_instruction_generator puts it first for graph outputs)."""
import z3
from vlib.pyvc import *

# numeric codes written here from the TFLite schema (not read from the schema module)
BUILTIN = {'DEQUANTIZE': 6, 'QUANTIZE': 114}
TTYPE = {'FLOAT32': 0, 'FLOAT16': 1, 'INT32': 2, 'UINT8': 3, 'INT64': 4, 'INT16': 7, 'INT8': 9, 'INT4': 17}
CONSTS = {f'schema_py_generated.BuiltinOperator.{k}': v for k, v in BUILTIN.items()}
CONSTS.update({f'schema_py_generated.TensorType.{k}': v for k, v in TTYPE.items()})

FIELDS = {
  # transformation_utils.TransformationInput
  'tensor_id': 'int', 'op_codes': 'list[ref]', 'buffers': 'list[ref]', 'subgraph': 'ref', 'producer': 'int', 'consumers': 'list[int]', 'quant_params': 'ref',
  # SubGraphT / OperatorT / TensorT / OperatorCodeT / BufferT
  'tensors': 'list[ref]', 'operators': 'list[ref]', 'outputs': 'list[int]', 'inputs': 'list[int]',
  'opcodeIndex': 'int', 'name': 'str', 'shape': 'ref', 'type': 'int', 'buffer': 'int', 'quantization': 'ref', 'builtinCode': 'int', 'data': 'ref',
}

def items_i(h, r): return h.load(r, '$items:int')
def items_r(h, r): return h.load(r, '$items:ref')
def ln(h, r): return h.load(r, '$len')

qtype_of = z3.Function('qtype_of', Ref, I)            # dtype code written by quantize_tensor for a parameter object (its own contract)

# ------------------------------------------------------------------------------------------------ small carriers
class AddOpCode(Spec):
    """add_op_code(op_code, model_op_codes) -> index of the first entry with that builtin code; appended if absent"""
    fields = FIELDS; consts = CONSTS
    constructors = {'schema_py_generated.OperatorCodeT': []}
    def bind(self, E, p):
        h = p.heap
        for nme in ('builtinCode', '$len', '$items:ref'): h.arr(nme)
        h = h.copy(); codes = z3.Const('codes', Ref); code = z3.Int('op_code')       # snapshot of the entry heap
        p.env['op_code'] = vint(code); p.env['model_op_codes'] = V('list[ref]', codes)
        self.codes, self.code = codes, code; self.n0 = ln(h, codes); self.it0 = items_r(h, codes); self.bc0 = h.arr('builtinCode')
        p.pc += [codes != NULL, h.alloc[codes], self.n0 >= 0]
        p.facts.append(Schematic(1, lambda k: Implies(And(0 <= k, k < self.n0), And(h.alloc[self.it0[k]], self.it0[k] != NULL)), 'codes-alloc'))
    def may_write(self, E, p, ref, field):
        if field in ('$items:ref', '$len'): return ref == self.codes
        return z3.BoolVal(False)
    def bounds(self, E): return [self.n0]
    def inv0(self, E, ctx, p, pre, i):
        h = p.heap
        return [('i-range', And(0 <= i, i <= self.n0)),
                ('none-before', ctx.forall(1, lambda k: Implies(And(0 <= k, k < i), self.bc0[self.it0[k]] != self.code))),
                ('codes-unchanged', And(ln(h, self.codes) == self.n0, items_r(h, self.codes) == self.it0, h.arr('builtinCode') == self.bc0))]
    @property
    def invariants(self): return {0: self.inv0}
    def ensures(self, E, ctx, p, ret):
        h = p.heap; r = ret.term; n1 = ln(h, self.codes); it1 = items_r(h, self.codes); bc1 = h.arr('builtinCode')
        return [('result-in-range', And(0 <= r, r < n1)),
                ('result-has-code', bc1[it1[r]] == self.code),
                ('result-is-first', ctx.forall(1, lambda k: Implies(And(0 <= k, k < r), bc1[it1[k]] != self.code))),
                ('found-implies-unchanged', Implies(r < self.n0, And(n1 == self.n0, it1 == self.it0, bc1 == self.bc0))),
                ('existing-entries-kept', ctx.forall(1, lambda k: Implies(And(0 <= k, k < self.n0), And(it1[k] == self.it0[k], bc1[self.it0[k]] == self.bc0[self.it0[k]])))),
                ('grows-by-at-most-one', And(n1 >= self.n0, n1 <= self.n0 + 1, Implies(n1 == self.n0 + 1, r == self.n0)))]

class AddActivationTensor(Spec):
    fields = FIELDS; consts = CONSTS
    constructors = {'schema_py_generated.TensorT': []}
    def bind(self, E, p):
        h = p.heap
        for nme in ('tensors', '$len', '$items:ref', 'name', 'shape', 'type', 'buffer'): h.arr(nme)
        h = h.copy(); sg = z3.Const('subgraph', Ref); self.sg = sg; self.tl = h.load(sg, 'tensors'); self.n0 = ln(h, self.tl); self.it0 = items_r(h, self.tl)
        self.name = z3.Const('tensor_name', Str); self.shape = z3.Const('shape', Ref); self.tt = z3.Int('tensor_type')
        p.env.update(tensor_name=V('str', self.name), shape=V('ref', self.shape), tensor_type=vint(self.tt), subgraph=V('ref', sg))
        p.pc += [sg != NULL, self.tl != NULL, h.alloc[sg], h.alloc[self.tl], self.n0 >= 0, sg != self.tl]
        self.h0 = h.copy()
    def may_write(self, E, p, ref, field):
        if field in ('$items:ref', '$len'): return ref == self.tl
        return z3.BoolVal(False)
    def bounds(self, E): return [self.n0]
    def ensures(self, E, ctx, p, ret):
        h = p.heap; it1 = items_r(h, self.tl); new = it1[self.n0]
        return [('result-is-old-length', ret.term == self.n0), ('length-plus-one', ln(h, self.tl) == self.n0 + 1),
                ('prefix-kept', ctx.forall(1, lambda k: Implies(And(0 <= k, k < self.n0), it1[k] == self.it0[k]))),
                ('new-tensor-fields', And(h.load(new, 'name') == self.name, h.load(new, 'shape') == self.shape, h.load(new, 'type') == self.tt, h.load(new, 'buffer') == 0)),
                ('new-tensor-fresh', Not(self.h0.alloc[new])),
                ('tensor-list-object-kept', h.load(self.sg, 'tensors') == self.tl)]

class UniqueName(Spec):
    """get_unique_tensor_name(tensor_name, subgraph): the result is carried by no tensor of the subgraph; it is tensor_name itself when free.
    (Partial correctness: the suffix loop terminates because only finitely many names are taken; not verified.)"""
    fields = FIELDS; consts = CONSTS
    def __init__(self): self.invariants = {0: self.inv0}; self.while_invariants = {0: self.w0}
    def bind(self, E, p):
        h = p.heap
        for nme in ('tensors', 'name', '$len', '$items:ref', '$dhas:str'): h.arr(nme)
        h0 = h.copy(); self.h0 = h0
        self.base = z3.Const('tensor_name', Str); self.sg = z3.Const('subgraph', Ref); self.tl = h0.load(self.sg, 'tensors'); self.n = ln(h0, self.tl)
        self.nameof = lambda t: h0.load(items_r(h0, self.tl)[t], 'name')
        p.env.update(tensor_name=V('str', self.base), subgraph=V('ref', self.sg)); p.pc += [self.sg != NULL, self.tl != NULL, self.n >= 0, h0.alloc[self.tl]]
        # ghost: position of a tensor that carries the preferred name among the first i tensors (recursive definition)
        self.wb = z3.Function('carrier_of_preferred_name', I, I)
        p.facts.append(Schematic(1, lambda i: Implies(And(0 <= i, i < self.n), self.wb(i + 1) == If(self.nameof(i) == self.base, i, self.wb(i))), 'ghost:carrier-step'))
    def bounds(self, E): return [self.n]
    def may_write(self, E, p, ref, field): return z3.BoolVal(False)
    def seen(self, ctx, p, upto):
        has = p.heap.load(p.env['existing_names'].term, '$dhas:str')
        return ('every-visited-name-is-in-the-set', ctx.forall(1, lambda t: Implies(And(0 <= t, t < upto), has[self.nameof(t)])))
    def taken(self, p, upto):
        has = p.heap.load(p.env['existing_names'].term, '$dhas:str')
        return ('preferred-name-in-the-set-only-if-a-tensor-carries-it', Implies(has[self.base], And(0 <= self.wb(upto), self.wb(upto) < upto, self.nameof(self.wb(upto)) == self.base)))
    def inv0(self, E, ctx, p, pre, i): return [('i-range', And(0 <= i, i <= self.n)), self.seen(ctx, p, i), self.taken(p, i), ('model-untouched', And(ln(p.heap, self.tl) == self.n, items_r(p.heap, self.tl) == items_r(self.h0, self.tl), p.heap.arr('name') == self.h0.arr('name')))]
    def w0(self, E, ctx, p, pre): return [self.seen(ctx, p, self.n), self.taken(p, self.n), ('set-and-model-untouched', And(p.heap.load(p.env['existing_names'].term, '$dhas:str') == pre.heap.load(pre.env['existing_names'].term, '$dhas:str'), ln(p.heap, self.tl) == self.n)),
                                          ('still-the-preferred-name-or-a-later-candidate', Or(p.env['unique_name'].term == self.base, pre.heap.load(pre.env['existing_names'].term, '$dhas:str')[self.base]))]
    def ensures(self, E, ctx, p, ret):
        sk = fresh('sk', I)
        return [('result-is-carried-by-no-tensor-of-the-subgraph', ctx.forall(1, lambda t: Implies(And(0 <= t, t < self.n), ret.term != self.nameof(t)))),
                ('result-is-the-preferred-name-when-it-is-free', Or(ret.term == self.base, And(0 <= self.wb(self.n), self.wb(self.n) < self.n, self.nameof(self.wb(self.n)) == self.base)))]

class TfliteType(Spec):
    """quant_params_to_tflite_type: finite table (C03 v)"""
    fields = FIELDS; consts = CONSTS
    def bind(self, E, p):
        self.b = z3.Int('bitwidth'); p.env['bitwidth'] = vint(self.b)
    def ensures(self, E, ctx, p, ret):
        b = self.b; T = TTYPE
        want = If(b <= 4, T['INT4'], If(b <= 8, T['INT8'], If(b <= 16, T['INT16'], If(b <= 32, T['INT32'], T['INT64']))))
        return [('dtype-table', ret.term == want), ('only-up-to-64', b <= 64),
                ('library-widths', And(*[Implies(b == w, ret.term == c) for w, c in ((4, 17), (8, 9), (16, 7), (32, 2), (64, 4))]))]
    def raises(self, E, ctx, p, exc): return [('raises-ValueError-only-above-64', And(z3.BoolVal(exc == 'ValueError'), self.b > 64))]

class NonlinearTfliteType(Spec):
    fields = FIELDS; consts = CONSTS
    def bind(self, E, p):
        self.b = z3.Int('bitwidth'); p.env['bitwidth'] = vint(self.b)
    def ensures(self, E, ctx, p, ret): return [('fp-table', Or(And(self.b == 16, ret.term == TTYPE['FLOAT16']), And(self.b == 32, ret.term == TTYPE['FLOAT32'])))]
    def raises(self, E, ctx, p, exc): return [('raises-ValueError-iff-not-16-32', And(z3.BoolVal(exc == 'ValueError'), self.b != 16, self.b != 32))]

# ------------------------------------------------------------------------------------------------ insert_dequant / insert_quant
class Insert(Spec):
    """A.6 — contract shared by insert_dequant (kind='dequant') and insert_quant (kind='quant')."""
    fields = FIELDS; consts = CONSTS
    constructors = {'schema_py_generated.OperatorT': [],
                    'transformation_utils.TransformationInput': ['tensor_id', 'op_codes', 'buffers', 'subgraph', 'producer', 'consumers', 'quant_params']}
    callee_modifies = {'quantize_tensor.quantize_tensor': ['type', 'quantization', 'data'],
                       'transformation_utils.add_op_code': ['$items:ref', '$len', 'builtinCode'],
                       'transformation_utils.add_new_activation_tensor': ['$items:ref', '$len', 'name', 'shape', 'type', 'buffer']}
    def __init__(self, kind):
        self.kind = kind; self.suffix = '_dequant' if kind == 'dequant' else '_quantized'
        self.opcode = BUILTIN['DEQUANTIZE' if kind == 'dequant' else 'QUANTIZE']
        self.callees = {'transformation_utils.add_op_code': self.k_add_op_code, 'transformation_utils.add_new_activation_tensor': self.k_add_tensor,
                        'transformation_utils.get_unique_tensor_name': self.k_unique_name,
                        'quantize_tensor.quantize_tensor': self.k_quantize_tensor, 'qtyping.TransformationInfo': self.k_info}
        self.invariants = {0: self.inv0, 1: self.inv1, 2: self.inv2}
    # ---- entry state
    def bind(self, E, p):
        h = p.heap
        for nme in FIELDS: h.arr(nme)
        for nme in ('$len', '$items:int', '$items:ref'): h.arr(nme)
        S = self
        ti = z3.Const('ti', Ref); p.env['transformation_input'] = V('ref', ti)
        S.ti = ti; S.T = h.load(ti, 'tensor_id'); S.P = h.load(ti, 'producer'); S.C = h.load(ti, 'consumers'); S.sg = h.load(ti, 'subgraph')
        S.codes = h.load(ti, 'op_codes'); S.bufs = h.load(ti, 'buffers'); S.qp = h.load(ti, 'quant_params')
        S.ops = h.load(S.sg, 'operators'); S.tens = h.load(S.sg, 'tensors'); S.outs = h.load(S.sg, 'outputs'); S.gins = h.load(S.sg, 'inputs')
        S.n = ln(h, S.ops); S.NT = ln(h, S.tens); S.nC = ln(h, S.C); S.nO = ln(h, S.outs); S.nCodes = ln(h, S.codes)
        S.h0 = h.copy()
        h0 = S.h0
        S.opat = lambda hh, j: items_r(hh, S.ops)[j]
        S.inl = lambda hh, j: hh.load(S.opat(hh, j), 'inputs')
        S.outl = lambda hh, j: hh.load(S.opat(hh, j), 'outputs')
        objs = [ti, S.sg, S.C, S.codes, S.ops, S.tens, S.outs, S.gins, S.bufs]
        p.pc += [z3.Distinct(*objs)] + [x != NULL for x in objs] + [h.alloc[x] for x in objs]
        p.pc += [S.n >= 0, S.NT >= 0, S.nC > 0, S.nO >= 0, S.nCodes >= 0, ln(h, S.gins) >= 0, ln(h, S.bufs) >= 0, 0 <= S.T, S.T < S.NT, -1 <= S.P, S.P < S.n]
        Cit = items_i(h0, S.C); S.C0 = Cit
        F = p.facts.append
        # requires: consumers are -1 (graph-output marker) or positions of operators that come after the producer
        F(Schematic(1, lambda m: Implies(And(0 <= m, m < S.nC), And(-1 <= Cit[m], Cit[m] < S.n, Implies(Cit[m] >= 0, Cit[m] > S.P))), 'req:consumers-range-after-producer'))
        # heap shape of the subgraph: operator objects pairwise distinct, their input/output lists pairwise distinct and distinct from the other lists
        F(Schematic(1, lambda j: Implies(And(0 <= j, j < S.n), And(h0.alloc[S.opat(h0, j)], S.opat(h0, j) != NULL, h0.alloc[S.inl(h0, j)], h0.alloc[S.outl(h0, j)],
              S.inl(h0, j) != S.outl(h0, j), ln(h0, S.inl(h0, j)) >= 0, ln(h0, S.outl(h0, j)) >= 0,
              *[And(S.inl(h0, j) != o, S.outl(h0, j) != o) for o in (S.C, S.outs, S.gins, S.ops, S.tens, S.codes, S.bufs)])), 'wf:ops-alloc'))
        F(Schematic(2, lambda j, j2: Implies(And(0 <= j, j < j2, j2 < S.n), And(S.opat(h0, j) != S.opat(h0, j2), S.inl(h0, j) != S.inl(h0, j2), S.outl(h0, j) != S.outl(h0, j2),
              S.inl(h0, j) != S.outl(h0, j2), S.outl(h0, j) != S.inl(h0, j2))), 'wf:ops-distinct'))
        F(Schematic(1, lambda t: Implies(And(0 <= t, t < S.NT), And(h0.alloc[items_r(h0, S.tens)[t]], items_r(h0, S.tens)[t] != NULL)), 'wf:tensors-alloc'))
        F(Schematic(2, lambda t, t2: Implies(And(0 <= t, t < t2, t2 < S.NT), items_r(h0, S.tens)[t] != items_r(h0, S.tens)[t2]), 'wf:tensors-distinct'))
        F(Schematic(1, lambda c: Implies(And(0 <= c, c < S.nCodes), And(h0.alloc[items_r(h0, S.codes)[c]], items_r(h0, S.codes)[c] != NULL)), 'wf:codes-alloc'))
        # C01 well-formedness of the entry graph (the part these functions rely on / must preserve)
        S.prod0 = z3.Function('prod0', I, I)             # ghost: position of the producer of a tensor, -1 if none
        F(Schematic(1, lambda t: And(-1 <= S.prod0(t), S.prod0(t) < S.n), 'wf:prod-range'))
        F(Schematic(2, lambda j, k: Implies(And(0 <= j, j < S.n, 0 <= k, k < ln(h0, S.outl(h0, j))),
              And(0 <= items_i(h0, S.outl(h0, j))[k], items_i(h0, S.outl(h0, j))[k] < S.NT, S.prod0(items_i(h0, S.outl(h0, j))[k]) == j)), 'wf:single-producer'))
        F(Schematic(2, lambda j, k: Implies(And(0 <= j, j < S.n, 0 <= k, k < ln(h0, S.inl(h0, j))),
              And(-1 <= items_i(h0, S.inl(h0, j))[k], items_i(h0, S.inl(h0, j))[k] < S.NT,
                  Implies(items_i(h0, S.inl(h0, j))[k] >= 0, S.prod0(items_i(h0, S.inl(h0, j))[k]) < j))), 'wf:execution-order'))
        F(Schematic(1, lambda m: Implies(And(0 <= m, m < S.nO), And(0 <= items_i(h0, S.outs)[m], items_i(h0, S.outs)[m] < S.NT)), 'wf:graph-outputs-range'))
        p.pc.append(S.prod0(S.T) == S.P)                 # requires: producer is the position of T's producer, -1 iff there is none
        # ghost: touched(i, j) <=> some consumer entry m < i is the operator position j (the marker -1 denotes no operator)
        S.normC = lambda m: Cit[m]
        S.touched = z3.Function('touched', I, I, Bo); S.tw = z3.Function('tw', I, I, I)
        F(Schematic(1, lambda j: Not(S.touched(0, j)), 'ghost:touched-0'))
        F(Schematic(2, lambda i, j: Implies(And(0 <= i, i < S.nC), And(S.touched(i + 1, j) == Or(S.touched(i, j), And(Cit[i] >= 0, S.normC(i) == j)),
                                                                    S.tw(i + 1, j) == If(And(Cit[i] >= 0, S.normC(i) == j), i, S.tw(i, j)))), 'ghost:touched-step'))
        # ghost from the property: listed(j) <=> some consumer entry equals the real position j ; GO <=> the marker -1 is listed
        S.listed = z3.Function('listed', I, Bo); S.lw = z3.Function('listed_w', I, I); S.GO = z3.Bool('GO'); S.gw = z3.Int('go_w')
        S.hasreal = z3.Bool('has_real_consumer'); S.rw = z3.Int('real_w'); S.first = z3.Int('first_real_consumer')
        F(Schematic(1, lambda j: Implies(S.listed(j), And(0 <= S.lw(j), S.lw(j) < S.nC, Cit[S.lw(j)] == j, j >= 0)), 'ghost:listed-def1'))
        F(Schematic(1, lambda m: Implies(And(0 <= m, m < S.nC, Cit[m] >= 0), And(S.listed(Cit[m]), S.hasreal, S.first <= Cit[m])), 'ghost:listed-def2'))
        F(Schematic(1, lambda m: Implies(And(0 <= m, m < S.nC, Cit[m] == -1), S.GO), 'ghost:GO-def1'))
        p.pc += [Implies(S.GO, And(0 <= S.gw, S.gw < S.nC, Cit[S.gw] == -1)),
                 Implies(S.hasreal, And(0 <= S.rw, S.rw < S.nC, Cit[S.rw] >= 0, Cit[S.rw] == S.first)), Implies(Not(S.hasreal), S.first == S.n)]
        # requires (from the instruction generator's contract, A.8): the marker is listed only for graph outputs; listed real consumers
        # read the tensor; a producer position really produces it.  (Nothing is required in the other direction: an unlisted graph
        # output or an unlisted reader must simply not be rewired.)
        S.ow = z3.Int('go_out_w'); S.rk = z3.Function('reads_w', I, I); S.pk = z3.Int('prod_out_w')
        p.pc.append(Implies(S.GO, And(0 <= S.ow, S.ow < S.nO, items_i(h0, S.outs)[S.ow] == S.T)))
        F(Schematic(1, lambda m: Implies(And(0 <= m, m < S.nC, Cit[m] >= 0), And(0 <= S.rk(m), S.rk(m) < ln(h0, S.inl(h0, Cit[m])), items_i(h0, S.inl(h0, Cit[m]))[S.rk(m)] == S.T)), 'req:listed-consumers-read-T'))
        p.pc.append(Implies(S.P >= 0, And(0 <= S.pk, S.pk < ln(h0, S.outl(h0, S.P)), items_i(h0, S.outl(h0, S.P))[S.pk] == S.T)))
    def bounds(self, E):
        h0 = self.h0
        return [self.n, self.NT, self.nC, self.nO, self.nCodes] + [ln(h0, self.inl(h0, z3.IntVal(j))) for j in range(0, 3)] + [ln(h0, self.outl(h0, z3.IntVal(j))) for j in range(0, 3)]
    def model_values(self, E, m):
        """concretise a bounded-scope counter-model into a replay case (graph description + instruction)"""
        S = self; h0 = S.h0
        ev = lambda t: m.eval(t, model_completion=True)
        iv = lambda t: ev(t).as_long()
        n, NT, nC, nO = iv(S.n), iv(S.NT), iv(S.nC), iv(S.nO)
        ops = []
        for j in range(n):
            li, lo = S.inl(h0, z3.IntVal(j)), S.outl(h0, z3.IntVal(j))
            ops.append(dict(inputs=[iv(items_i(h0, li)[k]) for k in range(max(0, min(4, iv(ln(h0, li)))))],
                            outputs=[iv(items_i(h0, lo)[k]) for k in range(max(0, min(4, iv(ln(h0, lo)))))], code=0))
        nG = max(0, min(4, iv(ln(h0, S.gins))))
        return dict(kind=S.kind, graph=dict(n_tensors=NT, ops=ops, outputs=[iv(items_i(h0, S.outs)[k]) for k in range(nO)],
                                            inputs=[iv(items_i(h0, S.gins)[k]) for k in range(nG)], codes=[0]),
                    tensor_id=iv(S.T), producer=iv(S.P), consumers=[iv(S.C0[k]) for k in range(nC)])
    def exclusions(self, E, names):
        S = self; out = []
        if 'minus1-consumer' in names: out.append(Schematic(1, lambda m: Implies(And(0 <= m, m < S.nC), S.C0[m] >= 0), 'EXCL:-1-not-in-consumers'))
        if 'unmarked-graph-output' in names: out.append(Schematic(1, lambda m: Implies(And(0 <= m, m < S.nO), items_i(S.h0, S.outs)[m] != S.T), 'EXCL:T-not-a-graph-output'))
        return out
    def relevant(self, label):
        core_ = ['', 'req:', 'wf:ops-alloc', 'wf:ops-distinct', 'ghost:touched', 'EXCL', 'min-bound', 'in-def', 'list.insert', 'post:']
        if label.startswith(('loop', 'frame', 'no-', 'pre:')): return core_
        if label.startswith('return:wf:'): return core_ + ['wf:', 'ghost:listed', 'ghost:GO']
        if label.startswith('return:'): return core_ + ['ghost:listed', 'ghost:GO', 'wf:tensors-alloc', 'wf:codes-alloc', 'wf:graph-outputs']
        return None
    # ---- frame
    def may_write(self, E, p, ref, field):
        S = self; ok = []
        if field == '$items:int':
            ok.append(ref == S.outs)
            if 'op' in p.env: ok.append(ref == p.heap.load(p.env['op'].term, 'inputs'))      # witness: the operator whose inputs are being rewired
        if field in ('$items:ref', '$len'): ok += [ref == S.ops, ref == S.tens, ref == S.codes]
        return Or(*ok) if ok else z3.BoolVal(False)
    # ---- callee contracts (the callee's OWN verified postconditions, constructive form)
    def k_add_op_code(self, E, p, args, kw, node):
        code, codes = args[0].term, args[1].term; h = p.heap
        n0 = ln(h, codes); it0 = items_r(h, codes); r = fresh('opc_idx', I); new = h.new(p, 'opcode')
        found = r < n0; bc = h.arr('builtinCode')
        p.pc += [0 <= r, r <= n0, Implies(found, bc[it0[r]] == code)]
        p.facts.append(Schematic(1, lambda k, bc=bc: Implies(And(0 <= k, k < r, k < n0), bc[it0[k]] != code), 'post:add_op_code-first'))
        h.set('builtinCode', If(found, bc, z3.Store(bc, new, code)))
        h.store(codes, '$items:ref', If(found, it0, z3.Store(it0, n0, new))); h.store(codes, '$len', If(found, n0, n0 + 1))
        return vint(r)
    def k_add_tensor(self, E, p, args, kw, node):
        name, shape, ttype, sg = args; h = p.heap
        tl = h.load(sg.term, 'tensors'); n0 = ln(h, tl); new = h.new(p, 'tensor')
        for f, v in (('name', name.term), ('shape', shape.term), ('type', ttype.term), ('buffer', z3.IntVal(0))): h.store(new, f, v)
        h.store(tl, '$items:ref', z3.Store(items_r(h, tl), n0, new)); h.store(tl, '$len', n0 + 1)
        return vint(n0)
    def k_unique_name(self, E, p, args, kw, node):
        """get_unique_tensor_name(name, subgraph): its own verified contract (UniqueName below): a name no tensor of the subgraph carries,
        equal to the preferred name when that one is free"""
        S = self; base, sg = args[0].term, args[1].term; h = p.heap; tl = h.load(sg, 'tensors'); n0 = ln(h, tl); its = items_r(h, tl); nm_arr = h.arr('name')
        nm = fresh('unique_name', Str); free = fresh('preferred_free', Bo); fw = fresh('taken_w', I)
        p.facts.append(Schematic(1, lambda t, its=its, nm_arr=nm_arr: Implies(And(0 <= t, t < n0), And(nm != nm_arr[its[t]], Implies(free, base != nm_arr[its[t]]))), 'post:unique-name'))
        p.pc += [Implies(free, nm == base), Implies(Not(free), And(0 <= fw, fw < n0, nm_arr[its[fw]] == base))]
        S.unique_name, S.preferred_name, S.preferred_free = nm, base, free
        return V('str', nm)
    def k_quantize_tensor(self, E, p, args, kw, node):
        ti = args[0].term; h = p.heap
        T = h.load(ti, 'tensor_id'); tl = h.load(h.load(ti, 'subgraph'), 'tensors')
        E.emit(p, f'pre:quantize_tensor.tensor_id-in-range@{node.lineno}', And(0 <= T, T < ln(h, tl)), node.lineno)
        t = items_r(h, tl)[T]; qp = h.load(ti, 'quant_params')
        h.store(t, 'type', qtype_of(qp)); h.store(t, 'quantization', fresh('qparams', Ref))
        # buffer bytes of t's own buffer may be rewritten (only when t.buffer != 0): frame clause of quantize_tensor
        bl = h.load(ti, 'buffers'); bidx = h.load(t, 'buffer'); newdata = fresh('bufdata', Ref)
        data = h.arr('data'); bobj = items_r(h, bl)[bidx]
        h.set('data', If(bidx != 0, z3.Store(data, bobj, newdata), data))
        return V('tuple', None, fields=dict(op_id=vint(0), num_ops_added=vint(0), output_tensor_id=vint(T)))
    def k_info(self, E, p, args, kw, node):
        names = ['op_id', 'num_ops_added', 'output_tensor_id']; f = dict(zip(names, args)); f.update(kw)
        return V('tuple', None, fields=f)
    # ---- loop invariants
    @staticmethod
    def rewired(cond, old, T, NEW): return If(And(cond, old == T), NEW, old)
    def newop(self, pre):
        return pre.env['dequant_op' if self.kind == 'dequant' else 'quant_op'].term
    def common(self, ctx, p, pre):
        S = self; h, hp = p.heap, pre.heap; o = self.newop(pre)
        return [('consumers-kept', ctx.forall(1, lambda m: Implies(And(0 <= m, m < S.nC), items_i(h, S.C)[m] == items_i(hp, S.C)[m]))),
                ('newop-lists-kept', And(*[items_i(h, hp.load(o, f))[0] == items_i(hp, hp.load(o, f))[0] for f in ('inputs', 'outputs')])),
                ('output-lists-kept', ctx.forall(2, lambda j, k: Implies(And(0 <= j, j < S.n, 0 <= k, k < ln(hp, S.outl(hp, j))), items_i(h, S.outl(hp, j))[k] == items_i(hp, S.outl(hp, j))[k]))),
                ('graph-inputs-kept', ctx.forall(1, lambda m: Implies(And(0 <= m, m < ln(hp, S.gins)), items_i(h, S.gins)[m] == items_i(hp, S.gins)[m])))]
    def inv0(self, E, ctx, p, pre, i):      # outer loop over consumers
        S = self; h, hp = p.heap, pre.heap; NEW = pre.env['new_tensor_id'].term; S.NEW = NEW
        fc = p.env['first_consumer_id'].term
        return [('i-range', And(0 <= i, i <= S.nC)),
                ('first-consumer-bounds', And(S.first <= fc, fc <= S.n)),
                ('first-consumer-below-processed', ctx.forall(1, lambda m: Implies(And(0 <= m, m < i, S.C0[m] >= 0), fc <= S.C0[m]))),
                ('rewire-state', ctx.forall(2, lambda j, k: Implies(And(0 <= j, j < S.n, 0 <= k, k < ln(hp, S.inl(hp, j))),
                        items_i(h, S.inl(hp, j))[k] == S.rewired(S.touched(i, j), items_i(hp, S.inl(hp, j))[k], S.T, NEW)))),
                ('processed-touched', ctx.forall(1, lambda m: Implies(And(0 <= m, m < i, S.C0[m] >= 0), S.touched(i, S.normC(m))))),
                ('touched-witness', ctx.forall(1, lambda j: Implies(S.touched(i, j), And(0 <= S.tw(i, j), S.tw(i, j) < i, S.normC(S.tw(i, j)) == j, j >= 0)))),
                ('outputs-kept', ctx.forall(1, lambda m: Implies(And(0 <= m, m < S.nO), items_i(h, S.outs)[m] == items_i(hp, S.outs)[m])))] + self.common(ctx, p, pre)
    def inv1(self, E, ctx, p, pre, idx):    # inner loop over the inputs of `op`
        S = self; h, hp = p.heap, pre.heap; NEW = S.NEW; o_in = hp.load(pre.env['op'].term, 'inputs')
        return [('idx-range', And(0 <= idx, idx <= ln(hp, o_in))),
                ('this-op', ctx.forall(1, lambda k: Implies(And(0 <= k, k < ln(hp, o_in)), items_i(h, o_in)[k] == If(k < idx, S.rewired(True, items_i(hp, o_in)[k], S.T, NEW), items_i(hp, o_in)[k])))),
                ('other-ops', ctx.forall(2, lambda j, k: Implies(And(0 <= j, j < S.n, S.inl(hp, j) != o_in, 0 <= k, k < ln(hp, S.inl(hp, j))), items_i(h, S.inl(hp, j))[k] == items_i(hp, S.inl(hp, j))[k]))),
                ('outputs-kept', ctx.forall(1, lambda m: Implies(And(0 <= m, m < S.nO), items_i(h, S.outs)[m] == items_i(hp, S.outs)[m])))] + self.common(ctx, p, pre)
    def inv2(self, E, ctx, p, pre, idx):    # loop over subgraph.outputs
        S = self; h, hp = p.heap, pre.heap; NEW = S.NEW
        return [('idx-range', And(0 <= idx, idx <= S.nO)),
                ('outputs', ctx.forall(1, lambda m: Implies(And(0 <= m, m < S.nO), items_i(h, S.outs)[m] == If(m < idx, S.rewired(True, items_i(hp, S.outs)[m], S.T, NEW), items_i(hp, S.outs)[m])))),
                ('ops-kept', ctx.forall(2, lambda j, k: Implies(And(0 <= j, j < S.n, 0 <= k, k < ln(hp, S.inl(hp, j))), items_i(h, S.inl(hp, j))[k] == items_i(hp, S.inl(hp, j))[k])))] + self.common(ctx, p, pre)
    # ---- postconditions: C01 / C02 / C19 reading of the instruction
    def ensures(self, E, ctx, p, ret):
        S = self; h, h0 = p.heap, S.h0; NEW = S.NT
        f = ret.kw['fields']; opid = f['op_id'].term
        ops1 = items_r(h, S.ops); ops0 = items_r(h0, S.ops); tens1 = items_r(h, S.tens); tens0 = items_r(h0, S.tens)
        inl0 = lambda j: S.inl(h0, j); outl0 = lambda j: S.outl(h0, j)
        pos = lambda j: If(j >= opid, j + 1, j)                                   # new position of original operator j
        Tobj = tens0[S.T]; NEWobj = tens1[NEW]; newop = ops1[opid]
        in1 = lambda j: items_i(h, inl0(j))                                          # input list (same object) of original operator j, after
        # prod1: producer position after the insertion
        prod1 = lambda t: If(t == NEW, opid, If(S.prod0(t) >= opid, S.prod0(t) + 1, S.prod0(t)))
        out = [
          ('result.output_tensor_id', f['output_tensor_id'].term == NEW),
          ('result.num_ops_added', f['num_ops_added'].term == 1),
          ('ops-len', ln(h, S.ops) == S.n + 1), ('tensors-len', ln(h, S.tens) == S.NT + 1),
          # C01: inserted right before the first real consumer but after the producer (at the end when only the graph output consumes it)
          ('op_id-is-max(producer+1,first-consumer-or-end)', opid == If(S.P + 1 >= S.first, S.P + 1, S.first)),
          # C02 skeleton: original operators keep their objects, order, opcode, outputs; only listed real consumers are rewired
          ('skeleton-objects-and-order', ctx.forall(1, lambda j: Implies(And(0 <= j, j < S.n), ops1[pos(j)] == ops0[j]))),
          ('skeleton-opcode-and-list-objects', ctx.forall(1, lambda j: Implies(And(0 <= j, j < S.n), And(h.load(ops0[j], 'opcodeIndex') == h0.load(ops0[j], 'opcodeIndex'),
                        h.load(ops0[j], 'inputs') == inl0(j), h.load(ops0[j], 'outputs') == outl0(j), ln(h, inl0(j)) == ln(h0, inl0(j)), ln(h, outl0(j)) == ln(h0, outl0(j)))))),
          ('skeleton-outputs-unchanged', ctx.forall(2, lambda j, k: Implies(And(0 <= j, j < S.n, 0 <= k, k < ln(h0, outl0(j))), items_i(h, outl0(j))[k] == items_i(h0, outl0(j))[k]))),
          ('only-listed-real-consumers-rewired', ctx.forall(2, lambda j, k: Implies(And(0 <= j, j < S.n, 0 <= k, k < ln(h0, inl0(j))),
                        in1(j)[k] == S.rewired(S.listed(j), items_i(h0, inl0(j))[k], S.T, NEW)))),
          ('graph-outputs-rewired-iff-marked', ctx.forall(1, lambda m: Implies(And(0 <= m, m < S.nO), items_i(h, S.outs)[m] == S.rewired(S.GO, items_i(h0, S.outs)[m], S.T, NEW)))),
          ('graph-outputs-len', ln(h, S.outs) == S.nO),
          ('graph-inputs-unchanged', And(ln(h, S.gins) == ln(h0, S.gins), ctx.forall(1, lambda m: Implies(And(0 <= m, m < ln(h0, S.gins)), items_i(h, S.gins)[m] == items_i(h0, S.gins)[m])))),
          # inserted operator
          ('new-op-fresh', Not(h0.alloc[newop])),
          ('new-op-wiring', And(ln(h, h.load(newop, 'inputs')) == 1, items_i(h, h.load(newop, 'inputs'))[0] == S.T,
                                ln(h, h.load(newop, 'outputs')) == 1, items_i(h, h.load(newop, 'outputs'))[0] == NEW)),
          ('new-op-code', And(0 <= h.load(newop, 'opcodeIndex'), h.load(newop, 'opcodeIndex') < ln(h, S.codes),
                              h.load(items_r(h, S.codes)[h.load(newop, 'opcodeIndex')], 'builtinCode') == S.opcode)),
          # tensors: originals keep object, name, shape, buffer; new tensor named <name><suffix>, same shape, no buffer
          ('tensors-prefix-kept', ctx.forall(1, lambda t: Implies(And(0 <= t, t < S.NT), And(tens1[t] == tens0[t], h.load(tens0[t], 'name') == h0.load(tens0[t], 'name'),
                        h.load(tens0[t], 'shape') == h0.load(tens0[t], 'shape'), h.load(tens0[t], 'buffer') == h0.load(tens0[t], 'buffer'))))),
          ('new-tensor', And(Not(h0.alloc[NEWobj]), h.load(NEWobj, 'shape') == h0.load(Tobj, 'shape'), h.load(NEWobj, 'buffer') == 0)),
          # C01 'tensor names are unique': the new name differs from every existing name of the subgraph; it is <name><suffix> whenever that is free
          ('new-tensor-name-is-unique-in-the-subgraph', ctx.forall(1, lambda t: Implies(And(0 <= t, t < S.NT), h.load(NEWobj, 'name') != h0.load(tens0[t], 'name')))),
          ('new-tensor-name-is-name+suffix-when-free', And(S.preferred_name == sconcat(h0.load(Tobj, 'name'), strlit(S.suffix)), Implies(S.preferred_free, h.load(NEWobj, 'name') == S.preferred_name))),
          # C03: dtypes the two neighbours require
          ('dtypes', And(h.load(NEWobj, 'type') == TTYPE['FLOAT32'], h.load(Tobj, 'type') == qtype_of(S.qp)) if S.kind == 'dequant' else
                     And(h.load(NEWobj, 'type') == qtype_of(S.qp), h.load(Tobj, 'type') == h0.load(Tobj, 'type'), h.load(Tobj, 'quantization') == h0.load(Tobj, 'quantization'))),
          ('other-tensor-dtypes-kept', ctx.forall(1, lambda t: Implies(And(0 <= t, t < S.NT, t != S.T), And(h.load(tens0[t], 'type') == h0.load(tens0[t], 'type'), h.load(tens0[t], 'quantization') == h0.load(tens0[t], 'quantization'))))),
          # opcode table: existing entries fixed (C19: shared table only extended)
          ('opcodes-extended-only', And(ln(h, S.codes) >= S.nCodes, ctx.forall(1, lambda c: Implies(And(0 <= c, c < S.nCodes),
                        And(items_r(h, S.codes)[c] == items_r(h0, S.codes)[c], h.load(items_r(h0, S.codes)[c], 'builtinCode') == h0.load(items_r(h0, S.codes)[c], 'builtinCode')))))),
          # C01 well-formedness preserved (ghost prod1)
          ('wf:single-producer-old-ops', ctx.forall(2, lambda j, k: Implies(And(0 <= j, j < S.n, 0 <= k, k < ln(h0, outl0(j))), prod1(items_i(h, outl0(j))[k]) == pos(j)))),
          ('wf:single-producer-new-op', prod1(NEW) == opid),
          ('wf:execution-order-old-ops', ctx.forall(2, lambda j, k: Implies(And(0 <= j, j < S.n, 0 <= k, k < ln(h0, inl0(j)), in1(j)[k] >= 0), And(in1(j)[k] <= NEW, prod1(in1(j)[k]) < pos(j))))),
          ('wf:execution-order-new-op', prod1(S.T) < opid),
          ('wf:graph-outputs-in-range', ctx.forall(1, lambda m: Implies(And(0 <= m, m < S.nO), And(0 <= items_i(h, S.outs)[m], items_i(h, S.outs)[m] <= NEW)))),
        ]
        return out
