"""Shared machinery of props/C04.py and props/C05.py.

* `load_mods(mut)`  -- the real repository modules (uniform_quantize_tensor, tfl_flatbuffer_utils, min_max_quantize_utils,
  naive_min_max_quantize, quantize_tensor, float_casting), imported from the working tree under the stub parent package; with
  `mut = {relpath: mutated source text}` the named modules are executed from the mutated text IN MEMORY and every module that
  imports a mutated module is re-executed (from its real, unmodified text) so that it binds to the mutant -- canaries never
  touch the repository.
* `G` / `discharge`  -- one goal = (id, carrier function, hypotheses, z3 goal | natively decided boolean, replay closure);
  solver goals go through symnp.prove (z3 linear / z3 NRA / cvc5) or a plain z3 check for bit-vector goals, in a fork pool.
* reference formulas of the TFLite quantization spec (written here, never read from the code under test).
"""
import contextlib, fractions, importlib, os, sys, time, types
import numpy as np, z3
from vlib import core, symnp

UQ = 'algorithms/uniform_quantize/uniform_quantize_tensor.py'
FBU = 'utils/tfl_flatbuffer_utils.py'
UTILS = 'algorithms/utils/min_max_quantize_utils.py'
NMM = 'algorithms/uniform_quantize/naive_min_max_quantize.py'
QT = 'transformations/quantize_tensor.py'
FC = 'algorithms/nonlinear_quantize/float_casting.py'
DP = 'default_policy.py'
ORDER = [(UQ, 'uq', []), (FBU, 'fbu', []), (UTILS, 'utils', [UQ, FBU]), (NMM, 'nmm', [UQ, FBU, UTILS]), (QT, 'qt', []), (FC, 'fc', [FBU]), (DP, 'dp', [])]

def modname(rel): return 'ai_edge_quantizer.' + rel[:-3].replace('/', '.')

@contextlib.contextmanager
def swapped(mapping):
    """temporarily make `import` / `from pkg import sub` resolve the given full module names to the given module objects"""
    saved = {}
    for full, mod in mapping.items():
        importlib.import_module(full)                         # make sure the real one (and its parents) exist first
        parent, _, leaf = full.rpartition('.')
        saved[full] = (sys.modules[full], getattr(sys.modules[parent], leaf, None))
        sys.modules[full] = mod; setattr(sys.modules[parent], leaf, mod)
    try: yield
    finally:
        for full, (m0, a0) in saved.items():
            parent, _, leaf = full.rpartition('.')
            sys.modules[full] = m0
            if a0 is not None: setattr(sys.modules[parent], leaf, a0)

class Mods:
    pass

_counter = [0]
def load_mods(mut=None, want=('uq', 'fbu', 'utils', 'nmm', 'qt', 'fc', 'dp'), proxies=None):
    """returns Mods with attributes uq, fbu, utils, nmm, qt, fc, dp, qtyping, schema.  `proxies = {relpath: module object}` puts a
    stand-in module in place of a dependency (e.g. tfl_flatbuffer_utils with get_tensor_data returning a symbolic array); the
    modules that import it are re-executed from their real text so that they bind to the stand-in."""
    core.stub_package(); mut = mut or {}; proxies = proxies or {}
    M = Mods(); M.qtyping = importlib.import_module('ai_edge_quantizer.qtyping')
    from ai_edge_litert import schema_py_generated as S
    M.schema = S; M.mut = dict(mut)
    fresh = {}                                                   # rel -> module object executed for this call
    for rel, key, deps in ORDER:
        if key not in want: continue
        if rel in proxies:
            fresh[rel] = proxies[rel]; setattr(M, key, proxies[rel]); continue
        if rel in mut or any(d in fresh for d in deps):
            _counter[0] += 1
            name = f'verif_mutant_{_counter[0]}_{key}'
            m = types.ModuleType(name); m.__file__ = os.path.join(core.PKG, rel); m.__package__ = modname(rel).rpartition('.')[0]
            sys.modules[name] = m                                 # dataclasses / enum resolve cls.__module__ through sys.modules
            src = mut.get(rel, core.read_source(rel))
            with swapped({modname(d): fresh[d] for d in deps if d in fresh}):
                exec(compile(src, m.__file__, 'exec'), m.__dict__)
            fresh[rel] = m
        else:
            m = importlib.import_module(modname(rel))
        setattr(M, key, m)
    return M

def proxy_of(mod, **overrides):
    """a module object with the same globals as `mod` except the overridden names"""
    p = types.ModuleType(mod.__name__ + '_proxy'); p.__dict__.update({k: v for k, v in mod.__dict__.items() if not (k.startswith('__') and k.endswith('__'))})
    p.__dict__.update(overrides); return p

def registry(M):
    """the REAL registration table of algorithm_manager.py: {algorithm: {op name: materialize function}} resolved into the
    (possibly mutated) modules of M by function name"""
    am = importlib.import_module('ai_edge_quantizer.algorithm_manager')
    out = {}
    for alg, info in am._alg_manager_instance._algorithm_registry.items():
        mod = {'min_max_uniform_quantize': getattr(M, 'nmm', None), 'float_casting': getattr(M, 'fc', None)}.get(str(alg.value) if hasattr(alg, 'value') else str(alg))
        out[str(alg.value) if hasattr(alg, 'value') else str(alg)] = {op.value: (getattr(mod, q.materialize_func.__name__) if mod is not None else q.materialize_func)
                                                                       for op, q in info.quantized_ops.items()}
    return out

# ------------------------------------------------------------------------------------------------ goals
class G:
    """id, carrier function key, and either (hyps, goal) for a solver or ok (decided by executing the real code)"""
    def __init__(self, gid, fn, hyps=None, goal=None, ok=None, clause='', inputs=None, observed=None, backend=None, replay=None, bv=False):
        self.id, self.fn, self.hyps, self.goal, self.ok = gid, fn, list(hyps or []), goal, ok
        self.clause, self.inputs, self.observed, self.backend, self.replay, self.bv = clause, inputs, observed, backend, replay, bv

@contextlib.contextmanager
def guarded(goals, gid, fn, inputs):
    """an exception of the REAL code on an input of its domain is a failed obligation with that input, not an engine crash"""
    try: yield
    except symnp.Undecided: raise
    except Exception as e:
        import traceback
        goals.append(G(f'{gid}.returns-normally', fn, ok=False, inputs=inputs, observed=f'{type(e).__name__}: {e} @ {traceback.extract_tb(e.__traceback__)[-1].name}', clause='the real function returns normally on this input of its domain'))

GOALS = []
def _discharge(i):
    g = GOALS[i]
    try:
        if g.ok is not None:
            return ('proved' if g.ok else 'refuted', 0.0, g.backend or 'exhaustive-native', None)
        if g.bv:
            s = z3.Solver(); s.set('timeout', 30000); s.add(*g.hyps); s.add(z3.Not(g.goal)); t0 = time.time(); r = s.check(); dt = time.time() - t0
            if r == z3.unsat: return ('proved', dt, 'z3-bv', None)
            if r == z3.sat:
                m = s.model(); return ('refuted', dt, 'z3-bv', {str(d): str(m[d]) for d in m.decls()})
            return ('unknown', dt, 'z3-bv', None)
        return symnp.prove(g.hyps, g.goal, timeout_ms=20000, cvc5_s=30)
    except Exception as e:
        return ('error', 0.0, 'engine', repr(e))

def discharge(goals, parallel=True):
    global GOALS
    GOALS = goals
    need_solver = sum(1 for g in goals if g.ok is None)
    if parallel and need_solver > 4: return core.run_pool(_discharge, len(goals))
    return [_discharge(i) for i in range(len(goals))]

def register(rep, prop, fns, goals, results):
    """turn discharged goals into obligations (native replay attached to every refuted one)"""
    for g, (st, dt, be, model) in zip(goals, results):
        fn = fns.get(g.fn) if g.fn else None
        head = f'{prop}/{g.fn}' if g.fn else f'{prop}/spec-lemma'
        ob = core.Ob(f'{head}/{g.id}', fn, be, st, dt, detail=model if model is not None else g.observed, clause=(g.clause or (str(g.goal)[:300] if g.goal is not None else '')))
        if st == 'refuted':
            if g.ok is not None:          # decided by running the real code on these very inputs: the run IS the native replay
                ob.replay = dict(confirmed=True, inputs=g.inputs, observed=g.observed)
            elif g.replay is not None:
                try: ob.replay = g.replay(model if isinstance(model, dict) else {})
                except Exception as e: ob.replay = dict(confirmed=False, inputs=dict(model=model), observed=f'replay crashed: {e!r}')
            else: ob.replay = dict(confirmed=False, inputs=dict(model=model), observed='no native replay for this spec-level goal')
        rep.add(ob)

# ------------------------------------------------------------------------------------------------ spec (TFLite quantization spec / property text)
R = z3.RealVal
MIN_RANGE = fractions.Fraction(1e-4)           # "1e-4 minimum range" (property anchors); the binary64 value of the literal
def ab(t): return z3.If(t >= 0, t, -t)
def zmax(a, b): return z3.If(a >= b, a, b)
def qrange(bits): return -(2 ** (bits - 1)), 2 ** (bits - 1) - 1

def ref_params(mn, mx, bits, sym):
    """reference (scale, zero-point-before-rounding | None, definitional facts) for statistics mn <= mx"""
    qmin, qmax = qrange(bits); lit = R(str(MIN_RANGE))
    if sym:
        return zmax(zmax(ab(mn), ab(mx)), lit) / qmax, None, []
    bmax = z3.If(mx > 0, mx, 0); bmin = z3.If(mn < 0, mn, 0)
    s = zmax(bmax - bmin, lit) / (qmax - qmin)
    return s, qmin - symnp.DIV(bmin, s), [symnp.div_fact(bmin, s)]

def ref_params_native(mn, mx, bits, sym):
    """the same reference in binary64 on concrete numbers (used only by native replays / bounded stand-ins)"""
    qmin, qmax = qrange(bits); mn = np.asarray(mn, np.float64); mx = np.asarray(mx, np.float64)
    if sym:
        s = np.maximum(np.maximum(np.abs(mn), np.abs(mx)), 1e-4) / qmax; return s, np.zeros_like(s)
    bmax = np.maximum(mx, 0.0); bmin = np.minimum(mn, 0.0)
    s = np.maximum(bmax - bmin, 1e-4) / (qmax - qmin); return s, np.rint(qmin - bmin / s)

# per-op weight quantized dimension (TFLite quantization spec, per-axis rows; operator_property.cc for TRANSPOSE_CONV;
# embedding_lookup.cc accepts per-axis tables on dimension 0 only).  BATCH_MATMUL: the output-channel axis of the rhs,
# i.e. the last axis, or the one before it when adj_y transposes the rhs.
QDIM_REF = {'CONV_2D': 0, 'DEPTHWISE_CONV_2D': 3, 'FULLY_CONNECTED': 0, 'CONV_2D_TRANSPOSE': 0, 'EMBEDDING_LOOKUP': 0}
def bmm_qdim_ref(rank, adj_y): return rank - 2 if adj_y else rank - 1
# ranks a weight operand of the op can have (TFLite kernels)
WEIGHT_RANKS = {'CONV_2D': (4,), 'DEPTHWISE_CONV_2D': (4,), 'FULLY_CONNECTED': (2,), 'CONV_2D_TRANSPOSE': (4,), 'EMBEDDING_LOOKUP': (2, 3, 4, 5), 'BATCH_MATMUL': (2, 3, 4, 5)}

# fixed output ranges hard-coded in the TFLite kernels (activations.cc: softmax / logistic int8 output scale 1/256, zero point
# -128; int16 scale 1/32768, zero point 0.  tanh int8 scale 1/128, zero point 0; int16 scale 1/32768, zero point 0)
FIXED_REF = {('SOFTMAX', 8): (fractions.Fraction(1, 256), -128), ('SOFTMAX', 16): (fractions.Fraction(1, 32768), 0),
             ('LOGISTIC', 8): (fractions.Fraction(1, 256), -128), ('LOGISTIC', 16): (fractions.Fraction(1, 32768), 0),
             ('TANH', 8): (fractions.Fraction(1, 128), 0), ('TANH', 16): (fractions.Fraction(1, 32768), 0)}

# same-scale ops, verbatim from the property statement
SAME_AS_INPUT_REF = {'RESHAPE', 'TRANSPOSE', 'SPLIT', 'STRIDED_SLICE', 'AVERAGE_POOL_2D'}
SAME_AS_OUTPUT_REF = {'CONCATENATION'}

def fr(x): return fractions.Fraction(float(x))
def mval(model, name, default=0):
    v = symnp.model_value(model or {}, name)
    return v if v is not None else fractions.Fraction(default)

# ------------------------------------------------------------------------------------------------ families shared by C04 and C05
from vlib.symnp import SymArray
import itertools
F32 = np.dtype('float32')
def int_dtype(bits): return np.dtype('int8') if bits <= 8 else np.dtype('int16') if bits <= 16 else np.dtype('int32') if bits <= 32 else np.dtype('int64')
def clipz(t, lo, hi): return z3.If(t < lo, z3.RealVal(lo), z3.If(t > hi, z3.RealVal(hi), t))

PARAM_CONFIGS = list(itertools.product((4, 8, 16), (True, False), ('TENSORWISE', 'CHANNELWISE'), (False, True)))
def fam_params(M, configs=None):
    """(C04 a / C05 link) the real _get_tensor_quant_params on SYMBOLIC statistics (and symbolic constant content) for every
    (bits, symmetric, granularity, constant?) -- any dependence of its control flow on the data raises Undecided."""
    goals = []; qt = M.qtyping; mn, mx, x = z3.Reals('mn mx x'); F = 'min_max_quantize_utils._get_tensor_quant_params'
    op = M.schema.OperatorT()
    for bits, sym, gran, content in (configs or PARAM_CONFIGS):
        tag = f'b{bits}.{"sym" if sym else "asym"}.{gran.lower()}.{"constant" if content else "activation"}'
        cfgd = dict(family='params', bits=bits, sym=sym, gran=gran, content=content)
        qmin, qmax = qrange(bits); sshape = (3, 1) if gran == 'CHANNELWISE' else (1, 1)
        oi = qt.OpInfo(op, qt.TFLOperationName.FULLY_CONNECTED, 0, qt.OpQuantizationConfig())
        tcfg = qt.TensorQuantizationConfig(bits, sym, qt.QuantGranularity(gran))
        with symnp.session() as cx:
            st = {'min': SymArray(mn, F32, sshape), 'max': SymArray(mx, F32, sshape)}
            data = SymArray(x, F32, (3, 5)) if content else None
            p = M.utils._get_tensor_quant_params(oi, st, tcfg, tensor_content=data)
            H = [mn <= mx] + cx.hyps()
            s_ref, zpre, facts = ref_params(mn, mx, bits, sym)
            rp = (lambda model, cfgd=cfgd: native_params(M, cfgd, model))
            g = G(f'{tag}.scale-equals-reference', F, H, p.scale.term == s_ref, replay=rp, inputs=cfgd, clause=f'min <= max => scale == ' + ('max(|min|,|max|,1e-4)/qmax' if sym else '(max(max,0)-min(min,0) or 1e-4 if smaller)/(qmax-qmin)') + f' for {bits} bits, elementwise'); g.props = {'C04'}; goals.append(g)
            if sym: g = G(f'{tag}.zero-point-is-0', F, H, p.zero_point.term == 0, replay=rp, inputs=cfgd, clause='symmetric config => zero point == 0')
            else: g = G(f'{tag}.zero-point-equals-reference', F, H + symnp.rint_facts(zpre, cx.rints) + facts, p.zero_point.term == symnp.RINT(zpre), replay=rp, inputs=cfgd, clause='min <= max => zero point == rint(qmin - min(min,0)/scale_ref)')
            g.props = {'C04'}; goals.append(g)
            want_qd = 0 if gran == 'CHANNELWISE' else None
            ok = (p.num_bits == bits and p.symmetric is sym and p.quantized_dimension == want_qd and p.scale.shape == sshape and p.zero_point.shape == sshape
                  and p.scale.dtype == F32 and p.zero_point.dtype == int_dtype(bits) and ((p.quantized_data is None) == (not content)))
            g = G(f'{tag}.num_bits-symmetric-qdim-shapes-match-config', F, ok=bool(ok), backend='cpython-exec', inputs=cfgd,
                  clause=f'num_bits == {bits} and symmetric is {sym} and quantized_dimension == {want_qd} and scale.shape == zero_point.shape == statistics shape {sshape} and zero_point.dtype == {int_dtype(bits)} and (quantized_data is None) == {not content}',
                  observed=dict(num_bits=p.num_bits, symmetric=p.symmetric, quantized_dimension=p.quantized_dimension, scale_shape=p.scale.shape, zp_shape=p.zero_point.shape, zp_dtype=str(p.zero_point.dtype)))
            g.props = {'C04'}; goals.append(g)
            if content:
                # the stored data is uniform_quantize(content, the returned parameters): same z3 term as a fresh call of the real function
                p0 = qt.UniformQuantParams(num_bits=p.num_bits, quantized_dimension=p.quantized_dimension, scale=p.scale, zero_point=p.zero_point, symmetric=p.symmetric)
                q2 = M.uq.uniform_quantize(data, p0)
                ok2 = p.quantized_data.shape == (3, 5) and p.quantized_data.dtype == int_dtype(bits)
                g = G(f'{tag}.stored-data-is-uniform_quantize(content,returned-params)', F, H, z3.And(z3.BoolVal(bool(ok2)), p.quantized_data.term == q2.term), replay=rp, inputs=cfgd, clause='quantized_data == uniform_quantize(content, UniformQuantParams(scale, zero_point, num_bits, symmetric, quantized_dimension)) of the RETURNED parameters; same shape as the content, library int dtype'); g.props = {'C05'}; goals.append(g)
    return goals

def native_params(M, cfgd, model):
    """replay of a (scale, zero point) counter-model on the real _get_tensor_quant_params with numpy arrays (the model's range first,
    then a few fixed ranges: the solver's model of an uninterpreted rounding need not be the one numpy realises)"""
    qt = M.qtyping; bits, sym, gran = cfgd['bits'], cfgd['sym'], cfgd['gran']
    a0, b0 = np.float32(float(mval(model, 'mn'))), np.float32(float(mval(model, 'mx')))
    if a0 > b0: a0, b0 = b0, a0
    last = None
    for mn, mx in [(a0, b0)] + [(np.float32(a), np.float32(b)) for a, b in ((-1.0, 2.0), (0.5, 4.0), (-3.0, -0.25), (0.0, 0.0), (-1e-6, 2e-6))]:
        n = 3 if gran == 'CHANNELWISE' else 1
        st = {'min': np.full((n, 1), mn, np.float32), 'max': np.full((n, 1), mx, np.float32)}
        data = np.linspace(float(mn), float(mx), 15).astype(np.float32).reshape(3, 5) if cfgd.get('content') else None
        oi = qt.OpInfo(M.schema.OperatorT(), qt.TFLOperationName.FULLY_CONNECTED, 0, qt.OpQuantizationConfig())
        p = M.utils._get_tensor_quant_params(oi, st, qt.TensorQuantizationConfig(bits, sym, qt.QuantGranularity(gran)), tensor_content=data)
        s_ref, z_ref = ref_params_native(st['min'], st['max'], bits, sym)
        bad = []
        if not np.allclose(p.scale, s_ref, rtol=1e-5, atol=0): bad.append('scale')
        if np.max(np.abs(p.zero_point.astype(np.int64) - z_ref)) > 1: bad.append('zero_point')
        if p.num_bits != bits or p.symmetric is not sym or p.quantized_dimension != (0 if gran == 'CHANNELWISE' else None): bad.append('config fields')
        if data is not None:
            want = M.uq.uniform_quantize(data, qt.UniformQuantParams(bits, p.quantized_dimension, p.scale, p.zero_point, sym))
            if not np.array_equal(want, p.quantized_data): bad.append('quantized_data')
        last = dict(confirmed=bool(bad), inputs=dict(cfgd, min=float(mn), max=float(mx)),
                    observed=dict(violated=bad, scale=[float(v) for v in np.ravel(p.scale)], zero_point=[int(v) for v in np.ravel(p.zero_point)], reference_scale=[float(v) for v in np.ravel(s_ref)], reference_zero_point=[float(v) for v in np.ravel(z_ref)]))
        if bad: return last
    return dict(confirmed=False, inputs=dict(cfgd, model=model), observed='the counter-model did not reproduce natively')

IN_SHAPES = [(1,), (1, 1), (1, 1, 1, 1)]
def weight_scale_shapes():
    out = [(1,), (1, 1), (1, 1, 1, 1)]
    for n in (2, 3, 4): out += [(n, 1), (n,), (n, 1, 1, 1), (1, 1, 1, n)]
    return out

def fam_bias(M):
    """(C04 b / C05 b) the real symmetric_quantize_bias_tensor on symbolic bias / input scale / weight scale"""
    goals = []; qt = M.qtyping; F = 'uniform_quantize_tensor.symmetric_quantize_bias_tensor'
    si, sw, b = z3.Reals('si sw b'); pre = [si > 0, sw > 0]
    def run(in_bits, ishape, wshape, cx):
        pin = qt.UniformQuantParams(in_bits, None, SymArray(si, F32, ishape), SymArray(z3.IntVal(0), int_dtype(in_bits), ishape), True)
        pw = qt.UniformQuantParams(8, None if int(np.prod(wshape)) == 1 else 0, SymArray(sw, F32, wshape), SymArray(z3.IntVal(0), np.int8, wshape), True)
        C = int(np.prod(np.broadcast_shapes(ishape, wshape)))
        return M.uq.symmetric_quantize_bias_tensor(SymArray(b, F32, (C,)), pin, pw), C
    for in_bits in (8, 16):
        bb = 64 if in_bits == 16 else 32; qmin, qmax = qrange(bb); lo = qmin + 1
        cfgd = dict(family='bias', in_bits=in_bits)
        rp = (lambda model, cfgd=cfgd: native_bias(M, cfgd, model))
        # ---- values (shape independent: one representative shape pair), all real bias / scales
        with symnp.session() as cx:
            p, C = run(in_bits, (1, 1, 1, 1), (3, 1, 1, 1), cx)
            H = pre + cx.hyps(); S = si * sw; tag = f'in{in_bits}'
            g = G(f'{tag}.scale-is-input-scale-times-weight-scale', F, H, p.scale.term == S, replay=rp, inputs=cfgd, clause='bias scale == input scale * weight scale (elementwise over output channels)'); g.props = {'C04'}; goals.append(g)
            g = G(f'{tag}.zero-point-is-0', F, H, p.zero_point.term == 0, replay=rp, inputs=cfgd, clause='bias zero point == 0'); g.props = {'C04'}; goals.append(g)
            ok = p.num_bits == bb and p.symmetric is True
            g = G(f'{tag}.num_bits-is-{bb}-and-symmetric', F, ok=bool(ok), backend='cpython-exec', inputs=cfgd, clause=f'num_bits == {bb} (64 iff the input activation is 16-bit) and symmetric is True',
                  observed=dict(num_bits=p.num_bits, symmetric=p.symmetric)); g.props = {'C04'}; goals.append(g)
            if len(cx.rints) != 1: raise symnp.Undecided('symmetric_quantize_bias_tensor no longer rounds exactly once')
            y = cx.rints[0]; r = symnp.RINT(y); rr = z3.ToReal(r); q = p.quantized_data.term
            g = G(f'{tag}.pre-rounding-value-is-bias/scale', F, H + [symnp.div_fact(b, S)], y == symnp.DIV(b, S), replay=rp, inputs=cfgd, clause='the value that is rounded is bias / (input_scale*weight_scale) (+ zero point 0)'); g.props = {'C05'}; goals.append(g)
            g = G(f'{tag}.result-is-rint(bias/scale)-when-not-saturated', F, H + [r >= lo, r <= qmax], q == r, replay=rp, inputs=cfgd, clause=f'qmin+1 <= rint(bias/scale) <= qmax (int{bb}) => quantized bias == rint(bias/scale)'); g.props = {'C05'}; goals.append(g)
            if bb == 32:
                g = G(f'{tag}.result-is-clip(rint(bias/scale),qmin+1,qmax)', F, H, q == z3.ToInt(clipz(rr, lo, qmax)), replay=rp, inputs=cfgd, clause='quantized bias == clip(rint(bias/scale), -2147483647, 2147483647)'); g.props = {'C05'}; goals.append(g)
                g = G(f'{tag}.result-in-narrow-range', F, H, z3.And(q >= lo, q <= qmax), replay=rp, inputs=cfgd, clause='-2147483647 <= quantized bias <= 2147483647'); g.props = {'C05'}; goals.append(g)
            else:
                g = G(f'{tag}.result-saturates-low-at-int64-min', F, H + [r < qmin], q == qmin, replay=rp, inputs=cfgd, clause='rint(bias/scale) < -2**63 => quantized bias == -2**63 (float(-2**63)+1 == -2.0**63: no narrow range in 64 bits)'); g.props = {'C05'}; goals.append(g)
            for k, (lab, sg) in enumerate(cx.side):
                # the float -> int cast is exact (cannot wrap).  64 bit: float(2**63 - 1) == 2.0**63, so the clip does not protect the
                # cast at the upper end; the obligation is stated for values that do not saturate upwards (the property exempts saturation)
                hy = H + ([r <= qmax] if (bb == 64 and lab.startswith('cast')) else [])
                g = G(f'{tag}.side{k}.{lab}' + ('-unless-saturated-high' if len(hy) > len(H) else ''), F, hy, sg, replay=rp, inputs=cfgd, clause=('float -> int cast exact (integral, inside the target dtype: cannot wrap)' if lab.startswith('cast') else 'divisor != 0') + (' provided rint(bias/scale) <= 2**63-1' if len(hy) > len(H) else '')); g.props = {'C05'}; goals.append(g)
            ok = p.quantized_data.dtype == int_dtype(bb) and p.zero_point.dtype == np.dtype('int32')
            g = G(f'{tag}.result-dtype-int{bb}', F, ok=bool(ok), backend='cpython-exec', inputs=cfgd, clause=f'quantized_data.dtype == int{bb}', observed=str(p.quantized_data.dtype)); g.props = {'C05'}; goals.append(g)
        # ---- shapes: every (input scale shape, weight scale shape)
        for ishape, wshape in itertools.product(IN_SHAPES, weight_scale_shapes()):
            with symnp.session() as cx:
                p, C = run(in_bits, ishape, wshape, cx)
                want_qd = None if C == 1 else 0
                ok = (p.scale.shape == (C,) and p.zero_point.shape == (C,) and p.quantized_dimension == want_qd and p.quantized_data.shape == (C,) and p.num_bits == bb and p.symmetric is True
                      and z3.is_true(z3.simplify(p.scale.term == si * sw)))
                sh = 'x'.join(map(str, ishape)) + '.' + 'x'.join(map(str, wshape))
                g = G(f'in{in_bits}.shapes.{sh}.scale-1d-of-{C}-qdim-{want_qd}', F, ok=bool(ok), backend='cpython-exec', inputs=dict(cfgd, input_scale_shape=ishape, weight_scale_shape=wshape),
                      clause=f'scale.shape == zero_point.shape == quantized_data.shape == ({C},) and quantized_dimension == {want_qd} and scale == input_scale*weight_scale elementwise',
                      observed=dict(scale_shape=p.scale.shape, zp_shape=p.zero_point.shape, qdim=p.quantized_dimension)); g.props = {'C04'}; goals.append(g)
    return goals

def native_bias(M, cfgd, model):
    qt = M.qtyping; in_bits = cfgd['in_bits']; bb = 64 if in_bits == 16 else 32; qmin, qmax = qrange(bb)
    si, sw, b = (np.float32(float(mval(model, k, d))) for k, d in (('si', 1), ('sw', 1), ('b', 0)))
    cands = [(si, sw, b), (np.float32(0.5), np.float32(0.25), np.float32(3.3)), (np.float32(1e-3), np.float32(2e-3), np.float32(-7.0)), (np.float32(1e-4 / 127), np.float32(1e-4 / 127), np.float32(1e30)),
             (np.float32(1e-4 / 127), np.float32(1e-4 / 127), np.float32(-1e30))]
    for (a, w, bv) in cands:
        if not (a > 0 and w > 0 and np.isfinite(a) and np.isfinite(w) and np.isfinite(bv)): continue
        pin = qt.UniformQuantParams(in_bits, None, np.array([[a]], np.float32), np.zeros((1, 1), np.int32), True)
        pw = qt.UniformQuantParams(8, 0, np.array([[w], [w], [w]], np.float32), np.zeros((3, 1), np.int32), True)
        import warnings
        with np.errstate(all='ignore'), warnings.catch_warnings():
            warnings.simplefilter('ignore'); p = M.uq.symmetric_quantize_bias_tensor(np.array([bv] * 3, np.float32), pin, pw)
        S = float(a) * float(w); bad = []
        if p.scale.shape != (3,) or not np.allclose(p.scale, S, rtol=1e-6): bad.append('scale')
        if np.any(p.zero_point != 0): bad.append('zero_point')
        if p.num_bits != bb or p.symmetric is not True or p.quantized_dimension != 0: bad.append('config fields')
        with np.errstate(all='ignore'):
            raw = float(np.rint(np.float64(np.float32(bv) * (np.float32(1.0) / np.float32(np.float32(a) * np.float32(w))))))
        exact = False; want = raw
        if bb == 32:
            if raw < qmin + 1 or raw > qmax: want, exact = min(max(raw, qmin + 1), qmax), True       # saturated: the stored code must be exactly the narrow-range end
        elif raw > qmax: want = None                 # saturating upwards, 64 bit: outside the property (see the note of C05)
        elif raw < qmin: want, exact = qmin, True
        if want is not None and any((int(v) != want) if exact else (abs(int(v) - want) > max(1.0, abs(want) * 1e-6)) for v in p.quantized_data): bad.append('quantized_data')
        if bad: return dict(confirmed=True, inputs=dict(cfgd, input_scale=float(a), weight_scale=float(w), bias=float(bv)), observed=dict(violated=bad, scale=[float(v) for v in p.scale], num_bits=p.num_bits, quantized_dimension=p.quantized_dimension, quantized=[int(v) for v in p.quantized_data], expected=want))
    return dict(confirmed=False, inputs=dict(cfgd, model=model), observed='the counter-model did not reproduce natively')
