"""Sidecar contract (pyvc) for the per-sample loop of Calibrator.calibrate (C09).

Everything the loop calls is a callee CONTRACT (never a body): the interpreter wrapper, the recipe manager, the algorithm
registry, the calibration function, `_get_op_scope`, `_update_qsvs` (its contract is the one VERIFIED in contracts/c09_qsvs.py,
instantiated at the same arbitrary name ANY), `_initialize_model_qsvs`, `reset_all_variables`, `isinstance(op, IOOperator)`.

Abstract view, for ONE arbitrary tensor name ANY (rigid, unconstrained => every name):
  model state  (has, val) = (ANY in self._model_qsvs, self._model_qsvs[ANY])             (QSV objects are abstract values)
  sample i     D[i] = calibration_dataset[i];   content map  cm_i = CONTENT(D[i], subgraph_index)   [interpreter assumption:
               the preserved tensors after invoking the signature on D[i] are a function of D[i] only; ghost field
               `loaded_sample` of the interpreter object records which sample is loaded, NULL = reset]
  statistic    STAT(cm)[name] : the QSV every calibration function reports for `name` from the content map `cm`
               (min_max_calibrate: {min: np.min(cm[name]), max: np.max(cm[name])} -- family `calibrate-func` of props/C09.py)
  operator j of the walked list:  T(j) = "operator j is selected by the recipe and reports ANY":
               known op key and ALG(recipe, key, scope) != no_quantize and ANY in KEYS(calibration func, op.inputs, op.outputs, tensors, buffers)
  EX(k) = exists j < k. T(j)            (recursive spec function:  EX(0) = False, EX(j+1) = EX(j) or T(j))
  the operator list walked for sample i is  original operators ++ (INPUT, OUTPUT pseudo-operators) x (i+1)   -- the real code
  appends the two pseudo-operators again for every sample (`subgraph.operators += ...` inside the data loop); its length is
  n0 + 2(i+1), so the set of reporting operators of sample i is  REP_i = EX(n0 + 2(i+1)).
Specification of the fold (property text: first sample initialises / moving average through UPD, each name folded at most once per
sample with the content-map value, dataset order):
  F(0)   = state at loop entry (the entry state, or whatever _initialize_model_qsvs leaves when the entry state is empty)
  F(i+1) = F(i)                                                          if not REP_i
         = (True, STAT(cm_i)[ANY]            if ANY not in F(i)
                  UPD(F(i).val, STAT(cm_i)[ANY]) otherwise)              if REP_i
  ensures  state at exit == F(len(dataset)); the interpreter is reset after every sample; the dataset list is not written.
That REP_i does not depend on i (the repeated pseudo-operators are harmless) is the spec lemma `io-duplicates` of props/C09.py.

Engine additions (subclass, this file only): `x.attr += <list>` as in-place list extension."""
import ast, z3
from vlib import core
from vlib.pyvc import *
from vlib.pyvc import ARR_SIG, _canon_arr
from contracts.c09_qsvs import ANY, UPD
from contracts.graph import items_r, ln

StrBoolArr = z3.ArraySort(Str, Bo); StrRefArr = z3.ArraySort(Str, Ref)
CONTENT = z3.Function('content_map_of', Ref, I, Ref)
SIGOUT = z3.Function('signature_output_of', Ref, Ref)
SUBIDX = z3.Function('signature_main_subgraph_index', Ref, Ref, I)
ISIO = z3.Function('isinstance_IOOperator', Ref, Bo)
SCOPEF = z3.Function('op_scope', Ref, Ref, Str)                       # (op.outputs, subgraph tensors) -> scope  (C10: join of the output names)
ALG = z3.Function('recipe_algorithm', Ref, Str, Str, Str)            # RecipeManager.get_quantization_configs (C11: a pure function of its view)
CFG = z3.Function('recipe_config', Ref, Str, Str, Ref)
CALFN = z3.Function('calibration_func_of', Str, Str, Ref)            # algorithm_manager.get_quantization_func(alg, key, CALIBRATE)
KEYSF = z3.Function('reported_names', Ref, Ref, Ref, Ref, Ref, StrBoolArr)   # (func, op.inputs, op.outputs, tensors, buffers) -> set of names
STATARR = z3.Function('statistics_of_content_map', Ref, StrRefArr)
EMPTY = z3.Const('empty_list_value', Ref)
NOQ, K_IN, K_OUT = 'no_quantize', 'INPUT', 'OUTPUT'

FIELDS = {'_flatbuffer_model': 'ref', 'operatorCodes': 'list[ref]', '_model_qsvs': 'dict[str,ref]', '_tfl_interpreter': 'ref', '_cached_output': 'list[ref]',
          '_tensor_content_map': 'ref', 'subgraphs': 'list[ref]', 'tensors': 'ref', 'buffers': 'ref', 'operators': 'list[ref]', 'op_key': 'str',
          'opcodeIndex': 'int', 'builtinCode': 'int', 'inputs': 'ref', 'outputs': 'ref', 'subgraph_tensors': 'ref', 'TFL_OP_CODE_TO_NAME': 'dict[int,str]',
          'loaded_sample': 'ref'}

class EngineX(Engine):
    """+ `x.attr += ys` for lists: in-place extension (list.__iadd__), then the attribute is re-bound to the SAME object (no heap change)"""
    def stmt(self, s, p):
        if isinstance(s, ast.AugAssign) and isinstance(s.op, ast.Add) and isinstance(s.target, ast.Attribute):
            cur = self.ev(s.target, p)
            if cur.kind.startswith('list['):
                rhs = self.ev(s.value, p)
                if rhs.kind != cur.kind: raise Unsupported(f'list += {rhs.kind}')
                ek = elem_kind(cur.kind); fld = items_field(ek); n = self.llen(cur, p); m = self.llen(rhs, p); src = self.litems(rhs, p)
                self.frame(p, cur.term, fld, s.lineno); self.frame(p, cur.term, '$len', s.lineno)
                # instantiation hint only: the sidecar may name the list by the term its invariants use (typed instantiation matches array signatures
                # syntactically); the fact is guarded by `alias == list`, hence valid whatever the hint is
                R = self.spec.alias_of(self, p, cur.term) if hasattr(self.spec, 'alias_of') else cur.term
                it = p.heap.load(R, fld); new = fresh('ext', p.heap.fsort(fld)); ARR_SIG[new.decl().name()] = _canon_arr(it)
                p.facts.append(Schematic(1, lambda k, new=new, it=it, n=n, m=m, src=src, R=R, c=cur.term: Implies(And(R == c, 0 <= k, k < n + m), new[k] == If(k < n, it[k], src[k - n])), 'list+='))
                p.heap.store(cur.term, fld, new); p.heap.store(cur.term, '$len', n + m)
                owner = self.ev(s.target.value, p); self.frame(p, owner.term, s.target.attr, s.lineno)       # setattr(owner, attr, same list): value unchanged
                return [Outcome('next', p)]
        return super().stmt(s, p)

class Calibrate(Spec):
    fields = FIELDS; consts = {}
    str_consts = {'algorithm_manager.AlgorithmName.NO_QUANTIZE': NOQ, 'qtyping.QuantizeMode.CALIBRATE': 'CALIBRATE', 'qtyping.IOOperator': '<class IOOperator>'}
    constructors = {'qtyping.GraphInfo': ['subgraph_tensors', 'buffers']}
    loops_may_allocate = True
    def __init__(self):
        self.callees = {'self._initialize_model_qsvs': self.k_init, 'tfl_interpreter_utils.invoke_interpreter_signature': self.k_invoke,
                        'tfl_interpreter_utils.get_signature_main_subgraph_index': self.k_subidx, 'tfl_interpreter_utils.get_tensor_name_to_content_map': self.k_content,
                        'tfl_flatbuffer_utils.get_subgraph_input_output_operators': self.k_io_ops, 'isinstance': self.k_isinstance, 'self._get_op_scope': self.k_scope,
                        'model_recipe_manager.get_quantization_configs': self.k_recipe, 'algorithm_manager.get_quantization_func': self.k_getfunc,
                        'calibrate_func': self.k_calibrate_func, 'self._update_qsvs': self.k_update_qsvs, 'self._tfl_interpreter.reset_all_variables': self.k_reset}
        self.invariants = {0: self.inv_samples, 1: self.inv_subgraph, 2: self.inv_ops}
    def empty_set_kind(self, line): return 'str'
    def empty_list_kind(self, line): return 'ref'
    # ------------------------------------------------------------------------------------------------ entry state
    def bind(self, E, p):
        S = self; h = p.heap
        for nme in list(FIELDS) + ['$len', '$items:ref', '$dkeys:str', '$dhas:str', '$dmap:str:ref', '$dkeys:int', '$dhas:int', '$dmap:int:str']: h.arr(nme)
        h0 = h.copy(); S.h0 = h0
        C = lambda n: z3.Const(n, Ref)
        S.self_, S.DS, S.rm, S.key, S.f, S.modfbu = C('self'), C('calibration_dataset'), C('model_recipe_manager'), C('signature_key'), C('qsv_update_func_obj'), C('module_tfl_flatbuffer_utils')
        S.cache = z3.Bool('cache_output')
        p.env.update(self=V('ref', S.self_), calibration_dataset=V('list[ref]', S.DS), model_recipe_manager=V('ref', S.rm), signature_key=V('ref', S.key),
                     cache_output=V('bool', S.cache), qsv_update_func=V('ref', S.f), tfl_flatbuffer_utils=V('ref', S.modfbu))
        S.fm = h0.load(S.self_, '_flatbuffer_model'); S.d = h0.load(S.self_, '_model_qsvs'); S.itp = h0.load(S.self_, '_tfl_interpreter'); S.CO = h0.load(S.self_, '_cached_output')
        S.CL = h0.load(S.fm, 'operatorCodes'); S.SGS = h0.load(S.fm, 'subgraphs'); S.bufs = h0.load(S.fm, 'buffers'); S.NT = h0.load(S.modfbu, 'TFL_OP_CODE_TO_NAME')
        S.idx = SUBIDX(S.itp, S.key); S.sg = items_r(h0, S.SGS)[S.idx]; S.L = h0.load(S.sg, 'operators'); S.tens = h0.load(S.sg, 'tensors')
        S.sg_in = h0.load(S.sg, 'inputs'); S.sg_out = h0.load(S.sg, 'outputs')
        S.N = ln(h0, S.DS); S.D = items_r(h0, S.DS); S.n0 = ln(h0, S.L); S.ops0 = items_r(h0, S.L); S.ncodes = ln(h0, S.CL); S.codes = items_r(h0, S.CL)
        S.nthas = h0.load(S.NT, '$dhas:int'); S.ntmap = h0.load(S.NT, '$dmap:int:str')
        S.has0 = h0.load(S.d, '$dhas:str')[ANY]; S.map0 = h0.load(S.d, '$dmap:str:ref')[ANY]; S.len0 = h0.load(S.d, '$len')
        objs = [S.self_, S.DS, S.rm, S.modfbu, S.fm, S.d, S.itp, S.CO, S.CL, S.SGS, S.NT, S.sg, S.L]
        p.pc += [z3.Distinct(*objs)] + [x != NULL for x in objs] + [h0.alloc[x] for x in objs]
        p.pc += [S.N >= 0, S.n0 >= 0, S.ncodes >= 0, ln(h0, S.CO) >= 0, S.len0 >= 0, 0 <= S.idx, S.idx < ln(h0, S.SGS),
                 h0.load(S.itp, 'loaded_sample') == NULL]              # the interpreter of a Calibrator starts reset
        F = p.facts.append
        F(Schematic(1, lambda j: Implies(And(0 <= j, j < S.n0), And(S.ops0[j] != NULL, h0.alloc[S.ops0[j]],
              Implies(Not(ISIO(S.ops0[j])), And(0 <= h0.load(S.ops0[j], 'opcodeIndex'), h0.load(S.ops0[j], 'opcodeIndex') < S.ncodes)))), 'req:operators-wellformed'))
        F(Schematic(1, lambda j: Implies(And(0 <= j, j < S.ncodes), And(S.codes[j] != NULL, h0.alloc[S.codes[j]])), 'req:opcodes-alloc'))
        F(Schematic(1, lambda j: Implies(And(0 <= j, j < S.N), And(S.D[j] != NULL, h0.alloc[S.D[j]])), 'req:samples-alloc'))
        # ---- specification functions
        S.init_has = z3.Bool('init_has_any'); S.init_map = z3.Const('init_val_any', Ref)         # what _initialize_model_qsvs leaves for ANY
        S.s0has = If(S.len0 == 0, S.init_has, S.has0); S.s0map = If(S.len0 == 0, S.init_map, S.map0)
        S.T_in = S.tt(z3.BoolVal(True), strlit(K_IN), EMPTY, S.sg_in, z3.IntVal(0)); S.T_out = S.tt(z3.BoolVal(True), strlit(K_OUT), S.sg_out, EMPTY, z3.IntVal(0))
        S.EX = z3.Function('exists_reporting_operator_before', I, Bo)
        S.HASF = z3.Function('fold_has', I, Bo); S.MAPF = z3.Function('fold_val', I, Ref)
        p.pc += [Not(S.EX(0)), S.HASF(0) == S.s0has, S.MAPF(0) == S.s0map]
        F(Schematic(1, lambda j: Implies(And(0 <= j, j <= S.n0 + 2 * S.N + 2), S.EX(j + 1) == Or(S.EX(j), S.TV(j))), 'spec:exists-step'))
        F(Schematic(1, lambda i: Implies(And(0 <= i, i < S.N), And(S.HASF(i + 1) == Or(S.HASF(i), S.REP(i)),
              S.MAPF(i + 1) == If(S.REP(i), If(S.HASF(i), UPD(S.MAPF(i), S.stat(S.D[i])), S.stat(S.D[i])), S.MAPF(i)))), 'spec:fold-step'))
    def stat(self, sample): return STATARR(CONTENT(sample, self.idx))[ANY]
    def REP(self, i): return self.EX(self.n0 + 2 * i + 2)
    def tt(self, isio, key_field, ins, outs, code):
        """operator (described by its fields) is selected by the recipe and its calibration function reports ANY"""
        S = self; known = Or(isio, S.nthas[code]); key = If(isio, key_field, S.ntmap[code]); alg = ALG(S.rm, key, SCOPEF(outs, S.tens))
        return And(known, alg != strlit(NOQ), KEYSF(CALFN(alg, key), ins, outs, S.tens, S.bufs)[ANY])
    def t_op(self, h, o):
        return self.tt(ISIO(o), h.load(o, 'op_key'), h.load(o, 'inputs'), h.load(o, 'outputs'), h.load(self.codes[h.load(o, 'opcodeIndex')], 'builtinCode'))
    def TV(self, j):
        S = self; return If(j < S.n0, S.t_op(S.h0, S.ops0[j]), If((j - S.n0) % 2 == 0, S.T_in, S.T_out))
    def bounds(self, E): return [self.N, self.n0, self.ncodes]
    def alias_of(self, E, p, ref): return self.L
    def relevant(self, label):
        """hypotheses tried first (sound: fewer hypotheses; the full set is the fallback): the spec recursions matter only for the model / updated-set clauses"""
        if 'model[name]' in label or 'updated-set' in label or 'statistics ==' in label: return None
        return ['', 'list+=', 'alloc:', 'req:']
    def may_write(self, E, p, ref, field):
        S = self
        if field.startswith('$d'): return ref == S.d
        if field == '$len': return Or(ref == S.d, ref == S.L, ref == S.CO)
        if field == '$items:ref': return Or(ref == S.L, ref == S.CO)
        if field == '_tensor_content_map': return ref == S.self_
        if field == 'operators': return ref == S.sg
        return z3.BoolVal(False)
    # ------------------------------------------------------------------------------------------------ invariants
    def lists_kept(self, h):
        S = self
        return And(ln(h, S.DS) == S.N, items_r(h, S.DS) == S.D, ln(h, S.SGS) == ln(S.h0, S.SGS), items_r(h, S.SGS) == items_r(S.h0, S.SGS),
                   ln(h, S.CL) == S.ncodes, items_r(h, S.CL) == S.codes,
                   # attributes that the loop also stores on objects it allocates (GraphInfo.buffers, IOOperator.inputs/outputs): unchanged on the model objects
                   h.load(S.fm, 'buffers') == S.bufs, h.load(S.sg, 'inputs') == S.sg_in, h.load(S.sg, 'outputs') == S.sg_out)
    def io_shape(self, h, o, even):
        """pseudo-operator as built by get_subgraph_input_output_operators: (INPUT: [] -> subgraph.inputs) / (OUTPUT: subgraph.outputs -> [])"""
        S = self
        return And(ISIO(o), h.load(o, 'op_key') == If(even, strlit(K_IN), strlit(K_OUT)), h.load(o, 'inputs') == If(even, EMPTY, S.sg_out), h.load(o, 'outputs') == If(even, S.sg_in, EMPTY))
    def list_described(self, ctx, h, length):
        """the walked operator list = the original operators followed by (INPUT, OUTPUT) pseudo-operators"""
        S = self; it = items_r(h, S.L)
        return [('operator-list-length', And(ln(h, S.L) == length, (length - S.n0) % 2 == 0, length >= S.n0)),
                ('original-operators-kept-in-place', ctx.forall(1, lambda j: Implies(And(0 <= j, j < S.n0), it[j] == S.ops0[j]))),
                ('appended-entries-are-INPUT/OUTPUT-pseudo-operators', ctx.forall(1, lambda j: Implies(And(S.n0 <= j, j < length), And(S.io_shape(h, it[j], (j - S.n0) % 2 == 0),
                      Not(S.h0.alloc[it[j]]), it[j] != NULL)))),
                ('fields-of-original-operators-unchanged', ctx.forall(1, lambda j: Implies(And(0 <= j, j < S.n0), And(*[h.load(S.ops0[j], f) == S.h0.load(S.ops0[j], f) for f in ('op_key', 'inputs', 'outputs')]))))]
    def model_at(self, h):
        return h.load(self.d, '$dhas:str')[ANY], h.load(self.d, '$dmap:str:ref')[ANY]
    def stepped(self, has_pre, map_pre, rep, v):
        return Or(has_pre, rep), If(rep, If(has_pre, UPD(map_pre, v), v), map_pre)
    def inv_samples(self, E, ctx, p, pre, i):
        S = self; h = p.heap; has, val = S.model_at(h)
        return [('i-range', And(0 <= i, i <= S.N)),
                ('model[name] is the fold of the first i samples in dataset order', And(has == S.HASF(i), val == S.MAPF(i))),
                ('interpreter-reset-between-samples', h.load(S.itp, 'loaded_sample') == NULL),
                ('dataset-and-graph-lists-not-written', S.lists_kept(h))] + S.list_described(ctx, h, S.n0 + 2 * i)
    def inv_subgraph(self, E, ctx, p, pre, j):
        """loop over the one-element list [invoked subgraph]"""
        S = self; h = p.heap; hp = pre.heap; has, val = S.model_at(h); hasp, valp = S.model_at(hp); lenp = ln(hp, S.L)
        cm = hp.load(S.self_, '_tensor_content_map'); h1, v1 = S.stepped(hasp, valp, S.EX(lenp + 2), STATARR(cm)[ANY])
        one = pre.fresh[-1]                 # the anonymous one-element list `[subgraphs[subgraph_index]]` (allocated by the loop header, last allocation before the loop)
        return [('j-range', And(0 <= j, j <= 1)), ('iterated-list-is-[invoked subgraph]', And(ln(h, one) == 1, items_r(h, one)[0] == S.sg)),
                ('model[name] after the subgraph walk: folded once iff reported', And(has == If(j == 0, hasp, h1), val == If(j == 0, valp, v1))),
                ('per-sample-updated-set: empty before the operators are walked', h.load(p.env['updated_tensor_names'].term, '$dhas:str')[ANY] == If(j == 0, z3.BoolVal(False), S.EX(lenp + 2))),
                ('content-map-and-loaded-sample-kept', And(h.load(S.self_, '_tensor_content_map') == cm, h.load(S.itp, 'loaded_sample') == hp.load(S.itp, 'loaded_sample'))),
                ('dataset-and-graph-lists-not-written', S.lists_kept(h))] + S.list_described(ctx, h, lenp + 2 * j)
    def inv_ops(self, E, ctx, p, pre, k):
        S = self; h = p.heap; hp = pre.heap; has, val = S.model_at(h); hasp, valp = S.model_at(hp); n2 = ln(hp, S.L)
        U = h.load(p.env['updated_tensor_names'].term, '$dhas:str')[ANY]; cm = hp.load(S.self_, '_tensor_content_map')
        h1, v1 = S.stepped(hasp, valp, S.EX(k), STATARR(cm)[ANY]); one = [r for r in pre.fresh if str(r).startswith('lst!')][-1]
        return [('k-range', And(0 <= k, k <= n2)), ('next-operator-is-an-object', Implies(And(0 < k, k < n2), items_r(h, S.L)[k] != NULL)),     # also the instantiation trigger for the list facts at index k
                ('outer-iterated-list-is-[invoked subgraph]', And(ln(h, one) == 1, items_r(h, one)[0] == S.sg)),
                ('updated-set[name] iff a selected operator before k reports it', U == S.EX(k)),
                ('model[name] folded once with the content-map statistic iff updated, else untouched', And(has == h1, val == v1)),
                ('content-map-kept', h.load(S.self_, '_tensor_content_map') == cm),
                ('operator-list-not-written-while-walked', And(ln(h, S.L) == n2, items_r(h, S.L) == items_r(hp, S.L))),
                ('dataset-and-graph-lists-not-written', S.lists_kept(h))]
    def ensures(self, E, ctx, p, ret):
        S = self; h = p.heap; has, val = S.model_at(h)
        return [('statistics == fold of the per-sample step over the dataset in order', And(has == S.HASF(S.N), val == S.MAPF(S.N))),
                ('interpreter-reset-after-the-last-sample', h.load(S.itp, 'loaded_sample') == NULL),
                ('dataset-list-not-written', And(ln(h, S.DS) == S.N, items_r(h, S.DS) == S.D)),
                ('model-dict-object-kept', h.load(S.self_, '_model_qsvs') == S.d),
                ('operator-list == original operators ++ 2 pseudo-operators per sample', And(ln(h, S.L) == S.n0 + 2 * S.N, ctx.forall(1, lambda j: Implies(And(0 <= j, j < S.n0), items_r(h, S.L)[j] == S.ops0[j]))))]
    # ------------------------------------------------------------------------------------------------ callee contracts
    def k_init(self, E, p, args, kw, node):
        """_initialize_model_qsvs: writes the model dict only; what it stores for ANY is (init_has, init_val) (constants: C04 / family init-qsvs)"""
        S = self; h = p.heap
        E.emit(p, 'callsite:_initialize_model_qsvs.only-on-an-empty-model', h.load(S.d, '$len') == 0, node.lineno)
        E.emit(p, 'callsite:_initialize_model_qsvs.recipe-manager', args[0].term == S.rm, node.lineno)
        hn = fresh('init_has', StrBoolArr); mn = fresh('init_map', StrRefArr); p.pc += [hn[ANY] == S.init_has, mn[ANY] == S.init_map]
        h.store(S.d, '$dhas:str', hn); h.store(S.d, '$dmap:str:ref', mn); h.havoc_at('$dkeys:str', [S.d], 'init'); h.havoc_at('$len', [S.d], 'init')
        return NONE
    def k_invoke(self, E, p, args, kw, node):
        S = self; h = p.heap
        E.emit(p, 'callsite:invoke.interpreter-was-reset', h.load(S.itp, 'loaded_sample') == NULL, node.lineno)
        E.emit(p, 'callsite:invoke.(own interpreter, the sample of this iteration, signature_key)', And(args[0].term == S.itp, args[1].term == p.env['data'].term, args[2].term == S.key), node.lineno)
        h.store(S.itp, 'loaded_sample', args[1].term); return V('ref', SIGOUT(args[1].term))
    def k_subidx(self, E, p, args, kw, node):
        E.emit(p, 'callsite:subgraph-index.(own interpreter, signature_key)', And(args[0].term == self.itp, args[1].term == self.key), node.lineno)
        return vint(SUBIDX(args[0].term, args[1].term))
    def k_content(self, E, p, args, kw, node):
        S = self; h = p.heap
        E.emit(p, 'callsite:content-map.read-after-invoking-this-sample-on-the-invoked-subgraph', And(args[0].term == S.itp, h.load(S.itp, 'loaded_sample') == p.env['data'].term, args[1].term == S.idx), node.lineno)
        return V('ref', CONTENT(h.load(S.itp, 'loaded_sample'), args[1].term))
    def k_reset(self, E, p, args, kw, node):
        p.heap.store(self.itp, 'loaded_sample', NULL); return NONE
    def k_io_ops(self, E, p, args, kw, node):
        """get_subgraph_input_output_operators (verified separately, class IoOps): a fresh 2-element list of fresh pseudo-operators"""
        S = self; h = p.heap; sg = args[0].term
        E.emit(p, 'callsite:io-operators.of-the-invoked-subgraph', sg == S.sg, node.lineno)
        Lc = h.load(sg, 'operators'); itc = items_r(h, Lc); nc = ln(h, Lc)
        o_in = h.new(p, 'io_in'); o_out = h.new(p, 'io_out'); lst = h.new(p, 'io_list')
        for o, key, ins, outs in ((o_in, K_IN, EMPTY, h.load(sg, 'inputs')), (o_out, K_OUT, h.load(sg, 'outputs'), EMPTY)):
            h.store(o, 'op_key', strlit(key)); h.store(o, 'inputs', ins); h.store(o, 'outputs', outs); p.pc.append(ISIO(o))
        h.store(lst, '$items:ref', z3.Store(z3.Store(fresh('io_items', z3.ArraySort(I, Ref)), 0, o_in), 1, o_out)); h.store(lst, '$len', z3.IntVal(2))
        # allocation: a new object differs from every object reachable through the operator list (objects appended by earlier iterations included)
        # (instantiation hint as in EngineX: the list is named by the term the invariants use; the fact is guarded by `alias == list`, hence valid whatever the hint is)
        R = S.L; itc = items_r(h, R); nc = ln(h, R)
        p.facts.append(Schematic(1, lambda k: Implies(And(R == Lc, 0 <= k, k < nc), And(itc[k] != o_in, itc[k] != o_out, itc[k] != lst)), 'alloc:fresh-vs-operator-list'))
        return V('list[ref]', lst)
    def k_isinstance(self, E, p, args, kw, node): return vbool(ISIO(args[0].term))
    def k_scope(self, E, p, args, kw, node): return V('str', SCOPEF(p.heap.load(args[0].term, 'outputs'), args[1].term))
    def k_recipe(self, E, p, args, kw, node):
        a, b = args[0].term, args[1].term
        return V('tuple', None, elts=[V('str', ALG(self.rm, a, b)), V('ref', CFG(self.rm, a, b))])
    def k_getfunc(self, E, p, args, kw, node): return V('ref', CALFN(args[0].term, args[1].term))
    def k_calibrate_func(self, E, p, args, kw, node):
        """calibration function contract (family `calibrate-func`): a fresh dict; names = f(op.inputs, op.outputs, tensors, buffers); value of a name = STAT(content map)[name]"""
        S = self; h = p.heap; op, gi, cm = args[0].term, args[1].term, args[2].term; fn = p.env['calibrate_func'].term
        E.emit(p, 'callsite:calibrate_func.(op, graph info of invoked subgraph, content map of THIS sample)',
               And(h.load(gi, 'subgraph_tensors') == S.tens, h.load(gi, 'buffers') == S.bufs, cm == CONTENT(p.env['data'].term, S.idx)), node.lineno)
        r = E.newdict('dict[str,ref]', p)
        h.store(r.term, '$dhas:str', KEYSF(fn, h.load(op, 'inputs'), h.load(op, 'outputs'), h.load(gi, 'subgraph_tensors'), h.load(gi, 'buffers'))); h.store(r.term, '$dmap:str:ref', STATARR(cm))
        n = fresh('n_reported', I); p.pc.append(n >= 0); h.store(r.term, '$len', n)
        return r
    def k_update_qsvs(self, E, p, args, kw, node):
        """Calibrator._update_qsvs: the contract verified in contracts/c09_qsvs.py (instantiated at the same arbitrary name)"""
        S = self; h = p.heap; op, ign, f = args[0].term, args[1].term, args[2].term
        E.emit(p, 'callsite:_update_qsvs.requires-distinct-objects', And(op != S.d, ign != S.d, op != ign, op != NULL, ign != NULL), node.lineno)
        E.emit(p, 'callsite:_update_qsvs.ignore-set-is-the-per-sample-set-and-update-func-is-the-parameter', And(ign == p.env['updated_tensor_names'].term, f == S.f), node.lineno)
        ohas = h.load(op, '$dhas:str')[ANY]; omap = h.load(op, '$dmap:str:ref')[ANY]; ihas = h.load(ign, '$dhas:str')[ANY]; mhas, mmap = S.model_at(h)
        sel = And(ohas, Not(ihas))
        hn = fresh('upd_has', StrBoolArr); mn = fresh('upd_map', StrRefArr)
        p.pc += [hn[ANY] == Or(mhas, sel), mn[ANY] == If(sel, If(mhas, UPD(mmap, omap), omap), mmap)]
        h.store(S.d, '$dhas:str', hn); h.store(S.d, '$dmap:str:ref', mn); h.havoc_at('$dkeys:str', [S.d], 'upd'); h.havoc_at('$len', [S.d], 'upd')
        r = h.new(p, 'updated_names'); rh = fresh('ret_has', StrBoolArr); p.pc.append(rh[ANY] == sel); h.store(r, '$dhas:str', rh)
        return V('set[str]', r)

class IoOps(Spec):
    """tfl_flatbuffer_utils.get_subgraph_input_output_operators(subgraph) -> [IOOperator([], subgraph.inputs, INPUT), IOOperator(subgraph.outputs, [], OUTPUT)]"""
    fields = {'inputs': 'list[int]', 'outputs': 'list[int]', 'op_key': 'str'}
    str_consts = {'qtyping.TFLOperationName.INPUT': K_IN, 'qtyping.TFLOperationName.OUTPUT': K_OUT}
    constructors = {'qtyping.IOOperator': ['inputs', 'outputs', 'op_key']}
    def empty_list_kind(self, line): return 'int'
    def bind(self, E, p):
        S = self; h = p.heap
        for nme in ('inputs', 'outputs', 'op_key', '$len', '$items:int', '$items:ref'): h.arr(nme)
        S.h0 = h.copy(); S.sg = z3.Const('subgraph', Ref); p.env['subgraph'] = V('ref', S.sg)
        S.i0 = S.h0.load(S.sg, 'inputs'); S.o0 = S.h0.load(S.sg, 'outputs')
        p.pc += [S.sg != NULL, S.h0.alloc[S.sg], S.i0 != NULL, S.o0 != NULL, S.h0.alloc[S.i0], S.h0.alloc[S.o0]]
    def may_write(self, E, p, ref, field): return z3.BoolVal(False)
    def ensures(self, E, ctx, p, ret):
        S = self; h = p.heap; r = ret.term; it = h.load(r, '$items:ref'); a, b = it[0], it[1]
        return [('fresh-list-of-two-fresh-pseudo-operators', And(Not(S.h0.alloc[r]), ln(h, r) == 2, Not(S.h0.alloc[a]), Not(S.h0.alloc[b]), a != b)),
                ('first: INPUT, no inputs, outputs ARE subgraph.inputs', And(h.load(a, 'op_key') == strlit(K_IN), ln(h, h.load(a, 'inputs')) == 0, h.load(a, 'outputs') == S.i0)),
                ('second: OUTPUT, inputs ARE subgraph.outputs, no outputs', And(h.load(b, 'op_key') == strlit(K_OUT), h.load(b, 'inputs') == S.o0, ln(h, h.load(b, 'outputs')) == 0)),
                ('subgraph-not-written', And(h.load(S.sg, 'inputs') == S.i0, h.load(S.sg, 'outputs') == S.o0, ln(h, S.i0) == ln(S.h0, S.i0), ln(h, S.o0) == ln(S.h0, S.o0)))]

# ---------------------------------------------------------------------------------------------------- glue
def run_function(fn, spec, engine=EngineX):
    """pyvc.run_function with the engine subclass of this file (stale contracts surface as Unsupported there)"""
    import vlib.pyvc as _p
    return _p.run_function(fn, spec, engine_cls=engine)

def verify(rep, prop, fn, spec, engine=EngineX, **kw):
    import vlib.pyvc as _p
    return _p.verify(rep, prop, fn, spec, engine_cls=engine, **kw)
