"""Sidecar contracts (pyvc) for the QSV bookkeeping of the calibrator (C09) -- DESIGN Appendix A.13.

  Calibrator._update_qsvs(op_qsvs, ignore_tensor_names, qsv_update_func)
      model view:  self._model_qsvs : name -> qsv object   (engine dict model: has / map arrays over the string sort)
      UPD(old, new) : the uninterpreted result of qsv_update_func (a callee: never its body)
      ensures  forall name in keys(op_qsvs) \\ ignore.  name in model' and
                       model'[name] == (op_qsvs[name] if name not in model else UPD(model[name], op_qsvs[name]))
      ensures  forall other name.  (name in model') == (name in model) and model'[name] == model[name]
      ensures  result is a fresh set and  name in result  <=>  name in keys(op_qsvs) \\ ignore
      frame    only the dict object self._model_qsvs (and the fresh result set) is written: op_qsvs, ignore_tensor_names and
               the attribute self._model_qsvs itself are unchanged

  Quantification over names: every clause is stated for ONE arbitrary, unconstrained string constant `ANY` (a rigid logical
  variable).  The loop invariant is parametric in ANY as well; since nothing in the code or the contract mentions ANY, the
  proof for this constant is a proof for every name (universal generalisation).

  Calibrator.load_model_qsvs(model_qsvs):  self._model_qsvs' is the value returned by copy.deepcopy(model_qsvs) -- callee contract of
      deepcopy: a FRESH object, structurally equal to the argument (DEEP_EQ) and sharing no mutable object with it (SEPARATE);
      nothing else is written."""
import z3
from vlib.pyvc import *

ANY = z3.Const('any_tensor_name', Str)
UPD = z3.Function('qsv_update_func', Ref, Ref, Ref)
DEEP_EQ = z3.Function('structurally_equal', Ref, Ref, Bo)
SEPARATE = z3.Function('shares_no_mutable_object', Ref, Ref, Bo)

def dstate(h, d):
    return h.load(d, '$dkeys:str'), h.load(d, '$dhas:str'), h.load(d, '$dmap:str:ref'), h.load(d, '$len')

class UpdateQsvs(Spec):
    fields = {'_model_qsvs': 'dict[str,ref]'}
    loops_may_allocate = False
    def __init__(self):
        self.callees = {'qsv_update_func': lambda E, p, a, kw, node: V('ref', UPD(a[0].term, a[1].term))}
        self.invariants = {0: self.inv0}
    def empty_set_kind(self, line): return 'str'
    def bind(self, E, p):
        S = self; h = p.heap
        for nme in ('_model_qsvs', '$len', '$dkeys:str', '$dhas:str', '$dmap:str:ref'): h.arr(nme)
        h0 = h.copy(); S.h0 = h0
        S.self_ = z3.Const('self', Ref); S.op = z3.Const('op_qsvs', Ref); S.ign = z3.Const('ignore_tensor_names', Ref); S.f = z3.Const('qsv_update_func_obj', Ref)
        S.d = h0.load(S.self_, '_model_qsvs')
        S.mkeys, S.mhas, S.mmap, S.mn = dstate(h0, S.d)
        S.okeys, S.ohas, S.omap, S.on = dstate(h0, S.op)
        S.ihas = h0.load(S.ign, '$dhas:str')
        p.env.update(self=V('ref', S.self_), op_qsvs=V('dict[str,ref]', S.op), ignore_tensor_names=V('set[str]', S.ign), qsv_update_func=V('ref', S.f))
        objs = [S.self_, S.d, S.op, S.ign]
        # call-site facts: op_qsvs is the dict just returned by the calibration function, the ignore set is the per-sample set of calibrate
        p.pc += [z3.Distinct(*objs)] + [x != NULL for x in objs] + [h0.alloc[x] for x in objs] + [S.mn >= 0, S.on >= 0]
        # well-formedness of op_qsvs (engine dict model): listed keys are present and pairwise distinct; a present key is listed (ghost position)
        S.kw = z3.Function('op_key_index', Str, I)
        F = p.facts.append
        F(Schematic(1, lambda i: Implies(And(0 <= i, i < S.on), And(S.ohas[S.okeys[i]], S.kw(S.okeys[i]) == i)), 'dictwf:listed-keys-present'))
        F(Schematic(2, lambda i, j: Implies(And(0 <= i, i < j, j < S.on), S.okeys[i] != S.okeys[j]), 'dictwf:keys-distinct'))
        p.pc.append(Implies(S.ohas[ANY], And(0 <= S.kw(ANY), S.kw(ANY) < S.on, S.okeys[S.kw(ANY)] == ANY)))
    def bounds(self, E): return [self.on, self.mn]
    def may_write(self, E, p, ref, field):
        return ref == self.d if (field.startswith('$d') or field == '$len') else z3.BoolVal(False)
    # ---- specification (from the property text / Appendix A.13)
    def selected(self, s): return And(self.ohas[s], Not(self.ihas[s]))
    def spec_value(self, s): return If(self.mhas[s], UPD(self.mmap[s], self.omap[s]), self.omap[s])
    def inv0(self, E, ctx, p, pre, i):
        S = self; h = p.heap; keys1, has1, map1, n1 = dstate(h, S.d); r = p.env['updated_tensor_names'].term; rhas = h.load(r, '$dhas:str')
        done = And(S.selected(ANY), S.kw(ANY) < i)                         # ANY is one of the first i keys of op_qsvs and is not ignored
        return [('i-range', And(0 <= i, i <= S.on)),
                ('model[name]-for-processed-and-unprocessed-names', And(has1[ANY] == Or(S.mhas[ANY], done), map1[ANY] == If(done, S.spec_value(ANY), S.mmap[ANY]))),
                ('returned-set-is-the-processed-names', rhas[ANY] == done),
                ('result-set-fresh', And(Not(S.h0.alloc[r]), r != NULL)),
                ('inputs-untouched', And(h.load(S.self_, '_model_qsvs') == S.d, h.load(S.ign, '$dhas:str') == S.ihas, *[a == b for a, b in zip(dstate(h, S.op), (S.okeys, S.ohas, S.omap, S.on))])),
                ('existing-model-keys-keep-their-position', And(n1 >= S.mn, ctx.forall(1, lambda j: Implies(And(0 <= j, j < S.mn), keys1[j] == S.mkeys[j]))))]
    def ensures(self, E, ctx, p, ret):
        S = self; h = p.heap; keys1, has1, map1, n1 = dstate(h, S.d); rhas = h.load(ret.term, '$dhas:str'); sel = S.selected(ANY)
        return [('selected-name: op_qsvs[name] if new else UPD(model[name], op_qsvs[name])', Implies(sel, And(has1[ANY], map1[ANY] == S.spec_value(ANY)))),
                ('other-name: membership and value unchanged', Implies(Not(sel), And(has1[ANY] == S.mhas[ANY], map1[ANY] == S.mmap[ANY]))),
                ('returns exactly keys(op_qsvs) minus ignore', rhas[ANY] == sel),
                ('returned-set-is-fresh', And(Not(S.h0.alloc[ret.term]), ret.term != NULL)),
                ('op_qsvs-and-ignore-set-not-written', And(h.load(S.ign, '$dhas:str') == S.ihas, *[a == b for a, b in zip(dstate(h, S.op), (S.okeys, S.ohas, S.omap, S.on))])),
                ('model-dict-object-kept', h.load(S.self_, '_model_qsvs') == S.d),
                ('existing-model-keys-keep-their-position', And(n1 >= S.mn, ctx.forall(1, lambda j: Implies(And(0 <= j, j < S.mn), keys1[j] == S.mkeys[j]))))]

class LoadModelQsvs(Spec):
    fields = {'_model_qsvs': 'ref'}
    def __init__(self):
        self.callees = {'copy.deepcopy': self.k_deepcopy, 'copy.copy': self.k_shallow, 'dict': self.k_shallow}
    def bind(self, E, p):
        S = self; h = p.heap; h.arr('_model_qsvs'); S.h0 = h.copy()
        S.self_ = z3.Const('self', Ref); S.arg = z3.Const('model_qsvs', Ref)
        p.env.update(self=V('ref', S.self_), model_qsvs=V('ref', S.arg))
        p.pc += [S.self_ != NULL, S.arg != NULL, S.h0.alloc[S.self_], S.h0.alloc[S.arg], S.self_ != S.arg]
    def k_deepcopy(self, E, p, args, kw, node):
        """copy.deepcopy(x): fresh object graph, structurally equal to x, sharing no mutable object with x (trusted library semantics)"""
        r = p.heap.new(p, 'deepcopy'); p.pc += [DEEP_EQ(r, args[0].term), SEPARATE(r, args[0].term)]; return V('ref', r)
    def k_shallow(self, E, p, args, kw, node):
        """copy.copy(x) / dict(x): a fresh TOP-LEVEL object, structurally equal, but the values are shared (nothing known about SEPARATE)"""
        r = p.heap.new(p, 'shallow'); p.pc += [DEEP_EQ(r, args[0].term)]; return V('ref', r)
    def may_write(self, E, p, ref, field):
        return ref == self.self_ if field == '_model_qsvs' else z3.BoolVal(False)
    def ensures(self, E, ctx, p, ret):
        S = self; h = p.heap; new = h.load(S.self_, '_model_qsvs')
        return [('stored-object-is-fresh', And(Not(S.h0.alloc[new]), new != S.arg, new != NULL)),
                ('stored-object-structurally-equals-the-argument', DEEP_EQ(new, S.arg)),
                ('stored-object-shares-no-mutable-object-with-the-argument', SEPARATE(new, S.arg)),
                ('returns-None', ret.term == NULL)]
