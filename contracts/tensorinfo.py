"""Sidecar contract for TransformationInstructionsGenerator._tensor_info_generator (C01, C02, C19) — DESIGN Appendix A.8: the
graph facts every instruction is built from (InstValid).  For subgraph `subgraph` with index `subgraph_id` the generator yields exactly one
(name, info) per tensor, in index order, with
   info.tensor_id == t, info.subgraph_id == subgraph_id,
   info.producer  == the FIRST operator position whose outputs contain t, or -1 if there is none,
   info.consumers == ([-1] if t is a graph output) ++ [ascending positions of the operators whose inputs contain t]  (each once).
Membership `t in op.inputs` is the ghost predicate MEMBER(list, t), axiomatised in both directions over the entry heap."""
import z3
from vlib.pyvc import *
from contracts.graph import items_i, items_r, ln
FIELDS = {'tensors': 'list[ref]', 'operators': 'list[ref]', 'outputs': 'list[int]', 'inputs': 'list[int]',
          'tensor_id': 'int', 'subgraph_id': 'int', 'producer': 'int', 'consumers': 'list[int]'}
NAME = z3.Function('tensor_name', Ref, Str)
MEMBER = z3.Function('member', Ref, I, Bo); MW = z3.Function('member_w', Ref, I, I)

class TensorInfoGenerator(Spec):
    fields = FIELDS; consts = {}; relaxed_first = True
    constructors = {'self.TensorGraphInfo': ['tensor_id', 'subgraph_id', 'producer', 'consumers']}
    def __init__(self):
        self.callees = {'tfl_flatbuffer_utils.get_tensor_name': lambda E, p, a, kw, node: V('str', NAME(a[0].term))}
        self.invariants = {0: self.inv_tensors, 1: self.inv_producer}
    def pure_member(self, E, p, lst, x): return MEMBER(lst.term, x)
    def relevant(self, label):
        """hypotheses tried first per clause (sound: fewer hypotheses; the full set remains the fallback)"""
        common = ['inv:alloc', 'inv:distinct', 'wf:', 'member:', 'ghost:', 'comp-', 'list.', 'inv:no-producer']
        for key, own in (('record-fields', ['inv:record-fields']), ('producer-is-the-first', ['inv:producer-first', 'inv:record-fields']), ('consumers-are-ascending', ['inv:consumers', 'inv:record-fields']),
                         ('every-reader-is-listed', ['inv:readers', 'inv:record-fields']), ('records-', []), ('frame', [])):
            if key in label: return own + common
        return None
    def on_yield(self, E, p):
        """ghost definition (conservative: the invariant constrains consumer_pos_w(t2, .) only for records t2 yielded EARLIER): for the record
        of the current tensor the position of reader j is the comprehension's own witness, shifted by one when the graph-output marker was put in front"""
        S = self; t = p.env['$i0'].term; v = p.env['consumers'].kw.get('comp_witness')
        if v is None: raise Unsupported('consumers is no longer built by the comprehension (stale contract)')
        off = If(MEMBER(S.outs, t), 1, 0)
        p.facts.append(Schematic(1, lambda j: S.cw(t, j) == v(j) + off, 'ghost:consumer-position-of-this-record'))
    def bind(self, E, p):
        h = p.heap; S = self
        for nme in list(FIELDS) + ['$len', '$items:int', '$items:ref', '$items:str']: h.arr(nme)
        h0 = h.copy(); S.h0 = h0
        S.self_ = z3.Const('self', Ref); S.sgid = z3.Int('subgraph_id'); S.sg = z3.Const('subgraph', Ref)
        p.env.update(self=V('ref', S.self_), subgraph_id=vint(S.sgid), subgraph=V('ref', S.sg))
        S.tens = h0.load(S.sg, 'tensors'); S.NT = ln(h0, S.tens); S.ops = h0.load(S.sg, 'operators'); S.n = ln(h0, S.ops); S.outs = h0.load(S.sg, 'outputs')
        S.inl = lambda j: h0.load(items_r(h0, S.ops)[j], 'inputs'); S.outl = lambda j: h0.load(items_r(h0, S.ops)[j], 'outputs')
        objs = [S.sg, S.tens, S.ops, S.outs]
        p.pc += [z3.Distinct(*objs)] + [x != NULL for x in objs] + [h0.alloc[x] for x in objs] + [S.NT >= 0, S.n >= 0, ln(h0, S.outs) >= 0]
        F = p.facts.append
        F(Schematic(1, lambda j: Implies(And(0 <= j, j < S.n), And(items_r(h0, S.ops)[j] != NULL, S.inl(j) != NULL, S.outl(j) != NULL, h0.alloc[S.inl(j)], h0.alloc[S.outl(j)], ln(h0, S.inl(j)) >= 0, ln(h0, S.outl(j)) >= 0)), 'wf:ops'))
        # MEMBER(l, x) <=> exists k. l[k] == x, for the lists the function inspects (operator inputs / outputs, graph outputs)
        for tag, lst in (('in', S.inl), ('out', S.outl)):
            F(Schematic(2, lambda j, k, lst=lst: Implies(And(0 <= j, j < S.n, 0 <= k, k < ln(h0, lst(j))), MEMBER(lst(j), items_i(h0, lst(j))[k])), f'member:{tag}-1'))
            F(Schematic(2, lambda j, x, lst=lst: Implies(And(0 <= j, j < S.n, MEMBER(lst(j), x)), And(0 <= MW(lst(j), x), MW(lst(j), x) < ln(h0, lst(j)), items_i(h0, lst(j))[MW(lst(j), x)] == x)), f'member:{tag}-2'))
        F(Schematic(1, lambda k: Implies(And(0 <= k, k < ln(h0, S.outs)), MEMBER(S.outs, items_i(h0, S.outs)[k])), 'member:go-1'))
        F(Schematic(1, lambda x: Implies(MEMBER(S.outs, x), And(0 <= MW(S.outs, x), MW(S.outs, x) < ln(h0, S.outs), items_i(h0, S.outs)[MW(S.outs, x)] == x)), 'member:go-2'))
        # ghost result lists of the generator
        p.env['$yield0'] = E.newlist('str', [], p); p.env['$yield1'] = E.newlist('ref', [], p)
        S.y0, S.y1 = p.env['$yield0'].term, p.env['$yield1'].term
        S.cw = z3.Function('consumer_pos_w', I, I, I)           # witness: position of operator j in the consumer list of tensor t
    def bounds(self, E): return [self.NT, self.n, ln(self.h0, self.outs)] + [ln(self.h0, self.inl(z3.IntVal(k))) for k in range(2)] + [ln(self.h0, self.outl(z3.IntVal(k))) for k in range(2)]
    def may_write(self, E, p, ref, field): return z3.BoolVal(False)      # only fresh objects (the info records, their consumer lists, the ghost result lists)
    # ---- the A.8 contract for the record yielded for tensor t
    def record_ok(self, h, t, extra_cw=True):
        S = self; info = items_r(h, S.y1)[t]; c = h.load(info, 'consumers'); ci = items_i(h, c); m = ln(h, c); P = h.load(info, 'producer'); GO = MEMBER(S.outs, t); off = If(GO, 1, 0)
        return And(h.load(S.y0, '$items:str')[t] == NAME(items_r(S.h0, S.tens)[t]), info != NULL, h.load(info, 'tensor_id') == t, h.load(info, 'subgraph_id') == S.sgid, c != NULL, m >= off,
                   Implies(GO, ci[0] == -1), P >= -1, P < S.n, Implies(P >= 0, MEMBER(S.outl(P), t)))
    def record_quantified(self, ctx, h, upto):
        S = self
        info = lambda t: items_r(h, S.y1)[t]; c = lambda t: h.load(info(t), 'consumers'); ci = lambda t: items_i(h, c(t)); m = lambda t: ln(h, c(t)); P = lambda t: h.load(info(t), 'producer')
        off = lambda t: If(MEMBER(S.outs, t), 1, 0); tr = lambda t: And(0 <= t, t < upto)
        return [('record-fields', ctx.forall(1, lambda t: Implies(tr(t), S.record_ok(h, t)), 'inv:record-fields')),
                ('producer-is-the-first-operator-that-outputs-the-tensor', ctx.forall(2, lambda t, j: Implies(And(tr(t), 0 <= j, j < S.n, Or(P(t) == -1, j < P(t))), Not(MEMBER(S.outl(j), t))), 'inv:producer-first')),
                ('consumers-are-ascending-operator-positions-that-read-the-tensor', ctx.forall(2, lambda t, k: Implies(And(tr(t), off(t) <= k, k < m(t)),
                        And(0 <= ci(t)[k], ci(t)[k] < S.n, MEMBER(S.inl(ci(t)[k]), t), Implies(k + 1 < m(t), ci(t)[k] < ci(t)[k + 1]))), 'inv:consumers')),
                ('every-reader-is-listed', ctx.forall(2, lambda t, j: Implies(And(tr(t), 0 <= j, j < S.n, MEMBER(S.inl(j), t)), And(off(t) <= S.cw(t, j), S.cw(t, j) < m(t), ci(t)[S.cw(t, j)] == j)), 'inv:readers'))]
    def alloc_state(self, ctx, p, upto):
        S = self; h = p.heap; info = lambda t: items_r(h, S.y1)[t]
        return [('records-allocated-and-fresh', ctx.forall(1, lambda t: Implies(And(0 <= t, t < upto), And(h.alloc[info(t)], Not(S.h0.alloc[info(t)]), h.alloc[h.load(info(t), 'consumers')], Not(S.h0.alloc[h.load(info(t), 'consumers')]),
                                                                                                       info(t) != S.y0, info(t) != S.y1, h.load(info(t), 'consumers') != S.y0, h.load(info(t), 'consumers') != S.y1)), 'inv:alloc')),
                ('records-distinct', ctx.forall(2, lambda t, t2: Implies(And(0 <= t, t < t2, t2 < upto), And(info(t) != info(t2), h.load(info(t), 'consumers') != h.load(info(t2), 'consumers'), info(t) != h.load(info(t2), 'consumers'), h.load(info(t), 'consumers') != info(t2))), 'inv:distinct'))]
    def inv_tensors(self, E, ctx, p, pre, t):
        S = self; h = p.heap
        return [('t-range', And(0 <= t, t <= S.NT)), ('one-record-per-tensor-so-far', And(ln(h, S.y0) == t, ln(h, S.y1) == t))] + self.record_quantified(ctx, h, t) + self.alloc_state(ctx, p, t)
    def inv_producer(self, E, ctx, p, pre, i):
        S = self; h = p.heap; t = pre.env['$i0'].term
        return [('i-range', And(0 <= i, i <= S.n)), ('no-producer-found-yet', And(p.env['producer'].term == -1, ctx.forall(1, lambda j: Implies(And(0 <= j, j < i), Not(MEMBER(S.outl(j), t))), 'inv:no-producer'))),
                ('one-record-per-tensor-so-far', And(ln(h, S.y0) == t, ln(h, S.y1) == t))] + self.record_quantified(ctx, h, t) + self.alloc_state(ctx, p, t) + \
               [('consumers-list-of-this-tensor-kept', And(ln(h, p.env['consumers'].term) == ln(pre.heap, pre.env['consumers'].term), items_i(h, p.env['consumers'].term) == items_i(pre.heap, pre.env['consumers'].term)))]
    def ensures(self, E, ctx, p, ret):
        S = self; h = p.heap
        return [('exactly-one-record-per-tensor-in-index-order', And(ln(h, S.y0) == S.NT, ln(h, S.y1) == S.NT))] + self.record_quantified(ctx, h, S.NT)
