"""Sidecar contracts for tfl_flatbuffer_utils.parse_op_tensors and tfl_flatbuffer_utils.buffer_to_tensors (C15: "buffer -> tensors map").

Vocabulary (all ghost functions are definitional: a conservative extension; every inductive fact a proof needs is carried by a loop invariant):
  parse_op_tensors(op, tensors)
      cat      = op.outputs ++ op.inputs                                  (outputs FIRST, then inputs; both may contain the marker -1)
      pcnt(0)  = 0 ;  pcnt(m+1) = pcnt(m) + [cat[m] != -1]                 number of real operands among the first m positions
      ensures  result is a fresh list, len == pcnt(|cat|), result[pcnt(m)] == tensors[cat[m]] for every position m with cat[m] != -1
               (i.e. the operands != -1, in order, WITH multiplicity: an operand listed twice appears twice); nothing is written.
  buffer_to_tensors(model)
      PL(s, j)    = length of parse_op_tensors(op j of subgraph s, tensors of s) ;  USE(s, j, k) its k-th element
      B2(s, j)    = number of uses before op j of subgraph s (subgraphs in order, operators in order):
                    B2(0,0) = 0 ; B2(s, j+1) = B2(s, j) + PL(s, j) ; B2(s+1, 0) = B2(s, |ops s|)
      U(B2(s,j) + k) = USE(s, j, k)   the global sequence of tensor USES ;  N = B2(|subgraphs|, 0) ;  UB(g) = U(g).buffer
      C(b, 0) = 0 ; C(b, g+1) = C(b, g) + [UB(g) == b]                     number of uses on buffer b among the first g uses
      ensures  the result is a fresh dict D with, for every use g < N:  UB(g) in D  and  D[UB(g)][C(UB(g), g)] is U(g)
               for every b in D: len(D[b]) == C(b, N) >= 1 (so: b in D <=> some use is on buffer b), every element of D[b] has .buffer == b,
               the lists of different keys are different objects, all of them fresh; the model is not written.
      Hence D[b] is EXACTLY the subsequence of the uses on buffer b: one entry per (subgraph, operator, operand position != -1), across ALL subgraphs,
      with multiplicity (a tensor read by two ops, or twice by one op, is listed twice), outputs of an operator before its inputs.
      Tensors that no operator uses are NOT in the map; buffer 0 is a key like any other."""
import z3
from vlib.pyvc import *
from contracts.graph import items_i, items_r, ln

FIELDS = {'subgraphs': 'list[ref]', 'operators': 'list[ref]', 'tensors': 'list[ref]', 'inputs': 'list[int]', 'outputs': 'list[int]', 'buffer': 'int', 'type': 'int'}

# ------------------------------------------------------------------------------------------------ parse_op_tensors
class ParseOpTensors(Spec):
    fields = FIELDS; consts = {}; loops_may_allocate = False
    def __init__(self): self.invariants = {0: self.inv0}
    def empty_list_kind(self, line): return 'ref'
    def bind(self, E, p):
        h = p.heap; S = self
        for nme in ('inputs', 'outputs', '$len', '$items:int', '$items:ref'): h.arr(nme)
        h0 = h.copy(); S.h0 = h0
        S.op = z3.Const('op', Ref); S.tl = z3.Const('subgraph_tensors', Ref)
        p.env.update(op=V('ref', S.op), subgraph_tensors=V('list[ref]', S.tl))
        S.ins, S.outs = h0.load(S.op, 'inputs'), h0.load(S.op, 'outputs'); S.ni, S.no, S.NT = ln(h0, S.ins), ln(h0, S.outs), ln(h0, S.tl)
        S.I, S.O, S.T = items_i(h0, S.ins), items_i(h0, S.outs), items_r(h0, S.tl); S.n = S.no + S.ni
        S.cat = lambda m: If(m < S.no, S.O[m], S.I[m - S.no])                            # SPEC: outputs first, then inputs
        objs = [S.op, S.tl, S.ins, S.outs]
        p.pc += [x != NULL for x in objs] + [h0.alloc[x] for x in objs] + [S.ni >= 0, S.no >= 0, S.NT >= 0]
        F = p.facts.append
        # requires (C01 well-formedness of the model): operand indices are -1 (absent) or tensor indices of the subgraph
        F(Schematic(1, lambda k: Implies(And(0 <= k, k < S.ni), And(-1 <= S.I[k], S.I[k] < S.NT)), 'req:inputs-in-range'))
        F(Schematic(1, lambda k: Implies(And(0 <= k, k < S.no), And(-1 <= S.O[k], S.O[k] < S.NT)), 'req:outputs-in-range'))
        S.pcnt = z3.Function('pcnt', I, I); p.pc.append(S.pcnt(0) == 0)
        F(Schematic(1, lambda m: Implies(And(0 <= m, m < S.n), S.pcnt(m + 1) == S.pcnt(m) + If(S.cat(m) != -1, 1, 0)), 'spec:pcnt-step'))
        # ghost: src(k) = the operand position the k-th element of the result comes from (pcnt is strictly increasing on the selected positions, so this is a definition)
        S.src = z3.Function('src', I, I)
        F(Schematic(1, lambda m: Implies(And(0 <= m, m < S.n, S.cat(m) != -1), S.src(S.pcnt(m)) == m), 'ghost:src-def'))
    def bounds(self, E): return [self.ni, self.no, self.NT]
    def model_values(self, E, m):
        ev = lambda t: m.eval(t, model_completion=True).as_long()
        return dict(inputs=[ev(self.I[k]) for k in range(ev(self.ni))], outputs=[ev(self.O[k]) for k in range(ev(self.no))], n_tensors=ev(self.NT))
    def may_write(self, E, p, ref, field): return z3.BoolVal(False)               # only fresh objects (the concatenation, the result)
    def inv0(self, E, ctx, p, pre, i):
        S = self; h = p.heap.copy(); r = p.env["tensors"].term; it = items_r(h, r)
        return [('i-range', And(0 <= i, i <= S.n)), ('len-is-count', ln(h, r) == S.pcnt(i)), ('count-bounds', And(0 <= S.pcnt(i), S.pcnt(i) <= i)),
                ('selected-prefix', ctx.forall(1, lambda m: Implies(And(0 <= m, m < i, S.cat(m) != -1), And(0 <= S.pcnt(m), S.pcnt(m) < S.pcnt(i), it[S.pcnt(m)] == S.T[S.cat(m)])))),
                ('every-element-is-an-operand', ctx.forall(1, lambda k: Implies(And(0 <= k, k < S.pcnt(i)), And(0 <= S.src(k), S.src(k) < i, S.cat(S.src(k)) != -1, it[k] == S.T[S.cat(S.src(k))])))),
                ('inputs-untouched', And(ln(h, S.tl) == S.NT, items_r(h, S.tl) == S.T))]
    def ensures(self, E, ctx, p, ret):
        S = self; h = p.heap; r = ret.term; it = items_r(h, r)
        return [('result-is-fresh', Not(S.h0.alloc[r])), ('length-is-number-of-operands-not--1', ln(h, r) == S.pcnt(S.n)),
                ('operands-in-order-outputs-then-inputs-with-multiplicity', ctx.forall(1, lambda m: Implies(And(0 <= m, m < S.n, S.cat(m) != -1), And(0 <= S.pcnt(m), S.pcnt(m) < ln(h, r), it[S.pcnt(m)] == S.T[S.cat(m)])))),
                ('nothing-else: every element is an operand != -1 of the operator (a tensor of the subgraph)', ctx.forall(1, lambda k: Implies(And(0 <= k, k < ln(h, r)), And(0 <= S.src(k), S.src(k) < S.n, 0 <= S.cat(S.src(k)), S.cat(S.src(k)) < S.NT, it[k] == S.T[S.cat(S.src(k))])))),
                ('model-untouched', And(ln(h, S.tl) == S.NT, items_r(h, S.tl) == S.T, ln(h, S.ins) == S.ni, ln(h, S.outs) == S.no, items_i(h, S.ins) == S.I, items_i(h, S.outs) == S.O))]

# ------------------------------------------------------------------------------------------------ buffer_to_tensors
DK, DH, DM = '$dkeys:int', '$dhas:int', '$dmap:int:ref'
PUSE = z3.Function('parse_result_item', Ref, Ref, I, Ref)        # k-th element of parse_op_tensors(op, tensors)   (its own contract, above)
PLEN = z3.Function('parse_result_len', Ref, Ref, I)

PROPERTY_CLAUSE = 'PROPERTY every tensor on a listed data-bearing buffer is itself listed'
DATA = z3.Function('buffer_holds_data', I, Bo)          # buffers[b].data is present (a constant buffer): uninterpreted, the map does not depend on it
KF_CLASS = 'C15-unlisted-buffer-sharer'
class BufferToTensors(Spec):
    fields = FIELDS; consts = {}; loops_may_allocate = True
    def __init__(self):
        self.invariants = {0: self.inv_subgraphs, 1: self.inv_ops, 2: self.inv_uses}
        self.callees = {'parse_op_tensors': self.k_parse}
    def empty_list_kind(self, line): return 'ref'
    def empty_dict_kind(self, line): return 'dict[int,list[ref]]'
    def bind(self, E, p):
        h = p.heap; S = self
        for nme in list(FIELDS) + ['$len', '$items:int', '$items:ref', DK, DH, DM]: h.arr(nme)
        h0 = h.copy(); S.h0 = h0
        S.model = z3.Const('flatbuffer_model', Ref); p.env['flatbuffer_model'] = V('ref', S.model)
        S.SG = h0.load(S.model, 'subgraphs'); S.nS = ln(h0, S.SG)
        S.sg = lambda s: items_r(h0, S.SG)[s]; S.OPS = lambda s: h0.load(S.sg(s), 'operators'); S.TL = lambda s: h0.load(S.sg(s), 'tensors')
        S.nO = lambda s: ln(h0, S.OPS(s)); S.op = lambda s, j: items_r(h0, S.OPS(s))[j]
        p.pc += [S.model != NULL, S.SG != NULL, h0.alloc[S.model], h0.alloc[S.SG], S.nS >= 0]
        F = p.facts.append
        F(Schematic(1, lambda s: Implies(And(0 <= s, s < S.nS), And(S.sg(s) != NULL, h0.alloc[S.sg(s)], S.OPS(s) != NULL, h0.alloc[S.OPS(s)], S.TL(s) != NULL, h0.alloc[S.TL(s)], S.nO(s) >= 0)), 'wf:subgraphs-alloc'))
        F(Schematic(2, lambda s, j: Implies(And(0 <= s, s < S.nS, 0 <= j, j < S.nO(s)), And(S.op(s, j) != NULL, h0.alloc[S.op(s, j)])), 'wf:ops-alloc'))
        # ---- spec functions
        S.PL = lambda s, j: PLEN(S.op(s, j), S.TL(s)); S.USE = lambda s, j, k: PUSE(S.op(s, j), S.TL(s), k)
        S.B2 = z3.Function('uses_before', I, I, I); S.U = z3.Function('use', I, Ref); S.C = z3.Function('uses_on_buffer_before', I, I, I)
        S.UB = lambda g: h0.load(S.U(g), 'buffer')
        p.pc.append(S.B2(0, 0) == 0)
        F(Schematic(2, lambda s, j: Implies(And(0 <= s, s < S.nS, 0 <= j, j < S.nO(s)), And(S.PL(s, j) >= 0, S.B2(s, j + 1) == S.B2(s, j) + S.PL(s, j))), 'spec:B2-op-step'))
        F(Schematic(1, lambda s: Implies(And(0 <= s, s < S.nS), S.B2(s + 1, 0) == S.B2(s, S.nO(s))), 'spec:B2-subgraph-step'))
        F(Schematic(3, lambda s, j, k: Implies(And(0 <= s, s < S.nS, 0 <= j, j < S.nO(s), 0 <= k, k < S.PL(s, j)), S.U(S.B2(s, j) + k) == S.USE(s, j, k)), 'spec:U-def'))
        F(Schematic(1, lambda b: S.C(b, 0) == 0, 'spec:C-zero'))
        F(Schematic(2, lambda b, g: Implies(0 <= g, S.C(b, g + 1) == S.C(b, g) + If(S.UB(g) == b, 1, 0)), 'spec:C-step'))
        S.N = S.B2(S.nS, 0)
        S.nT = lambda s: ln(h0, S.TL(s)); S.T = lambda s, t: items_r(h0, S.TL(s))[t]
    def bounds(self, E):
        S = self; out = [S.nS]
        for s in range(3): out += [S.nO(z3.IntVal(s))] + [S.PL(z3.IntVal(s), z3.IntVal(j)) for j in range(3)]
        return out + [S.UB(z3.IntVal(g)) for g in range(4)] + [S.nT(z3.IntVal(s)) for s in range(3)]
    def may_write(self, E, p, ref, field): return Not(self.h0.alloc[ref])            # only objects created by this call (the dict and its lists)
    def model_values(self, E, m):
        S = self; ev = lambda t: m.eval(t, model_completion=True); iv = lambda t: ev(t).as_long()
        try:
            nS = iv(S.nS); out = []
            for s in range(min(nS, 3)):
                zs = z3.IntVal(s); out.append(dict(n_ops=iv(S.nO(zs)), n_tensors=iv(S.nT(zs)), uses_per_op=[iv(S.PL(zs, z3.IntVal(j))) for j in range(min(iv(S.nO(zs)), 3))]))
            return dict(subgraphs=out)
        except Exception as e: return dict(note=f'model not concretised: {e!r}')
    # ---- callee: parse_op_tensors by its contract
    def k_parse(self, E, p, args, kw, node):
        S = self; h = p.heap; op, tl = args[0].term, args[1].term; s, j = E.idx[0], E.idx[1]
        E.emit(p, 'callsite:parse_op_tensors(op j of subgraph s, tensors of subgraph s)', And(op == S.op(s, j), tl == S.TL(s)), node.lineno)
        p.pc += [op == S.op(s, j), tl == S.TL(s)]                       # just asserted
        r = h.new(p, 'parsed'); arr = fresh('parsed', z3.ArraySort(I, Ref)); n = PLEN(op, tl); E.sig(arr, p, r, '$items:ref'); S.cur_R = r
        p.facts.append(Schematic(1, lambda k: Implies(And(0 <= k, k < n), arr[k] == PUSE(op, tl, k)), 'post:parse_op_tensors'))
        p.pc.append(n >= 0)
        h.store(r, '$items:ref', arr); h.store(r, '$len', n); return V('list[ref]', r)
    # ---- invariants
    def state(self, E, ctx, p, G):
        """the map after the first G uses"""
        S = self; h = p.heap.copy(); h0 = S.h0; d = p.env['buffer_to_tensor_map'].term; S.d = d
        keys, has, mp, n = h.load(d, DK), h.load(d, DH), h.load(d, DM), h.load(d, '$len')
        L = lambda b: mp[b]
        return [('G-nonneg', G >= 0), ('dict-len', n >= 0),
                ('uses-recorded', ctx.forall(1, lambda g: Implies(And(0 <= g, g < G), And(has[S.UB(g)], 0 <= S.C(S.UB(g), g), S.C(S.UB(g), g) < ln(h, L(S.UB(g))), items_r(h, L(S.UB(g)))[S.C(S.UB(g), g)] == S.U(g))))),
                ('keys-are-the-buffers-that-occur', ctx.forall(1, lambda b: And(S.C(b, G) >= 0, has[b] == (S.C(b, G) >= 1)))),
                ('list-length-is-use-count', ctx.forall(1, lambda b: Implies(has[b], And(ln(h, L(b)) == S.C(b, G), L(b) != NULL, L(b) != d, Not(h0.alloc[L(b)]), h.alloc[L(b)])))),
                ('lists-distinct', ctx.forall(2, lambda b1, b2: Implies(And(has[b1], has[b2], b1 != b2), L(b1) != L(b2)))),
                ('elements-on-their-buffer', ctx.forall(2, lambda b, m: Implies(And(has[b], 0 <= m, m < ln(h, L(b))), h0.load(items_r(h, L(b))[m], 'buffer') == b))),
                ('listed-keys-present', ctx.forall(1, lambda q: Implies(And(0 <= q, q < n), has[keys[q]]))),
                ('listed-keys-distinct', ctx.forall(2, lambda q, q2: Implies(And(0 <= q, q < q2, q2 < n), keys[q] != keys[q2]))),
                ('dict-is-fresh', And(Not(h0.alloc[d]), h.alloc[d], d != NULL)),
                ('model-untouched', And(ln(h, S.SG) == S.nS, items_r(h, S.SG) == items_r(h0, S.SG),
                                        ctx.forall(1, lambda s: Implies(And(0 <= s, s < S.nS), And(ln(h, S.OPS(s)) == S.nO(s), items_r(h, S.OPS(s)) == items_r(h0, S.OPS(s)),
                                                                                                     ln(h, S.TL(s)) == ln(h0, S.TL(s)), items_r(h, S.TL(s)) == items_r(h0, S.TL(s)))))))]
    def inv_subgraphs(self, E, ctx, p, pre, s):
        S = self
        return [('s-range', And(0 <= s, s <= S.nS))] + self.state(E, ctx, p, S.B2(s, 0))
    def inv_ops(self, E, ctx, p, pre, j):
        S = self; s = E.idx[0]
        return [('j-range', And(0 <= j, j <= S.nO(s)))] + self.state(E, ctx, p, S.B2(s, j))
    def inv_uses(self, E, ctx, p, pre, k):
        S = self; s, j = E.idx[0], E.idx[1]; h = p.heap.copy(); hp = pre.heap.copy(); R = S.cur_R
        out = [('k-range', And(0 <= k, k <= S.PL(s, j)))] + self.state(E, ctx, p, S.B2(s, j) + k)
        d = S.d; has, mp = h.load(d, DH), h.load(d, DM)
        # the list being iterated (the result of parse_op_tensors) is not modified by the body and is not one of the map's lists
        return out + [('parsed-list-kept', And(ln(h, R) == ln(hp, R), items_r(h, R) == items_r(hp, R), R != d, h.alloc[R])),
                      ('parsed-list-is-not-a-map-list', ctx.forall(1, lambda b: Implies(has[b], mp[b] != R)))]
    def ensures(self, E, ctx, p, ret):
        S = self; h = p.heap; h0 = S.h0; d = ret.term
        keys, has, mp, n = h.load(d, DK), h.load(d, DH), h.load(d, DM), h.load(d, '$len'); N = S.N; L = lambda b: mp[b]
        return [('result-is-a-fresh-dict', And(d != NULL, Not(h0.alloc[d]))),
                ('every-use-is-listed-under-its-buffer-at-its-rank', ctx.forall(1, lambda g: Implies(And(0 <= g, g < N), And(has[S.UB(g)], 0 <= S.C(S.UB(g), g), S.C(S.UB(g), g) < ln(h, L(S.UB(g))), items_r(h, L(S.UB(g)))[S.C(S.UB(g), g)] == S.U(g))))),
                ('keys-are-exactly-the-buffers-that-occur', ctx.forall(1, lambda b: has[b] == (S.C(b, N) >= 1))),
                ('list-length-is-the-number-of-uses-on-the-buffer', ctx.forall(1, lambda b: Implies(has[b], And(ln(h, L(b)) == S.C(b, N), Not(h0.alloc[L(b)]))))),
                ('nothing-else: every element is on the buffer of its key', ctx.forall(2, lambda b, m: Implies(And(has[b], 0 <= m, m < ln(h, L(b))), h0.load(items_r(h, L(b))[m], 'buffer') == b))),
                ('lists-of-different-buffers-are-different-objects', ctx.forall(2, lambda b1, b2: Implies(And(has[b1], has[b2], b1 != b2), L(b1) != L(b2)))),
                ('listed-keys-are-present-and-distinct', And(ctx.forall(1, lambda q: Implies(And(0 <= q, q < n), has[keys[q]])), ctx.forall(2, lambda q, q2: Implies(And(0 <= q, q < q2, q2 < n), keys[q] != keys[q2])))),
                ('model-untouched', And(ln(h, S.SG) == S.nS, items_r(h, S.SG) == items_r(h0, S.SG),
                                        ctx.forall(1, lambda s: Implies(And(0 <= s, s < S.nS), And(ln(h, S.OPS(s)) == S.nO(s), items_r(h, S.OPS(s)) == items_r(h0, S.OPS(s)), items_r(h, S.TL(s)) == items_r(h0, S.TL(s)))))))]

class BufferToTensorsProperty(BufferToTensors):
    """the clause the PROPERTY needs from the map ("every tensor referencing the buffer ..."): a tensor of the model on a data-bearing buffer that is a key of the map
    is itself in the map.  buffer_to_tensors does NOT establish it (it lists operands of operators only): on the base tree the obligation is REFUTED, with a model
    in which a tensor shares the buffer of an operand without being an operand (a constant returned by a second signature, an extra graph output, an unused tensor).
    Ghosts: use_of(s, t) = a position of tensor t of subgraph s in the use sequence whenever there is one; operand_of_use = the tensor index a use stands for
    (every element of parse_op_tensors' result is one of the subgraph's tensors: clause `nothing-else` of its contract).
    exclusions([KF_CLASS]): the hypothesis that excludes exactly the class of the known finding: every tensor on a data-bearing buffer is an operand of some operator."""
    def bind(self, E, p):
        super().bind(E, p); S = self; F = p.facts.append
        S.use_of = z3.Function('use_of', I, I, I); S.opnd = z3.Function('operand_of_use', I, I, I, I); S.buf = lambda s, t: S.h0.load(S.T(s, t), 'buffer')
        S.is_operand = lambda s, t: And(0 <= S.use_of(s, t), S.use_of(s, t) < S.N, S.U(S.use_of(s, t)) == S.T(s, t))
        F(Schematic(3, lambda s, t, g: Implies(And(0 <= s, s < S.nS, 0 <= t, t < S.nT(s), 0 <= g, g < S.N, S.U(g) == S.T(s, t)), S.is_operand(s, t)), 'ghost:use_of-is-a-witness-when-there-is-one'))
        F(Schematic(3, lambda s, j, k: Implies(And(0 <= s, s < S.nS, 0 <= j, j < S.nO(s), 0 <= k, k < S.PL(s, j)),
                                               And(0 <= S.opnd(s, j, k), S.opnd(s, j, k) < S.nT(s), S.USE(s, j, k) == S.T(s, S.opnd(s, j, k)))), 'post:parse_op_tensors-elements-are-tensors-of-the-subgraph'))
    def exclusions(self, E, names):
        S = self
        if KF_CLASS in names:
            return [Schematic(2, lambda s, t: Implies(And(0 <= s, s < S.nS, 0 <= t, t < S.nT(s), DATA(S.buf(s, t))), S.is_operand(s, t)), 'EXCL:every-tensor-on-a-data-bearing-buffer-is-an-operand-of-some-operator')]
        return []
    def bounds(self, E): return super().bounds(E) + [self.nT(z3.IntVal(s)) for s in range(3)] + [self.buf(z3.IntVal(s), z3.IntVal(t)) for s in range(3) for t in range(3)]
    def model_values(self, E, m):
        S = self; ev = lambda t: m.eval(t, model_completion=True); iv = lambda t: ev(t).as_long()
        try:
            out = []
            for s in range(min(iv(S.nS), 3)):
                zs = z3.IntVal(s); nT = iv(S.nT(zs)); ops = []
                for j in range(min(iv(S.nO(zs)), 3)): ops.append([iv(S.opnd(zs, z3.IntVal(j), z3.IntVal(k))) for k in range(min(iv(S.PL(zs, z3.IntVal(j))), 4))])
                bufs = [iv(S.buf(zs, z3.IntVal(t))) for t in range(min(nT, 4))]
                out.append(dict(n_tensors=nT, tensor_buffers=bufs, buffer_holds_data=[bool(z3.is_true(ev(DATA(z3.IntVal(b))))) for b in bufs], operands_of_ops=ops))
            return dict(family='unlisted-tensor', subgraphs=out)
        except Exception as e: return dict(family='unlisted-tensor', note=f'model not concretised: {e!r}')
    def ensures(self, E, ctx, p, ret):
        S = self; h = p.heap; has = h.load(ret.term, DH)
        return [(PROPERTY_CLAUSE, ctx.forall(2, lambda s, t: Implies(And(0 <= s, s < S.nS, 0 <= t, t < S.nT(s), DATA(S.buf(s, t)), has[S.buf(s, t)]), S.is_operand(s, t))))]
