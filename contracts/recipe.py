"""Sidecar contracts for RecipeManager (C11) — DESIGN Appendix A.11.

Abstract view: the ordered map  regex -> [rule]  (insertion order of first appearance of the regex; OrderedDict semantics are the
engine's dict model).  A rule is (regex, operation, algorithm_key, op_config); configs are abstract values (object identity; the
default config is one distinguished value).  `search(regex, scope)` and `supported(alg, op, cfg)` ("check_op_quantization_config
returns normally"; it raises only ValueError otherwise — C13 c1) are uninterpreted: exactly the abstraction the property makes.

Spec of resolution, transcribed from the property text (last applicable rule wins, scanning scopes then rules in order):
  R(0) = (no_quantize, default) ;  R(i+1) = RR(i, |rules_i|) if search(regex_i, scope) else R(i)
  RR(i, 0) = R(i) ;  RR(i, j+1) = (alg_ij, cfg_ij) if applicable(i, j) else RR(i, j)
  applicable(i, j) = (op_ij == '*' or op_ij == target) and (alg_ij == no_quantize or supported(alg_ij, target, cfg_ij))"""
import z3
from vlib.pyvc import *
from contracts.graph import items_r, ln

FIELDS = {'_scope_configs': 'dict[str,list[ref]]', 'regex': 'str', 'operation': 'str', 'algorithm_key': 'str', 'op_config': 'ref'}
STR_CONSTS = {'_TFLOpName.ALL_SUPPORTED': '*', 'AlgorithmName.NO_QUANTIZE': 'no_quantize', 'algorithm_manager.AlgorithmName.NO_QUANTIZE': 'no_quantize'}
DEFAULT_CFG = z3.Const('default_op_config', Ref)
SEARCH = z3.Function('re_search', Str, Str, Bo)
SUPPORTED = z3.Function('supported', Str, Str, Ref, Bo)
ALL, NOQ = '*', 'no_quantize'

def dict_state(h, d):
    return h.load(d, '$dkeys:str'), h.load(d, '$dhas:str'), h.load(d, '$dmap:str:ref'), h.load(d, '$len')

def bind_dict(S, E, p):
    """entry state of self._scope_configs with its well-formedness (keys distinct; has <=> listed; value lists allocated, pairwise distinct)"""
    h = p.heap
    for nme in list(FIELDS) + ['$len', '$items:ref', '$dkeys:str', '$dhas:str', '$dmap:str:ref']: h.arr(nme)
    h0 = h.copy(); S.h0 = h0
    S.self_ = z3.Const('self', Ref); S.d = h0.load(S.self_, '_scope_configs'); S.keys, S.has, S.map, S.n = dict_state(h0, S.d)
    p.env['self'] = V('ref', S.self_)
    p.pc += [S.self_ != NULL, S.d != NULL, h0.alloc[S.self_], h0.alloc[S.d], S.n >= 0, S.self_ != S.d]
    S.kw = z3.Function('key_index', Str, I)           # ghost: position of a present key
    F = p.facts.append
    F(Schematic(1, lambda i: Implies(And(0 <= i, i < S.n), And(S.has[S.keys[i]], S.kw(S.keys[i]) == i, S.map[S.keys[i]] != NULL, h0.alloc[S.map[S.keys[i]]],
                                                         S.map[S.keys[i]] != S.d, ln(h0, S.map[S.keys[i]]) >= 0)), 'dictwf:listed-keys-present'))
    F(Schematic(2, lambda i, j: Implies(And(0 <= i, i < j, j < S.n), And(S.keys[i] != S.keys[j], S.map[S.keys[i]] != S.map[S.keys[j]])), 'dictwf:keys-distinct'))
    S.lists = lambda i: S.map[S.keys[i]]
    F(Schematic(2, lambda i, j: Implies(And(0 <= i, i < S.n, 0 <= j, j < ln(h0, S.lists(i))), And(items_r(h0, S.lists(i))[j] != NULL, h0.alloc[items_r(h0, S.lists(i))[j]])), 'dictwf:rules-alloc'))

def has_key_fact(S, k):
    """present key => it is listed (ghost witness kw)"""
    return Implies(S.has[k], And(0 <= S.kw(k), S.kw(k) < S.n, S.keys[S.kw(k)] == k))

class AddConfig(Spec):
    fields = FIELDS; consts = {}; str_consts = STR_CONSTS
    constructors = {'OpQuantizationRecipe': ['regex', 'operation', 'algorithm_key', 'op_config']}
    def __init__(self):
        self.callees = {'_OpQuantizationConfig': lambda E, p, a, kw, node: V('ref', DEFAULT_CFG), 'algorithm_manager.check_op_quantization_config': self.k_check}
        self.invariants = {0: self.inv0}
    def empty_list_kind(self, line): return 'ref'
    def bind(self, E, p):
        S = self; bind_dict(S, E, p); h0 = S.h0
        S.regex = z3.Const('regex', Str); S.op = z3.Const('operation_name', Str); S.cfg_in = z3.Const('op_config', Ref); S.alg = z3.Const('algorithm_key', Str)
        p.env.update(regex=V('str', S.regex), operation_name=V('str', S.op), op_config=V('ref', S.cfg_in), algorithm_key=V('str', S.alg))
        S.cfg0 = If(S.cfg_in == NULL, DEFAULT_CFG, S.cfg_in)
        p.pc += [has_key_fact(S, S.regex), DEFAULT_CFG != NULL, Implies(S.cfg_in != NULL, h0.alloc[S.cfg_in]), h0.alloc[DEFAULT_CFG]]
        S.L = S.map[S.regex]; S.nL = ln(h0, S.L); S.Lit = items_r(h0, S.L)
        # ghost: some existing rule of this scope targets the same operator
        S.match = z3.Bool('scope_has_rule_for_operator'); S.mw = z3.Int('match_w')
        p.pc.append(Implies(S.match, And(0 <= S.mw, S.mw < S.nL, h0.load(S.Lit[S.mw], 'operation') == S.op)))
        p.facts.append(Schematic(1, lambda m: Implies(And(S.has[S.regex], 0 <= m, m < S.nL, h0.load(S.Lit[m], 'operation') == S.op), S.match), 'ghost:match-def'))
    def bounds(self, E): return [self.n, self.nL]
    def may_write(self, E, p, ref, field):
        return ref == self.d if field.startswith('$d') or field == '$len' else z3.BoolVal(False)     # only the map itself; existing rule lists are never written
    def k_check(self, E, p, args, kw, node):
        a, o, c = args[0].term, args[1].term, args[2].term
        ok = p.fork(); ok.pc.append(SUPPORTED(a, o, c)); bad = p.fork(); bad.pc.append(Not(SUPPORTED(a, o, c)))
        return [Outcome('next', ok, NONE), Outcome('raise:ValueError', bad)]
    def inv0(self, E, ctx, p, pre, i):       # loop over the existing rules of this scope
        S = self; h = p.heap; cfgs = p.env['configs']; it = items_r(h, cfgs.term); r = pre.env['config'].term
        return [('i-range', And(0 <= i, i <= S.nL)), ('len', ln(h, cfgs.term) == i),
                ('rebuilt-prefix', ctx.forall(1, lambda m: Implies(And(0 <= m, m < i), it[m] == If(S.h0.load(S.Lit[m], 'operation') == S.op, r, S.Lit[m])))),
                ('is_new_op', p.env['is_new_op'].term == Not(ctx_exists_prefix(S, ctx, p, i))),
                ('scope-untouched', And(ln(h, S.L) == S.nL, items_r(h, S.L) == S.Lit, h.load(S.self_, '_scope_configs') == S.d, *[a == b for a, b in zip(dict_state(h, S.d), (S.keys, S.has, S.map, S.n))]))]
    def new_rule_ok(self, h, r):
        S = self
        return And(Not(S.h0.alloc[r]), h.load(r, 'regex') == S.regex, h.load(r, 'operation') == S.op, h.load(r, 'algorithm_key') == S.alg, h.load(r, 'op_config') == S.cfg0)
    def ensures(self, E, ctx, p, ret):
        S = self; h = p.heap; keys1, has1, map1, n1 = dict_state(h, S.d); L1 = map1[S.regex]; it1 = items_r(h, L1); present = S.has[S.regex]
        star = S.op == strlit(ALL)
        single = And(ln(h, L1) == 1, self.new_rule_ok(h, it1[0]))
        rebuilt = And(ln(h, L1) == S.nL + If(S.match, 0, 1),
                      ctx.forall(1, lambda m: Implies(And(0 <= m, m < S.nL), If(S.h0.load(S.Lit[m], 'operation') == S.op, self.new_rule_ok(h, it1[m]), it1[m] == S.Lit[m]))),
                      Implies(Not(S.match), self.new_rule_ok(h, it1[S.nL])))
        sk = fresh('sk', Str)
        return [('map-object-kept', h.load(S.self_, '_scope_configs') == S.d),
                ('key-order: present key keeps its place, new key is appended', And(n1 == If(present, S.n, S.n + 1), ctx.forall(1, lambda i: Implies(And(0 <= i, i < S.n), keys1[i] == S.keys[i])), Implies(Not(present), keys1[S.n] == S.regex))),
                ('regex-present-afterwards', has1[S.regex]),
                ('other-scopes-untouched', Implies(sk != S.regex, And(has1[sk] == S.has[sk], map1[sk] == S.map[sk]))),
                ('existing-rule-lists-never-written', ctx.forall(1, lambda i: Implies(And(0 <= i, i < S.n), And(ln(h, S.lists(i)) == ln(S.h0, S.lists(i)), items_r(h, S.lists(i)) == items_r(S.h0, S.lists(i)))))),
                ('star-or-new-scope: scope becomes exactly [rule]', Implies(Or(star, Not(present)), single)),
                ('same-operator replaced in place, otherwise appended', Implies(And(Not(star), present), rebuilt)),
                ('new-list-is-fresh', Not(S.h0.alloc[L1])),
                ('accepted-only-if-supported', Implies(And(Not(star), S.alg != strlit(NOQ)), SUPPORTED(S.alg, S.op, S.cfg0)))]
    def raises(self, E, ctx, p, exc):
        S = self; h = p.heap
        return [('raises-ValueError-only-when-unsupported', And(z3.BoolVal(exc == 'ValueError'), S.op != strlit(ALL), S.alg != strlit(NOQ), Not(SUPPORTED(S.alg, S.op, S.cfg0)))),
                ('state-unchanged-when-refused', And(h.load(S.self_, '_scope_configs') == S.d, *[a == b for a, b in zip(dict_state(h, S.d), (S.keys, S.has, S.map, S.n))], ln(h, S.L) == S.nL, items_r(h, S.L) == S.Lit))]

def ctx_exists_prefix(S, ctx, p, i):
    """exists m < i with the same operator — as a ghost Bool with definitional facts (both directions)"""
    b = fresh('seen_same_op', Bo); w = fresh('seen_w', I)
    if ctx.mode == 'hyp':
        ctx.schem.append(Schematic(1, lambda m: Implies(And(0 <= m, m < i, S.h0.load(S.Lit[m], 'operation') == S.op), b), 'exists-def'))
        p.pc.append(Implies(b, And(0 <= w, w < i, S.h0.load(S.Lit[w], 'operation') == S.op)))
        return b
    # goal mode: b is characterised by the same two facts, added as hypotheses of the obligation through the path
    p.facts.append(Schematic(1, lambda m: Implies(And(0 <= m, m < i, S.h0.load(S.Lit[m], 'operation') == S.op), b), 'exists-def'))
    p.pc.append(Implies(b, And(0 <= w, w < i, S.h0.load(S.Lit[w], 'operation') == S.op)))
    return b

class GetConfigs(Spec):
    fields = FIELDS; consts = {}; str_consts = STR_CONSTS
    def __init__(self):
        self.callees = {'_OpQuantizationConfig': lambda E, p, a, kw, node: V('ref', DEFAULT_CFG), 'algorithm_manager.check_op_quantization_config': self.k_check,
                        're.search': lambda E, p, a, kw, node: vbool(SEARCH(a[0].term, a[1].term))}
        self.invariants = {0: self.inv_outer, 1: self.inv_inner}
    def bind(self, E, p):
        S = self; bind_dict(S, E, p); h0 = S.h0
        S.target = z3.Const('target_op_name', Str); S.scope = z3.Const('scope_name', Str)
        p.env.update(target_op_name=V('str', S.target), scope_name=V('str', S.scope))
        rule = lambda i, j: items_r(h0, S.lists(i))[j]
        S.rule = rule; S.len_i = lambda i: ln(h0, S.lists(i))
        S.app = lambda i, j: And(Or(h0.load(rule(i, j), 'operation') == strlit(ALL), h0.load(rule(i, j), 'operation') == S.target),
                                 Or(h0.load(rule(i, j), 'algorithm_key') == strlit(NOQ), SUPPORTED(h0.load(rule(i, j), 'algorithm_key'), S.target, h0.load(rule(i, j), 'op_config'))))
        S.RK = z3.Function('R_key', I, Str); S.RC = z3.Function('R_cfg', I, Ref); S.RRK = z3.Function('RR_key', I, I, Str); S.RRC = z3.Function('RR_cfg', I, I, Ref)
        p.pc += [S.RK(0) == strlit(NOQ), S.RC(0) == DEFAULT_CFG]
        F = p.facts.append
        F(Schematic(1, lambda i: Implies(And(0 <= i, i < S.n), And(S.RRK(i, 0) == S.RK(i), S.RRC(i, 0) == S.RC(i),
              S.RK(i + 1) == If(SEARCH(S.keys[i], S.scope), S.RRK(i, S.len_i(i)), S.RK(i)), S.RC(i + 1) == If(SEARCH(S.keys[i], S.scope), S.RRC(i, S.len_i(i)), S.RC(i)))), 'spec:scope-step'))
        F(Schematic(2, lambda i, j: Implies(And(0 <= i, i < S.n, 0 <= j, j < S.len_i(i)), And(
              S.RRK(i, j + 1) == If(S.app(i, j), h0.load(rule(i, j), 'algorithm_key'), S.RRK(i, j)), S.RRC(i, j + 1) == If(S.app(i, j), h0.load(rule(i, j), 'op_config'), S.RRC(i, j)))), 'spec:rule-step'))
    def bounds(self, E): return [self.n] + [self.len_i(z3.IntVal(i)) for i in range(3)]
    def may_write(self, E, p, ref, field): return z3.BoolVal(False)              # resolution is pure: no heap store at all
    def k_check(self, E, p, args, kw, node):
        a, o, c = args[0].term, args[1].term, args[2].term
        ok = p.fork(); ok.pc.append(SUPPORTED(a, o, c)); bad = p.fork(); bad.pc.append(Not(SUPPORTED(a, o, c)))
        return [Outcome('next', ok, NONE), Outcome('raise:ValueError', bad)]
    def inv_outer(self, E, ctx, p, pre, i):
        S = self
        return [('i-range', And(0 <= i, i <= S.n)), ('result-is-spec-prefix', And(p.env['result_key'].term == S.RK(i), p.env['result_config'].term == S.RC(i)))]
    def inv_inner(self, E, ctx, p, pre, j):
        S = self; i = self.cur_i(pre)
        return [('j-range', And(0 <= j, j <= S.len_i(i))), ('result-is-spec-prefix', And(p.env['result_key'].term == S.RRK(i, j), p.env['result_config'].term == S.RRC(i, j)))]
    def cur_i(self, pre):
        """index of the scope being scanned: the ghost position of the current key (keys are distinct)"""
        return self.kw(pre.env['scope_regex'].term)
    def ensures(self, E, ctx, p, ret):
        S = self; k, c = ret.kw['elts']
        return [('resolved-pair-is-the-last-applicable-rule-or-the-default', And(k.term == S.RK(S.n), c.term == S.RC(S.n)))]
