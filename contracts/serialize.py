"""Sidecar contract for ModelModifier._serialize_large_model and _process_constant_map (C16) — DESIGN Appendix A.15.

Bytes / bytearrays are modelled as int lists (length + contents, in-place `+=`).  The external serializer is a callee contract:
  ASSUMED (dependency): len(convert_object_to_bytearray(m)) does not depend on the VALUES of offset/size fields that are non-zero, nor
  on anything else this function changes between its two calls; the call-site obligation generated here is that at BOTH calls every
  EXTERNALISED buffer has data None and NON-ZERO offset and size (a zero value would drop the field from the flatbuffer table).
  A buffer is externalised iff it has data of non-zero length; zero-length constants stay embedded and untouched (repository fix: before it they
  were given size 0, the field was dropped in the second serialisation only, and every offset was computed for a flatbuffer 8 bytes longer).
pad16(x) = smallest multiple of 16 that is >= x.  L(0) = pad16(SER);  L(i+1) = pad16(L(i) + |data_i|) if buffer i is externalised else L(i)."""
import z3
from vlib.pyvc import *
from contracts.graph import items_i, items_r, ln
FIELDS = {'buffers': 'list[ref]', 'data': 'ref', 'offset': 'int', 'size': 'int', '_constant_map': 'list[list[int]]'}
def pad16(x): return x + (16 - x % 16) % 16
DLEN = z3.Function('len_of_data', Ref, I)          # len(buffer.data) of the (abstract) data object of a buffer

class SerializeLarge(Spec):
    fields = FIELDS; consts = {}; bytes_as_lists = True
    refutable = False          # byte positions are not bounded by any small scope (the padded flatbuffer alone is >= 16 bytes): no bounded-scope refutation
    def __init__(self):
        self.callees = {'flatbuffer_utils.convert_object_to_bytearray': self.k_ser}
        self.invariants = {0: self.inv_strip, 1: self.inv_pass1, 2: self.inv_pass2}
        self.while_invariants = {0: self.w_pad_dummy, 1: self.w_pad_model, 2: self.w_pad_in_pass1, 3: self.w_pad_in_pass2}
        self.ncalls = 0
    def opaque_len(self, E, p, a): return DLEN(a.term)
    def bind(self, E, p):
        h = p.heap; S = self
        for nme in list(FIELDS) + ['$len', '$items:int', '$items:ref']: h.arr(nme)
        h0 = h.copy(); S.h0 = h0
        S.self_ = z3.Const('self', Ref); S.model = z3.Const('quantized_model', Ref)
        p.env.update(self=V('ref', S.self_), quantized_model=V('ref', S.model))
        S.bufs = h0.load(S.model, 'buffers'); S.nb = ln(h0, S.bufs); S.buf = lambda j: items_r(h0, S.bufs)[j]
        S.cm = h0.load(S.self_, '_constant_map'); S.CM = lambda j: items_r(h0, S.cm)[j]; S.CL = lambda j: ln(h0, S.CM(j)); S.CI = lambda j: items_i(h0, S.CM(j))
        S.ext = lambda j: And(S.CM(j) != NULL, S.CL(j) > 0)                      # externalised: has data of non-zero length
        S.SER = z3.Int('serialized_length'); S.L = z3.Function('L', I, I)
        p.pc += [S.self_ != NULL, S.model != NULL, S.bufs != NULL, S.cm != NULL, S.nb >= 0, ln(h0, S.cm) == S.nb, S.SER > 0, S.L(0) == pad16(S.SER), S.bufs != S.cm, h0.alloc[S.bufs], h0.alloc[S.cm]]
        F = p.facts.append
        F(Schematic(1, lambda j: Implies(And(0 <= j, j < S.nb), And(S.buf(j) != NULL, h0.alloc[S.buf(j)], (S.CM(j) != NULL) == (h0.load(S.buf(j), 'data') != NULL),
                                                                   Implies(S.CM(j) != NULL, And(S.CL(j) >= 0, (DLEN(h0.load(S.buf(j), 'data')) > 0) == (S.CL(j) > 0), h0.alloc[S.CM(j)], S.CM(j) != S.bufs, S.CM(j) != S.cm)))), 'req:constant-map-aligned-with-buffers'))
        F(Schematic(2, lambda j, j2: Implies(And(0 <= j, j < j2, j2 < S.nb), S.buf(j) != S.buf(j2)), 'req:buffers-distinct'))
        F(Schematic(1, lambda j: Implies(And(0 <= j, j < S.nb), S.L(j + 1) == If(S.ext(j), pad16(S.L(j) + S.CL(j)), S.L(j))), 'spec:L-step'))
        F(Schematic(1, lambda j: Implies(And(0 <= j, j <= S.nb), And(S.L(j) % 16 == 0, S.L(j) >= S.SER)), 'lemma:L-aligned'))     # proved separately by induction (props/C16.py)
        F(Schematic(2, lambda j, j2: Implies(And(0 <= j, j < j2, j2 <= S.nb), S.L(j) + If(S.ext(j), S.CL(j), 0) <= S.L(j2)), 'lemma:L-monotone'))   # idem
    def bounds(self, E): return [self.nb] + [self.CL(z3.IntVal(k)) for k in range(3)]
    def may_write(self, E, p, ref, field):
        if field in ('data', 'offset', 'size') and 'buffer' in p.env: return ref == p.env['buffer'].term
        return z3.BoolVal(False)
    # ---- buffer states
    def stripped(self, h, j, upto):
        """after the first loop has passed position `upto`: externalised buffers before it have data None, offset 1, size 1"""
        S = self; b = S.buf(j); d0 = S.h0.load(b, 'data')
        return If(And(j < upto, S.ext(j)), And(h.load(b, 'data') == NULL, h.load(b, 'offset') == 1, h.load(b, 'size') == 1),
                  And(h.load(b, 'data') == d0, h.load(b, 'offset') == S.h0.load(b, 'offset'), h.load(b, 'size') == S.h0.load(b, 'size')))
    def placed(self, h, j, upto):
        """during/after pass 1: externalised buffers before `upto` carry their final offset and size; all other buffers are untouched"""
        S = self; b = S.buf(j); d0 = S.h0.load(b, 'data')
        return If(S.ext(j), And(h.load(b, 'data') == NULL, If(j < upto, And(h.load(b, 'offset') == S.L(j), h.load(b, 'size') == S.CL(j)), And(h.load(b, 'offset') == 1, h.load(b, 'size') == 1))),
                  And(h.load(b, 'data') == d0, h.load(b, 'offset') == S.h0.load(b, 'offset'), h.load(b, 'size') == S.h0.load(b, 'size')))
    def all_buffers(self, ctx, h, pred, upto): return ctx.forall(1, lambda j: Implies(And(0 <= j, j < self.nb), pred(h, j, upto)))
    def lists_kept(self, h):
        S = self
        return And(h.load(S.model, 'buffers') == S.bufs, ln(h, S.bufs) == S.nb, items_r(h, S.bufs) == items_r(S.h0, S.bufs), h.load(S.self_, '_constant_map') == S.cm,
                   ln(h, S.cm) == S.nb, items_r(h, S.cm) == items_r(S.h0, S.cm))
    def constants_kept(self, ctx, h):
        S = self
        return ctx.forall(1, lambda j: Implies(And(0 <= j, j < S.nb, S.CM(j) != NULL), And(ln(h, S.CM(j)) == S.CL(j), items_i(h, S.CM(j)) == S.CI(j))))
    # ---- callee: the flatbuffer serializer (external, assumed contract)
    def k_ser(self, E, p, args, kw, node):
        S = self; h = p.heap; S.ncalls += 1; sk = fresh('sk', I); b = S.buf(sk)
        E.emit(p, f'callsite{S.ncalls}:serializer-assumption-applicable(data None, offset != 0, size != 0 for every externalised buffer)',
               Implies(And(0 <= sk, sk < S.nb, S.ext(sk)), And(h.load(b, 'data') == NULL, h.load(b, 'offset') != 0, h.load(b, 'size') != 0)), node.lineno)
        E.emit(p, f'callsite{S.ncalls}:buffers-without-data-or-with-empty-data-untouched', Implies(And(0 <= sk, sk < S.nb, Not(S.ext(sk))),
               And(h.load(b, 'data') == S.h0.load(b, 'data'), h.load(b, 'offset') == S.h0.load(b, 'offset'), h.load(b, 'size') == S.h0.load(b, 'size'))), node.lineno)
        E.emit(p, f'callsite{S.ncalls}:argument-is-the-model', args[0].term == S.model, node.lineno)
        r = h.new(p, 'ser'); h.store(r, '$items:int', fresh('ser', z3.ArraySort(I, I))); h.store(r, '$len', S.SER)
        return V('list[int]', r)
    # ---- invariants
    def inv_strip(self, E, ctx, p, pre, i):
        h = p.heap; return [('i-range', And(0 <= i, i <= self.nb)), ('buffers', self.all_buffers(ctx, h, self.stripped, i)), ('lists-kept', self.lists_kept(h)), ('constants-kept', self.constants_kept(ctx, h))]
    def pad_inv(self, E, ctx, p, pre, var, base):
        """padding loop: the bytearray only grows, by less than 16, towards pad16(base length); its first `base` bytes are kept"""
        h, hp = p.heap, pre.heap; x = p.env[var].term; n0 = ln(hp, pre.env[var].term); a0 = items_i(hp, pre.env[var].term)
        return [('same-object', x == pre.env[var].term), ('length-between-base-and-pad16', And(ln(h, x) >= n0, ln(h, x) <= pad16(n0))),
                ('prefix-kept', ctx.forall(1, lambda k: Implies(And(0 <= k, k < n0), items_i(h, x)[k] == a0[k]))), ('lists-kept', self.lists_kept(h)), ('constants-kept', self.constants_kept(ctx, h))]
    def w_pad_dummy(self, E, ctx, p, pre): return self.pad_inv(E, ctx, p, pre, 'dummy_bytearray', None) + [('buffers', self.all_buffers(ctx, p.heap, self.stripped, self.nb))]
    def w_pad_in_pass1(self, E, ctx, p, pre): return self.pad_inv(E, ctx, p, pre, 'dummy_bytearray', None) + [('buffers', self.all_buffers(ctx, p.heap, self.placed, pre.env['$i1'].term + 1))]
    def w_pad_model(self, E, ctx, p, pre): return self.pad_inv(E, ctx, p, pre, 'model_bytearray', None) + [('buffers', self.all_buffers(ctx, p.heap, self.placed, self.nb))]
    def w_pad_in_pass2(self, E, ctx, p, pre): return self.pad_inv(E, ctx, p, pre, 'model_bytearray', None) + [('buffers', self.all_buffers(ctx, p.heap, self.placed, self.nb))]
    def inv_pass1(self, E, ctx, p, pre, i):
        S = self; h = p.heap; x = p.env['dummy_bytearray'].term
        return [('i-range', And(0 <= i, i <= S.nb)), ('same-object', x == pre.env['dummy_bytearray'].term), ('length-is-L(i)', ln(h, x) == S.L(i)),
                ('buffers', self.all_buffers(ctx, h, self.placed, i)), ('lists-kept', self.lists_kept(h)), ('constants-kept', self.constants_kept(ctx, h))]
    def content(self, ctx, h, x, upto):
        S = self
        return ctx.forall(2, lambda j, k: Implies(And(0 <= j, j < upto, j < S.nb, S.ext(j), 0 <= k, k < S.CL(j)), items_i(h, x)[S.L(j) + k] == S.CI(j)[k]))
    def inv_pass2(self, E, ctx, p, pre, i):
        S = self; h = p.heap; x = p.env['model_bytearray'].term
        return [('i-range', And(0 <= i, i <= S.nb)), ('same-object', x == pre.env['model_bytearray'].term), ('length-is-L(i)', ln(h, x) == S.L(i)),
                ('appended-constants-in-place', self.content(ctx, h, x, i)), ('buffers', self.all_buffers(ctx, h, self.placed, S.nb)), ('lists-kept', self.lists_kept(h)), ('constants-kept', self.constants_kept(ctx, h))]
    # ---- postcondition (C16)
    def ensures(self, E, ctx, p, ret):
        S = self; h = p.heap; out = items_i(h, ret.term); n = ln(h, ret.term)
        off = lambda j: h.load(S.buf(j), 'offset'); size = lambda j: h.load(S.buf(j), 'size'); has = lambda j: And(0 <= j, j < S.nb, S.ext(j))
        return [('offset-16-byte-aligned-and-size-is-data-length', ctx.forall(1, lambda j: Implies(has(j), And(off(j) % 16 == 0, size(j) == S.CL(j), off(j) == S.L(j))))),
                ('region-in-bounds', ctx.forall(1, lambda j: Implies(has(j), And(off(j) >= S.SER, off(j) + size(j) <= n)))),
                ('regions-increasing-and-disjoint', ctx.forall(2, lambda j, j2: Implies(And(has(j), has(j2), j < j2), off(j) + size(j) <= off(j2)))),
                ('region-holds-exactly-the-constant', ctx.forall(2, lambda j, k: Implies(And(has(j), 0 <= k, k < S.CL(j)), out[off(j) + k] == S.CI(j)[k]))),
                ('data-moved-out-of-the-flatbuffer', ctx.forall(1, lambda j: Implies(has(j), h.load(S.buf(j), 'data') == NULL))),
                ('buffers-without-data-or-with-empty-data-untouched', ctx.forall(1, lambda j: Implies(And(0 <= j, j < S.nb, Not(S.ext(j))), And(h.load(S.buf(j), 'data') == S.h0.load(S.buf(j), 'data'), off(j) == S.h0.load(S.buf(j), 'offset'), size(j) == S.h0.load(S.buf(j), 'size'))))),
                ('total-length-is-L(n)-multiple-of-16', And(n == S.L(S.nb), n % 16 == 0))]

class ProcessConstantMap(Spec):
    """_process_constant_map(quantized_model): appends one entry per buffer to self._constant_map, None exactly for buffers without data,
    otherwise the buffer's bytes; returns the total number of bytes.  (tobytes of an ndarray / bytes(data) are the callee BYTES(data).)"""
    fields = dict(FIELDS, data='list[int]'); consts = {}; bytes_as_lists = True; refutable = True        # here buffer.data is read as a byte sequence
    BYTES = z3.Function('bytes_of', Ref, Ref)
    def __init__(self):
        self.isarr = z3.Function('is_ndarray', Ref, Bo)
        self.callees = {'isinstance': lambda E, p, a, kw, node: vbool(self.isarr(a[0].term)), '.tobytes': lambda E, p, a, kw, node: V('list[int]', self.BYTES(a[0].term))}
        self.invariants = {0: self.inv0}
        self.consts = {}
    def bind(self, E, p):
        h = p.heap; S = self
        for nme in list(FIELDS) + ['$len', '$items:int', '$items:ref']: h.arr(nme)
        h0 = h.copy(); S.h0 = h0
        S.self_ = z3.Const('self', Ref); S.model = z3.Const('quantized_model', Ref); p.env.update(self=V('ref', S.self_), quantized_model=V('ref', S.model))
        S.bufs = h0.load(S.model, 'buffers'); S.nb = ln(h0, S.bufs); S.buf = lambda j: items_r(h0, S.bufs)[j]; S.cm = h0.load(S.self_, '_constant_map'); S.n0 = ln(h0, S.cm)
        S.entry = lambda j: If(h0.load(S.buf(j), 'data') == NULL, NULL, If(S.isarr(h0.load(S.buf(j), 'data')), S.BYTES(h0.load(S.buf(j), 'data')), h0.load(S.buf(j), 'data')))
        S.SUM = z3.Function('bytes_before', I, I)
        p.pc += [S.self_ != NULL, S.model != NULL, S.bufs != NULL, S.cm != NULL, S.bufs != S.cm, S.nb >= 0, S.n0 >= 0, S.SUM(0) == 0, h0.alloc[S.cm], h0.alloc[S.bufs]]
        p.facts.append(Schematic(1, lambda j: Implies(And(0 <= j, j < S.nb), And(S.buf(j) != NULL, Implies(S.entry(j) != NULL, And(ln(h0, S.entry(j)) >= 0, S.entry(j) != S.cm)),
                                                                              S.SUM(j + 1) == S.SUM(j) + If(S.entry(j) == NULL, 0, ln(h0, S.entry(j))))), 'spec:entries'))
        p.facts.append(Schematic(1, lambda j: Implies(And(0 <= j, j < S.nb), S.BYTES(h0.load(S.buf(j), 'data')) != NULL), 'callee:tobytes-returns-bytes'))
    def bounds(self, E): return [self.nb, self.n0]
    def may_write(self, E, p, ref, field): return ref == self.cm if field in ('$items:ref', '$len') else z3.BoolVal(False)
    def inv0(self, E, ctx, p, pre, i):
        S = self; h = p.heap
        return [('i-range', And(0 <= i, i <= S.nb)), ('appended-so-far', And(ln(h, S.cm) == S.n0 + i, ctx.forall(1, lambda j: Implies(And(0 <= j, j < i), items_r(h, S.cm)[S.n0 + j] == S.entry(j))))),
                ('old-entries-kept', ctx.forall(1, lambda j: Implies(And(0 <= j, j < S.n0), items_r(h, S.cm)[j] == items_r(S.h0, S.cm)[j]))), ('running-size', p.env['buffer_size'].term == S.SUM(i)),
                ('lengths-kept', ctx.forall(1, lambda j: Implies(And(0 <= j, j < S.nb, S.entry(j) != NULL), ln(h, S.entry(j)) == ln(S.h0, S.entry(j)))))]
    def ensures(self, E, ctx, p, ret):
        S = self; h = p.heap
        return [('one-entry-per-buffer-aligned-by-index', And(ln(h, S.cm) == S.n0 + S.nb, ctx.forall(1, lambda j: Implies(And(0 <= j, j < S.nb), items_r(h, S.cm)[S.n0 + j] == S.entry(j))))),
                ('entry-is-None-exactly-for-buffers-without-data', ctx.forall(1, lambda j: Implies(And(0 <= j, j < S.nb), (items_r(h, S.cm)[S.n0 + j] == NULL) == (S.h0.load(S.buf(j), 'data') == NULL)))),
                ('returns-total-constant-bytes', ret.term == S.SUM(S.nb))]
