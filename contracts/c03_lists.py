"""Sidecar contracts (pyvc) for the pure list helpers behind materialize_standard_op and for _get_params_for_no_quant_op (C03 ii / iii).

Postconditions are written from the property text: "the returned list is aligned with the op's operands != -1 in order" and "an operand that is
not float32 / is listed as ignored is kept apart".  They are stated with recursively defined ghost COUNTERS (cnt(0) = 0, cnt(k+1) = cnt(k) + [pred(k)]),
which is how "the m-th selected element" is expressed without sequences:  result[cnt(j)] == j for every selected j, and every result position m holds a
selected j with cnt(j) == m.  The counters are definitional (a conservative extension); every inductive fact about them that a proof needs
(bounds, monotonicity) is carried by a loop invariant and therefore proved, not assumed.

`Engine3` adds three small pieces of Python to pyvc.Engine (nothing else is changed):
   x = a or []            value semantics of `or` on a list operand (the engine proper only knows `or` in conditions)
   def f(): return <expr> a nested zero-argument function is inlined at its call sites (closure over the enclosing locals)
   for x in <int list>    when the sidecar declares the loop variable unused-as-index, nothing extra; (plain engine feature)"""
import ast
import z3
from vlib.pyvc import *
from vlib import pyvc

def _loops_in_source_order(node):
    out = []
    def visit(n):
        for c in ast.iter_child_nodes(n):
            if isinstance(c, ast.For): out.append(c)
            visit(c)
    visit(node); return out

class Engine3(pyvc.Engine):
    def loop(self, s, p):
        # loop ordinals are keyed by the AST node (source order), so a loop reached on several paths keeps its sidecar invariant
        if not hasattr(self, '_loop_ord'): self._loop_ord = {id(n): k for k, n in enumerate(_loops_in_source_order(self.node))}
        self.loopk = self._loop_ord[id(s)]
        return super().loop(s, p)
    def stmt(self, s, p):
        # nested zero-argument function: remembered, inlined at call sites
        if isinstance(s, ast.FunctionDef):
            body = [b for b in s.body if not (isinstance(b, ast.Expr) and isinstance(b.value, ast.Constant))]
            if s.args.args or s.args.kwonlyargs or s.args.vararg or s.args.kwarg or len(body) != 1 or not isinstance(body[0], ast.Return):
                raise Unsupported(f'nested function {s.name}@{s.lineno} is not a zero-argument single-return closure')
            p.env[s.name] = V('pyfunc', None, expr=body[0].value); return [Outcome('next', p)]
        # x = a or []   (python value semantics: a if a is truthy, else the fresh list)
        if isinstance(s, ast.Assign) and isinstance(s.value, ast.BoolOp) and isinstance(s.value.op, ast.Or) and len(s.value.values) == 2 \
           and isinstance(s.value.values[1], ast.List) and not s.value.values[1].elts:
            a = self.ev(s.value.values[0], p)
            if a.kind.startswith('list['):
                # two paths rather than an If-term: the instantiation procedure keys hypotheses by the list a subscript belongs to
                t = self.truth(a, p); yes, no = p.fork(), p.fork(); yes.pc.append(t); no.pc.append(Not(t))
                self.assign(s.targets[0], a, yes)
                self.assign(s.targets[0], self.newlist(elem_kind(a.kind), [], no), no)
                return [Outcome('next', yes), Outcome('next', no)]
            if a.kind == 'none':
                self.assign(s.targets[0], self.newlist(self.spec.empty_list_kind(s.lineno), [], p), p); return [Outcome('next', p)]
            raise Unsupported('`or []` on ' + a.kind)
        return super().stmt(s, p)
    def call(self, e, p):
        if isinstance(e.func, ast.Name) and e.func.id in p.env and p.env[e.func.id].kind == 'pyfunc' and not e.args and not e.keywords:
            return self.ev(p.env[e.func.id].kw['expr'], p)
        return super().call(e, p)

def run_function(fn, spec):
    E = Engine3(fn, spec); E.run(); return E

def verify(rep, prop, fn, spec, timeout=60000, B=2, backend='z3-qf(typed-instantiation)', tag=''):
    """pyvc.verify with Engine3 (same verdict discipline): every obligation of the function under its sidecar contract goes to the report"""
    from vlib import core
    rep.fn(fn)
    try: E = run_function(fn, spec)
    except Unsupported as e:
        rep.add(core.Ob(f'{prop}/{fn.name}/engine-subset{tag}', fn, 'pyvc', core.UNKNOWN, 0.0, detail=f'outside the engine subset: {e}', clause='function within the verified Python subset')); return []
    res = pyvc.decide_parallel(E, spec, timeout=timeout, B=B)
    counts = {}; out = []
    for ob, st, dt, det, mv in res:
        k = counts.get(ob.label, 0); counts[ob.label] = k + 1
        o = core.Ob(f'{prop}/{fn.name}/{ob.label}{tag}' + (f'#{k}' if k else ''), fn, backend, st, dt, detail=det if st != 'refuted' else f'{det}: {mv}', clause=ob.label)
        if st == 'refuted': o.replay = dict(confirmed=False, inputs=mv, note='bounded-scope counter-model of the VC; see the native stand-in of the same helper for a concrete failing input')
        out.append(o); rep.add(o)
    return out

def kinds_by_target(node, kinds):
    """line of `name = []` / `a, b = [], []` -> element kind, read off the real AST (for Spec.empty_list_kind)"""
    out = {}
    for n in ast.walk(node):
        if isinstance(n, ast.Assign):
            for t in n.targets:
                for el in (t.elts if isinstance(t, ast.Tuple) else [t]):
                    if isinstance(el, ast.Name) and el.id in kinds: out[n.lineno] = kinds[el.id]
    return out

def items_i(h, r): return h.load(r, '$items:int')
def items_r(h, r): return h.load(r, '$items:ref')
def ln(h, r): return h.load(r, '$len')

def counter(name, n, pred, facts):
    """ghost counter cnt with cnt(0) = 0 and cnt(k+1) = cnt(k) + [pred(k)] for 0 <= k < n (definitional)"""
    cnt = z3.Function(name, I, I)
    facts.append(Schematic(1, lambda k: Implies(And(0 <= k, k < n), cnt(k + 1) == cnt(k) + If(pred(k), 1, 0)), f'ghost:{name}-step'))
    return cnt

def counter_inv(ctx, cnt, i, name):
    """the inductive facts about a counter that the proofs use: 0 <= cnt(j) <= j for j <= i, and cnt(j+1) <= cnt(i) for j < i"""
    return [(f'{name}-bounds', ctx.forall(1, lambda j: Implies(And(0 <= j, j <= i), And(0 <= cnt(j), cnt(j) <= j)))),
            (f'{name}-monotone', ctx.forall(1, lambda j: Implies(And(0 <= j, j < i), cnt(j + 1) <= cnt(i))))]

# ------------------------------------------------------------------------------------------------ _tensor_indices_with_dtype
class TensorIndicesWithDtype(Spec):
    """_tensor_indices_with_dtype(tensors, subgraph_tensors, tensor_dtype_codes) -> the positions i (ascending) with
    subgraph_tensors[tensors[i]].type in tensor_dtype_codes.   requires: every entry indexes subgraph_tensors in the Python sense."""
    fields = {'type': 'int'}
    def bind(self, E, p):
        h = p.heap; S = self
        S.ts, S.sts, S.codes = z3.Const('tensors', Ref), z3.Const('subgraph_tensors', Ref), z3.Const('tensor_dtype_codes', Ref)
        p.env.update(tensors=V('list[int]', S.ts), subgraph_tensors=V('list[ref]', S.sts), tensor_dtype_codes=V('list[int]', S.codes))
        for f in ('type', '$len', '$items:int', '$items:ref'): h.arr(f)
        S.h0 = h.copy(); h0 = S.h0
        S.n, S.NT, S.nc = ln(h0, S.ts), ln(h0, S.sts), ln(h0, S.codes)
        objs = [S.ts, S.sts, S.codes]
        p.pc += [z3.Distinct(*objs)] + [x != NULL for x in objs] + [h.alloc[x] for x in objs] + [S.n >= 0, S.NT >= 0, S.nc >= 0]
        T0 = items_i(h0, S.ts); C0 = items_i(h0, S.codes); S.T0, S.C0 = T0, C0
        F = p.facts.append
        F(Schematic(1, lambda k: Implies(And(0 <= k, k < S.n), And(-S.NT <= T0[k], T0[k] < S.NT)), 'req:entries-index-subgraph_tensors'))
        S.ty = lambda k: h0.load(items_r(h0, S.sts)[If(T0[k] < 0, T0[k] + S.NT, T0[k])], 'type')
        S.sel = z3.Function('sel', I, Bo); S.sw = z3.Function('sel_w', I, I)
        F(Schematic(1, lambda k: Implies(And(0 <= k, k < S.n, S.sel(k)), And(0 <= S.sw(k), S.sw(k) < S.nc, C0[S.sw(k)] == S.ty(k))), 'ghost:sel-def1'))
        F(Schematic(2, lambda k, j: Implies(And(0 <= k, k < S.n, 0 <= j, j < S.nc, C0[j] == S.ty(k)), S.sel(k)), 'ghost:sel-def2'))
        S.cnt = counter('cnt', S.n, S.sel, p.facts); p.pc.append(S.cnt(0) == 0)
    def empty_list_kind(self, line): return 'int'
    def bounds(self, E): return [self.n, self.NT, self.nc]
    def frame_kept(self, ctx, h):
        S = self
        return [('inputs-kept', And(ln(h, S.ts) == S.n, ln(h, S.codes) == S.nc, ln(h, S.sts) == S.NT, items_i(h, S.ts) == S.T0, items_i(h, S.codes) == S.C0))]
    def inv0(self, E, ctx, p, pre, i):
        S = self; h = p.heap; r = pre.env['selected_indices'].term; R = items_i(h, r); nr = ln(h, r)
        return [('i-range', And(0 <= i, i <= S.n)), ('len-is-count', nr == S.cnt(i))] + counter_inv(ctx, S.cnt, i, 'cnt') + [
                ('selected-placed', ctx.forall(1, lambda j: Implies(And(0 <= j, j < i, S.sel(j)), R[S.cnt(j)] == j))),
                ('entries-selected', ctx.forall(1, lambda m: Implies(And(0 <= m, m < nr), And(0 <= R[m], R[m] < i, S.sel(R[m]), S.cnt(R[m]) == m)))),
                ('increasing', ctx.forall(1, lambda m: Implies(And(0 <= m, m + 1 < nr), R[m] < R[m + 1])))] + self.frame_kept(ctx, h)
    @property
    def invariants(self): return {0: self.inv0}
    def may_write(self, E, p, ref, field): return z3.BoolVal(False)        # only the fresh result list is written
    def ensures(self, E, ctx, p, ret):
        S = self; h = p.heap; r = ret.term; R = items_i(h, r); nr = ln(h, r)
        return [('result-fresh', Not(S.h0.alloc[r])), ('length-is-number-of-matching-positions', nr == S.cnt(S.n)),
                ('every-entry-is-a-matching-position-at-its-rank', ctx.forall(1, lambda m: Implies(And(0 <= m, m < nr), And(0 <= R[m], R[m] < S.n, S.sel(R[m]), S.cnt(R[m]) == m)))),
                ('every-matching-position-is-listed-at-its-rank', ctx.forall(1, lambda j: Implies(And(0 <= j, j < S.n, S.sel(j)), And(0 <= S.cnt(j), S.cnt(j) < nr, R[S.cnt(j)] == j)))),
                ('strictly-increasing', ctx.forall(1, lambda m: Implies(And(0 <= m, m + 1 < nr), R[m] < R[m + 1])))] + self.frame_kept(ctx, h)

# ------------------------------------------------------------------------------------------------ _split_tensors_by_indices
class SplitTensorsByIndices(Spec):
    """_split_tensors_by_indices(op_info, graph_info, indices, is_inbounding_tensor) -> (selected, others, updated_indices)
    with tensors = op.inputs | op.outputs:  the operands != -1 are split IN ORDER into those whose position is in `indices` and the rest;
    updated_indices[m] is the position of selected[m] among the operands != -1 (i.e. its position in a list from which the -1 entries are removed).
    requires: every operand is -1 or indexes subgraph_tensors; `indices` is a list."""
    fields = {'op': 'ref', 'inputs': 'list[int]', 'outputs': 'list[int]', 'subgraph_tensors': 'list[ref]'}
    def bind(self, E, p):
        h = p.heap; S = self
        S.oi, S.gi, S.idx, S.inb = z3.Const('op_info', Ref), z3.Const('graph_info', Ref), z3.Const('indices', Ref), z3.Bool('is_inbounding_tensor')
        p.env.update(op_info=V('ref', S.oi), graph_info=V('ref', S.gi), indices=V('list[int]', S.idx), is_inbounding_tensor=vbool(S.inb))
        for f in list(self.fields) + ['$len', '$items:int', '$items:ref']: h.arr(f)
        S.h0 = h.copy(); h0 = S.h0
        S.op = h0.load(S.oi, 'op'); S.tl = If(S.inb, h0.load(S.op, 'inputs'), h0.load(S.op, 'outputs')); S.st = h0.load(S.gi, 'subgraph_tensors')
        S.n, S.NT, S.ni = ln(h0, S.tl), ln(h0, S.st), ln(h0, S.idx)
        objs = [S.oi, S.gi, S.idx, S.op, h0.load(S.op, 'inputs'), h0.load(S.op, 'outputs'), S.st]
        p.pc += [z3.Distinct(*objs)] + [x != NULL for x in objs] + [h.alloc[x] for x in objs] + [S.n >= 0, S.NT >= 0, S.ni >= 0]
        S.T0, S.X0, S.ST0 = items_i(h0, S.tl), items_i(h0, S.idx), items_r(h0, S.st)
        F = p.facts.append
        F(Schematic(1, lambda k: Implies(And(0 <= k, k < S.n), And(-1 <= S.T0[k], S.T0[k] < S.NT)), 'req:operands-are--1-or-tensor-indices'))
        S.present = lambda k: S.T0[k] != -1
        S.inidx = z3.Function('inidx', I, Bo); S.iw = z3.Function('inidx_w', I, I)
        F(Schematic(1, lambda k: Implies(S.inidx(k), And(0 <= S.iw(k), S.iw(k) < S.ni, S.X0[S.iw(k)] == k)), 'ghost:inidx-def1'))
        F(Schematic(1, lambda j: Implies(And(0 <= j, j < S.ni), S.inidx(S.X0[j])), 'ghost:inidx-def2'))
        S.sel = lambda k: And(S.present(k), S.inidx(k)); S.oth = lambda k: And(S.present(k), Not(S.inidx(k)))
        S.pc_ = counter('pcnt', S.n, S.present, p.facts); S.sc = counter('scnt', S.n, S.sel, p.facts); S.oc = counter('ocnt', S.n, S.oth, p.facts)
        p.pc += [S.pc_(0) == 0, S.sc(0) == 0, S.oc(0) == 0]
        # ghost witnesses: sw(i, m) = the position j < i with sel(j) and scnt(j) == m (same for ow / others)
        S.sw = z3.Function('sel_at', I, I, I); S.ow = z3.Function('oth_at', I, I, I)
        F(Schematic(2, lambda i, m: Implies(And(0 <= i, i < S.n), S.sw(i + 1, m) == If(And(S.sel(i), m == S.sc(i)), i, S.sw(i, m))), 'ghost:sel_at-step'))
        F(Schematic(2, lambda i, m: Implies(And(0 <= i, i < S.n), S.ow(i + 1, m) == If(And(S.oth(i), m == S.oc(i)), i, S.ow(i, m))), 'ghost:oth_at-step'))
        S.kinds = kinds_by_target(E.node, {'updated_indices': 'int', 'selected_tensors': 'ref', 'others': 'ref'})
    def empty_list_kind(self, line): return self.kinds.get(line, 'int')
    def bounds(self, E): return [self.n, self.NT, self.ni]
    def frame_kept(self, h):
        S = self
        return [('inputs-kept', And(ln(h, S.tl) == S.n, ln(h, S.idx) == S.ni, ln(h, S.st) == S.NT, items_i(h, S.tl) == S.T0, items_i(h, S.idx) == S.X0, items_r(h, S.st) == S.ST0))]
    def lists(self, env):
        return env['selected_tensors'].term, env['others'].term, env['updated_indices'].term
    def facts(self, ctx, h, i, sl, ol, ul):
        """the characterisation of the three lists after the first i operands (shared by the invariant, i = loop index, and the postcondition, i = n)"""
        S = self; SEL, OTH, UPD = items_r(h, sl), items_r(h, ol), items_i(h, ul)
        return [('lengths', And(ln(h, sl) == S.sc(i), ln(h, ul) == S.sc(i), ln(h, ol) == S.oc(i), S.pc_(i) == S.sc(i) + S.oc(i))),
                ('selected-placed', ctx.forall(1, lambda j: Implies(And(0 <= j, j < i, S.sel(j)), And(0 <= S.sc(j), S.sc(j) < S.sc(i), SEL[S.sc(j)] == S.ST0[S.T0[j]], UPD[S.sc(j)] == S.pc_(j))))),
                ('others-placed', ctx.forall(1, lambda j: Implies(And(0 <= j, j < i, S.oth(j)), And(0 <= S.oc(j), S.oc(j) < S.oc(i), OTH[S.oc(j)] == S.ST0[S.T0[j]])))),
                ('selected-onto', ctx.forall(1, lambda m: Implies(And(0 <= m, m < S.sc(i)), And(0 <= S.sw(i, m), S.sw(i, m) < i, S.sel(S.sw(i, m)), S.sc(S.sw(i, m)) == m,
                                                                  SEL[m] == S.ST0[S.T0[S.sw(i, m)]], UPD[m] == S.pc_(S.sw(i, m)), 0 <= UPD[m], UPD[m] < S.pc_(i))))),
                ('others-onto', ctx.forall(1, lambda m: Implies(And(0 <= m, m < S.oc(i)), And(0 <= S.ow(i, m), S.ow(i, m) < i, S.oth(S.ow(i, m)), S.oc(S.ow(i, m)) == m,
                                                                OTH[m] == S.ST0[S.T0[S.ow(i, m)]])))),
                ('updated-indices-strictly-increasing', ctx.forall(1, lambda m: Implies(And(0 <= m, m + 1 < S.sc(i)), UPD[m] < UPD[m + 1])))]
    def inv0(self, E, ctx, p, pre, i):
        S = self; h = p.heap; sl, ol, ul = self.lists(pre.env)
        return [('i-range', And(0 <= i, i <= S.n)), ('updated_index-is-compacted-position', p.env['updated_index'].term == S.pc_(i))] \
               + counter_inv(ctx, S.pc_, i, 'pcnt') + counter_inv(ctx, S.sc, i, 'scnt') + counter_inv(ctx, S.oc, i, 'ocnt') + self.facts(ctx, h, i, sl, ol, ul) + self.frame_kept(h)
    @property
    def invariants(self): return {0: self.inv0}
    def may_write(self, E, p, ref, field): return z3.BoolVal(False)
    def ensures(self, E, ctx, p, ret):
        S = self; h = p.heap; sl, ol, ul = [v.term for v in ret.kw['elts']]
        return [('results-fresh', And(Not(S.h0.alloc[sl]), Not(S.h0.alloc[ol]), Not(S.h0.alloc[ul]), z3.Distinct(sl, ol, ul)))] + self.facts(ctx, h, S.n, sl, ol, ul) \
               + [('updated-indices-below-number-of-present-operands', ctx.forall(1, lambda m: Implies(And(0 <= m, m < ln(h, ul)), And(0 <= items_i(h, ul)[m], items_i(h, ul)[m] < S.pc_(S.n)))))] + self.frame_kept(h)
