"""Sidecar contracts (pyvc) for the pure list helpers behind materialize_standard_op and for _get_params_for_no_quant_op (C03 ii / iii).

Postconditions are written from the property text: "the returned list is aligned with the op's operands != -1 in order" and "an operand that is
not float32 / is listed as ignored is kept apart".  They are stated with recursively defined ghost COUNTERS (cnt(0) = 0, cnt(k+1) = cnt(k) + [pred(k)]),
which is how "the m-th selected element" is expressed without sequences:  result[cnt(j)] == j for every selected j, and every result position m holds a
selected j with cnt(j) == m.  The counters are definitional (a conservative extension); every inductive fact about them that a proof needs
(bounds, monotonicity) is carried by a loop invariant and therefore proved, not assumed.

`Engine3` adds a few small pieces of Python to pyvc.Engine (nothing of the base engine is changed):
   x = a or []                      value semantics of `or` on a list operand (the engine proper only knows `or` in conditions)
   def f(): return <expr>           a nested zero-argument function is inlined at its call sites (closure over the enclosing locals)
   dataclass constructor defaults   fields not passed to a declared constructor are None
   allocating loop bodies           the loop rule with the allocation map havocked as well (loop_alloc)
   len([x for x in L if c(x)])      filter comprehension over an int list, by its defining recursion (ghost counter)
   r.extend(src[a:b])               with python slice normalisation
   set(range(n)), set(<int list>), s -= t, s - t, list(s)     int sets as membership arrays (the base engine's representation); list(s) is an
                                    ARBITRARILY ordered duplicate-free list of the members
   induction(...)                   a lemma about a ghost counter proved by induction (two obligations: base, step), then used as a hypothesis"""
import ast
import z3
from vlib.pyvc import *
from vlib import pyvc

SETF = '$dhas:int'       # membership array of an int set (the base engine's representation)
def _loops_in_source_order(node):
    out = []
    def visit(n):
        for c in ast.iter_child_nodes(n):
            if isinstance(c, ast.For): out.append(c)
            visit(c)
    visit(node); return out

class Engine3(pyvc.Engine):
    def __init__(self, fn, spec, mutate=None):
        super().__init__(fn, spec, mutate)
        # loop ordinals = source order of the `for` statements (depth first), whichever path reaches them first
        self.loop_ids = {id(n): k for k, n in enumerate(_loops_in_source_order(self.node))}
    def loop(self, s, p):
        self.loopk = self.loop_ids[id(s)]                       # (older engine versions number loops with this counter)
        if not getattr(self.spec, 'loops_may_allocate', False): return super().loop(s, p)
        return self.loop_alloc(s, p)
    def loop_alloc(self, s, p):
        """The loop rule of pyvc.Engine.loop (same steps, same order) for bodies that ALLOCATE: the allocation map is havocked together with the
        written heap fields (objects created by earlier iterations are allocated in the arbitrary-iteration state; the sidecar invariant says which)
        and stays true for the objects the sidecar lists in `roots` (allocated before the loop).  Written fields are havocked as a whole (coarser than
        the base engine's per-object havoc, hence sound).  Only iteration over a list is needed here."""
        k = self.loop_ids[id(s)]; self.loopk = k + 1
        it = self.ev(s.iter, p)
        if k not in self.spec.invariants: raise Unsupported(f'loop {k}@{s.lineno} has no invariant (stale or missing contract)')
        inv = self.spec.invariants[k]
        if not it.kind.startswith('list['): raise Unsupported('allocating loop over ' + it.kind)
        lst = it; n = self.llen(lst, p)
        bindf = lambda q, i, lst=lst: self.assign(s.target, self.mk(elem_kind(lst.kind), self.litems(lst, q)[i]), q)
        pre = p.fork()
        for label, g in inv(self, Ctx('goal'), p, pre, z3.IntVal(0)): self.emit(p, f'loop{k}-entry:{label}', g, s.lineno)
        _, wn = self.written(s.body)
        def havoc_locals(q, tag):
            for nme in wn:                      # locals assigned in the body hold arbitrary values in an arbitrary iteration
                if nme in q.env and (q.env[nme].kind in ('int', 'bool', 'str', 'ref') or q.env[nme].kind.startswith('list[')):
                    q.env[nme] = V(q.env[nme].kind, fresh(f'{nme}_L{k}{tag}', sort_of(q.env[nme].kind)))
        # write set of the body: dry symbolic run with obligations muted, recording every heap field written
        rec_loc = getattr(pyvc, 'REC_LOC', None)
        saved_rec = set(pyvc.REC); saved_loc = None if rec_loc is None else {a: list(b) for a, b in rec_loc.items()}
        pyvc.REC.clear(); self.mute += 1
        try:
            d = p.fork(); di = fresh(f'dry{k}', I); d.pc += [0 <= di, di < n]; havoc_locals(d, 'dry'); bindf(d, di); self.block(s.body, d)
        finally:
            self.mute -= 1
        wf = set(pyvc.REC); pyvc.REC.clear(); pyvc.REC.update(saved_rec | wf)
        if rec_loc is not None:                 # whole-field effect as far as an enclosing loop is concerned
            rec_loc.clear(); rec_loc.update(saved_loc)
            for f in wf: rec_loc.setdefault(f, []).append(None)
        wf.discard('$alloc')
        def havoc(q, tag):
            for f in wf: q.heap.f[f] = fresh('H_' + f + f'_L{k}{tag}', z3.ArraySort(Ref, q.heap.fsort(f)))
            q.heap.alloc = fresh(f'alloc_L{k}{tag}', z3.ArraySort(Ref, Bo))
            q.pc += [q.heap.alloc[r] for r in self.spec.roots(self)]           # allocated before the loop, hence still allocated
            havoc_locals(q, tag)
        outs = []
        b = p.fork(); havoc(b, 'i'); i = fresh(f'i{k}', I); b.pc += [0 <= i, i < n]
        ch = Ctx('hyp')
        for label, g in inv(self, ch, b, pre, i): b.pc.append(g)
        b.facts += ch.schem; bindf(b, i)
        for o in self.block(s.body, b):
            if o.kind in ('next', 'continue'):
                for label, g in inv(self, Ctx('goal'), o.path, pre, i + 1): self.emit(o.path, f'loop{k}-preserve:{label}', g, s.lineno)
            elif o.kind == 'break': outs.append(Outcome('next', o.path))
            else: outs.append(o)
        a = p.fork(); havoc(a, 'x'); ch = Ctx('hyp')
        for label, g in inv(self, ch, a, pre, n): a.pc.append(g)
        a.facts += ch.schem
        if s.orelse: outs += self.block(s.orelse, a)
        else: outs.append(Outcome('next', a))
        return outs
    def stmt(self, s, p):
        # a -= <set>   (in place)
        if isinstance(s, ast.AugAssign) and isinstance(s.op, ast.Sub) and isinstance(s.target, ast.Name) and s.target.id in p.env and p.env[s.target.id].kind == 'set[int]':
            a = p.env[s.target.id]; b = self.ev(s.value, p)
            if b.kind != 'set[int]': raise Unsupported('set -= ' + b.kind)
            self.frame(p, a.term, SETF, s.lineno); p.heap.store(a.term, SETF, self.set_minus(p.heap.load(a.term, SETF), p.heap.load(b.term, SETF))); return [Outcome('next', p)]
        # nested zero-argument function: remembered, inlined at call sites
        if isinstance(s, ast.FunctionDef):
            body = [b for b in s.body if not (isinstance(b, ast.Expr) and isinstance(b.value, ast.Constant))]
            if s.args.args or s.args.kwonlyargs or s.args.vararg or s.args.kwarg or len(body) != 1 or not isinstance(body[0], ast.Return):
                raise Unsupported(f'nested function {s.name}@{s.lineno} is not a zero-argument single-return closure')
            p.env[s.name] = V('pyfunc', None, expr=body[0].value); return [Outcome('next', p)]
        # x = a or []   (python value semantics: a if a is truthy, else the fresh list)
        if isinstance(s, ast.Assign) and isinstance(s.value, ast.BoolOp) and isinstance(s.value.op, ast.Or) and len(s.value.values) == 2 \
           and isinstance(s.value.values[1], ast.List) and not s.value.values[1].elts:
            a = self.ev(s.value.values[0], p)
            if a.kind.startswith('list['):
                # two paths rather than an If-term: the instantiation procedure keys hypotheses by the list a subscript belongs to
                t = self.truth(a, p); yes, no = p.fork(), p.fork(); yes.pc.append(t); no.pc.append(Not(t))
                self.assign(s.targets[0], a, yes)
                self.assign(s.targets[0], self.newlist(elem_kind(a.kind), [], no), no)
                return [Outcome('next', yes), Outcome('next', no)]
            if a.kind == 'none':
                self.assign(s.targets[0], self.newlist(self.spec.empty_list_kind(s.lineno), [], p), p); return [Outcome('next', p)]
            raise Unsupported('`or []` on ' + a.kind)
        return super().stmt(s, p)
    def ev(self, e, p):
        if isinstance(e, ast.ListComp): return self.filter_comprehension(e, p)
        if isinstance(e, ast.BinOp) and isinstance(e.op, ast.Sub) and isinstance(e.left, ast.Name) and isinstance(e.right, ast.Name) \
           and e.left.id in p.env and p.env[e.left.id].kind == 'set[int]':                     # <set name> - <set name>: a new set
            a, b2 = p.env[e.left.id], self.ev(e.right, p)
            if b2.kind != 'set[int]': raise Unsupported('set difference with ' + b2.kind)
            return self.new_set(p, self.set_minus(p.heap.load(a.term, SETF), p.heap.load(b2.term, SETF)))
        return super().ev(e, p)
    @staticmethod
    def sig(arr, p, r, fld):
        """a fresh array constant standing for the content of heap slot fld[r] gets that slot's instantiation signature (both keyings of pyvc.ARR_SIG)"""
        try: sg = pyvc._canon_arr(z3.Select(z3.Array('H_' + fld, Ref, arr.sort()), r))
        except Exception: return
        pyvc.ARR_SIG[arr.decl().name()] = sg; pyvc.ARR_SIG[arr.get_id()] = sg
    @staticmethod
    def set_minus(A, B):
        x, y = z3.Bools('a b'); return z3.Map(z3.And(x, y).decl(), A, z3.Map(z3.Not(x).decl(), B))
    def new_set(self, p, has):
        r = p.heap.new(p, 'set'); p.heap.store(r, SETF, has)
        if z3.is_const(has): self.sig(has, p, r, SETF)
        return V('set[int]', r)
    def set_of(self, src, p):
        """set(range(..)) / set(<int list>): membership array defined pointwise (range) or by witness (list)"""
        H = fresh('sethas', z3.ArraySort(I, Bo))
        if src.kind == 'range':
            lo, hi = src.kw['lo'], src.kw['hi']
            p.facts.append(Schematic(1, lambda x: H[x] == And(lo <= x, x < hi), 'set(range)'))
        elif src.kind == 'list[int]':
            n = self.llen(src, p); it = self.litems(src, p); w = z3.Function(f'setw!{next(pyvc._n)}', I, I)
            p.facts.append(Schematic(1, lambda k: Implies(And(0 <= k, k < n), H[it[k]]), 'set(list)-members'))
            p.facts.append(Schematic(1, lambda x: Implies(H[x], And(0 <= w(x), w(x) < n, it[w(x)] == x)), 'set(list)-witness'))
        else: raise Unsupported('set() of ' + src.kind)
        return self.new_set(p, H)
    def list_of_set(self, sv, p):
        """list(<set>): a fresh duplicate-free list holding exactly the members, in an ARBITRARY order"""
        has = p.heap.load(sv.term, SETF); r = p.heap.new(p, 'lst'); arr = fresh('setlist', z3.ArraySort(I, I)); n = fresh('setlist_len', I)
        w = z3.Function(f'listw!{next(pyvc._n)}', I, I); p.pc.append(n >= 0)
        p.facts.append(Schematic(1, lambda k: Implies(And(0 <= k, k < n), has[arr[k]]), 'list(set)-members'))
        p.facts.append(Schematic(1, lambda x: Implies(has[x], And(0 <= w(x), w(x) < n, arr[w(x)] == x)), 'list(set)-witness'))
        p.facts.append(Schematic(2, lambda k, j: Implies(And(0 <= k, k < j, j < n), arr[k] != arr[j]), 'list(set)-distinct'))
        p.heap.store(r, '$items:int', arr); p.heap.store(r, '$len', n); self.sig(arr, p, r, '$items:int')
        self.set_lists = getattr(self, 'set_lists', []) + [(r, w, has)]
        return V('list[int]', r)
    def filter_comprehension(self, e, p):
        """[x for x in L if cond(x)] over an int list, by its definition: a fresh list r with len(r) == cnt(len L) where cnt(0) = 0,
        cnt(k+1) = cnt(k) + [cond(L[k])], and r[cnt(k)] == L[k] whenever cond(L[k]).  The sidecar may name the counter it uses for the same predicate
        (Spec.comp_counter); the engine then emits the obligation that the two predicates agree and uses the sidecar's counter."""
        g = e.generators[0] if len(e.generators) == 1 else None
        if g is None or g.is_async or len(g.ifs) != 1 or not isinstance(g.target, ast.Name) or not (isinstance(e.elt, ast.Name) and e.elt.id == g.target.id):
            raise Unsupported(f'comprehension@{e.lineno} is not a plain filter')
        src = self.ev(g.iter, p)
        if src.kind != 'list[int]': raise Unsupported('filter comprehension over ' + src.kind)
        n = self.llen(src, p); it = self.litems(src, p)
        ph = fresh('cmp_x', I); q = p.fork(); q.env[g.target.id] = vint(ph); npc = len(q.pc); self.mute += 1
        try: c = self.truth(self.ev(g.ifs[0], q), q)
        finally: self.mute -= 1
        if len(q.pc) != npc: raise Unsupported('comprehension condition is not a pure expression')
        pred = lambda k: z3.substitute(c, (ph, it[k]))
        k = len(getattr(self, 'comps', [])); self.comps = getattr(self, 'comps', []) + [None]
        named = self.spec.comp_counter(self, k, src) if hasattr(self.spec, 'comp_counter') else None
        if named is not None:
            cnt, spred = named
            sk = fresh('cmp_k', I)
            self.emit(p, f'comprehension{k}-predicate-is-the-sidecar-counter-predicate@{e.lineno}', Implies(And(0 <= sk, sk < n), pred(sk) == spred(sk)), e.lineno)
        else:
            cnt = z3.Function(f'cmp{k}_cnt', I, I); p.pc.append(cnt(0) == 0)
            p.facts.append(Schematic(1, lambda j: Implies(And(0 <= j, j < n), cnt(j + 1) == cnt(j) + If(pred(j), 1, 0)), f'ghost:cmp{k}-step'))
        r = p.heap.new(p, 'cmp'); arr = fresh('cmp_items', z3.ArraySort(I, I))
        p.facts.append(Schematic(1, lambda j: Implies(And(0 <= j, j < n, pred(j)), arr[cnt(j)] == it[j]), f'cmp{k}-items'))
        p.heap.store(r, '$items:int', arr); p.heap.store(r, '$len', cnt(n)); self.sig(arr, p, r, '$items:int'); self.comps[k] = (cnt, pred, n)
        return V('list[int]', r)
    def extend_slice(self, recv, sub, p, line):
        """recv.extend(src[a:b]) with python slice normalisation (None / negative / out-of-range bounds)"""
        src = self.ev(sub.value, p); sl = sub.slice
        if sl.step is not None or not src.kind.startswith('list[') or src.kind != recv.kind: raise Unsupported('extend with this slice')
        m = self.llen(src, p); ek = elem_kind(recv.kind); fld = items_field(ek)
        def normb(x, default):
            if x is None: return default
            v = self.ev(x, p).term
            return If(v < 0, If(v + m < 0, 0, v + m), If(v > m, m, v))
        lo, hi = normb(sl.lower, z3.IntVal(0)), normb(sl.upper, m); cnt = If(hi > lo, hi - lo, 0)
        n0 = self.llen(recv, p); old = self.litems(recv, p); sit = self.litems(src, p)
        self.frame(p, recv.term, fld, line)
        new = fresh('ext', p.heap.fsort(fld)); pyvc.ARR_SIG[new.decl().name()] = pyvc.ARR_SIG[new.get_id()] = pyvc._canon_arr(old)   # both keyings of pyvc.ARR_SIG
        p.facts.append(Schematic(1, lambda k: new[k] == If(k < n0, old[k], sit[lo + (k - n0)]), 'list.extend(slice)'))
        p.heap.store(recv.term, fld, new); p.heap.store(recv.term, '$len', n0 + cnt)
    def call(self, e, p):
        if isinstance(e.func, ast.Name) and e.func.id in p.env and p.env[e.func.id].kind == 'pyfunc' and not e.args and not e.keywords:
            return self.ev(p.env[e.func.id].kw['expr'], p)
        if isinstance(e.func, ast.Name) and e.func.id == 'set' and len(e.args) == 1 and not e.keywords: return self.set_of(self.ev(e.args[0], p), p)
        if isinstance(e.func, ast.Name) and e.func.id == 'list' and len(e.args) == 1 and not e.keywords and isinstance(e.args[0], ast.BinOp) and isinstance(e.args[0].op, ast.Sub):
            a = self.ev(e.args[0], p)
            if a.kind == 'set[int]': return self.list_of_set(a, p)
            raise Unsupported('list() of ' + a.kind)
        if isinstance(e.func, ast.Name) and e.func.id == 'list' and len(e.args) == 1 and isinstance(e.args[0], ast.Name) and e.args[0].id in p.env and p.env[e.args[0].id].kind == 'set[int]':
            return self.list_of_set(p.env[e.args[0].id], p)
        if isinstance(e.func, ast.Attribute) and e.func.attr == 'extend' and len(e.args) == 1 and isinstance(e.args[0], ast.Subscript) and isinstance(e.args[0].slice, ast.Slice):
            recv = self.ev(e.func.value, p)
            if recv.kind.startswith('list['): self.extend_slice(recv, e.args[0], p, e.lineno); return NONE
        d = self.dotted(e.func) if isinstance(e.func, (ast.Attribute, ast.Name)) else None
        if d in self.spec.constructors and d in getattr(self.spec, 'constructor_defaults', {}):
            # dataclass constructor: fields that are not passed take their declared default (None)
            given = set(self.spec.constructors[d][:len(e.args)]) | {k.arg for k in e.keywords}
            r = super().call(e, p)
            for nme in self.spec.constructor_defaults[d]:
                if nme not in given: p.heap.store(r.term, nme, NULL)
            return r
        return super().call(e, p)

def run_function(fn, spec):
    E = Engine3(fn, spec); E.run(); return E

def verify(rep, prop, fn, spec, timeout=60000, B=2, backend='z3-qf(typed-instantiation)', tag='', fallback=None):
    """pyvc.verify with Engine3 (same verdict discipline): every obligation of the function under its sidecar contract goes to the report"""
    from vlib import core
    rep.fn(fn)
    try: E = run_function(fn, spec)
    except Unsupported as e:
        rep.add(core.Ob(f'{prop}/{fn.name}/engine-subset{tag}', fn, 'pyvc', core.UNKNOWN, 0.0, detail=f'outside the engine subset: {e}', clause='function within the verified Python subset')); return []
    res = pyvc.decide_parallel(E, spec, timeout=timeout, B=B)
    counts = {}; out = []
    import re
    rel = lambda label: re.sub(r'@(\d+)', lambda mo: f'@+{int(mo.group(1)) - fn.line}', label)     # line numbers relative to the `def` line: ids survive edits elsewhere in the file
    for ob, st, dt, det, mv in res:
        lab = rel(ob.label); k = counts.get(lab, 0); counts[lab] = k + 1
        o = core.Ob(f'{prop}/{fn.name}/{lab}{tag}' + (f'#{k}' if k else ''), fn, backend, st, dt, detail=det if st != 'refuted' else f'{det}: {mv}', clause=ob.label)
        if st == 'refuted':
            # the counter-model lives in the VC's vocabulary (heap snapshots, ghost counters); a concrete failing input is searched natively in the helper's small scope
            fb = fallback(ob.label) if fallback else None
            o.replay = fb if (fb and fb.get('confirmed')) else dict(confirmed=False, inputs=mv, note='bounded-scope counter-model of the VC; no failing input found natively in the small scope')
            if getattr(spec, 'value_quantified_hypotheses', False) and not o.replay.get('confirmed'):
                # set membership facts quantify over VALUES, which the bounded refuter only expands over a small domain: its model is not a counterexample
                o.status = core.UNKNOWN; o.detail = 'not proved; the bounded-scope model is not trusted (hypotheses quantify over set members) and no failing input was found natively'; o.replay = None
        core.native_search_for_undischarged(o, fallback, counts, ob.label)
        out.append(o); rep.add(o)
    core.oracle_selfcheck(rep, fn, fallback, all(o.status == core.PROVED for o in out))
    return out

def kinds_by_target(node, kinds):
    """line of `name = []` / `a, b = [], []` -> element kind, read off the real AST (for Spec.empty_list_kind)"""
    out = {}
    for n in ast.walk(node):
        if isinstance(n, ast.Assign):
            for t in n.targets:
                for el in (t.elts if isinstance(t, ast.Tuple) else [t]):
                    if isinstance(el, ast.Name) and el.id in kinds: out[n.lineno] = kinds[el.id]
    return out

def items_i(h, r): return h.load(r, '$items:int')
def items_r(h, r): return h.load(r, '$items:ref')
def ln(h, r): return h.load(r, '$len')

def counter(name, n, pred, facts):
    """ghost counter cnt with cnt(0) = 0 and cnt(k+1) = cnt(k) + [pred(k)] for 0 <= k < n (definitional)"""
    cnt = z3.Function(name, I, I)
    facts.append(Schematic(1, lambda k: Implies(And(0 <= k, k < n), cnt(k + 1) == cnt(k) + If(pred(k), 1, 0)), f'ghost:{name}-step'))
    return cnt

def induction(E, p, name, n, P, arity=0):
    """lemma  forall k in [0, n], forall js: P(k, *js)  by induction on k, as two obligations of the function under proof (base, step);
    afterwards available as a hypothesis.  P must be quantifier free in (k, js)."""
    sk = [fresh(f'ind_j{a}', I) for a in range(arity)]
    E.emit(p, f'lemma:{name}/base', P(z3.IntVal(0), *sk))
    k = fresh('ind_k', I); q = p.fork(); q.pc += [0 <= k, k < n]
    if arity: q.facts.append(Schematic(arity, lambda *js: P(k, *js), f'lemma:{name}-IH'))
    else: q.pc.append(P(k))
    E.emit(q, f'lemma:{name}/step', P(k + 1, *sk))
    p.facts.append(Schematic(1 + arity, lambda k2, *js: Implies(And(0 <= k2, k2 <= n), P(k2, *js)), f'lemma:{name}'))

def counter_inv(ctx, cnt, i, name):
    """the inductive facts about a counter that the proofs use: 0 <= cnt(j) <= j for j <= i, and cnt(j+1) <= cnt(i) for j < i"""
    return [(f'{name}-bounds', ctx.forall(1, lambda j: Implies(And(0 <= j, j <= i), And(0 <= cnt(j), cnt(j) <= j)))),
            (f'{name}-monotone', ctx.forall(1, lambda j: Implies(And(0 <= j, j < i), cnt(j + 1) <= cnt(i))))]

# ------------------------------------------------------------------------------------------------ _tensor_indices_with_dtype
class TensorIndicesWithDtype(Spec):
    """_tensor_indices_with_dtype(tensors, subgraph_tensors, tensor_dtype_codes) -> the positions i (ascending) with
    subgraph_tensors[tensors[i]].type in tensor_dtype_codes.   requires: every entry indexes subgraph_tensors in the Python sense."""
    fields = {'type': 'int'}
    def bind(self, E, p):
        h = p.heap; S = self
        S.ts, S.sts, S.codes = z3.Const('tensors', Ref), z3.Const('subgraph_tensors', Ref), z3.Const('tensor_dtype_codes', Ref)
        p.env.update(tensors=V('list[int]', S.ts), subgraph_tensors=V('list[ref]', S.sts), tensor_dtype_codes=V('list[int]', S.codes))
        for f in ('type', '$len', '$items:int', '$items:ref'): h.arr(f)
        S.h0 = h.copy(); h0 = S.h0
        S.n, S.NT, S.nc = ln(h0, S.ts), ln(h0, S.sts), ln(h0, S.codes)
        objs = [S.ts, S.sts, S.codes]
        p.pc += [z3.Distinct(*objs)] + [x != NULL for x in objs] + [h.alloc[x] for x in objs] + [S.n >= 0, S.NT >= 0, S.nc >= 0]
        T0 = items_i(h0, S.ts); C0 = items_i(h0, S.codes); S.T0, S.C0 = T0, C0
        F = p.facts.append
        F(Schematic(1, lambda k: Implies(And(0 <= k, k < S.n), And(-S.NT <= T0[k], T0[k] < S.NT)), 'req:entries-index-subgraph_tensors'))
        S.ty = lambda k: h0.load(items_r(h0, S.sts)[If(T0[k] < 0, T0[k] + S.NT, T0[k])], 'type')
        S.sel = z3.Function('sel', I, Bo); S.sw = z3.Function('sel_w', I, I)
        F(Schematic(1, lambda k: Implies(And(0 <= k, k < S.n, S.sel(k)), And(0 <= S.sw(k), S.sw(k) < S.nc, C0[S.sw(k)] == S.ty(k))), 'ghost:sel-def1'))
        F(Schematic(2, lambda k, j: Implies(And(0 <= k, k < S.n, 0 <= j, j < S.nc, C0[j] == S.ty(k)), S.sel(k)), 'ghost:sel-def2'))
        S.cnt = counter('cnt', S.n, S.sel, p.facts); p.pc.append(S.cnt(0) == 0)
    def empty_list_kind(self, line): return 'int'
    def bounds(self, E): return [self.n, self.NT, self.nc]
    def frame_kept(self, ctx, h):
        S = self
        return [('inputs-kept', And(ln(h, S.ts) == S.n, ln(h, S.codes) == S.nc, ln(h, S.sts) == S.NT, items_i(h, S.ts) == S.T0, items_i(h, S.codes) == S.C0))]
    def inv0(self, E, ctx, p, pre, i):
        S = self; h = p.heap; r = pre.env['selected_indices'].term; R = items_i(h, r); nr = ln(h, r)
        return [('i-range', And(0 <= i, i <= S.n)), ('len-is-count', nr == S.cnt(i))] + counter_inv(ctx, S.cnt, i, 'cnt') + [
                ('selected-placed', ctx.forall(1, lambda j: Implies(And(0 <= j, j < i, S.sel(j)), R[S.cnt(j)] == j))),
                ('entries-selected', ctx.forall(1, lambda m: Implies(And(0 <= m, m < nr), And(0 <= R[m], R[m] < i, S.sel(R[m]), S.cnt(R[m]) == m)))),
                ('increasing', ctx.forall(1, lambda m: Implies(And(0 <= m, m + 1 < nr), R[m] < R[m + 1])))] + self.frame_kept(ctx, h)
    @property
    def invariants(self): return {0: self.inv0}
    def may_write(self, E, p, ref, field): return z3.BoolVal(False)        # only the fresh result list is written
    def ensures(self, E, ctx, p, ret):
        S = self; h = p.heap; r = ret.term; R = items_i(h, r); nr = ln(h, r)
        return [('result-fresh', Not(S.h0.alloc[r])), ('length-is-number-of-matching-positions', nr == S.cnt(S.n)),
                ('every-entry-is-a-matching-position-at-its-rank', ctx.forall(1, lambda m: Implies(And(0 <= m, m < nr), And(0 <= R[m], R[m] < S.n, S.sel(R[m]), S.cnt(R[m]) == m)))),
                ('every-matching-position-is-listed-at-its-rank', ctx.forall(1, lambda j: Implies(And(0 <= j, j < S.n, S.sel(j)), And(0 <= S.cnt(j), S.cnt(j) < nr, R[S.cnt(j)] == j)))),
                ('strictly-increasing', ctx.forall(1, lambda m: Implies(And(0 <= m, m + 1 < nr), R[m] < R[m + 1])))] + self.frame_kept(ctx, h)

# ------------------------------------------------------------------------------------------------ _split_tensors_by_indices
class SplitTensorsByIndices(Spec):
    """_split_tensors_by_indices(op_info, graph_info, indices, is_inbounding_tensor) -> (selected, others, updated_indices)
    with tensors = op.inputs | op.outputs:  the operands != -1 are split IN ORDER into those whose position is in `indices` and the rest;
    updated_indices[m] is the position of selected[m] among the operands != -1 (i.e. its position in a list from which the -1 entries are removed).
    requires: every operand is -1 or indexes subgraph_tensors; `indices` is a list."""
    fields = {'op': 'ref', 'inputs': 'list[int]', 'outputs': 'list[int]', 'subgraph_tensors': 'list[ref]'}
    def bind(self, E, p):
        h = p.heap; S = self
        S.oi, S.gi, S.idx, S.inb = z3.Const('op_info', Ref), z3.Const('graph_info', Ref), z3.Const('indices', Ref), z3.Bool('is_inbounding_tensor')
        p.env.update(op_info=V('ref', S.oi), graph_info=V('ref', S.gi), indices=V('list[int]', S.idx), is_inbounding_tensor=vbool(S.inb))
        for f in list(self.fields) + ['$len', '$items:int', '$items:ref']: h.arr(f)
        S.h0 = h.copy(); h0 = S.h0
        S.op = h0.load(S.oi, 'op'); S.tl = If(S.inb, h0.load(S.op, 'inputs'), h0.load(S.op, 'outputs')); S.st = h0.load(S.gi, 'subgraph_tensors')
        S.n, S.NT, S.ni = ln(h0, S.tl), ln(h0, S.st), ln(h0, S.idx)
        objs = [S.oi, S.gi, S.idx, S.op, h0.load(S.op, 'inputs'), h0.load(S.op, 'outputs'), S.st]
        p.pc += [z3.Distinct(*objs)] + [x != NULL for x in objs] + [h.alloc[x] for x in objs] + [S.n >= 0, S.NT >= 0, S.ni >= 0]
        S.T0, S.X0, S.ST0 = items_i(h0, S.tl), items_i(h0, S.idx), items_r(h0, S.st)
        F = p.facts.append
        F(Schematic(1, lambda k: Implies(And(0 <= k, k < S.n), And(-1 <= S.T0[k], S.T0[k] < S.NT)), 'req:operands-are--1-or-tensor-indices'))
        S.present = lambda k: S.T0[k] != -1
        S.inidx = z3.Function('inidx', I, Bo); S.iw = z3.Function('inidx_w', I, I)
        F(Schematic(1, lambda k: Implies(S.inidx(k), And(0 <= S.iw(k), S.iw(k) < S.ni, S.X0[S.iw(k)] == k)), 'ghost:inidx-def1'))
        F(Schematic(1, lambda j: Implies(And(0 <= j, j < S.ni), S.inidx(S.X0[j])), 'ghost:inidx-def2'))
        S.sel = lambda k: And(S.present(k), S.inidx(k)); S.oth = lambda k: And(S.present(k), Not(S.inidx(k)))
        S.pc_ = counter('pcnt', S.n, S.present, p.facts); S.sc = counter('scnt', S.n, S.sel, p.facts); S.oc = counter('ocnt', S.n, S.oth, p.facts)
        p.pc += [S.pc_(0) == 0, S.sc(0) == 0, S.oc(0) == 0]
        # ghost witnesses: sw(i, m) = the position j < i with sel(j) and scnt(j) == m (same for ow / others)
        S.sw = z3.Function('sel_at', I, I, I); S.ow = z3.Function('oth_at', I, I, I)
        F(Schematic(2, lambda i, m: Implies(And(0 <= i, i < S.n), S.sw(i + 1, m) == If(And(S.sel(i), m == S.sc(i)), i, S.sw(i, m))), 'ghost:sel_at-step'))
        F(Schematic(2, lambda i, m: Implies(And(0 <= i, i < S.n), S.ow(i + 1, m) == If(And(S.oth(i), m == S.oc(i)), i, S.ow(i, m))), 'ghost:oth_at-step'))
        S.kinds = kinds_by_target(E.node, {'updated_indices': 'int', 'selected_tensors': 'ref', 'others': 'ref'})
    def empty_list_kind(self, line): return self.kinds.get(line, 'int')
    def bounds(self, E): return [self.n, self.NT, self.ni]
    def frame_kept(self, h):
        S = self
        return [('inputs-kept', And(ln(h, S.tl) == S.n, ln(h, S.idx) == S.ni, ln(h, S.st) == S.NT, items_i(h, S.tl) == S.T0, items_i(h, S.idx) == S.X0, items_r(h, S.st) == S.ST0))]
    def lists(self, env):
        return env['selected_tensors'].term, env['others'].term, env['updated_indices'].term
    def facts(self, ctx, h, i, sl, ol, ul):
        """the characterisation of the three lists after the first i operands (shared by the invariant, i = loop index, and the postcondition, i = n)"""
        S = self; SEL, OTH, UPD = items_r(h, sl), items_r(h, ol), items_i(h, ul)
        return [('lengths', And(ln(h, sl) == S.sc(i), ln(h, ul) == S.sc(i), ln(h, ol) == S.oc(i), S.pc_(i) == S.sc(i) + S.oc(i))),
                ('selected-placed', ctx.forall(1, lambda j: Implies(And(0 <= j, j < i, S.sel(j)), And(0 <= S.sc(j), S.sc(j) < S.sc(i), SEL[S.sc(j)] == S.ST0[S.T0[j]], UPD[S.sc(j)] == S.pc_(j))))),
                ('others-placed', ctx.forall(1, lambda j: Implies(And(0 <= j, j < i, S.oth(j)), And(0 <= S.oc(j), S.oc(j) < S.oc(i), OTH[S.oc(j)] == S.ST0[S.T0[j]])))),
                ('selected-onto', ctx.forall(1, lambda m: Implies(And(0 <= m, m < S.sc(i)), And(0 <= S.sw(i, m), S.sw(i, m) < i, S.sel(S.sw(i, m)), S.sc(S.sw(i, m)) == m,
                                                                  SEL[m] == S.ST0[S.T0[S.sw(i, m)]], UPD[m] == S.pc_(S.sw(i, m)), 0 <= UPD[m], UPD[m] < S.pc_(i))))),
                ('others-onto', ctx.forall(1, lambda m: Implies(And(0 <= m, m < S.oc(i)), And(0 <= S.ow(i, m), S.ow(i, m) < i, S.oth(S.ow(i, m)), S.oc(S.ow(i, m)) == m,
                                                                OTH[m] == S.ST0[S.T0[S.ow(i, m)]])))),
                ('updated-indices-strictly-increasing', ctx.forall(1, lambda m: Implies(And(0 <= m, m + 1 < S.sc(i)), UPD[m] < UPD[m + 1])))]
    def inv0(self, E, ctx, p, pre, i):
        S = self; h = p.heap; sl, ol, ul = self.lists(pre.env)
        return [('i-range', And(0 <= i, i <= S.n)), ('updated_index-is-compacted-position', p.env['updated_index'].term == S.pc_(i))] \
               + counter_inv(ctx, S.pc_, i, 'pcnt') + counter_inv(ctx, S.sc, i, 'scnt') + counter_inv(ctx, S.oc, i, 'ocnt') + self.facts(ctx, h, i, sl, ol, ul) + self.frame_kept(h)
    @property
    def invariants(self): return {0: self.inv0}
    def may_write(self, E, p, ref, field): return z3.BoolVal(False)
    def ensures(self, E, ctx, p, ret):
        S = self; h = p.heap; sl, ol, ul = [v.term for v in ret.kw['elts']]
        return [('results-fresh', And(Not(S.h0.alloc[sl]), Not(S.h0.alloc[ol]), Not(S.h0.alloc[ul]), z3.Distinct(sl, ol, ul)))] + self.facts(ctx, h, S.n, sl, ol, ul) \
               + [('updated-indices-below-number-of-present-operands', ctx.forall(1, lambda m: Implies(And(0 <= m, m < ln(h, ul)), And(0 <= items_i(h, ul)[m], items_i(h, ul)[m] < S.pc_(S.n)))))] + self.frame_kept(h)

# ------------------------------------------------------------------------------------------------ ParamsGenerator._get_params_for_no_quant_op
QT_CODES = {'NO_QUANTIZE': 0, 'ADD_QUANTIZE': 1, 'ADD_DEQUANTIZE': 2, 'QUANTIZE_TENSOR': 3, 'EMULATED_SUBCHANNEL': 4}     # qtyping.QuantTransformation values, written here
tname = z3.Function('tensor_name_of', Ref, Str)        # tfl_flatbuffer_utils.get_tensor_name (uninterpreted pure function of the tensor object)
class NoQuantOp(Spec):
    """_get_params_for_no_quant_op(self, subgraph_op_id, op, subgraph_tensors) -> one TensorTransformationParams per operand != -1, inputs first then outputs, in order;
    an input entry has producer None and exactly one consumer entry, an output entry has consumers None and a producer entry; that entry is
    OpToTensorParams(subgraph_op_id, [NO_QUANTIZE], parameters=None).   requires: every operand is -1 or indexes subgraph_tensors."""
    fields = {'inputs': 'list[int]', 'outputs': 'list[int]', 'subgraph_op_id': 'int', 'transformations': 'list[int]', 'parameters': 'ref', 'tensor_name': 'str', 'producer': 'ref', 'consumers': 'list[ref]'}
    consts = {f'_QuantTrans.{k}': v for k, v in QT_CODES.items()}
    constructors = {'qtyping.OpToTensorParams': ['subgraph_op_id', 'transformations', 'parameters'], 'qtyping.TensorTransformationParams': ['tensor_name', 'producer', 'consumers']}
    constructor_defaults = {'qtyping.OpToTensorParams': ['parameters'], 'qtyping.TensorTransformationParams': ['producer', 'consumers']}
    loops_may_allocate = True
    def __init__(self):
        self.callees = {'tfl_flatbuffer_utils.get_tensor_name': lambda E, p, args, kw, node: V('str', tname(args[0].term))}
        self.invariants = {0: self.inv_in, 1: self.inv_out}
    def bind(self, E, p):
        h = p.heap; S = self
        S.self_, S.op, S.st, S.oid = z3.Const('self', Ref), z3.Const('op', Ref), z3.Const('subgraph_tensors', Ref), z3.Int('subgraph_op_id')
        p.env.update(self=V('ref', S.self_), subgraph_op_id=vint(S.oid), op=V('ref', S.op), subgraph_tensors=V('list[ref]', S.st))
        for f in list(self.fields) + ['$len', '$items:int', '$items:ref']: h.arr(f)
        S.h0 = h.copy(); h0 = S.h0
        S.inl, S.outl = h0.load(S.op, 'inputs'), h0.load(S.op, 'outputs')
        S.n_in, S.n_out, S.NT = ln(h0, S.inl), ln(h0, S.outl), ln(h0, S.st)
        S.objs = [S.op, S.st, S.inl, S.outl]
        p.pc += [z3.Distinct(*S.objs)] + [x != NULL for x in S.objs] + [h.alloc[x] for x in S.objs] + [S.n_in >= 0, S.n_out >= 0, S.NT >= 0]
        S.IN, S.OUT, S.ST0 = items_i(h0, S.inl), items_i(h0, S.outl), items_r(h0, S.st)
        F = p.facts.append
        F(Schematic(1, lambda k: Implies(And(0 <= k, k < S.n_in), And(-1 <= S.IN[k], S.IN[k] < S.NT)), 'req:inputs-are--1-or-tensor-indices'))
        F(Schematic(1, lambda k: Implies(And(0 <= k, k < S.n_out), And(-1 <= S.OUT[k], S.OUT[k] < S.NT)), 'req:outputs-are--1-or-tensor-indices'))
        S.ci = counter('in_cnt', S.n_in, lambda k: S.IN[k] != -1, p.facts); S.co = counter('out_cnt', S.n_out, lambda k: S.OUT[k] != -1, p.facts)
        p.pc += [S.ci(0) == 0, S.co(0) == 0]
        S.kinds = kinds_by_target(E.node, {'tensor_params': 'ref'})
    def roots(self, E): return self.objs
    def empty_list_kind(self, line): return self.kinds.get(line, 'int')
    def bounds(self, E): return [self.n_in, self.n_out, self.NT]
    def may_write(self, E, p, ref, field): return z3.BoolVal(False)
    def entry_ok(self, h, e, r):
        """e is OpToTensorParams(subgraph_op_id, [NO_QUANTIZE], None); r = the result list (a different object from every list hanging off an entry)"""
        tl = h.load(e, 'transformations')
        return And(e != NULL, h.alloc[e], tl != r, h.load(e, 'subgraph_op_id') == self.oid, tl != NULL, h.alloc[tl], ln(h, tl) == 1, items_i(h, tl)[0] == QT_CODES['NO_QUANTIZE'], h.load(e, 'parameters') == NULL)
    def input_entry(self, h, x, j, r):
        cl = h.load(x, 'consumers')
        return And(cl != r, x != NULL, h.alloc[x], h.load(x, 'tensor_name') == tname(self.ST0[self.IN[j]]), h.load(x, 'producer') == NULL, cl != NULL, h.alloc[cl], ln(h, cl) == 1, self.entry_ok(h, items_r(h, cl)[0], r))
    def output_entry(self, h, x, j, r):
        return And(x != NULL, h.alloc[x], h.load(x, 'tensor_name') == tname(self.ST0[self.OUT[j]]), h.load(x, 'consumers') == NULL, self.entry_ok(h, h.load(x, 'producer'), r))
    def kept(self, h):
        S = self
        return [('inputs-kept', And(ln(h, S.inl) == S.n_in, ln(h, S.outl) == S.n_out, ln(h, S.st) == S.NT, items_i(h, S.inl) == S.IN, items_i(h, S.outl) == S.OUT, items_r(h, S.st) == S.ST0))]
    def in_facts(self, ctx, h, R, i, r):
        S = self
        return [('input-entries', ctx.forall(1, lambda j: Implies(And(0 <= j, j < i, S.IN[j] != -1), And(0 <= S.ci(j), S.ci(j) < S.ci(i), self.input_entry(h, R[S.ci(j)], j, r)))))]
    def inv_in(self, E, ctx, p, pre, i):
        S = self; h = p.heap; r = pre.env['tensor_params'].term; R = items_r(h, r)
        return [('i-range', And(0 <= i, i <= S.n_in)), ('result-allocated', And(h.alloc[r], Not(S.h0.alloc[r]))), ('length', ln(h, r) == S.ci(i))] + counter_inv(ctx, S.ci, i, 'in_cnt') + self.in_facts(ctx, h, R, i, r) + self.kept(h)
    def out_facts(self, ctx, h, R, i, r):
        S = self
        return [('output-entries', ctx.forall(1, lambda j: Implies(And(0 <= j, j < i, S.OUT[j] != -1), And(0 <= S.co(j), S.co(j) < S.co(i), self.output_entry(h, R[S.ci(S.n_in) + S.co(j)], j, r)))))]
    def inv_out(self, E, ctx, p, pre, i):
        S = self; h = p.heap; r = pre.env['tensor_params'].term; R = items_r(h, r)
        return [('i-range', And(0 <= i, i <= S.n_out)), ('result-allocated', And(h.alloc[r], Not(S.h0.alloc[r]))), ('length', ln(h, r) == S.ci(S.n_in) + S.co(i)), ('in-count-nonneg', S.ci(S.n_in) >= 0)] \
               + counter_inv(ctx, S.co, i, 'out_cnt') + self.in_facts(ctx, h, R, S.n_in, r) + self.out_facts(ctx, h, R, i, r) + self.kept(h)
    def ensures(self, E, ctx, p, ret):
        S = self; h = p.heap; r = ret.term; R = items_r(h, r)
        return [('result-fresh', Not(S.h0.alloc[r])), ('one-entry-per-operand-present', ln(h, r) == S.ci(S.n_in) + S.co(S.n_out))] + self.in_facts(ctx, h, R, S.n_in, r) + self.out_facts(ctx, h, R, S.n_out, r) + self.kept(h)

# ------------------------------------------------------------------------------------------------ _materialize_ignored_tensors
class MaterializeIgnored(NoQuantOp):
    """_materialize_ignored_tensors(tensors, op_info, is_inbounding_tensor) -> result[m] is the entry of tensors[m]: named after it, on the consumer side
    (inbound) or the producer side (outbound), OpToTensorParams(op_info.subgraph_op_index, [NO_QUANTIZE], parameters=None)"""
    fields = dict(NoQuantOp.fields, subgraph_op_index='int')
    consts = {f'qtyping.QuantTransformation.{k}': v for k, v in QT_CODES.items()}
    def __init__(self):
        NoQuantOp.__init__(self); self.invariants = {0: self.inv0}
    def bind(self, E, p):
        h = p.heap; S = self
        S.ts, S.oi, S.inb = z3.Const('tensors', Ref), z3.Const('op_info', Ref), z3.Bool('is_inbounding_tensor')
        p.env.update(tensors=V('list[ref]', S.ts), op_info=V('ref', S.oi), is_inbounding_tensor=vbool(S.inb))
        for f in list(self.fields) + ['$len', '$items:int', '$items:ref']: h.arr(f)
        S.h0 = h.copy(); h0 = S.h0
        S.n = ln(h0, S.ts); S.T0 = items_r(h0, S.ts); S.oid = h0.load(S.oi, 'subgraph_op_index'); S.objs = [S.ts, S.oi]
        p.pc += [S.ts != S.oi, S.ts != NULL, S.oi != NULL, h.alloc[S.ts], h.alloc[S.oi], S.n >= 0]
        S.kinds = kinds_by_target(E.node, {'op_ignored_tensor_params': 'ref'})
    def bounds(self, E): return [self.n]
    def entry(self, h, x, j, r):
        cl = h.load(x, 'consumers')
        return And(x != NULL, h.alloc[x], h.load(x, 'tensor_name') == tname(self.T0[j]),
                   If(self.inb, And(h.load(x, 'producer') == NULL, cl != NULL, cl != r, h.alloc[cl], ln(h, cl) == 1, self.entry_ok(h, items_r(h, cl)[0], r)),
                      And(cl == NULL, self.entry_ok(h, h.load(x, 'producer'), r))))
    def facts(self, ctx, h, r, i):
        S = self; R = items_r(h, r)
        return [('length', ln(h, r) == i), ('entries', ctx.forall(1, lambda j: Implies(And(0 <= j, j < i), self.entry(h, R[j], j, r)))),
                ('inputs-kept', And(ln(h, S.ts) == S.n, items_r(h, S.ts) == S.T0, h.load(S.oi, 'subgraph_op_index') == S.oid))]
    def inv0(self, E, ctx, p, pre, i):
        S = self; h = p.heap; r = pre.env['op_ignored_tensor_params'].term
        return [('i-range', And(0 <= i, i <= S.n)), ('result-allocated', And(h.alloc[r], Not(S.h0.alloc[r])))] + self.facts(ctx, h, r, i)
    def ensures(self, E, ctx, p, ret):
        return [('result-fresh', Not(self.h0.alloc[ret.term]))] + self.facts(ctx, p.heap, ret.term, self.n)

# ------------------------------------------------------------------------------------------------ _merge_materialized_tensors
class MergeMaterialized(Spec):
    """_merge_materialized_tensors(tensor_params, ignored_in, ignored_out, op_info, inputs_to_ignore, outputs_to_ignore) -> the entries in operand order:
       NI / NO = number of inputs / outputs != -1;  result has NI + NO entries;
       result[i]      == ignored_in[icnt(i)]  if i in inputs_to_ignore  else tensor_params[i - icnt(i)]                        (i < NI)
       result[NI + i] == ignored_out[ocnt(i)] if i in outputs_to_ignore else tensor_params[(NI - icnt(NI)) + i - ocnt(i)]      (i < NO)
    where icnt(i) / ocnt(i) count the ignored positions below i.
    requires (its single call site, materialize_standard_op): |ignored_in| == icnt(NI) == |inputs_to_ignore|, same for outputs,
             |tensor_params| == (NI - icnt(NI)) + (NO - ocnt(NO))."""
    fields = {'op': 'ref', 'inputs': 'list[int]', 'outputs': 'list[int]'}
    def __init__(self): self.invariants = {0: self.inv_in, 1: self.inv_out}
    def bind(self, E, p):
        h = p.heap; S = self; C = lambda n: z3.Const(n, Ref)
        S.tp, S.gi, S.go, S.oi, S.ii, S.io = C('tensor_params'), C('ignored_input_tensor_params'), C('ignored_output_tensor_params'), C('op_info'), C('inputs_to_ignore'), C('outputs_to_ignore')
        p.env.update(tensor_params=V('list[ref]', S.tp), ignored_input_tensor_params=V('list[ref]', S.gi), ignored_output_tensor_params=V('list[ref]', S.go), op_info=V('ref', S.oi),
                     inputs_to_ignore=V('list[int]', S.ii), outputs_to_ignore=V('list[int]', S.io))
        for f in list(self.fields) + ['$len', '$items:int', '$items:ref']: h.arr(f)
        S.h0 = h.copy(); h0 = S.h0
        S.op = h0.load(S.oi, 'op'); S.inl, S.outl = h0.load(S.op, 'inputs'), h0.load(S.op, 'outputs')
        S.objs = [S.tp, S.gi, S.go, S.oi, S.ii, S.io, S.op, S.inl, S.outl]
        S.lens = [ln(h0, x) for x in (S.tp, S.gi, S.go, S.ii, S.io, S.inl, S.outl)]
        p.pc += [z3.Distinct(*S.objs)] + [x != NULL for x in S.objs] + [h.alloc[x] for x in S.objs] + [l >= 0 for l in S.lens]
        S.n_in, S.n_out = ln(h0, S.inl), ln(h0, S.outl); S.IN, S.OUT = items_i(h0, S.inl), items_i(h0, S.outl)
        S.TP, S.GI, S.GO, S.II, S.IO = items_r(h0, S.tp), items_r(h0, S.gi), items_r(h0, S.go), items_i(h0, S.ii), items_i(h0, S.io)
        S.nII, S.nIO = ln(h0, S.ii), ln(h0, S.io)
        S.pin = lambda k: S.IN[k] != -1; S.pout = lambda k: S.OUT[k] != -1
        S.ci = counter('in_cnt', S.n_in, S.pin, p.facts); S.co = counter('out_cnt', S.n_out, S.pout, p.facts); p.pc += [S.ci(0) == 0, S.co(0) == 0]
        S.NI, S.NO = S.ci(S.n_in), S.co(S.n_out)
        F = p.facts.append
        S.iin = z3.Function('iin', I, Bo); S.iw = z3.Function('iin_w', I, I); S.oin = z3.Function('oin', I, Bo); S.ow = z3.Function('oin_w', I, I)
        F(Schematic(1, lambda k: Implies(S.iin(k), And(0 <= S.iw(k), S.iw(k) < S.nII, S.II[S.iw(k)] == k)), 'ghost:iin-def1'))
        F(Schematic(1, lambda j: Implies(And(0 <= j, j < S.nII), S.iin(S.II[j])), 'ghost:iin-def2'))
        F(Schematic(1, lambda k: Implies(S.oin(k), And(0 <= S.ow(k), S.ow(k) < S.nIO, S.IO[S.ow(k)] == k)), 'ghost:oin-def1'))
        F(Schematic(1, lambda j: Implies(And(0 <= j, j < S.nIO), S.oin(S.IO[j])), 'ghost:oin-def2'))
        # lemmas about the operand counters first (NI, NO >= 0 bound the ranges of the next counters)
        induction(E, p, 'in_cnt-bounds', S.n_in, lambda k: And(0 <= S.ci(k), S.ci(k) <= k)); induction(E, p, 'out_cnt-bounds', S.n_out, lambda k: And(0 <= S.co(k), S.co(k) <= k))
        S.ic = counter('icnt', S.NI, S.iin, p.facts); S.oc = counter('ocnt', S.NO, S.oin, p.facts); p.pc += [S.ic(0) == 0, S.oc(0) == 0]
        for nme, cnt, N, ln_ in (('icnt', S.ic, S.NI, S.nII), ('ocnt', S.oc, S.NO, S.nIO)):
            induction(E, p, f'{nme}-bounds', N, lambda k, cnt=cnt: And(0 <= cnt(k), cnt(k) <= k))
            induction(E, p, f'{nme}-monotone', N, lambda k, j, cnt=cnt: Implies(And(0 <= j, j <= k), And(cnt(j) <= cnt(k), j - cnt(j) <= k - cnt(k))), arity=1)
            induction(E, p, f'{nme}-zero-when-list-empty', N, lambda k, cnt=cnt, ln_=ln_: Implies(ln_ == 0, cnt(k) == 0))
        # requires (call site)
        p.pc += [ln(h0, S.gi) == S.ic(S.NI), S.nII == S.ic(S.NI), ln(h0, S.go) == S.oc(S.NO), S.nIO == S.oc(S.NO), ln(h0, S.tp) == (S.NI - S.ic(S.NI)) + (S.NO - S.oc(S.NO))]
        S.kinds = kinds_by_target(E.node, {'result_tensor_params': 'ref'})
    def comp_counter(self, E, k, src): return [(self.ci, self.pin), (self.co, self.pout)][k] if k < 2 else None
    def empty_list_kind(self, line): return self.kinds.get(line, 'int')
    def bounds(self, E): return self.lens
    def may_write(self, E, p, ref, field): return z3.BoolVal(False)
    def kept(self, h):
        S = self
        return [('inputs-kept', And(*[ln(h, x) == l for x, l in zip((S.tp, S.gi, S.go, S.ii, S.io, S.inl, S.outl), S.lens)], items_r(h, S.tp) == S.TP, items_r(h, S.gi) == S.GI, items_r(h, S.go) == S.GO,
                                    items_i(h, S.ii) == S.II, items_i(h, S.io) == S.IO, items_i(h, S.inl) == S.IN, items_i(h, S.outl) == S.OUT))]
    def in_part(self, ctx, R, i):
        S = self
        return ctx.forall(1, lambda j: Implies(And(0 <= j, j < i), R[j] == If(S.iin(j), S.GI[S.ic(j)], S.TP[j - S.ic(j)])))
    def out_part(self, ctx, R, i):
        S = self; start = S.NI - S.ic(S.NI)
        return ctx.forall(1, lambda j: Implies(And(0 <= j, j < i), R[S.NI + j] == If(S.oin(j), S.GO[S.oc(j)], S.TP[start + j - S.oc(j)])))
    def inv_in(self, E, ctx, p, pre, i):
        S = self; h = p.heap; r = pre.env['result_tensor_params'].term; R = items_r(h, r)
        return [('i-range', And(0 <= i, i <= S.NI)), ('result-fresh', Not(S.h0.alloc[r])), ('indices', And(p.env['ignored_input_idx'].term == S.ic(i), p.env['input_idx'].term == i - S.ic(i))),
                ('length', ln(h, r) == i), ('aligned-inputs', self.in_part(ctx, R, i))] + self.kept(h)
    def inv_out(self, E, ctx, p, pre, i):
        S = self; h = p.heap; r = pre.env['result_tensor_params'].term; R = items_r(h, r)
        return [('i-range', And(0 <= i, i <= S.NO)), ('result-fresh', Not(S.h0.alloc[r])),
                ('indices', And(p.env['ignored_output_idx'].term == S.oc(i), p.env['output_idx'].term == (S.NI - S.ic(S.NI)) + i - S.oc(i))),
                ('length', ln(h, r) == S.NI + i), ('aligned-inputs', self.in_part(ctx, R, S.NI)), ('aligned-outputs', self.out_part(ctx, R, i))] + self.kept(h)
    def ensures(self, E, ctx, p, ret):
        S = self; h = p.heap; r = ret.term; R = items_r(h, r)
        return [('one-entry-per-present-operand', ln(h, r) == S.NI + S.NO), ('aligned-inputs', self.in_part(ctx, R, S.NI)), ('aligned-outputs', self.out_part(ctx, R, S.NO)),
                ('same-list-when-nothing-is-ignored', Implies(And(S.nII == 0, S.nIO == 0), r == S.tp))] + self.kept(h)

# ------------------------------------------------------------------------------------------------ _add_non_match_tensors_to_ignored_lists
class AddNonMatch(Spec):
    """_add_non_match_tensors_to_ignored_lists(op, subgraph_tensors, dtypes_to_keep, inputs_to_ignore, outputs_to_ignore) -> (ri, ro):
    ri is a duplicate-free list (arbitrary order) of exactly the positions x of op.inputs with  NOT keep(x)  or  x in inputs_to_ignore,
    keep(x) = subgraph_tensors[op.inputs[x]].type in dtypes_to_keep (python indexing: a -1 operand looks at the last tensor); same for outputs.
    _tensor_indices_with_dtype is used by its (proved) contract.   requires: operands are -1 or tensor indices; at least one tensor."""
    fields = {'inputs': 'list[int]', 'outputs': 'list[int]', 'type': 'int'}
    value_quantified_hypotheses = True
    def __init__(self):
        self.callees = {'_tensor_indices_with_dtype': self.k_tiwd}; self.calls = []
    def bind(self, E, p):
        h = p.heap; S = self; C = lambda n: z3.Const(n, Ref)
        S.op, S.st, S.keep, S.ii, S.io = C('op'), C('subgraph_tensors'), C('dtypes_to_keep'), C('inputs_to_ignore'), C('outputs_to_ignore')
        p.env.update(op=V('ref', S.op), subgraph_tensors=V('list[ref]', S.st), dtypes_to_keep=V('list[int]', S.keep), inputs_to_ignore=V('list[int]', S.ii), outputs_to_ignore=V('list[int]', S.io))
        for f in list(self.fields) + ['$len', '$items:int', '$items:ref', SETF]: h.arr(f)
        S.h0 = h.copy(); h0 = S.h0
        S.inl, S.outl = h0.load(S.op, 'inputs'), h0.load(S.op, 'outputs')
        objs = [S.op, S.st, S.keep, S.ii, S.io, S.inl, S.outl]; S.lens = [ln(h0, x) for x in objs[1:]]
        p.pc += [z3.Distinct(*objs)] + [x != NULL for x in objs] + [h.alloc[x] for x in objs] + [l >= 0 for l in S.lens]
        S.NT, S.nk = ln(h0, S.st), ln(h0, S.keep); S.ST0, S.K0 = items_r(h0, S.st), items_i(h0, S.keep)
        p.pc.append(S.NT >= 1)
        S.side = {}
        for nme, lst, ign in (('in', S.inl, S.ii), ('out', S.outl, S.io)):
            n = ln(h0, lst); T0 = items_i(h0, lst); X0 = items_i(h0, ign); ni = ln(h0, ign)
            p.facts.append(Schematic(1, lambda k, n=n, T0=T0: Implies(And(0 <= k, k < n), And(-1 <= T0[k], T0[k] < S.NT)), f'req:{nme}-operands-are--1-or-tensor-indices'))
            ty = lambda k, T0=T0: h0.load(S.ST0[If(T0[k] < 0, T0[k] + S.NT, T0[k])], 'type')
            sel = z3.Function(f'keep_{nme}', I, Bo); sw = z3.Function(f'keep_{nme}_w', I, I); ig = z3.Function(f'ign_{nme}', I, Bo); igw = z3.Function(f'ign_{nme}_w', I, I)
            p.facts.append(Schematic(1, lambda k, n=n, sel=sel, sw=sw, ty=ty: Implies(And(0 <= k, k < n, sel(k)), And(0 <= sw(k), sw(k) < S.nk, S.K0[sw(k)] == ty(k))), f'ghost:keep_{nme}-def1'))
            p.facts.append(Schematic(2, lambda k, j, n=n, sel=sel, ty=ty: Implies(And(0 <= k, k < n, 0 <= j, j < S.nk, S.K0[j] == ty(k)), sel(k)), f'ghost:keep_{nme}-def2'))
            p.facts.append(Schematic(1, lambda x, ig=ig, igw=igw, ni=ni, X0=X0: Implies(ig(x), And(0 <= igw(x), igw(x) < ni, X0[igw(x)] == x)), f'ghost:ign_{nme}-def1'))
            p.facts.append(Schematic(1, lambda j, ig=ig, ni=ni, X0=X0: Implies(And(0 <= j, j < ni), ig(X0[j])), f'ghost:ign_{nme}-def2'))
            S.side[nme] = dict(n=n, sel=sel, ign=ig, lst=lst, T0=T0)
    def bounds(self, E): return self.lens
    def may_write(self, E, p, ref, field): return z3.BoolVal(False)
    def k_tiwd(self, E, p, args, kw, node):
        """callee by contract (TensorIndicesWithDtype): requires entries index subgraph_tensors; returns a fresh list R of positions with
        R[m] in range and selected, and every selected position listed at index rank(j) < len(R)"""
        S = self; tensors, sts, codes = args; h = p.heap
        side = next((d for d in S.side.values() if True), None)
        nme = 'in' if len(S.calls) == 0 else 'out'; d = S.side[nme]; S.calls.append(nme)
        sk = fresh('pre_k', I)
        E.emit(p, f'pre:_tensor_indices_with_dtype.arguments-are-the-{nme}put-list-and-tables@{node.lineno}', And(tensors.term == d['lst'], sts.term == S.st, codes.term == S.keep), node.lineno)
        E.emit(p, f'pre:_tensor_indices_with_dtype.entries-index-subgraph_tensors@{node.lineno}', Implies(And(0 <= sk, sk < d['n']), And(-S.NT <= d['T0'][sk], d['T0'][sk] < S.NT)), node.lineno)
        p.pc += [tensors.term == d['lst'], sts.term == S.st, codes.term == S.keep]
        r = p.heap.new(p, 'tiwd'); R = fresh('tiwd_items', z3.ArraySort(I, I)); nr = fresh('tiwd_len', I); rank = z3.Function(f'rank_{nme}', I, I)
        p.pc.append(nr >= 0)
        p.facts.append(Schematic(1, lambda m: Implies(And(0 <= m, m < nr), And(0 <= R[m], R[m] < d['n'], d['sel'](R[m]))), f'post:tiwd-{nme}-entries'))
        p.facts.append(Schematic(1, lambda j: Implies(And(0 <= j, j < d['n'], d['sel'](j)), And(0 <= rank(j), rank(j) < nr, R[rank(j)] == j)), f'post:tiwd-{nme}-complete'))
        h.store(r, '$items:int', R); h.store(r, '$len', nr); E.sig(R, p, r, '$items:int')
        return V('list[int]', r)
    def ensures(self, E, ctx, p, ret):
        S = self; h = p.heap; out = []
        for (nme, v) in zip(('in', 'out'), ret.kw['elts']):
            d = S.side[nme]; r = v.term; R = items_i(h, r); nr = ln(h, r)
            w = next((w_ for (r_, w_, has_) in getattr(E, 'set_lists', []) if r_.eq(r)), z3.Function(f'no_witness_{nme}', I, I))      # the witness of list(<set>) when the result is one
            want = lambda x, d=d: Or(Not(d['sel'](x)), d['ign'](x))
            out += [(f'{nme}puts:result-fresh', Not(S.h0.alloc[r])),
                    (f'{nme}puts:every-entry-is-a-position-that-is-not-kept-or-was-ignored', ctx.forall(1, lambda k, R=R, nr=nr, d=d, want=want: Implies(And(0 <= k, k < nr), And(0 <= R[k], R[k] < d['n'], want(R[k]))))),
                    (f'{nme}puts:every-such-position-is-listed', ctx.forall(1, lambda x, R=R, nr=nr, d=d, want=want, w=w: Implies(And(0 <= x, x < d['n'], want(x)), And(0 <= w(x), w(x) < nr, R[w(x)] == x)))),
                    (f'{nme}puts:no-duplicates', ctx.forall(2, lambda k, j, R=R, nr=nr: Implies(And(0 <= k, k < j, j < nr), R[k] != R[j])))]
        out.append(('arguments-kept', And(*[ln(h, x) == l for x, l in zip((S.st, S.keep, S.ii, S.io, S.inl, S.outl), S.lens)], items_i(h, S.ii) == items_i(S.h0, S.ii), items_i(h, S.io) == items_i(S.h0, S.io),
                                            items_i(h, S.inl) == items_i(S.h0, S.inl), items_i(h, S.outl) == items_i(S.h0, S.outl))))
        return out
