"""C08 — raise-site census over the REAL source (re-read on every run) and the call-graph side of the unreachability arguments.

Built on vlib/effects.py (function table, import map, call resolution incl. registry dispatch resolved from algorithm_manager.py's own
registration code).  `CallGraph` is the effects analysis with one addition: every resolved call is also recorded per CALL SITE
(caller, line, column) so that an edge can be related to the `try` statement it sits in.

Site ids use the ORDINAL of the raise statement inside its function (source order), not the line number:
    C08/<module>.<qualname>/raise@<k>:<ExceptionType>          explicit `raise`
    C08/<module>.<qualname>/remove@<k>:ValueError              implicit: `<list>.remove(x)` (ValueError when x is absent)
Nothing else is an obligation: other implicitly raising operations (subscripts, dict look-ups, next(iter(..)), numpy shape errors,
attribute access on None) are NOT enumerated; they are exercised by the bounded stand-in only (stated in the evidence)."""
import ast, collections
from vlib import core, effects

Q = 'quantizer.py'
ROOTS = [(Q, 'Quantizer.__init__'), (Q, 'Quantizer.load_quantization_recipe'), (Q, 'Quantizer.calibrate'), (Q, 'Quantizer.quantize'),
         (Q, 'Quantizer.need_calibration')]

def modname(rel): return rel[:-3].replace('/', '.')

class CallGraph(effects.Analysis):
    def __init__(self, pkg, overrides=None):
        super().__init__(pkg, overrides)
        self.site_edges = collections.defaultdict(set)        # (caller key, line, col) -> {callee key}
    def apply_fn(self, fi, node, key, selfav, args, npre):
        if key in self.prog.fns:
            self.site_edges[(fi.key, getattr(node, 'lineno', 0), getattr(node, 'col_offset', 0))].add(key)
        return super().apply_fn(fi, node, key, selfav, args, npre)

def exc_name(node):
    """name of the exception class of a `raise` statement"""
    e = node.exc
    if e is None: return 'reraise'
    if isinstance(e, ast.Call): e = e.func
    if isinstance(e, ast.Attribute): return e.attr
    if isinstance(e, ast.Name): return e.id
    return 'Exception'

SUPER = {'ValueError': ('ValueError', 'Exception', 'BaseException'), 'RuntimeError': ('RuntimeError', 'Exception', 'BaseException'),
         'KeyError': ('KeyError', 'LookupError', 'Exception', 'BaseException'), 'FileExistsError': ('FileExistsError', 'OSError', 'Exception', 'BaseException')}
def catches(handler_types, exc):
    """handler_types: set of names caught by one try statement ('*' = bare except)"""
    return '*' in handler_types or any(s in handler_types for s in SUPER.get(exc, (exc, 'Exception', 'BaseException')))

def _handler_names(h):
    if h.type is None: return {'*'}
    t = h.type
    if isinstance(t, ast.Tuple): return {(x.attr if isinstance(x, ast.Attribute) else getattr(x, 'id', '?')) for x in t.elts}
    return {t.attr if isinstance(t, ast.Attribute) else getattr(t, 'id', '?')}

class FnFacts:
    """per function: raise / remove sites with the chain of enclosing tests, and for every position the exception names caught around it"""
    def __init__(self, fi, src):
        self.fi = fi; self.sites = []; self.protect = {}       # (line, col) -> list of handler-name sets (one per enclosing try whose handlers do not re-raise)
        self.cond_at = {}; self.call_at = {}                    # (line, col) of every Call -> chain of enclosing tests / the Call node
        self._walk(fi.node.body if fi.kind != 'module' else [], [], [])
        self.sites.sort(key=lambda s: (s['line'], s['col']))
        n = collections.Counter()
        for s in self.sites:
            n[s['kind']] += 1; s['ordinal'] = n[s['kind']]
            s['id'] = f"C08/{modname(fi.rel)}.{fi.qual}/{s['kind']}@{s['ordinal']}:{s['exc']}"
    def _walk(self, stmts, conds, tries):
        for s in stmts:
            if isinstance(s, (ast.FunctionDef, ast.AsyncFunctionDef, ast.ClassDef)): continue       # nested definitions are functions of their own
            for n in self._own_exprs(s):
                pos = (getattr(n, 'lineno', 0), getattr(n, 'col_offset', 0))
                if tries: self.protect[pos] = list(tries)
                if isinstance(n, ast.Call): self.cond_at[pos] = list(conds); self.call_at[pos] = n
                if isinstance(n, ast.Call) and isinstance(n.func, ast.Attribute) and n.func.attr == 'remove' and len(n.args) == 1 and not n.keywords:
                    self.sites.append(dict(kind='remove', exc='ValueError', line=n.lineno, col=n.col_offset, node=n, conds=list(conds), tries=list(tries), text=' '.join(ast.unparse(n).split())))
            if isinstance(s, ast.Raise):
                self.sites.append(dict(kind='raise', exc=exc_name(s), line=s.lineno, col=s.col_offset, node=s, conds=list(conds), tries=list(tries),
                                       text=' '.join(ast.unparse(s).split())[:160]))
            if isinstance(s, ast.If):
                self._walk(s.body, conds + [(s.test, True)], tries); self._walk(s.orelse, conds + [(s.test, False)], tries)
            elif isinstance(s, (ast.For, ast.AsyncFor, ast.While)):
                self._walk(s.body, conds, tries); self._walk(s.orelse, conds, tries)
            elif isinstance(s, (ast.With, ast.AsyncWith)): self._walk(s.body, conds, tries)
            elif isinstance(s, ast.Try):
                hs = set()
                for h in s.handlers:
                    if not any(isinstance(x, ast.Raise) for hb in h.body for x in ast.walk(hb)): hs |= _handler_names(h)
                self._walk(s.body, conds, tries + [hs])
                for h in s.handlers: self._walk(h.body, conds, tries)
                self._walk(s.orelse, conds, tries); self._walk(s.finalbody, conds, tries)
    @staticmethod
    def _own_exprs(s):
        """expression nodes belonging to statement s itself (not to nested statements / definitions)"""
        if isinstance(s, (ast.If, ast.While)): roots = [s.test]
        elif isinstance(s, (ast.For, ast.AsyncFor)): roots = [s.iter, s.target]
        elif isinstance(s, (ast.With, ast.AsyncWith)): roots = [i.context_expr for i in s.items]
        elif isinstance(s, ast.Try): roots = []
        else: roots = [s]
        for r in roots:
            for n in ast.walk(r):
                if isinstance(n, (ast.FunctionDef, ast.Lambda, ast.ClassDef)) and n is not r: continue
                yield n

class Census:
    def __init__(self, overrides=None):
        self.A = CallGraph(core.PKG, overrides).run(); self.overrides = overrides or {}
        helper_roots = [k for k, f in sorted(self.A.prog.fns.items()) if k[0] == 'recipe.py' and f.kind == 'func' and f.parent is None and not k[1].startswith('_')]
        self.roots = [r for r in ROOTS + helper_roots if r in self.A.prog.fns]
        self.missing_roots = [r for r in ROOTS if r not in self.A.prog.fns]
        self.reach = set()
        for r in self.roots: self.reach |= self.A.reach(r)
        self.facts = {}
        for k in sorted(self.reach):
            fi = self.A.prog.fns.get(k)
            if fi is None or fi.kind == 'module': continue
            self.facts[k] = FnFacts(fi, self.A.prog.mods[fi.rel].src)
        self.sites = [dict(s, fn=k) for k in sorted(self.facts) for s in self.facts[k].sites]
        # per-site call edges: caller -> [(callee, protection sets)]
        self.edges = collections.defaultdict(list)
        for (caller, line, col), callees in self.A.site_edges.items():
            ff = self.facts.get(caller); prot = ff.protect.get((line, col), []) if ff else []
            for c in callees: self.edges[caller].append((c, prot, line))
    def src(self, rel): return self.overrides.get(rel) if rel in self.overrides else core.read_source(rel)
    def reach_escaping(self, exc, cut=()):
        """functions from which an exception of type `exc` raised inside them can propagate up to a root: reachable from the roots over call
        edges that are not enclosed in a `try` catching `exc` (handlers that re-raise do not count), never entering the functions in `cut`"""
        cut = set(cut); seen = set(r for r in self.roots if r not in cut); st = list(seen)
        while st:
            k = st.pop()
            for c, prot, _ in self.edges.get(k, ()):
                if c in seen or c in cut: continue
                if any(catches(h, exc) for h in prot): continue
                seen.add(c); st.append(c)
        return seen
    def callers_of(self, key):
        return sorted({(k, line) for k, es in self.edges.items() for c, _, line in es if c == key and k in self.reach})
    def call_sites(self, callee_key):
        """[(caller key, Call node, chain of enclosing tests)] of every resolved call of callee_key from a function on the API call trees"""
        out = []
        for (caller, line, col), callees in sorted(self.A.site_edges.items()):
            if callee_key in callees and caller in self.reach and caller in self.facts:
                ff = self.facts[caller]; out.append((caller, ff.call_at.get((line, col)), ff.cond_at.get((line, col), [])))
        return out

def guard_text(site):
    """the chain of enclosing tests of a site as text: [(test text, polarity)]"""
    return [(' '.join(ast.unparse(t).split()), pol) for t, pol in site['conds']]
