"""C18, part 4: the dequantisation path of validate():  tfl_interpreter_utils.get_tensor_data / is_tensor_quantized and
qtyping.UniformQuantParams.from_tfl_tensor_details, executed by CPython (real functions) on symbolic tensor contents.

Contract (property text: "the two interpreters' (dequantized) tensor contents"; mechanism anchors tfl_interpreter_utils.py:140-168, qtyping.py:129-158):
  get_tensor_data(interp, detail, sg)  reads  interp.get_tensor(detail['index'], sg)  exactly once and returns
      * that very array                               when detail has no scales, or dequantize=False
      * elementwise (q - zero_point[c]) * scale[c]    otherwise (c = the element's index along quantized_dimension; per-tensor: c = 0),
        of the shape of the read, for every integer dtype the interpreter reports for quantized tensors (int8 [also int4], int16, int32)
  from_tfl_tensor_details: num_bits = 8/16/32/64 for int8/16/32/64 and ValueError for every other numpy scalar type (finite table, exhaustive);
      scale / zero_point / quantized_dimension are the detail's objects; symmetric <=> every zero point is 0 (zero points within +-2^16).
uniform_dequantize itself (value, no wrap-around, broadcast shape at quantized_dimension) is under contract in props/C17.py
(obligations dequantize.*.result-is-(q-zp)*scale and locality.*); here it is executed again as part of the real call chain."""
import importlib, itertools, sys, types
import numpy as np, z3
from vlib import core, symnp
from vlib.symnp import SymArray, Undecided
from vlib.symnp_ext import SymArrayX
from contracts.c18_symnp import SymBool

UTILS = 'utils/tfl_interpreter_utils.py'; QT = 'qtyping.py'

class SymScalar(SymArray):
    """rank-0 symbolic number whose == gives a symbolic Bool (the code stores `sum(...) == 0` in a field, it does not branch on it)"""
    def __eq__(self, o):
        if isinstance(o, (int, np.integer)) and not isinstance(o, bool): return SymBool(self.term == int(o))
        raise Undecided('symbolic == with ' + type(o).__name__)
    __hash__ = None
    def _re(self, r): return SymScalar(r.term, r.dtype, r.shape)
    def __add__(self, o): return self._re(symnp.binop('add', self, o))
    def __radd__(self, o): return self._re(symnp.binop('add', o, self))

class SymIter(SymArrayX):
    """1-D array of CONCRETE length C given by C element terms; `term` is the arbitrary element (one of them).  Iteration (used by the
    builtin sum) yields the C elements as rank-0 numbers; every other operation sees the one-arbitrary-element abstraction."""
    def __init__(self, elems, dtype, term):
        super().__init__(term, dtype, (len(elems),)); self.elems = list(elems)
    def __iter__(self): return iter([SymScalar(e, self.dtype, ()) for e in self.elems])
    def __getitem__(self, key):
        if isinstance(key, slice): return SymIter(self.elems[key], self.dtype, self.term)
        raise Undecided('indexing a symbolic array')
    def __abs__(self):
        f = lambda t: symnp._wrap(z3.If(t >= 0, t, -t), self.dtype)
        return SymIter([f(e) for e in self.elems], self.dtype, f(self.term))

class StubInterpreter:
    def __init__(self, data): self.data, self.calls = data, []
    def get_tensor(self, index, subgraph_index=0): self.calls.append((index, subgraph_index)); return self.data

def load(mut=None):
    """real qtyping + tfl_interpreter_utils (mutated text executed in memory for canaries; tfl_interpreter_utils then re-executed against it)"""
    core.stub_package(); mut = mut or {}
    qt = importlib.import_module('ai_edge_quantizer.qtyping'); ut = importlib.import_module('ai_edge_quantizer.utils.tfl_interpreter_utils')
    if not mut: return qt, ut
    if QT in mut:
        m = types.ModuleType('c18_qtyping_mut'); m.__file__ = core.PKG + '/' + QT; sys.modules[m.__name__] = m; exec(compile(mut[QT], m.__file__, 'exec'), m.__dict__); qt = m
    u = types.ModuleType('c18_utils_mut'); u.__file__ = core.PKG + '/' + UTILS; sys.modules[u.__name__] = u
    exec(compile(mut.get(UTILS, core.read_source(UTILS)), u.__file__, 'exec'), u.__dict__); u.qtyping = qt
    return qt, u

class G:
    def __init__(self, gid, fn, hyps=None, goal=None, ok=None, clause='', observed=None, inputs=None):
        self.id, self.fn, self.hyps, self.goal, self.ok, self.clause, self.observed, self.inputs = gid, fn, list(hyps or []), goal, ok, clause, observed, inputs

INT_RANGE = lambda dt: (int(np.iinfo(dt).min), int(np.iinfo(dt).max))
DIMS = (2, 3, 2, 3)
FROM = 'UniformQuantParams.from_tfl_tensor_details'

def generate(qt, ut):
    goals = []
    # ---------------- dtype -> num_bits table: exhaustive over numpy's scalar types (finite), class objects and dtype instances
    table = {np.int8: 8, np.int16: 16, np.int32: 32, np.int64: 64}
    classes = sorted({t for t in np.sctypeDict.values()} | {np.object_, np.str_, np.bytes_}, key=lambda t: t.__name__)
    for T in classes:
        for form, dt in (('class', T), ('dtype', np.dtype(T))):
            det = dict(dtype=dt, quantization_parameters=dict(scales=np.array([0.5], np.float32), zero_points=np.array([0], np.int32), quantized_dimension=0))
            try: r = ('return', qt.UniformQuantParams.from_tfl_tensor_details(det).num_bits)
            except ValueError as e: r = ('ValueError', None)
            except Exception as e: r = (type(e).__name__, str(e))
            want = table.get(T)
            ok = (r == ('return', want)) if want is not None else (r[0] == 'ValueError' or (r[0] == 'return' and np.dtype(T).kind == 'i' and r[1] == np.dtype(T).itemsize * 8))
            goals.append(G(f'num-bits-table.{T.__name__}.{form}', FROM, ok=bool(ok), clause=f'{T.__name__}: num_bits {want if want else "ValueError (or the true width of a signed integer type)"}', observed=str(r), inputs=dict(dtype=str(dt))))
    # ---------------- fields are passed through; symmetric <=> all zero points are 0
    for C in (1, 2, 3):
        zs = [z3.Int(f'z{k}') for k in range(C)]; scales = object()
        det = dict(dtype=np.int8, quantization_parameters=dict(scales=scales, zero_points=SymIter(zs, np.int32, zs[0]), quantized_dimension=1))
        with symnp.session() as cx:
            p = qt.UniformQuantParams.from_tfl_tensor_details(det)
        hy = [z3.And(z >= -(2 ** 16), z <= 2 ** 16) for z in zs]
        ok = p.scale is scales and p.zero_point is det['quantization_parameters']['zero_points'] and p.quantized_dimension == 1 and p.quantized_data is None and p.num_bits == 8
        goals.append(G(f'fields-passed-through.len{C}', FROM, ok=bool(ok), clause='scale, zero_point, quantized_dimension are the detail\'s own objects; no quantized_data', observed=repr(p)[:200]))
        if isinstance(p.symmetric, SymBool): goals.append(G(f'symmetric-iff-all-zero-points-are-zero.len{C}', FROM, hy, p.symmetric.term == z3.And(*[z == 0 for z in zs]), clause='symmetric <=> all zero points == 0 (|zp| <= 2^16)'))
        else: goals.append(G(f'symmetric-iff-all-zero-points-are-zero.len{C}', FROM, ok=False, observed=repr(p.symmetric)))
    # inductive step for arbitrary length (spec lemma; Python's builtin sum = left fold of + from 0, trusted): partial sums of |zp| stay below 2^31 for
    # fewer than 2^14 zero points of magnitude <= 2^16, so int32 addition does not wrap, and S + |z| == 0 <=> S == 0 and z == 0
    S, z, j = z3.Ints('S z j'); az = z3.If(z >= 0, z, -z); wrapped = symnp._wrap(S + az, np.dtype('int32'))
    goals.append(G('symmetric.lemma.fold-step', None, [0 <= j, j < 2 ** 14, 0 <= S, S <= j * 2 ** 16, z >= -(2 ** 16), z <= 2 ** 16],
                   z3.And(wrapped == S + az, wrapped >= 0, wrapped <= (j + 1) * 2 ** 16, (wrapped == 0) == z3.And(S == 0, z == 0)), clause='fold step of sum(abs(zero_points)) in int32: no wrap, zero iff both zero'))
    # ---------------- get_tensor_data end to end
    F = 'get_tensor_data'
    for dt in (np.dtype('int8'), np.dtype('int16'), np.dtype('int32')):
        lo, hi = INT_RANGE(dt)
        for rank in (1, 2, 3, 4):
            shape = DIMS[:rank]
            for qd in [None] + list(range(rank)):
                tag = f'{dt}.rank{rank}.' + ('per-tensor' if qd is None else f'qdim{qd}')
                C = 1 if qd is None else shape[qd]
                q = z3.Int('q'); s = z3.Real('s'); zc = z3.Int('zc'); zs = [z3.Int(f'z{k}') for k in range(C)]
                data = SymArray(q, dt, shape); interp = StubInterpreter(data)
                det = dict(index=7, dtype=dt.type, quantization_parameters=dict(scales=SymArrayX(s, np.float32, (C,)), zero_points=SymIter(zs, np.int32, zc), quantized_dimension=0 if qd is None else qd))
                hy = [q >= lo, q <= hi, s > 0, z3.Or(*[zc == z for z in zs])] + [z3.And(z >= lo, z <= hi) for z in zs]
                try:
                    with symnp.session() as cx:
                        out = ut.get_tensor_data(interp, det, 3)
                except Undecided: raise
                except Exception as e:
                    goals.append(G(f'dequantize.{tag}.returns-normally', F, ok=False, observed=f'{type(e).__name__}: {e}', inputs=dict(dtype=str(dt), shape=shape, qd=qd))); continue
                goals.append(G(f'dequantize.{tag}.reads-the-detail-index-of-the-given-subgraph-once', F, ok=interp.calls == [(7, 3)], observed=str(interp.calls)))
                okk = isinstance(out, SymArray) and out.shape == shape and out.dtype.kind == 'f'
                goals.append(G(f'dequantize.{tag}.float-result-of-the-shape-of-the-read', F, ok=bool(okk), observed=repr(out)))
                if okk:
                    for k, (lab, g) in enumerate(cx.side): goals.append(G(f'dequantize.{tag}.side{k}.{lab}', F, hy + cx.hyps(), g))
                    goals.append(G(f'dequantize.{tag}.value-is-(q-zp)*scale', F, hy + cx.hyps(), out.term == (z3.ToReal(q) - z3.ToReal(zc)) * s, clause='dequantised element == (q - zero_point[c]) * scale[c]', inputs=dict(dtype=str(dt), shape=shape, qd=qd)))
    # unquantized tensors and dequantize=False: the read itself is returned
    for lab, scales, kw in (('no-scales', np.array([], np.float32), {}), ('dequantize-False', np.array([0.5], np.float32), dict(dequantize=False))):
        data = object(); interp = StubInterpreter(data)
        det = dict(index=5, dtype=np.float32, quantization_parameters=dict(scales=scales, zero_points=np.array([0] * len(scales), np.int32), quantized_dimension=0))
        out = ut.get_tensor_data(interp, det, 2, **kw)
        goals.append(G(f'raw-read-returned.{lab}', F, ok=(out is data and interp.calls == [(5, 2)]), clause='the tensor read is returned unchanged', observed=f'{out!r} {interp.calls}'))
    for n, want in ((0, False), (1, True), (3, True)):
        goals.append(G(f'is_tensor_quantized.len{n}', 'is_tensor_quantized', ok=ut.is_tensor_quantized(dict(quantization_parameters=dict(scales=np.zeros(n, np.float32)))) is want, clause='quantized <=> the detail lists at least one scale'))
    return goals

CANARIES = [
    ('from_tfl_tensor_details: int16 reported as 8 bits', QT, "    elif data_type == np.int16:\n      num_bits = 16", "    elif data_type == np.int16:\n      num_bits = 8", ('num-bits-table.int16',)),
    ('from_tfl_tensor_details: symmetric from the first zero point only', QT, "symmetric = sum(abs(quant_params['zero_points'])) == 0", "symmetric = sum(abs(quant_params['zero_points'])[:1]) == 0", ('symmetric-iff',)),
    ('get_tensor_data: scales and zero points swapped', QT, "        scale=quant_params['scales'],\n        zero_point=quant_params['zero_points'],", "        scale=quant_params['zero_points'],\n        zero_point=quant_params['scales'],", ('value-is-(q-zp)*scale', 'fields-passed-through', 'returns-normally')),
    ('get_tensor_data: reads subgraph 0 instead of the given subgraph', UTILS, '  tensor_data = tflite_interpreter.get_tensor(\n      tensor_detail["index"], subgraph_index\n  )', '  tensor_data = tflite_interpreter.get_tensor(\n      tensor_detail["index"], 0\n  )', ('reads-the-detail-index',)),
    ('get_tensor_data: quantized tensors returned undequantized', UTILS, '  if is_tensor_quantized(tensor_detail) and dequantize:', '  if False:', ('float-result-of-the-shape', 'value-is-(q-zp)*scale')),
]
