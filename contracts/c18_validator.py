"""C18, parts 2-3: sidecar contracts (pyvc) for model_validator.ComparisonResult.add_new_signature_results, compare_model and
validation_utils.get_validation_func.

Engine extension `EngineX(pyvc.Engine)` (small, local; vlib/pyvc.py is not modified):
  * `{}`                                   -> a fresh empty dict of kind spec.empty_dict_kind(line)
  * `{k: f(v) for k, v in d.items()}`       -> a fresh dict with the keys (and key order) of d and  map'[k] == f(map[k])  for every key
                                             (keys of kind int: the fact is quantified over the key itself)
  * `d.pop(k)`                              -> forks:  k present: returns map[k], has' = has[k := False], len' = len - 1, the order of the
                                             remaining keys is left abstract (fresh key sequence);  k absent: raises KeyError, d unchanged.
Tensor names are modelled as integers (an injective encoding of strings: the functions use names only as dict keys, i.e. through
equality and hashing), which lets invariants quantify over ALL names with the engine's integer-quantified schematic facts.
"""
import ast, z3
from vlib import core, pyvc
from vlib.pyvc import *
from vlib.pyvc import Engine, Spec, Schematic, Outcome, V, vint, vbool, NONE, NULL, Ref, Str, I, Bo, fresh, strlit, dict_kinds, dkeys_field, dhas_field, dmap_field, sort_of, Unsupported

class EngineX(Engine):
    def ev(self, e, p):
        if isinstance(e, ast.Dict) and not e.keys: return self.newdict(self.spec.empty_dict_kind(e.lineno), p)
        if isinstance(e, ast.DictComp):
            g = e.generators[0] if len(e.generators) == 1 else None
            if g is None or g.ifs or not (isinstance(g.target, ast.Tuple) and len(g.target.elts) == 2 and all(isinstance(t, ast.Name) for t in g.target.elts)) \
               or not (isinstance(e.key, ast.Name) and e.key.id == g.target.elts[0].id): raise Unsupported('dict comprehension form')
            src = self.ev(g.iter, p)
            if src.kind != 'dictiter' or src.kw['mode'] != 'items': raise Unsupported('dict comprehension over ' + src.kind)
            d = src.kw['d']; K, Vk, keys, has, mp, n = self.dparts(d, p)
            if K != 'int': raise Unsupported('dict comprehension over non-int keys')
            kvar, vvar = g.target.elts[0].id, g.target.elts[1].id
            def val(kt):
                q = p.fork(); q.env[kvar] = V(K, kt); q.env[vvar] = V(Vk, mp[kt]); return self.ev(e.value, q)
            probe = val(fresh('dc_probe', I)); kind = f'dict[{K},{probe.kind}]'
            r = p.heap.new(p, 'dictcomp'); nm = fresh('dcmap', p.heap.fsort(dmap_field(K, probe.kind)))
            p.heap.store(r, dkeys_field(K), keys); p.heap.store(r, '$len', n); p.heap.store(r, dhas_field(K), has); p.heap.store(r, dmap_field(K, probe.kind), nm)
            p.facts.append(Schematic(1, lambda k, nm=nm, val=val: nm[k] == val(k).term, 'dictcomp'))
            return V(kind, r)
        return super().ev(e, p)
    def call(self, e, p):
        f = e.func
        if isinstance(f, ast.Attribute) and f.attr == 'pop' and len(e.args) == 1 and not e.keywords and not self.dotted(f) in self.spec.callees:
            recv = self.ev(f.value, p)
            if recv.kind.startswith('dict['):
                K, Vk, keys, has, mp, n = self.dparts(recv, p); k = self.ev(e.args[0], p); r = recv.term; line = e.lineno
                ok = p.fork(); ok.pc.append(has[k.term]); bad = p.fork(); bad.pc.append(Not(has[k.term]))
                for fld in (dkeys_field(K), dhas_field(K), '$len'): self.frame(ok, r, fld, line)
                ok.heap.store(r, dhas_field(K), z3.Store(has, k.term, False)); ok.heap.store(r, '$len', n - 1)
                ok.heap.store(r, dkeys_field(K), fresh('popkeys', ok.heap.fsort(dkeys_field(K))))
                return [Outcome('next', ok, V(Vk, mp[k.term])), Outcome('raise:KeyError', bad)]
        return super().call(e, p)

    def stmt(self, s, p):
        if isinstance(s, ast.AnnAssign) and s.value is not None:           # `x: T = v` (annotation dropped like every other annotation)
            return super().stmt(ast.copy_location(ast.Assign(targets=[s.target], value=s.value), s), p)
        return super().stmt(s, p)

def run_function(fn, spec):
    E = EngineX(fn, spec); E.run(); return E

_POOL = {}
STAGES = ('typed', 'untyped', 'model-guided')
def _decide_task(j):
    """typed instantiation -> untyped instantiation over all integer terms of the query -> model-guided instantiation (all three sound: instances
    only, `unsat` is a proof) -> bounded-scope search for a counter-model (a model found there is only a CANDIDATE when the obligation has name-quantified
    facts; it is replayed natively before it is called a counterexample)"""
    E, spec, i, timeout, B, stages = _POOL['tasks'][j]; ob = E.obs[i]; total = 0.0
    try:
        fs = dict(typed=lambda: pyvc.discharge_rel(ob, spec, timeout=min(timeout, 30000)), untyped=lambda: pyvc.discharge(ob, timeout=timeout), **{'model-guided': lambda: pyvc.discharge_mb(ob, timeout=min(timeout, 30000))})
        for name in stages:
            r = fs[name](); total += r[1]
            if r[0] == z3.unsat: return ('proved', total, f'{r[2]} instances ({name})', None)
        r2, dt2, s2 = pyvc.refute(ob, B=B, bound_terms=spec.bounds(E), timeout=timeout)
        if r2 == z3.sat:
            m = s2.model(); vals = spec.model_values(E, m) if hasattr(spec, 'model_values') else {}
            return ('refuted', total + dt2, 'bounded-scope counter-model', vals)
        return ('unknown', total + dt2, f'no instantiation stage proved it; bounded refutation: {r2}', None)
    except Exception as e:
        import traceback; return ('error', 0.0, traceback.format_exc()[-600:], None)
def decide_tasks(tasks):
    """tasks: [(E, spec, obligation index, timeout, B, stages)] decided in one fork pool"""
    _POOL['tasks'] = tasks; return core.run_pool(_decide_task, len(tasks))
def decide(E, spec, timeout=60000, B=2, only=None, stages=STAGES):
    """only: optional list of label substrings (canaries decide just the obligations they are expected to break)"""
    idx = [i for i, ob in enumerate(E.obs) if only is None or any(s_ in ob.label for s_ in only)]
    res = decide_tasks([(E, spec, i, timeout, B, stages) for i in idx])
    return [(E.obs[i], st, dt, det, mv) for i, (st, dt, det, mv) in zip(idx, res)]

def verify(rep, prop, fn, spec, replay=None, fallback=None, timeout=60000, B=2, backend='z3-qf(instantiation)', covers=()):
    """pyvc.verify with EngineX (same glue: obligations -> core.Ob, native replay of counter-models, bounded fallback search)"""
    rep.fn(fn)
    try: E = run_function(fn, spec)
    except Unsupported as e:
        ob = core.Ob(f'{prop}/{fn.name}/engine-subset', fn, 'pyvc', core.UNKNOWN, 0.0, detail=f'outside the engine subset: {e}', clause='function within the verified Python subset')
        fb = fallback('engine-subset') if fallback else None
        if fb and fb.get('confirmed'): ob.status = core.REFUTED; ob.replay = fb
        rep.add(ob); return []
    res = decide(E, spec, timeout=timeout, B=B)
    for sub in covers:            # non-vacuity: the hypotheses of the named obligation (path condition + every quantified fact expanded over a small scope) are satisfiable
        obs_ = [ob for ob in E.obs if sub in ob.label]
        ok = bool(obs_) and any(pyvc.refute(pyvc.RawOb(ob.label, ob.pc, ob.schem, z3.BoolVal(False)), B=B, bound_terms=spec.bounds(E), timeout=20000)[0] == z3.sat for ob in obs_[-2:])
        rep.cover(f'{fn.qual}: {sub}', ok)
    counts = {}; out = []
    for ob, st, dt, det, mv in res:
        k = counts.get(ob.label, 0); counts[ob.label] = k + 1
        o = core.Ob(f'{prop}/{fn.name}/{ob.label}' + (f'#{k}' if k else ''), fn, backend, st, dt, detail=det if st != 'refuted' else f'{det}: {mv}', clause=ob.label)
        if st == 'refuted':
            rp = None
            if replay and mv:
                try: rp = replay(mv, ob.label)
                except Exception as ex: rp = dict(confirmed=False, note=f'replay crashed: {ex!r}', inputs=mv)
            if (not rp or not rp.get('confirmed')) and fallback:
                fb = fallback(ob.label)
                if fb and fb.get('confirmed'): fb['note'] = 'the solver counter-model did not replay; failing input found by bounded native search guided by the failed obligation'; rp = fb
            o.replay = rp or dict(confirmed=False, inputs=mv)
        core.native_search_for_undischarged(o, fallback, counts, ob.label)
        out.append(o); rep.add(o)
    core.oracle_selfcheck(rep, fn, fallback, all(o.status == core.PROVED for o in out))
    return out

def items_i(h, r): return h.load(r, '$items:int')
def ln(h, r): return h.load(r, '$len')
def dstate(h, d, K='int', Vk='ref'): return h.load(d, dkeys_field(K)), h.load(d, dhas_field(K)), h.load(d, dmap_field(K, Vk)), h.load(d, '$len')

# ================================================================================================ add_new_signature_results
FLOAT = z3.Function('py_float', Ref, Ref)          # float(value): a pure function of the value

class AddNewSignatureResults(Spec):
    """self._comparison_results: dict[str, ref];  comparison_result C: dict[name, value];  the three name lists IN, OUT, CONST are whatever
    the interpreter utilities return (arbitrary lists).  NAME(j) = the j-th element of IN ++ OUT ++ CONST.
      PRE  ==  every NAME(j) is a key of C  and  the NAME(j) are pairwise distinct.
    Contract:  ValueError  <=> signature_key already present;  KeyError => not PRE;  in both cases nothing is stored.
      Normal return => PRE, and the new entry S of self._comparison_results[signature_key] satisfies for EVERY name k:
        k in S.input_tensors <=> k in IN ;  k in S.output_tensors <=> k in OUT ;  k in S.constant_tensors <=> k in CONST ;
        k in S.intermediate_tensors <=> k in C and in none of the lists ;  a name not in C is in no group ;  a name in C is in EXACTLY one group ;
        the value filed for k is float(C[k]) ;  S.error_metric is the argument ;  other signatures and C itself are untouched."""
    fields = {'_comparison_results': 'dict[str,ref]', '_reference_model': 'ref', 'error_metric': 'str', 'input_tensors': 'dict[int,ref]', 'output_tensors': 'dict[int,ref]',
              'constant_tensors': 'dict[int,ref]', 'intermediate_tensors': 'dict[int,ref]'}
    constructors = {'SingleSignatureComparisonResult': ['error_metric', 'input_tensors', 'output_tensors', 'constant_tensors', 'intermediate_tensors']}
    GROUPS = ('input_tensors', 'output_tensors', 'constant_tensors')
    def __init__(self):
        S = self
        self.callees = {'float': lambda E, p, a, kw, node: V('ref', FLOAT(a[0].term)),
                        'utils.get_input_tensor_names': lambda E, p, a, kw, node: V('list[int]', S.L[0]),
                        'utils.get_output_tensor_names': lambda E, p, a, kw, node: V('list[int]', S.L[1]),
                        'utils.get_constant_tensor_names': lambda E, p, a, kw, node: V('list[int]', S.L[2]),
                        'utils.create_tfl_interpreter': lambda E, p, a, kw, node: V('ref', fresh('interpreter', Ref)),
                        'utils.get_signature_main_subgraph_index': lambda E, p, a, kw, node: vint(fresh('subgraph_index', I))}
        self.invariants = {0: lambda E, ctx, p, pre, i: S.inv(0, E, ctx, p, pre, i), 1: lambda E, ctx, p, pre, i: S.inv(1, E, ctx, p, pre, i), 2: lambda E, ctx, p, pre, i: S.inv(2, E, ctx, p, pre, i)}
    def empty_dict_kind(self, line): return 'dict[int,ref]'
    def bind(self, E, p):
        S = self; h = p.heap
        for nme in list(S.fields) + ['$len', '$items:int', '$dkeys:int', '$dhas:int', '$dmap:int:ref', '$dkeys:str', '$dhas:str', '$dmap:str:ref']: h.arr(nme)
        h0 = h.copy(); S.h0 = h0
        S.self_ = z3.Const('self', Ref); S.C = z3.Const('comparison_result', Ref); S.key = z3.Const('signature_key', Str); S.metric = z3.Const('error_metric', Str)
        S.L = [z3.Const(n, Ref) for n in ('input_names', 'output_names', 'constant_names')]
        S.crd = h0.load(S.self_, '_comparison_results')
        p.env.update(self=V('ref', S.self_), comparison_result=V('dict[int,ref]', S.C), signature_key=V('str', S.key), error_metric=V('str', S.metric))
        objs = [S.self_, S.C, S.crd] + S.L
        p.pc += [o != NULL for o in objs] + [h0.alloc[o] for o in objs] + [z3.Distinct(*objs)]
        S.keysC, S.hasC, S.mapC, S.nC = dstate(h0, S.C); S.crd0 = dstate(h0, S.crd, 'str', 'ref')
        S.n = [ln(h0, l) for l in S.L]; S.it = [items_i(h0, l) for l in S.L]
        p.pc += [S.nC >= 0, S.crd0[3] >= 0] + [n >= 0 for n in S.n]
        # ghost: W[g](k) = position of the FIRST occurrence of name k in list g, or negative when k does not occur (definitional)
        S.W = [z3.Function(f'first_pos_{g}', I, I) for g in ('in', 'out', 'const')]
        for g in range(3):
            p.facts.append(Schematic(1, lambda k, g=g: Implies(S.W[g](k) >= 0, And(S.W[g](k) < S.n[g], S.it[g][S.W[g](k)] == k)), f'ghost:first-pos-{g}-sound'))
            p.facts.append(Schematic(1, lambda j, g=g: Implies(And(0 <= j, j < S.n[g]), And(0 <= S.W[g](S.it[g][j]), S.W[g](S.it[g][j]) <= j)), f'ghost:first-pos-{g}-complete'))
    def FM(self, k): return FLOAT(self.mapC[k])
    def member(self, g, k): return self.W[g](k) >= 0
    def pre_clauses(self, forall):
        """PRE as a list of (label, formula); `forall(n, fn)` builds the quantified formula (schematic hypothesis or skolemised goal)"""
        S = self; out = []
        for g, gn in enumerate(('inputs', 'outputs', 'constants')):
            out.append((f'{gn} are keys', forall(1, lambda j, g=g: Implies(And(0 <= j, j < S.n[g]), S.hasC[S.it[g][j]]))))
            out.append((f'{gn} pairwise distinct', forall(2, lambda j, m, g=g: Implies(And(0 <= j, j < m, m < S.n[g]), S.it[g][j] != S.it[g][m]))))
            for e, en in list(enumerate(('inputs', 'outputs', 'constants')))[g + 1:]:
                out.append((f'{gn} disjoint from {en}', forall(2, lambda j, m, g=g, e=e: Implies(And(0 <= j, j < S.n[g], 0 <= m, m < S.n[e]), S.it[g][j] != S.it[e][m]))))
        return out
    def pre_facts(self):
        acc = []
        def forall(n, fn): acc.append(Schematic(n, fn, 'PRE')); return z3.BoolVal(True)
        self.pre_clauses(forall); return acc
    def bounds(self, E):
        # refutation scope: list lengths <= B and (so that the name-quantified facts are fully expanded) the names themselves within 0..B
        S = self; pos = [z3.IntVal(j) for j in range(3)]
        return [S.nC] + S.n + [S.it[g][j] for g in range(3) for j in pos] + [S.keysC[j] for j in pos] + list(getattr(S, 'skolem_names', []))
    def may_write(self, E, p, ref, field):
        return ref == self.crd if (field.endswith(':str') or field.endswith(':str:ref') or field == '$len') else z3.BoolVal(False)
    # ---- state of the group dicts on a path
    def group(self, p, g):
        """(has, map) of the dict bound to the local of group g (0..2), or None when the local does not exist yet"""
        nme = ('input_tensor_results', 'output_tensor_results', 'constant_tensor_results')[g]
        if nme not in p.env: return None
        _, has, mp, _ = dstate(p.heap, p.env[nme].term); return has, mp
    def popped_ok(self, g, ctx, upto):
        """the first `upto` names of list g were popped successfully: each is a key of C, is its own first occurrence in its list, and occurs in no earlier list"""
        S = self
        return ctx.forall(1, lambda j: Implies(And(0 <= j, j < upto), And(S.hasC[S.it[g][j]], S.W[g](S.it[g][j]) == j, *[S.W[e](S.it[g][j]) < 0 for e in range(g)])))
    def inv(self, g, E, ctx, p, pre, i):
        S = self; h = p.heap; R = p.env['result'].term; _, hasR, mapR, _ = dstate(h, R); hasG, mapG = S.group(p, g)
        earlier = lambda k: Or(*[S.member(e, k) for e in range(g)]) if g else z3.BoolVal(False)
        out = [('i-range', And(0 <= i, i <= S.n[g])),
               ('group-holds-exactly-the-names-seen', ctx.forall(1, lambda k: hasG[k] == And(0 <= S.W[g](k), S.W[g](k) < i))),
               ('rest-holds-what-is-left', ctx.forall(1, lambda k: hasR[k] == And(S.hasC[k], Not(earlier(k)), Not(hasG[k])))),
               ('values-are-float-of-the-argument', ctx.forall(1, lambda k: And(mapR[k] == S.FM(k), Implies(hasG[k], mapG[k] == S.FM(k))))),
               ('pops-so-far-succeeded', S.popped_ok(g, ctx, i)),
               ('nothing-else-touched', And(h.load(S.self_, '_comparison_results') == S.crd, *[a == b for a, b in zip(dstate(h, S.crd, 'str', 'ref'), S.crd0)],
                                            *[a == b for a, b in zip(dstate(h, S.C), (S.keysC, S.hasC, S.mapC, S.nC))]))]
        return out
    def ensures(self, E, ctx, p, ret):
        S = self; h = p.heap; keys1, has1, map1, n1 = dstate(h, S.crd, 'str', 'ref'); keys0, has0, map0, n0 = S.crd0
        ent = map1[S.key]; k = fresh('name', I); sk = fresh('other_signature', Str)
        G = [dstate(h, h.load(ent, f)) for f in S.GROUPS + ('intermediate_tensors',)]
        hs = [g[1][k] for g in G]; ms = [g[2][k] for g in G]
        b2i = lambda b: If(b, 1, 0)
        unlisted = And(S.hasC[k], *[Not(S.member(g, k)) for g in range(3)])
        out = [('entry-added-under-the-signature-key', And(has1[S.key], Not(has0[S.key]), ent != NULL, Not(S.h0.alloc[ent]), h.load(S.self_, '_comparison_results') == S.crd)),
               ('other-signatures-untouched', Implies(sk != S.key, And(has1[sk] == has0[sk], map1[sk] == map0[sk]))),
               ('signature-key-appended', And(n1 == n0 + 1, keys1[n0] == S.key, ctx.forall(1, lambda j: Implies(And(0 <= j, j < n0), keys1[j] == keys0[j])))),
               ('error-metric-recorded', h.load(ent, 'error_metric') == S.metric),
               ('argument-dict-not-mutated', And(*[a == b for a, b in zip(dstate(h, S.C), (S.keysC, S.hasC, S.mapC, S.nC))])),
               ('four-groups-are-distinct-fresh-dicts', And(z3.Distinct(*[h.load(ent, f) for f in S.GROUPS + ('intermediate_tensors',)]), *[Not(S.h0.alloc[h.load(ent, f)]) for f in S.GROUPS + ('intermediate_tensors',)]))]
        for g, f in enumerate(S.GROUPS): out.append((f'{f}: holds exactly the names of its list', hs[g] == S.member(g, k)))
        out += [('intermediate_tensors: holds exactly the keys in no list', hs[3] == unlisted),
                ('a name absent from the argument is in no group', Implies(Not(S.hasC[k]), Not(Or(*hs)))),
                ('a name of the argument is in EXACTLY one group', Implies(S.hasC[k], b2i(hs[0]) + b2i(hs[1]) + b2i(hs[2]) + b2i(hs[3]) == 1)),
                ('filed value is float(argument value)', And(*[Implies(hs[g], ms[g] == S.FM(k)) for g in range(4)])),
                ]
        out += [(f'normal return only under PRE: {lab}', f) for lab, f in S.pre_clauses(ctx.forall)]
        S.skolem_names = getattr(S, 'skolem_names', []) + [k]
        return out
    def raises(self, E, ctx, p, exc):
        S = self; h = p.heap
        unchanged = And(h.load(S.self_, '_comparison_results') == S.crd, *[a == b for a, b in zip(dstate(h, S.crd, 'str', 'ref'), S.crd0)],
                        *[a == b for a, b in zip(dstate(h, S.C), (S.keysC, S.hasC, S.mapC, S.nC))])
        if exc == 'ValueError': return [('ValueError-only-when-the-signature-is-already-present', S.crd0[1][S.key]), ('nothing-stored-when-raising', unchanged)]
        if exc == 'KeyError':
            p.facts += S.pre_facts()          # hypothesis PRE: the goal is its refutation
            return [('KeyError-only-when-PRE-is-violated', z3.BoolVal(False)), ('nothing-stored-when-raising', unchanged)]
        return [(f'no-{exc}', z3.BoolVal(False))]
    def model_values(self, E, m):
        S = self; ev = lambda t: m.eval(t, model_completion=True)
        def lst(g):
            n = ev(S.n[g]).as_long(); return [ev(S.it[g][z3.IntVal(j)]).as_long() for j in range(max(0, min(n, 4)))]
        names = sorted(set(sum((lst(g) for g in range(3)), [])) | {ev(S.keysC[z3.IntVal(j)]).as_long() for j in range(max(0, min(ev(S.nC).as_long(), 4)))})
        keys = [k for k in names if z3.is_true(ev(S.hasC[z3.IntVal(k)]))]
        return dict(keys=keys, inputs=lst(0), outputs=lst(1), constants=lst(2), signature_present=bool(z3.is_true(ev(S.crd0[1][S.key]))))

# ================================================================================================ get_validation_func
class GetValidationFunc(Spec):
    """'mse' -> mean_squared_difference, 'median_diff_ratio' -> median_diff_ratio, anything else raises ValueError"""
    fields = {}
    MSE, MDR = z3.Const('fn_mean_squared_difference', Ref), z3.Const('fn_median_diff_ratio', Ref)
    def bind(self, E, p):
        self.name = z3.Const('func_name', Str); p.env['func_name'] = V('str', self.name)
        p.env['mean_squared_difference'] = V('ref', self.MSE); p.env['median_diff_ratio'] = V('ref', self.MDR); p.pc += [self.MSE != self.MDR, self.MSE != NULL, self.MDR != NULL]
    def ensures(self, E, ctx, p, ret):
        return [("'mse' selects mean_squared_difference", Implies(self.name == strlit('mse'), ret.term == self.MSE)),
                ("'median_diff_ratio' selects median_diff_ratio", Implies(self.name == strlit('median_diff_ratio'), ret.term == self.MDR)),
                ('returns only for the two documented names', Or(self.name == strlit('mse'), self.name == strlit('median_diff_ratio')))]
    def raises(self, E, ctx, p, exc):
        return [('ValueError exactly for unknown names', And(z3.BoolVal(exc == 'ValueError'), self.name != strlit('mse'), self.name != strlit('median_diff_ratio')))]

# ================================================================================================ _setup_validation_interpreter
CREATE = z3.Function('create_tfl_interpreter', Ref, Bo, Ref)                 # (model, use_reference_kernel) -> fresh interpreter
SGI = z3.Function('signature_main_subgraph_index', Ref, Str, I)               # (interpreter, signature key)
DETMAP = z3.Function('tensor_name_to_details_map', Ref, I, Ref)               # (interpreter, subgraph index)

class SetupValidationInterpreter(Spec):
    """returns (I, sg, details) with I = create_tfl_interpreter(model, use_reference_kernel) invoked ONCE on (signature_input, signature_key),
    sg = main subgraph index of that signature in I, details = name->details map of subgraph sg of I."""
    fields = {}
    def __init__(self):
        S = self; S.invoked = []
        def k_create(E, p, a, kw, node):
            E.emit(p, 'callsite:create(model, use_reference_kernel)', And(kw['tflite_model'].term == S.model, kw['use_reference_kernel'].term == S.urk, len(a) == 0), node.lineno); return V('ref', CREATE(S.model, S.urk))
        def k_invoke(E, p, a, kw, node):
            E.emit(p, 'callsite:invoke(interpreter, signature_input, signature_key)', And(a[0].term == CREATE(S.model, S.urk), a[1].term == S.inp, a[2].term == S.key), node.lineno); S.invoked.append(node.lineno); return NONE
        self.callees = {'utils.create_tfl_interpreter': k_create, 'utils.invoke_interpreter_signature': k_invoke,
                        'utils.get_signature_main_subgraph_index': lambda E, p, a, kw, node: vint(SGI(a[0].term, a[1].term)),
                        'utils.get_tensor_name_to_details_map': lambda E, p, a, kw, node: V('ref', DETMAP(a[0].term, a[1].term))}
    def bind(self, E, p):
        S = self; S.model = z3.Const('model', Ref); S.inp = z3.Const('signature_input', Ref); S.key = z3.Const('signature_key', Str); S.urk = z3.Bool('use_reference_kernel')
        p.env.update(model=V('ref', S.model), signature_input=V('ref', S.inp), signature_key=V('str', S.key), use_reference_kernel=vbool(S.urk))
    def ensures(self, E, ctx, p, ret):
        S = self; i, sg, det = ret.kw['elts']; Iv = CREATE(S.model, S.urk)
        return [('interpreter is the one created from (model, use_reference_kernel)', i.term == Iv), ('invoked exactly once', z3.BoolVal(len(S.invoked) == 1)),
                ('subgraph index is the main subgraph of the signature', sg.term == SGI(Iv, S.key)), ('details map of that subgraph of that interpreter', det.term == DETMAP(Iv, SGI(Iv, S.key)))]

# ================================================================================================ compare_model
INTERP = z3.Function('interpreter_after_invoke', Ref, Ref, Str, Bo, Ref)      # (model, sample, signature key, use_reference_kernel)
SGX = z3.Function('main_subgraph_index', Ref, Str, I)                         # (model, signature key)
AI = z3.ArraySort(I, I); AB = z3.ArraySort(I, Bo); AR = z3.ArraySort(I, Ref)
DKEYS = z3.Function('details_keys', Ref, Str, AI); DHAS = z3.Function('details_has', Ref, Str, AB); DMAP = z3.Function('details_map', Ref, Str, AR)
DLEN = z3.Function('details_len', Ref, Str, I); DPOS = z3.Function('details_pos', Ref, Str, I, I)
READ = z3.Function('get_tensor_data', Ref, Ref, I, Ref)                       # (interpreter, tensor detail, subgraph index) -> (dequantised) content
CMP = z3.Function('compare_fn', Ref, Ref, Ref)
MEANL = z3.Function('np_mean_of_list', AR, I, Ref)                            # np.mean of the python list with the given items / length
SUML = z3.Function('np_sum_of_list', AR, I, Ref); MEDL = z3.Function('np_median_of_list', AR, I, Ref)    # other aggregations (only so that mutants stay inside the engine)
OBJ = 'np.object_'

_a, _b = z3.Bools('a b'); _IMPLIES = z3.Implies(_a, _b).decl()
def items_r(h, r): return h.load(r, '$items:ref')
def items_s(h, r): return h.load(r, '$items:str')

class CompareModel(Spec):
    """compare_model(reference_model R, target_model T, test_data, error_metric, compare_fn, use_reference_kernel).
    Callee contracts (uninterpreted, pure): _setup_validation_interpreter(m, sample, key, u) = (INTERP(m, sample, key, u), SGX(m, key), a fresh dict
    whose keys / contents are DKEYS/DHAS/DMAP(m, key): ASSUMPTION the name->details map of a model's signature does not depend on the sample);
    utils.get_tensor_data = READ; compare_fn = CMP; np.mean(list) = MEANL(items, len).
      ELIG(key, k)      = k in details(R, key) and dtype(details(R, key)[k]) != np.object_ and k in details(T, key)
      VAL(key, x, k)    = CMP(READ(INTERP(T, x, key, u), details(T, key)[k], SGX(T, key)), READ(INTERP(R, x, key, u), details(R, key)[k], SGX(R, key)))    [target first, reference second]
    Contract: a ComparisonResult cr = ComparisonResult(R, T) is created and returned; for the signatures of test_data IN ORDER, exactly once each,
      cr.add_new_signature_results(error_metric, AG, key) is called with, for EVERY name k:
         k in AG  <=>  the signature has at least one sample and ELIG(key, k)
         AG[k] == np.mean(L) with len(L) == number of samples and L[j] == VAL(key, sample_j, k) for every j
    Exceptions: only those of add_new_signature_results (KeyError / ValueError) propagate; test_data and the sample lists are not written."""
    fields = {}
    str_consts = {'np.object_': OBJ}
    loops_may_allocate = True
    def __init__(self, fn):
        S = self; S.dict_kind = {}
        for nd in ast.walk(fn.node):
            if isinstance(nd, ast.Assign) and isinstance(nd.value, ast.Dict) and isinstance(nd.targets[0], ast.Name):
                S.dict_kind[nd.value.lineno] = {'comparison_results': 'dict[int,list[ref]]', 'agregated_results': 'dict[int,ref]'}.get(nd.targets[0].id)
        S.callees = {'ComparisonResult': S.k_new_result, '_setup_validation_interpreter': S.k_setup, 'utils.get_tensor_data': lambda E, p, a, kw, node: V('ref', READ(a[0].term, a[1].term, a[2].term)),
                     'compare_fn': lambda E, p, a, kw, node: V('ref', CMP(a[0].term, a[1].term)), 'np.mean': lambda E, p, a, kw, node: V('ref', MEANL(items_r(p.heap, a[0].term), ln(p.heap, a[0].term))),
                     'np.sum': lambda E, p, a, kw, node: V('ref', SUML(items_r(p.heap, a[0].term), ln(p.heap, a[0].term))), 'np.median': lambda E, p, a, kw, node: V('ref', MEDL(items_r(p.heap, a[0].term), ln(p.heap, a[0].term))),
                     'model_comparion_result.add_new_signature_results': S.k_add}
        # loop ordinals are the engine's (ast.walk order); the invariants are attached by the loop's target text so that a reordering cannot mis-assign them
        by_target = {'signature_key, signature_inputs': S.inv0, 'signature_input': S.inv1, 'tensor_name, detail': S.inv2, 'tensor_name': S.inv3}
        loops = [nd for nd in ast.walk(fn.node) if isinstance(nd, ast.For)]
        S.invariants = {k: by_target[ast.unparse(nd.target).strip('()')] for k, nd in enumerate(loops) if ast.unparse(nd.target).strip('()') in by_target}
    def empty_dict_kind(self, line):
        k = self.dict_kind.get(line)
        if k is None: raise Unsupported(f'empty dict literal @{line} bound to an unknown local')
        return k
    def empty_list_kind(self, line): return 'ref'
    # ------------------------------------------------------------------------------ entry state
    def bind(self, E, p):
        S = self; h = p.heap
        for nme in ['$len', '$items:ref', '$items:str', '$dkeys:int', '$dhas:int', '$dmap:int:ref', '$dkeys:str', '$dhas:str', '$dmap:str:ref', '$dmap:str:str']: h.arr(nme)
        h0 = h.copy(); S.h0 = h0
        S.R, S.T, S.TD, S.cmp = [z3.Const(n, Ref) for n in ('reference_model', 'target_model', 'test_data', 'compare_fn')]; S.metric = z3.Const('error_metric', Str); S.u = z3.Bool('use_reference_kernel')
        p.env.update(reference_model=V('ref', S.R), target_model=V('ref', S.T), test_data=V('dict[str,list[ref]]', S.TD), error_metric=V('str', S.metric), compare_fn=V('ref', S.cmp), use_reference_kernel=vbool(S.u))
        S.keysTD, S.hasTD, S.mapTD, S.nTD = dstate(h0, S.TD, 'str', 'ref'); S.SL = lambda j: S.mapTD[S.keysTD[j]]
        p.pc += [S.TD != NULL, h0.alloc[S.TD], S.nTD >= 0]
        p.facts.append(Schematic(1, lambda j: Implies(And(0 <= j, j < S.nTD), And(S.hasTD[S.keysTD[j]], S.SL(j) != NULL, h0.alloc[S.SL(j)], S.SL(j) != S.TD, ln(h0, S.SL(j)) >= 0)), 'pre:test_data-wf'))
        S.DT = lambda m, key, k: h0.load(DMAP(m, key)[k], '$dmap:str:str')[strlit('dtype')]
        S.ELIG = lambda key, k: And(DHAS(S.R, key)[k], S.DT(S.R, key, k) != strlit(OBJ), DHAS(S.T, key)[k])
        S.VAL = lambda key, x, k: CMP(READ(INTERP(S.T, x, key, S.u), DMAP(S.T, key)[k], SGX(S.T, key)), READ(INTERP(S.R, x, key, S.u), DMAP(S.R, key)[k], SGX(S.R, key)))
        S.calls = 0
    def bounds(self, E): return [self.nTD]
    def may_write(self, E, p, ref, field): return Not(self.h0.alloc[ref])      # only objects created by the function itself (incl. the ghost call log)
    def ghost(self, p, name):
        return p.env[name].term if name in p.env else fresh(name.strip('$'), I)
    # ------------------------------------------------------------------------------ callee contracts
    def k_new_result(self, E, p, a, kw, node):
        S = self; E.emit(p, 'callsite:ComparisonResult(reference_model, target_model)', And(a[0].term == S.R, a[1].term == S.T), node.lineno)
        S.cr = p.heap.new(p, 'comparison_result'); S.log = p.heap.new(p, 'ghost_call_log'); p.heap.store(S.log, '$len', z3.IntVal(0)); return V('ref', S.cr)
    def k_setup(self, E, p, a, kw, node):
        """(interpreter, subgraph index, fresh name->details dict) as pure functions of the arguments; the dict's well-formedness is part of the callee's postcondition"""
        S = self; h = p.heap; m, x, key, u = a[0].term, a[1].term, a[2].term, a[3].term
        d = h.new(p, 'details'); h.store(d, '$dkeys:int', DKEYS(m, key)); h.store(d, '$dhas:int', DHAS(m, key)); h.store(d, '$dmap:int:ref', DMAP(m, key)); h.store(d, '$len', DLEN(m, key))
        p.pc.append(DLEN(m, key) >= 0)
        p.facts.append(Schematic(1, lambda k: And(DHAS(m, key)[k] == And(0 <= DPOS(m, key, k), DPOS(m, key, k) < DLEN(m, key)), Implies(DHAS(m, key)[k], And(DKEYS(m, key)[DPOS(m, key, k)] == k,
                                                  DMAP(m, key)[k] != NULL, S.h0.load(DMAP(m, key)[k], '$dhas:str')[strlit('dtype')]))), 'post:details-wf'))
        p.facts.append(Schematic(1, lambda j: Implies(And(0 <= j, j < DLEN(m, key)), DPOS(m, key, DKEYS(m, key)[j]) == j), 'post:details-keys-distinct'))
        return V('tuple', None, elts=[V('ref', INTERP(m, x, key, u)), vint(SGX(m, key)), V('dict[int,dict[str,str]]', d)])
    def k_add(self, E, p, a, kw, node):
        S = self; h = p.heap; line = node.lineno; AG = a[1].term; key = a[2].term; _, hasAG, mapAG, _ = dstate(h, AG)
        i = S.ghost(p, '$i'); SLi = S.SL(i); nS = ln(S.h0, SLi); k = fresh('name', I); j = fresh('sample', I); L = fresh('L', Ref)
        E.emit(p, 'callsite:add_new_signature_results.receiver-is-the-result-object', p.env['model_comparion_result'].term == S.cr, line)
        E.emit(p, 'callsite:add_new_signature_results.error_metric-and-signature_key', And(a[0].term == S.metric, key == S.keysTD[i]), line)
        E.emit(p, 'callsite:add_new_signature_results.names = eligible names, iff the signature has a sample', hasAG[k] == And(nS > 0, S.ELIG(key, k)), line)
        Lk = p.env['comparison_results']; _, hasCR, mapCR, _ = dstate(h, Lk.term)
        E.emit(p, 'callsite:add_new_signature_results.value = np.mean over one compare_fn(target, reference) per sample',
               Implies(hasAG[k], And(mapAG[k] == MEANL(items_r(h, mapCR[k]), ln(h, mapCR[k])), ln(h, mapCR[k]) == nS,
                                     Implies(And(0 <= j, j < nS), items_r(h, mapCR[k])[j] == S.VAL(key, items_r(S.h0, SLi)[j], k)))), line)
        E.emit(p, 'callsite:add_new_signature_results.once-per-signature-in-order', And(ln(h, S.log) == i), line)
        ok = p.fork(); E.lappend(V('list[str]', S.log), V('str', key), ok, line)
        bad1 = p.fork(); bad2 = p.fork()
        return [Outcome('next', ok, NONE), Outcome('raise:KeyError', bad1), Outcome('raise:ValueError', bad2)]
    # ------------------------------------------------------------------------------ invariants
    def realloc(self, ctx, p):
        """allocation is loop state: in hypothesis mode the allocated set is an arbitrary one satisfying the invariant (objects created in earlier iterations stay allocated)"""
        if ctx.mode == 'hyp': p.heap.alloc = fresh('alloc_loop', z3.ArraySort(Ref, Bo))
        return p.heap.alloc
    def frames(self, ctx, p, AL):
        S = self; h = p.heap
        return [('test_data-and-sample-lists-untouched', And(ln(h, S.TD) == S.nTD, ctx.forall(1, lambda j: Implies(And(0 <= j, j < S.nTD), And(ln(h, S.SL(j)) == ln(S.h0, S.SL(j)), items_r(h, S.SL(j)) == items_r(S.h0, S.SL(j))))))),
                ('objects-allocated-at-entry-stay-allocated', z3.Map(_IMPLIES, S.h0.alloc, AL) == z3.K(Ref, z3.BoolVal(True))),
                ('entry-objects-stay-allocated', And(AL[S.TD], AL[S.cr], AL[S.log], S.cr != NULL, S.log != NULL, S.cr != S.log, Not(S.h0.alloc[S.cr]), Not(S.h0.alloc[S.log]), ctx.forall(1, lambda j: Implies(And(0 <= j, j < S.nTD), AL[S.SL(j)]))))]
    def log_is(self, ctx, p, i):
        S = self; h = p.heap
        return ('call-log = the first i signature keys', And(ln(h, S.log) == i, ctx.forall(1, lambda j: Implies(And(0 <= j, j < i), items_s(h, S.log)[j] == S.keysTD[j]))))
    def inv0(self, E, ctx, p, pre, i):
        S = self; AL = S.realloc(ctx, p)
        if ctx.mode == 'hyp': p.env['$i'] = vint(i)
        return [('i-range', And(0 <= i, i <= S.nTD)), S.log_is(ctx, p, i)] + S.frames(ctx, p, AL)
    def crd_state(self, ctx, p, AL, key, count, upto, SLterm):
        """shared part of the invariants of loops 1 and 2: the dict name -> list of per-sample values.
           count(k) = current length of the list of k; every list holds VAL for the first count(k) samples"""
        S = self; h = p.heap; CRD = p.env['comparison_results'].term; keysCR, hasCR, mapCR, nCR = dstate(h, CRD)
        if ctx.mode == 'hyp': p.env['$Q'] = V('ghost', z3.Function(f'crd_pos!{next(pyvc._n)}', I, I))
        Q = p.env['$Q'].term if '$Q' in p.env else None
        def listed(k):
            cands = ([Q(k)] if Q is not None else []) + ([nCR - 1] if ctx.mode == 'goal' else [])
            return Or(*[And(0 <= w, w < nCR, keysCR[w] == k) for w in cands]) if cands else z3.BoolVal(False)
        inp = lambda j: items_r(S.h0, SLterm)[j]
        return [('result-dict-allocated', And(CRD != NULL, AL[CRD], CRD != S.log, CRD != S.cr, CRD != S.TD, Not(S.h0.alloc[CRD]), nCR >= 0)),
                ('lists-are-fresh-allocated-nonnull', ctx.forall(1, lambda k: Implies(hasCR[k], And(mapCR[k] != NULL, AL[mapCR[k]], Not(S.h0.alloc[mapCR[k]]), mapCR[k] != S.log, mapCR[k] != CRD, mapCR[k] != S.cr)))),
                ('lists-pairwise-distinct', ctx.forall(2, lambda k, k2: Implies(And(hasCR[k], hasCR[k2], k != k2), mapCR[k] != mapCR[k2]))),
                ('list-lengths', ctx.forall(1, lambda k: Implies(hasCR[k], ln(h, mapCR[k]) == count(k)))),
                ('list-contents: one compare_fn(target read, reference read) per sample', ctx.forall(2, lambda k, j: Implies(And(hasCR[k], 0 <= j, j < count(k)), items_r(h, mapCR[k])[j] == S.VAL(key, inp(j), k)))),
                ('keys-listed', ctx.forall(1, lambda k: Implies(hasCR[k], listed(k)))),
                ('listed-keys-present', ctx.forall(1, lambda w: Implies(And(0 <= w, w < nCR), hasCR[keysCR[w]])))]
    def inv1(self, E, ctx, p, pre, s):
        S = self; AL = S.realloc(ctx, p); key = pre.env['signature_key'].term; SLt = pre.env['signature_inputs'].term; nS = ln(S.h0, SLt)
        _, hasCR, _, _ = dstate(p.heap, p.env['comparison_results'].term)
        if ctx.mode == 'hyp': p.env['$s'] = vint(s)
        return [('s-range', And(0 <= s, s <= nS)), ('names = eligible names once a sample was processed', ctx.forall(1, lambda k: hasCR[k] == And(s > 0, S.ELIG(key, k)))),
                S.log_is(ctx, p, S.ghost(p, '$i'))] + S.crd_state(ctx, p, AL, key, lambda k: s, s, SLt) + S.frames(ctx, p, AL)
    def inv2(self, E, ctx, p, pre, t):
        S = self; AL = S.realloc(ctx, p); key = pre.env['signature_key'].term; SLt = pre.env['signature_inputs'].term; nS = ln(S.h0, SLt)
        s = S.sample_index(pre); RD = pre.env['ref_tensor_name_to_details'].term; TDd = pre.env['targ_tensor_name_to_details'].term; h = p.heap
        _, hasCR, _, _ = dstate(h, p.env['comparison_results'].term); seen = lambda k: And(DHAS(S.R, key)[k], DPOS(S.R, key, k) < t)
        same = lambda d, m: And(h.load(d, '$dkeys:int') == DKEYS(m, key), h.load(d, '$dhas:int') == DHAS(m, key), h.load(d, '$dmap:int:ref') == DMAP(m, key), AL[d], d != NULL)
        return [('t-range', And(0 <= t, t <= DLEN(S.R, key))), ('names = eligible names seen so far (all of them after the first sample)', ctx.forall(1, lambda k: hasCR[k] == And(S.ELIG(key, k), Or(s > 0, seen(k))))),
                ('details-dicts-untouched', And(same(RD, S.R), same(TDd, S.T))), S.log_is(ctx, p, S.ghost(p, '$i'))] \
               + S.crd_state(ctx, p, AL, key, lambda k: s + If(seen(k), 1, 0), s, SLt) + S.frames(ctx, p, AL)
    def sample_index(self, pre):
        """index of the sample being processed: the ghost position recorded when loop 1 bound `signature_input` (samples may repeat, so it is carried as a path ghost)"""
        return self.ghost(pre, '$s')
    def inv3(self, E, ctx, p, pre, a):
        S = self; h = p.heap; CRD = p.env['comparison_results'].term; keysCR, hasCR, mapCR, nCR = dstate(pre.heap, CRD); AG = p.env['agregated_results'].term; _, hasAG, mapAG, _ = dstate(h, AG)
        return [('a-range', And(0 <= a, a <= nCR)), ('aggregated-only-names-of-the-lists-with-their-mean', ctx.forall(1, lambda k: Implies(hasAG[k], And(hasCR[k], mapAG[k] == MEANL(items_r(h, mapCR[k]), ln(h, mapCR[k])))))),
                ('every-listed-name-aggregated-so-far', ctx.forall(1, lambda w: Implies(And(0 <= w, w < a), hasAG[keysCR[w]])))]
    # ------------------------------------------------------------------------------ exits
    def ensures(self, E, ctx, p, ret):
        S = self; h = p.heap
        return [('returns-the-result-object', ret.term == S.cr), ('add_new_signature_results called once per signature of test_data, in order', And(ln(h, S.log) == S.nTD, ctx.forall(1, lambda j: Implies(And(0 <= j, j < S.nTD), items_s(h, S.log)[j] == S.keysTD[j]))))]
    def raises(self, E, ctx, p, exc):
        return [('only add_new_signature_results raises (its KeyError / ValueError propagate)', z3.BoolVal(exc in ('KeyError', 'ValueError')))]

# ================================================================================================ ComparisonResult.__init__ / Quantizer.validate
class ComparisonResultInit(Spec):
    """the first constructor argument becomes the REFERENCE model (whose signature supplies the input/output/constant name lists), the second the target;
    the per-signature table starts empty"""
    fields = {'_reference_model': 'ref', '_target_model': 'ref', '_comparison_results': 'dict[str,ref]'}
    def empty_dict_kind(self, line): return 'dict[str,ref]'
    def bind(self, E, p):
        S = self; S.self_, S.R, S.T = z3.Const('self', Ref), z3.Const('reference_model', Ref), z3.Const('target_model', Ref)
        p.env.update(self=V('ref', S.self_), reference_model=V('ref', S.R), target_model=V('ref', S.T)); p.pc += [S.self_ != NULL, p.heap.alloc[S.self_]]; S.h0 = p.heap.copy()
    def may_write(self, E, p, ref, field): return And(ref == self.self_, z3.BoolVal(field in self.fields))
    def ensures(self, E, ctx, p, ret):
        S = self; h = p.heap; d = h.load(S.self_, '_comparison_results'); sk = fresh('sig', Str)
        return [('reference and target stored in this order', And(h.load(S.self_, '_reference_model') == S.R, h.load(S.self_, '_target_model') == S.T)),
                ('table starts empty and fresh', And(ln(h, d) == 0, Not(h.load(d, '$dhas:str')[sk]), Not(S.h0.alloc[d]), d != NULL))]

GVF = z3.Function('get_validation_func', Str, Ref)
class QuantizerValidate(Spec):
    """Quantizer.validate: compare_model(reference = self.float_model, target = self._result.quantized_model, test data (generated from the float model when
    None), error_metrics, get_validation_func(error_metrics), use_reference_kernel) -- the metric name and the metric function agree, float model is the reference"""
    fields = {'float_model': 'ref', '_result': 'ref', 'quantized_model': 'ref'}
    def __init__(self):
        S = self; S.calls = []
        def k_compare(E, p, a, kw, node):
            h = p.heap; S.calls.append(node.lineno)
            E.emit(p, 'callsite:compare_model(reference = float model, target = quantized model)', And(a[0].term == S.h0.load(S.self_, 'float_model'), a[1].term == S.h0.load(S.h0.load(S.self_, '_result'), 'quantized_model')), node.lineno)
            E.emit(p, 'callsite:compare_model.test-data', a[2].term == If(S.td == NULL, S.gen, S.td), node.lineno)
            E.emit(p, 'callsite:compare_model.metric name and metric function agree', And(a[3].term == S.em, a[4].term == GVF(S.em)), node.lineno)
            E.emit(p, 'callsite:compare_model.use_reference_kernel passed on', kw['use_reference_kernel'].term == S.urk, node.lineno)
            return V('ref', S.result)
        def k_gen(E, p, a, kw, node):
            E.emit(p, 'callsite:random test data generated for the float model', a[0].term == S.h0.load(S.self_, 'float_model'), node.lineno); return V('ref', S.gen)
        S.callees = {'model_validator.compare_model': k_compare, 'test_utils.create_random_normal_input_data': k_gen, 'validation_utils.get_validation_func': lambda E, p, a, kw, node: V('ref', GVF(a[0].term))}
    def bind(self, E, p):
        S = self; h = p.heap
        for f in S.fields: h.arr(f)
        S.h0 = h.copy(); S.self_, S.td, S.gen, S.result = [z3.Const(n, Ref) for n in ('self', 'test_data', 'generated_test_data', 'comparison_result')]; S.em = z3.Const('error_metrics', Str); S.urk = z3.Bool('use_reference_kernel')
        p.env.update(self=V('ref', S.self_), test_data=V('ref', S.td), error_metrics=V('str', S.em), use_reference_kernel=vbool(S.urk))
        p.pc += [S.self_ != NULL, S.gen != NULL, S.h0.load(S.self_, '_result') != NULL]
    def ensures(self, E, ctx, p, ret): return [('returns the comparison of exactly one compare_model call', And(ret.term == self.result, z3.BoolVal(len(set(self.calls)) == 1)))]

# ================================================================================================ utils.get_tensor_name_to_details_map
class TensorNameToDetailsMap(Spec):
    """the name-keyed map that pairs the tensors of the two interpreters: for an ARBITRARY name K (a fixed symbolic string, so the statement holds for every name)
         K in result  <=>  K is non-empty and some detail of subgraph `subgraph_index` is named K        result[K] == the LAST such detail
       (spec functions HAS / LAST, transcribed here as folds over the detail list; unnamed temporaries are skipped)."""
    fields = {}
    def __init__(self):
        S = self; S.callees = {'tflite_interpreter.get_tensor_details': S.k_details}; S.invariants = {0: S.inv}
    def empty_dict_kind(self, line): return 'dict[str,dict[str,str]]'
    def k_details(self, E, p, a, kw, node):
        E.emit(p, 'callsite:details-of-the-given-subgraph', a[0].term == self.sg, node.lineno); return V('list[dict[str,str]]', self.L)
    def bind(self, E, p):
        S = self; h = p.heap
        for nme in ['$len', '$items:ref', '$dkeys:str', '$dhas:str', '$dmap:str:ref', '$dmap:str:str']: h.arr(nme)
        S.h0 = h.copy(); h0 = S.h0; S.interp, S.L = z3.Const('tflite_interpreter', Ref), z3.Const('tensor_details', Ref); S.sg = z3.Int('subgraph_index'); S.K = z3.Const('K', Str)
        p.env.update(tflite_interpreter=V('ref', S.interp), subgraph_index=vint(S.sg))
        S.n = ln(h0, S.L); S.det = lambda j: items_r(h0, S.L)[j]; S.name = lambda j: h0.load(S.det(j), '$dmap:str:str')[strlit('name')]
        p.pc += [S.L != NULL, h0.alloc[S.L], S.n >= 0]
        p.facts.append(Schematic(1, lambda j: Implies(And(0 <= j, j < S.n), And(S.det(j) != NULL, h0.alloc[S.det(j)], h0.load(S.det(j), '$dhas:str')[strlit('name')])), 'pre:details-have-a-name-entry'))
        S.HAS = z3.Function('spec_has', I, Bo); S.LAST = z3.Function('spec_last', I, Ref); S.hit = lambda j: And(S.name(j) == S.K, slen(S.name(j)) != 0)
        p.pc += [Not(S.HAS(0)), S.LAST(0) == NULL]
        p.facts.append(Schematic(1, lambda j: Implies(And(0 <= j, j < S.n), And(S.HAS(j + 1) == Or(S.HAS(j), S.hit(j)), S.LAST(j + 1) == If(S.hit(j), S.det(j), S.LAST(j)))), 'spec:fold-step'))
    def bounds(self, E): return [self.n]
    def may_write(self, E, p, ref, field): return z3.BoolVal(False)
    def inv(self, E, ctx, p, pre, i):
        S = self; h = p.heap; d = p.env['tensor_name_to_detail'].term; _, has, mp, _ = dstate(h, d, 'str', 'ref')
        return [('i-range', And(0 <= i, i <= S.n)), ('K-present-iff-seen', has[S.K] == S.HAS(i)), ('K-maps-to-the-last-detail-named-K', Implies(has[S.K], mp[S.K] == S.LAST(i))),
                ('details-untouched', And(ln(h, S.L) == S.n, items_r(h, S.L) == items_r(S.h0, S.L)))]
    def ensures(self, E, ctx, p, ret):
        S = self; h = p.heap; _, has, mp, _ = dstate(h, ret.term, 'str', 'ref')
        return [('K in map <=> a non-empty-named detail is called K', has[S.K] == S.HAS(S.n)), ('map[K] is the last detail called K', Implies(has[S.K], mp[S.K] == S.LAST(S.n))), ('result is a fresh dict', Not(S.h0.alloc[ret.term]))]
