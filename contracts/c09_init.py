"""Sidecar contract (pyvc) for Calibrator._initialize_model_qsvs (C09, constants clause).

For ONE arbitrary tensor name ANY (rigid => every name), with the initialisation function, the recipe manager, the registry and
`_get_op_scope` as callee contracts (uninterpreted):
  operator (s, j) = operator j of subgraph s;   T(s, j) = its op code is known, the recipe selects an algorithm != no_quantize for
  (key, scope) and the algorithm's init function lists ANY among the operands it initialises;   IV(s, j) = the value that function
  returns for ANY  (naive_min_max_quantize.init_qsvs: init_tensor_min_max of the tensor -- family init-qsvs + C04).
Specification (first writer wins; names already present are kept):
  R(0) = entry state;  RR(s, 0) = R(s);  RR(s, j+1) = RR(s, j) if ANY present in RR(s, j) or not T(s, j) else (present, IV(s, j));  R(s+1) = RR(s, n_s)
  ensures  state at exit == R(number of subgraphs);  only the dict self._model_qsvs is written.
So a constant's statistics are exactly what the init function returns for the FIRST selected operator (subgraph order, operator
order) that lists it, and a name that already has statistics (resumed calibration) is never overwritten."""
import z3
from vlib.pyvc import *
from vlib.pyvc import ARR_SIG, _canon_arr
from contracts.c09_qsvs import ANY
from contracts.c09_calibrate import SCOPEF, ALG, CFG, NOQ, StrBoolArr, StrRefArr
from contracts.graph import items_r, ln

INITFN = z3.Function('init_qsv_func_of', Str, Str, Ref)
IKEYSF = z3.Function('initialised_names', Ref, Ref, Str, I, Ref, Ref, Ref, StrBoolArr)     # (func, op, key, index, config, tensors, buffers)
IVALF = z3.Function('initial_statistics', Ref, Ref, Str, I, Ref, Ref, Ref, StrRefArr)
KW = z3.Function('key_position', Ref, Str, I)                                               # ghost: position of a present key in a dict
POS = z3.Function('subgraph_position', Ref, I)                                              # ghost: position of a subgraph object in model.subgraphs

FIELDS = {'_flatbuffer_model': 'ref', 'operatorCodes': 'list[ref]', '_model_qsvs': 'dict[str,ref]', 'subgraphs': 'list[ref]', 'tensors': 'ref', 'buffers': 'ref',
          'operators': 'list[ref]', 'opcodeIndex': 'int', 'builtinCode': 'int', 'outputs': 'ref', 'subgraph_tensors': 'ref', 'TFL_OP_CODE_TO_NAME': 'dict[int,str]',
          'op': 'ref', 'op_name': 'str', 'subgraph_op_index': 'int', 'op_quant_config': 'ref'}

class InitQsvs(Spec):
    fields = FIELDS; consts = {}
    str_consts = {'algorithm_manager.AlgorithmName.NO_QUANTIZE': NOQ}
    constructors = {'qtyping.GraphInfo': ['subgraph_tensors', 'buffers'], 'qtyping.OpInfo': ['op', 'op_name', 'subgraph_op_index', 'op_quant_config']}
    loops_may_allocate = True
    def __init__(self):
        self.callees = {'self._get_op_scope': self.k_scope, 'model_recipe_manager.get_quantization_configs': self.k_recipe, 'algorithm_manager.get_init_qsv_func': self.k_getfunc, 'qsv_init_func': self.k_init_func}
        self.invariants = {0: self.inv_subgraphs, 1: self.inv_ops, 2: self.inv_names}; self.dict_lens = []
    def bind(self, E, p):
        S = self; h = p.heap
        for nme in list(FIELDS) + ['$len', '$items:ref', '$dkeys:str', '$dhas:str', '$dmap:str:ref', '$dkeys:int', '$dhas:int', '$dmap:int:str']: h.arr(nme)
        h0 = h.copy(); S.h0 = h0; C = lambda n: z3.Const(n, Ref)
        S.self_, S.rm, S.modfbu = C('self'), C('model_recipe_manager'), C('module_tfl_flatbuffer_utils')
        p.env.update(self=V('ref', S.self_), model_recipe_manager=V('ref', S.rm), tfl_flatbuffer_utils=V('ref', S.modfbu))
        S.fm = h0.load(S.self_, '_flatbuffer_model'); S.d = h0.load(S.self_, '_model_qsvs'); S.CL = h0.load(S.fm, 'operatorCodes'); S.SGS = h0.load(S.fm, 'subgraphs')
        S.bufs = h0.load(S.fm, 'buffers'); S.NT = h0.load(S.modfbu, 'TFL_OP_CODE_TO_NAME'); S.nthas = h0.load(S.NT, '$dhas:int'); S.ntmap = h0.load(S.NT, '$dmap:int:str')
        S.NS = ln(h0, S.SGS); S.sgs = items_r(h0, S.SGS); S.ncodes = ln(h0, S.CL); S.codes = items_r(h0, S.CL)
        S.has0 = h0.load(S.d, '$dhas:str')[ANY]; S.map0 = h0.load(S.d, '$dmap:str:ref')[ANY]
        objs = [S.self_, S.rm, S.modfbu, S.fm, S.d, S.CL, S.SGS, S.NT]
        p.pc += [z3.Distinct(*objs)] + [x != NULL for x in objs] + [h0.alloc[x] for x in objs] + [S.NS >= 0, S.ncodes >= 0]
        F = p.facts.append
        F(Schematic(1, lambda s: Implies(And(0 <= s, s < S.NS), And(S.sgs[s] != NULL, h0.alloc[S.sgs[s]], POS(S.sgs[s]) == s, S.Lst(s) != NULL, h0.alloc[S.Lst(s)], S.n(s) >= 0,
                                                              S.Lst(s) != S.SGS, S.Lst(s) != S.CL, S.Lst(s) != S.d)), 'req:subgraphs-wellformed'))
        F(Schematic(2, lambda s, j: Implies(And(0 <= s, s < S.NS, 0 <= j, j < S.n(s)), And(S.OP(s, j) != NULL, h0.alloc[S.OP(s, j)], 0 <= h0.load(S.OP(s, j), 'opcodeIndex'), h0.load(S.OP(s, j), 'opcodeIndex') < S.ncodes)), 'req:operators-wellformed'))
        # ---- specification functions
        S.Hh = z3.Function('spec_has_after_ops', I, I, Bo); S.Vv = z3.Function('spec_val_after_ops', I, I, Ref); S.RH = z3.Function('spec_has_after_subgraphs', I, Bo); S.RV = z3.Function('spec_val_after_subgraphs', I, Ref)
        p.pc += [S.RH(0) == S.has0, S.RV(0) == S.map0]
        F(Schematic(1, lambda s: Implies(And(0 <= s, s < S.NS), And(S.Hh(s, 0) == S.RH(s), S.Vv(s, 0) == S.RV(s), S.RH(s + 1) == S.Hh(s, S.n(s)), S.RV(s + 1) == S.Vv(s, S.n(s)))), 'spec:subgraph-step'))
        F(Schematic(2, lambda s, j: Implies(And(0 <= s, s < S.NS, 0 <= j, j < S.n(s)), And(S.Hh(s, j + 1) == Or(S.Hh(s, j), S.T(s, j)),
                                                                                       S.Vv(s, j + 1) == If(And(Not(S.Hh(s, j)), S.T(s, j)), S.IV(s, j), S.Vv(s, j)))), 'spec:operator-step'))
    # operator (s, j) of the entry model
    def SG(self, s): return self.sgs[s]
    def Lst(self, s): return self.h0.load(self.sgs[s], 'operators')
    def n(self, s): return ln(self.h0, self.Lst(s))
    def OP(self, s, j): return items_r(self.h0, self.Lst(s))[j]
    def tens(self, s): return self.h0.load(self.sgs[s], 'tensors')
    def parts(self, s, j):
        S = self; o = S.OP(s, j); code = S.h0.load(S.codes[S.h0.load(o, 'opcodeIndex')], 'builtinCode'); key = S.ntmap[code]; scope = SCOPEF(S.h0.load(o, 'outputs'), S.tens(s))
        alg = ALG(S.rm, key, scope); cfg = CFG(S.rm, key, scope); fn = INITFN(alg, key); return code, key, alg, cfg, fn, o
    def T(self, s, j):
        S = self; code, key, alg, cfg, fn, o = S.parts(s, j)
        return And(S.nthas[code], alg != strlit(NOQ), IKEYSF(fn, o, key, j, cfg, S.tens(s), S.bufs)[ANY])
    def IV(self, s, j):
        S = self; code, key, alg, cfg, fn, o = S.parts(s, j); return IVALF(fn, o, key, j, cfg, S.tens(s), S.bufs)[ANY]
    def bounds(self, E): return [self.NS, self.ncodes, self.n(z3.IntVal(0)), self.n(z3.IntVal(1))] + list(self.dict_lens)
    def may_write(self, E, p, ref, field):
        return ref == self.d if (field.startswith('$d') or field == '$len') else z3.BoolVal(False)
    def relevant(self, label):
        """hypotheses tried first (sound: fewer hypotheses; the full set is the fallback): the two-variable facts are needed by few obligations"""
        if label.startswith('no-'): return ['', 'req:', 'dictwf']
        if ':model[name]' in label: return ['', 'spec:', 'dictwf', 'req:subgraphs']
        return ['', 'dictwf', 'req:subgraphs']
    def model_at(self, h): return h.load(self.d, '$dhas:str')[ANY], h.load(self.d, '$dmap:str:ref')[ANY]
    def graph_kept(self, ctx, h):
        """lengths / attributes that the loops also store on objects they allocate: unchanged on the model objects"""
        S = self
        return [('model-lists-and-buffers-not-written', And(ln(h, S.SGS) == S.NS, ln(h, S.CL) == S.ncodes, h.load(S.fm, 'buffers') == S.bufs)),
                ('operator-lists-keep-their-length', ctx.forall(1, lambda s: Implies(And(0 <= s, s < S.NS), ln(h, S.Lst(s)) == S.n(s))))]
    def inv_subgraphs(self, E, ctx, p, pre, s):
        S = self; h = p.heap; has, val = S.model_at(h)
        return [('s-range', And(0 <= s, s <= S.NS)), ('model[name] == spec after the first s subgraphs', And(has == S.RH(s), val == S.RV(s)))] + S.graph_kept(ctx, h)
    def inv_ops(self, E, ctx, p, pre, j):
        S = self; h = p.heap; has, val = S.model_at(h); s = POS(pre.env['subgraph'].term); gi = pre.env['graph_info'].term
        return [('j-range', And(0 <= j, j <= S.n(s))), ('model[name] == spec after the first j operators of this subgraph', And(has == S.Hh(s, j), val == S.Vv(s, j))),
                ('graph-info-of-this-subgraph', And(h.load(gi, 'subgraph_tensors') == S.tens(s), h.load(gi, 'buffers') == S.bufs))] + S.graph_kept(ctx, h)
    def inv_names(self, E, ctx, p, pre, m):
        S = self; h = p.heap; hp = pre.heap; has, val = S.model_at(h); hasp, valp = S.model_at(hp); r = pre.env['op_qsvs'].term
        ohas = hp.load(r, '$dhas:str')[ANY]; omap = hp.load(r, '$dmap:str:ref')[ANY]; done = And(ohas, KW(r, ANY) < m)
        return [('m-range', And(0 <= m, m <= ln(hp, r))), ('model[name]: kept if present, else init value once its key is visited', And(has == Or(hasp, done), val == If(And(Not(hasp), done), omap, valp))),
                ('returned-dict-not-written', And(h.load(r, '$dkeys:str') == hp.load(r, '$dkeys:str'), h.load(r, '$dhas:str') == hp.load(r, '$dhas:str'), h.load(r, '$dmap:str:ref') == hp.load(r, '$dmap:str:ref'), ln(h, r) == ln(hp, r)))] + S.graph_kept(ctx, h)
    def ensures(self, E, ctx, p, ret):
        S = self; has, val = S.model_at(p.heap)
        return [('model[name] == first-writer-wins fold; present names kept', And(has == S.RH(S.NS), val == S.RV(S.NS))),
                ('model-dict-object-kept', p.heap.load(S.self_, '_model_qsvs') == S.d)]
    # ---- callee contracts
    def k_scope(self, E, p, args, kw, node): return V('str', SCOPEF(p.heap.load(args[0].term, 'outputs'), args[1].term))
    def k_recipe(self, E, p, args, kw, node):
        a, b = args[0].term, args[1].term; return V('tuple', None, elts=[V('str', ALG(self.rm, a, b)), V('ref', CFG(self.rm, a, b))])
    def k_getfunc(self, E, p, args, kw, node): return V('ref', INITFN(args[0].term, args[1].term))
    def k_init_func(self, E, p, args, kw, node):
        """init function: a fresh well-formed dict; names and values are functions of (func, op, key, index, config, tensors, buffers)"""
        S = self; h = p.heap; oi, gi = args[0].term, args[1].term; fn = p.env['qsv_init_func'].term
        a = (fn, h.load(oi, 'op'), h.load(oi, 'op_name'), h.load(oi, 'subgraph_op_index'), h.load(oi, 'op_quant_config'), h.load(gi, 'subgraph_tensors'), h.load(gi, 'buffers'))
        r = E.newdict('dict[str,ref]', p); has = IKEYSF(*a); keys = h.load(r.term, '$dkeys:str'); n = fresh('n_init', I); rt = r.term
        h.store(rt, '$dhas:str', has); h.store(rt, '$dmap:str:ref', IVALF(*a)); h.store(rt, '$len', n); S.dict_lens.append(n)
        kc = z3.simplify(keys)                       # the fresh key array: give it the signature of `dict.$dkeys` so that typed instantiation matches keys[i] in the loop
        if z3.is_app(kc) and kc.num_args() == 0: ARR_SIG[kc.decl().name()] = _canon_arr(keys)
        p.pc += [n >= 0, Implies(has[ANY], And(0 <= KW(rt, ANY), KW(rt, ANY) < n, keys[KW(rt, ANY)] == ANY))]
        p.facts.append(Schematic(1, lambda i: Implies(And(0 <= i, i < n), And(has[keys[i]], KW(rt, keys[i]) == i)), 'dictwf:listed-keys-present'))
        return r
