"""Sidecar contracts for TransformationPerformer (C01, C02, C19) — DESIGN Appendix A.7.

PerfInv(s): the op-id map of subgraph s has one entry per ORIGINAL operator, strictly increasing, and entry k is the current
position of original operator k (ghost: the operator object found there at entry).  `_apply_single_transformation` must (a) hand
the transformation the current positions of exactly the listed original operators (-1, the graph-output marker, passed through)
and the current position of the producer, -1 iff the instruction has no producer; (b) re-establish PerfInv after the insertion."""
import z3
from vlib.pyvc import *
from vlib.pyvc import _canon_arr, ARR_SIG
from contracts.graph import items_i, items_r, ln, CONSTS

# QuantTransformation enum values (qtyping): NO_QUANTIZE 0, ADD_QUANTIZE 1, ADD_DEQUANTIZE 2, QUANTIZE_TENSOR 3, EMULATED_SUBCHANNEL 4
QT = dict(NO_QUANTIZE=0, ADD_QUANTIZE=1, ADD_DEQUANTIZE=2, QUANTIZE_TENSOR=3, EMULATED_SUBCHANNEL=4)
FIELDS = {
  '_original_op_id_map': 'list[list[int]]', '_added_op_id_map': 'list[list[int]]',
  'instructions': 'list[ref]', 'subgraph_id': 'int', 'tensor_name': 'str',
  'transformation': 'int', 'tensor_id': 'int', 'producer': 'int', 'consumers': 'list[int]', 'parameters': 'ref',
  'operatorCodes': 'list[ref]', 'buffers': 'list[ref]', 'subgraphs': 'list[ref]', 'operators': 'list[ref]', 'tensors': 'list[ref]',
  'op_id': 'int', 'num_ops_added': 'int', 'output_tensor_id': 'int',
  'op_codes': 'list[ref]', 'subgraph': 'ref', 'quant_params': 'ref',
}

class UpdateOpIdMap(Spec):
    """_update_op_id_map(subgraph_id, original_op_id, num_ops_added): entries with index >= original_op_id are shifted.
    requires 0 <= original_op_id — for a negative start the numpy slice a[i:] means something else."""
    fields = FIELDS; consts = CONSTS
    def __init__(self, require_nonneg=True): self.require_nonneg = require_nonneg
    def bind(self, E, p):
        h = p.heap; S = self
        S.self_ = z3.Const('self', Ref); S.s = z3.Int('subgraph_id'); S.o = z3.Int('original_op_id'); S.a = z3.Int('num_ops_added')
        p.env.update(self=V('ref', S.self_), subgraph_id=vint(S.s), original_op_id=vint(S.o), num_ops_added=vint(S.a))
        for nme in ('_original_op_id_map', '$len', '$items:int', '$items:ref'): h.arr(nme)
        S.h0 = h.copy(); h = S.h0                      # facts below talk about the ENTRY heap (snapshot), not the live heap object
        S.maps = h.load(S.self_, '_original_op_id_map'); S.nm = ln(h, S.maps)
        S.m0 = items_r(h, S.maps); S.cur = S.m0[S.s]; S.n = ln(h, S.cur); S.it0 = items_i(h, S.cur)
        p.pc += [S.self_ != NULL, S.maps != NULL, h.alloc[S.self_], h.alloc[S.maps], 0 <= S.s, S.s < S.nm, S.n >= 0, h.alloc[S.cur], S.cur != NULL, S.cur != S.maps]
        if S.require_nonneg: p.pc.append(S.o >= 0)
        p.facts.append(Schematic(1, lambda k: Implies(And(0 <= k, k < S.nm), And(h.alloc[S.m0[k]], S.m0[k] != NULL, S.m0[k] != S.maps)), 'maps-alloc'))
    def bounds(self, E): return [self.nm, self.n]
    def may_write(self, E, p, ref, field):
        return ref == self.maps if field == '$items:ref' else z3.BoolVal(False)
    def model_values(self, E, m):
        ev = lambda t: m.eval(t, model_completion=True).as_long()
        n = ev(self.n); return dict(map=[ev(self.it0[k]) for k in range(n)], original_op_id=ev(self.o), num_ops_added=ev(self.a))
    def ensures(self, E, ctx, p, ret):
        S = self; h = p.heap; m1 = items_r(h, S.maps); new = m1[S.s]; it1 = items_i(h, new)
        return [('map-list-kept', And(h.load(S.self_, '_original_op_id_map') == S.maps, ln(h, S.maps) == S.nm)),
                ('other-subgraphs-untouched', ctx.forall(1, lambda k: Implies(And(0 <= k, k < S.nm, k != S.s), And(m1[k] == S.m0[k], ln(h, S.m0[k]) == ln(S.h0, S.m0[k]), items_i(h, S.m0[k]) == items_i(S.h0, S.m0[k]))))),
                ('length-kept', ln(h, new) == S.n),
                ('shifted-from-original_op_id', ctx.forall(1, lambda k: Implies(And(0 <= k, k < S.n), it1[k] == S.it0[k] + If(k >= S.o, S.a, 0))))]

class ApplySingle(Spec):
    fields = FIELDS; consts = CONSTS
    constructors = {'transformation_utils.TransformationInput': ['tensor_id', 'op_codes', 'buffers', 'subgraph', 'producer', 'consumers', 'quant_params']}
    def __init__(self):
        self.callees = {'$dispatch:self._transformation_registration': self.k_transform, 'self._update_instructions': self.k_update_instructions,
                        'self._update_op_id_map': self.k_update_op_id_map}
        self.invariants = {0: self.inv0}
    def empty_list_kind(self, line): return 'int'
    def bind(self, E, p):
        h = p.heap; S = self
        for nme in FIELDS: h.arr(nme)
        for nme in ('$len', '$items:int', '$items:ref'): h.arr(nme)
        S.h0 = h.copy(); h = S.h0                      # snapshot: every fact below is about the entry state
        S.self_ = z3.Const('self', Ref); S.ti = z3.Const('tinst', Ref); S.idx = z3.Int('transformation_index'); S.model = z3.Const('model', Ref)
        p.env.update(self=V('ref', S.self_), transformation_inst=V('ref', S.ti), transformation_index=vint(S.idx), tflite_model=V('ref', S.model))
        S.s = h.load(S.ti, 'subgraph_id'); S.L = h.load(S.ti, 'instructions'); S.nL = ln(h, S.L); S.inst = items_r(h, S.L)[S.idx]
        S.omaps = h.load(S.self_, '_original_op_id_map'); S.amaps = h.load(S.self_, '_added_op_id_map')
        S.O = items_r(h, S.omaps)[S.s]; S.A = items_r(h, S.amaps)[S.s]; S.n0 = ln(h, S.O); S.nA = ln(h, S.A); S.Oit = items_i(h, S.O); S.Ait = items_i(h, S.A)
        S.sgs = h.load(S.model, 'subgraphs'); S.sg = items_r(h, S.sgs)[S.s]; S.ops = h.load(S.sg, 'operators'); S.n = ln(h, S.ops); S.ops0 = items_r(h, S.ops)
        S.C = h.load(S.inst, 'consumers'); S.nC = ln(h, S.C); S.Cit = items_i(h, S.C); S.P = h.load(S.inst, 'producer'); S.tr = h.load(S.inst, 'transformation')
        objs = [S.self_, S.ti, S.model, S.L, S.omaps, S.amaps, S.O, S.A, S.sgs, S.sg, S.ops, S.C, S.inst]
        p.pc += [z3.Distinct(*objs)] + [x != NULL for x in objs] + [h.alloc[x] for x in objs]
        p.pc += [0 <= S.idx, S.idx < S.nL, 0 <= S.s, S.s < ln(h, S.omaps), ln(h, S.omaps) == ln(h, S.amaps), ln(h, S.sgs) == ln(h, S.omaps), S.n0 >= 0, S.nA >= 0, S.n >= 0, S.nC > 0]
        F = p.facts.append
        # PerfInv(s)
        F(Schematic(1, lambda k: Implies(And(0 <= k, k < S.n0), And(0 <= S.Oit[k], S.Oit[k] < S.n)), 'perfinv:range'))
        F(Schematic(2, lambda k, k2: Implies(And(0 <= k, k < k2, k2 < S.n0), S.Oit[k] < S.Oit[k2]), 'perfinv:increasing'))
        F(Schematic(1, lambda k: Implies(And(0 <= k, k < S.nA), And(0 <= S.Ait[k], S.Ait[k] < S.n)), 'perfinv:added-range'))
        # InstValid: consumers are original operator ids or the marker -1; producer is -1, an original id or an added-op id
        F(Schematic(1, lambda m: Implies(And(0 <= m, m < S.nC), And(-1 <= S.Cit[m], S.Cit[m] < S.n0)), 'instvalid:consumers-range'))
        p.pc += [-1 <= S.P, S.P < S.n0 + S.nA]
        S.Pcur = If(S.P < 0, -1, If(S.P < S.n0, S.Oit[S.P], S.Ait[S.P - S.n0]))          # SPEC: current position of the producer, -1 iff none
        F(Schematic(1, lambda m: Implies(And(0 <= m, m < S.nC, S.Cit[m] >= 0), S.Oit[S.Cit[m]] > S.Pcur), 'instvalid:consumers-after-producer'))
        # op insertion transformations only (C02 excludes op replacement)
        p.pc.append(Or(S.tr == QT['ADD_QUANTIZE'], S.tr == QT['ADD_DEQUANTIZE'], S.tr == QT['QUANTIZE_TENSOR']))
        # distinctness of the per-subgraph map lists
        F(Schematic(1, lambda k: Implies(And(0 <= k, k < ln(h, S.omaps)), And(h.alloc[items_r(h, S.omaps)[k]], items_r(h, S.omaps)[k] != NULL)), 'maps-alloc'))
    def bounds(self, E): return [self.nL, self.n0, self.nA, self.n, self.nC, ln(self.h0, self.omaps)]
    def exclusions(self, E, names):
        S = self; out = []
        if 'producer-zero' in names: out.append(Schematic(1, lambda k: Implies(k == 0, S.P != 0), 'EXCL:producer-not-0'))
        return out
    def model_values(self, E, m):
        S = self; ev = lambda t: m.eval(t, model_completion=True).as_long()
        return dict(orig_map=[ev(S.Oit[k]) for k in range(ev(S.n0))], added_map=[ev(S.Ait[k]) for k in range(ev(S.nA))], n_ops=ev(S.n), transformation=ev(S.tr),
                    producer=ev(S.P), consumers=[ev(S.Cit[k]) for k in range(ev(S.nC))])
    def may_write(self, E, p, ref, field):
        return z3.BoolVal(False)           # the function itself only writes fresh objects (the consumers list, the TransformationInput)
    def inv0(self, E, ctx, p, pre, i):
        S = self; h = p.heap; c = p.env['consumers']; it = items_i(h, c.term)
        return [('i-range', And(0 <= i, i <= S.nC)), ('len', ln(h, c.term) == i),
                ('translated-prefix', ctx.forall(1, lambda m: Implies(And(0 <= m, m < i), it[m] == If(S.Cit[m] < 0, -1, S.Oit[S.Cit[m]])))),
                ('maps-untouched', And(items_i(h, S.O) == S.Oit, ln(h, S.O) == S.n0, items_i(h, S.C) == S.Cit, ln(h, S.C) == S.nC))]
    # ---- callee contracts
    def k_transform(self, E, p, args, kw, node):
        """dispatch through _transformation_registration: call-site obligations (the transformation's precondition) + its verified postcondition"""
        S = self; h = p.heap; key, ti = args[0].term, args[1].term; line = node.lineno
        a_T, a_P, a_C = h.load(ti, 'tensor_id'), h.load(ti, 'producer'), h.load(ti, 'consumers'); aC = items_i(h, a_C); sk = fresh('sk', I)
        E.emit(p, 'callsite:transformation-key', key == S.tr, line)
        E.emit(p, 'callsite:tensor_id', a_T == h.load(S.inst, 'tensor_id'), line)
        E.emit(p, 'callsite:producer-is-current-position-or--1-iff-none', a_P == S.Pcur, line)
        E.emit(p, 'callsite:consumers-length', ln(h, a_C) == S.nC, line)
        E.emit(p, 'callsite:consumers-are-current-positions-marker-passed-through', Implies(And(0 <= sk, sk < S.nC), aC[sk] == If(S.Cit[sk] < 0, -1, S.Oit[S.Cit[sk]])), line)
        E.emit(p, 'callsite:subgraph-opcodes-buffers-params', And(h.load(ti, 'subgraph') == S.sg, h.load(ti, 'op_codes') == h.load(S.model, 'operatorCodes'),
                                                                   h.load(ti, 'buffers') == h.load(S.model, 'buffers'), h.load(ti, 'quant_params') == h.load(S.inst, 'parameters')), line)
        sk2 = fresh('sk', I)
        E.emit(p, 'callsite:insert-requires-consumers-in-range-after-producer', Implies(And(0 <= sk2, sk2 < ln(h, a_C)), And(-1 <= aC[sk2], aC[sk2] < S.n, Implies(aC[sk2] >= 0, aC[sk2] > a_P))), line)
        # assume the call-site facts henceforth (they were just asserted), then the callee's postcondition
        p.pc += [a_P == S.Pcur, ln(h, a_C) == S.nC]
        p.facts.append(Schematic(1, lambda m: Implies(And(0 <= m, m < S.nC), aC[m] == If(S.Cit[m] < 0, -1, S.Oit[S.Cit[m]])), 'callsite-established'))
        info = h.new(p, 'trans_info'); insert = Or(S.tr == QT['ADD_QUANTIZE'], S.tr == QT['ADD_DEQUANTIZE'])
        first = fresh('first_cur', I); hasreal = fresh('hasreal', Bo); rw = fresh('rw', I); pos = fresh('op_pos', I)
        p.facts.append(Schematic(1, lambda m: Implies(And(0 <= m, m < S.nC, aC[m] >= 0), And(hasreal, first <= aC[m])), 'post:first-consumer-def'))
        p.pc += [Implies(hasreal, And(0 <= rw, rw < S.nC, aC[rw] >= 0, aC[rw] == first)), Implies(Not(hasreal), first == S.n),
                 pos == If(a_P + 1 >= first, a_P + 1, first)]
        h.store(info, 'op_id', If(insert, pos, 0)); h.store(info, 'num_ops_added', If(insert, 1, 0)); h.store(info, 'output_tensor_id', fresh('new_tensor', I))
        # operators list after the call (insert_* 'skeleton-objects-and-order' / quantize_tensor frame)
        new = fresh('ops_after', z3.ArraySort(I, Ref)); ARR_SIG[new.decl().name()] = _canon_arr(S.ops0)
        p.facts.append(Schematic(1, lambda j: Implies(And(0 <= j, j < S.n), new[If(And(insert, j >= pos), j + 1, j)] == S.ops0[j]), 'post:operators-shifted'))
        h.store(S.ops, '$items:ref', new); h.store(S.ops, '$len', If(insert, S.n + 1, S.n))
        S.pos, S.insert, S.ops1 = pos, insert, new
        return V('ref', info)
    def k_update_instructions(self, E, p, args, kw, node):
        """_update_instructions: appends the position of the added op to the added-op map; retargets later instructions (their own contract)"""
        S = self; h = p.heap; info = args[3].term; added = h.load(info, 'num_ops_added')
        newA = fresh('added_after', z3.ArraySort(I, I))
        p.facts.append(Schematic(1, lambda k: Implies(And(0 <= k, k < S.nA), newA[k] == S.Ait[k]), 'post:added-map-prefix'))
        p.pc.append(Implies(added != 0, newA[S.nA] == h.load(info, 'op_id') + added - 1))
        h.store(S.A, '$items:int', If(added != 0, newA, S.Ait)); h.store(S.A, '$len', If(added != 0, S.nA + 1, S.nA))
        h.havoc(['producer', 'tensor_id'], 'upd')            # later instructions of this tensor are retargeted
        return NONE
    def k_update_op_id_map(self, E, p, args, kw, node):
        S = self; h = p.heap; s, o, a = args[0].term, args[1].term, args[2].term
        E.emit(p, 'callsite:_update_op_id_map.requires-0<=original_op_id', And(o >= 0, s == S.s), node.lineno)
        newO = fresh('orig_after', z3.ArraySort(I, I)); ARR_SIG[newO.decl().name()] = _canon_arr(S.Oit)
        p.facts.append(Schematic(1, lambda k: Implies(And(0 <= k, k < S.n0), newO[k] == S.Oit[k] + If(k >= o, a, 0)), 'post:_update_op_id_map'))
        lst = h.new(p, 'newmap'); h.store(lst, '$items:int', newO); h.store(lst, '$len', S.n0)
        h.store(S.omaps, '$items:ref', z3.Store(items_r(h, S.omaps), S.s, lst)); S.newO = newO
        return NONE
    def ensures(self, E, ctx, p, ret):
        S = self; h = p.heap; O1 = items_r(h, S.omaps)[S.s]; it1 = items_i(h, O1); ops1 = items_r(h, S.ops)
        return [('perfinv:length', ln(h, O1) == S.n0),
                ('perfinv:tracks-original-operators', ctx.forall(1, lambda k: Implies(And(0 <= k, k < S.n0), And(0 <= it1[k], it1[k] < ln(h, S.ops), ops1[it1[k]] == S.ops0[S.Oit[k]])))),
                ('perfinv:increasing', ctx.forall(2, lambda k, k2: Implies(And(0 <= k, k < k2, k2 < S.n0), it1[k] < it1[k2]))),
                ('perfinv:added-map-in-range', ctx.forall(1, lambda k: Implies(And(0 <= k, k < ln(h, S.A)), And(0 <= items_i(h, S.A)[k], items_i(h, S.A)[k] < ln(h, S.ops))))),
                ('other-subgraph-maps-untouched', ctx.forall(1, lambda k: Implies(And(0 <= k, k < ln(S.h0, S.omaps), k != S.s), items_r(h, S.omaps)[k] == items_r(S.h0, S.omaps)[k])))]
    def relevant(self, label): return None

class CreateOpIdMap(Spec):
    """_create_op_id_map: one identity map [0..n_s) and one empty added-op list per subgraph, appended in subgraph order"""
    fields = FIELDS; consts = CONSTS
    def __init__(self): self.invariants = {0: self.inv0}
    def empty_list_kind(self, line): return 'int'
    def bind(self, E, p):
        h = p.heap; S = self
        for nme in list(FIELDS) + ['$len', '$items:int', '$items:ref']: h.arr(nme)
        h0 = h.copy(); S.h0 = h0
        S.self_ = z3.Const('self', Ref); S.model = z3.Const('tflite_model', Ref); p.env.update(self=V('ref', S.self_), tflite_model=V('ref', S.model))
        S.om = h0.load(S.self_, '_original_op_id_map'); S.am = h0.load(S.self_, '_added_op_id_map'); S.sgs = h0.load(S.model, 'subgraphs'); S.ns = ln(h0, S.sgs)
        S.nops = lambda s: ln(h0, h0.load(items_r(h0, S.sgs)[s], 'operators'))
        objs = [S.self_, S.model, S.om, S.am, S.sgs]
        p.pc += [z3.Distinct(*objs)] + [x != NULL for x in objs] + [h0.alloc[x] for x in objs] + [S.ns >= 0, ln(h0, S.om) == 0, ln(h0, S.am) == 0]    # transform_graph resets both maps right before
        p.facts.append(Schematic(1, lambda s: Implies(And(0 <= s, s < S.ns), And(items_r(h0, S.sgs)[s] != NULL, h0.load(items_r(h0, S.sgs)[s], 'operators') != NULL, S.nops(s) >= 0,
              h0.alloc[h0.load(items_r(h0, S.sgs)[s], 'operators')], h0.load(items_r(h0, S.sgs)[s], 'operators') != S.om, h0.load(items_r(h0, S.sgs)[s], 'operators') != S.am)), 'wf:subgraphs'))
    def bounds(self, E): return [self.ns] + [self.nops(z3.IntVal(k)) for k in range(3)]
    def may_write(self, E, p, ref, field): return Or(ref == self.om, ref == self.am) if field in ('$items:ref', '$len') else z3.BoolVal(False)
    def state(self, ctx, h, upto):
        S = self; om, am = items_r(h, S.om), items_r(h, S.am)
        return [('lengths', And(ln(h, S.om) == upto, ln(h, S.am) == upto)),
                ('identity-map-per-subgraph', ctx.forall(2, lambda s, k: Implies(And(0 <= s, s < upto, 0 <= k, k < S.nops(s)), And(ln(h, om[s]) == S.nops(s), items_i(h, om[s])[k] == k)))),
                ('map-length-even-when-empty', ctx.forall(1, lambda s: Implies(And(0 <= s, s < upto), And(om[s] != NULL, ln(h, om[s]) == S.nops(s), am[s] != NULL, ln(h, am[s]) == 0, h.alloc[om[s]], h.alloc[am[s]], Not(S.h0.alloc[om[s]]), Not(S.h0.alloc[am[s]]))))),
                ('model-untouched', And(h.load(S.model, 'subgraphs') == S.sgs, ln(h, S.sgs) == S.ns, items_r(h, S.sgs) == items_r(S.h0, S.sgs)))]
    def inv0(self, E, ctx, p, pre, i): return [('i-range', And(0 <= i, i <= self.ns))] + self.state(ctx, p.heap, i)
    def ensures(self, E, ctx, p, ret): return self.state(ctx, p.heap, self.ns)

class UpdateInstructions(Spec):
    """_update_instructions(prev, L, s, info) — A.7: nothing changes when no op was added; otherwise the position of the last added op is
    appended to the added-op map of subgraph s, and every LATER instruction that shares a consumer with instruction `prev` is retargeted to
    the new tensor with the added op as producer (producer id = |orig_map[s]| + |added_map'[s]| - 1); all other instructions are unchanged."""
    fields = FIELDS; consts = CONSTS
    def __init__(self): self.invariants = {0: self.inv_outer, 1: self.inv_inner}
    def bind(self, E, p):
        h = p.heap; S = self
        for nme in list(FIELDS) + ['$len', '$items:int', '$items:ref']: h.arr(nme)
        h0 = h.copy(); S.h0 = h0
        S.self_ = z3.Const('self', Ref); S.prev = z3.Int('prev_transformation_index'); S.L = z3.Const('transformations', Ref); S.s = z3.Int('subgraph_id'); S.info = z3.Const('trans_info', Ref)
        p.env.update(self=V('ref', S.self_), prev_transformation_index=vint(S.prev), transformations=V('list[ref]', S.L), subgraph_id=vint(S.s), trans_info=V('ref', S.info))
        S.nL = ln(h0, S.L); S.inst = lambda m: items_r(h0, S.L)[m]; S.C = lambda m: h0.load(S.inst(m), 'consumers'); S.nC = lambda m: ln(h0, S.C(m)); S.Ci = lambda m: items_i(h0, S.C(m))
        S.om = h0.load(S.self_, '_original_op_id_map'); S.am = h0.load(S.self_, '_added_op_id_map'); S.O = items_r(h0, S.om)[S.s]; S.A = items_r(h0, S.am)[S.s]; S.nA = ln(h0, S.A)
        S.added = h0.load(S.info, 'num_ops_added'); S.newP = ln(h0, S.O) + S.nA       # = |orig| + |added'| - 1 with |added'| = |added| + 1
        objs = [S.self_, S.L, S.info, S.om, S.am, S.O, S.A]
        p.pc += [z3.Distinct(*objs)] + [x != NULL for x in objs] + [h0.alloc[x] for x in objs] + [0 <= S.prev, S.prev < S.nL, 0 <= S.s, S.s < ln(h0, S.om), S.s < ln(h0, S.am), S.nA >= 0, ln(h0, S.O) >= 0]
        F = p.facts.append
        F(Schematic(1, lambda m: Implies(And(0 <= m, m < S.nL), And(S.inst(m) != NULL, h0.alloc[S.inst(m)], S.C(m) != NULL, S.nC(m) >= 0, S.C(m) != S.A, S.C(m) != S.L)), 'wf:instructions'))
        F(Schematic(2, lambda m, m2: Implies(And(0 <= m, m < m2, m2 < S.nL), S.inst(m) != S.inst(m2)), 'wf:instructions-distinct'))
        F(Schematic(1, lambda k: Implies(And(0 <= k, k < ln(h0, S.am)), items_r(h0, S.am)[k] != NULL), 'wf:added-maps'))
        # ghost from the contract text: shares(m) <=> some consumer of instruction m is a consumer of instruction prev ; prefix version for the inner loop
        S.inprev = z3.Function('in_prev_consumers', I, Bo); S.ipw = z3.Function('in_prev_w', I, I)
        F(Schematic(1, lambda x: Implies(S.inprev(x), And(0 <= S.ipw(x), S.ipw(x) < S.nC(S.prev), S.Ci(S.prev)[S.ipw(x)] == x)), 'ghost:inprev-1'))
        F(Schematic(1, lambda j: Implies(And(0 <= j, j < S.nC(S.prev)), S.inprev(S.Ci(S.prev)[j])), 'ghost:inprev-2'))
        S.sh = z3.Function('shares_prefix', I, I, Bo)          # sh(m, i): one of the first i consumers of m is in prev's consumers
        F(Schematic(1, lambda m: Not(S.sh(m, 0)), 'ghost:shares-0'))
        F(Schematic(2, lambda m, i: Implies(And(0 <= m, m < S.nL, 0 <= i, i < S.nC(m)), S.sh(m, i + 1) == Or(S.sh(m, i), S.inprev(S.Ci(m)[i]))), 'ghost:shares-step'))
        S.shares = lambda m: S.sh(m, S.nC(m))
    def bounds(self, E): return [self.nL, self.nA, ln(self.h0, self.om), ln(self.h0, self.am)] + [self.nC(z3.IntVal(k)) for k in range(3)]
    def may_write(self, E, p, ref, field):
        if field in ('$items:int', '$len'): return ref == self.A
        if field in ('producer', 'tensor_id') and 'transformation' in p.env: return ref == p.env['transformation'].term
        return z3.BoolVal(False)
    def callee_in(self): pass
    def target(self, h, m, cond):
        S = self; i = S.inst(m)
        return If(cond, And(h.load(i, 'producer') == S.newP, h.load(i, 'tensor_id') == S.h0.load(S.info, 'output_tensor_id')),
                  And(h.load(i, 'producer') == S.h0.load(i, 'producer'), h.load(i, 'tensor_id') == S.h0.load(i, 'tensor_id')))
    def kept(self, ctx, h):
        S = self
        return [('consumer-lists-kept', ctx.forall(1, lambda m: Implies(And(0 <= m, m < S.nL), And(h.load(S.inst(m), 'consumers') == S.C(m), ln(h, S.C(m)) == S.nC(m), items_i(h, S.C(m)) == S.Ci(m))))),
                ('added-map-appended', And(ln(h, S.A) == S.nA + 1, items_i(h, S.A)[S.nA] == S.h0.load(S.info, 'op_id') + S.added - 1, ctx.forall(1, lambda k: Implies(And(0 <= k, k < S.nA), items_i(h, S.A)[k] == items_i(S.h0, S.A)[k])))),
                ('maps-kept', And(h.load(S.self_, '_added_op_id_map') == S.am, items_r(h, S.am) == items_r(S.h0, S.am), h.load(S.self_, '_original_op_id_map') == S.om, items_r(h, S.om) == items_r(S.h0, S.om), ln(h, S.O) == ln(S.h0, S.O)))]
    def inv_outer(self, E, ctx, p, pre, i):        # i-th element of range(prev+1, len): index m = prev + 1 + i
        S = self; h = p.heap; cur = S.prev + 1 + i
        return [('i-range', And(0 <= i, i <= S.nL - S.prev - 1)),
                ('retargeted-so-far', ctx.forall(1, lambda m: Implies(And(0 <= m, m < S.nL), S.target(h, m, And(m > S.prev, m < cur, S.shares(m))))))] + self.kept(ctx, h)
    def inv_inner(self, E, ctx, p, pre, j):
        S = self; h = p.heap; cur = S.prev + 1 + pre.env['$i0'].term
        return [('j-range', And(0 <= j, j <= S.nC(cur))),
                ('retargeted-so-far', ctx.forall(1, lambda m: Implies(And(0 <= m, m < S.nL), S.target(h, m, Or(And(m > S.prev, m < cur, S.shares(m)), And(m == cur, S.sh(cur, j)))))))] + self.kept(ctx, h)
    def ensures(self, E, ctx, p, ret):
        S = self; h = p.heap
        unchanged = And(ln(h, S.A) == S.nA, items_i(h, S.A) == items_i(S.h0, S.A), h.arr('producer') == S.h0.arr('producer'), h.arr('tensor_id') == S.h0.arr('tensor_id'))
        return [('no-op-added-means-nothing-changes', Implies(S.added == 0, unchanged)),
                ('later-instructions-sharing-a-consumer-are-retargeted-others-unchanged', Implies(S.added != 0, ctx.forall(1, lambda m: Implies(And(0 <= m, m < S.nL), S.target(h, m, And(m > S.prev, S.shares(m))))))),
                ('added-op-position-recorded', Implies(S.added != 0, And(ln(h, S.A) == S.nA + 1, items_i(h, S.A)[S.nA] == S.h0.load(S.info, 'op_id') + S.added - 1)))]
